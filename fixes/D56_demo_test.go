package operator_test

// D56: one barrier that does not belong to the job's pending checkpoint wedges the operator for the rest of the
// deployment.
//
// handleCheckpointBarrier creates the alignment record from the FIRST barrier it sees, whatever its id, and only
// clears it after a successful OperatorCheckpointComplete. A stale barrier (a source runner loop of the previous
// deployment that is still running — D39/D48 —, or a delayed delivery) therefore
//   * with one source runner: completes a record for the stale id, the job refuses the acknowledgement, the record
//     stays, and every barrier of every later checkpoint is answered "checkpoint ID mismatch";
//   * with several source runners: leaves a half-aligned record; the sender of the stale barrier is parked by
//     alignSender on every later event (it "already delivered" its barrier) and the other senders' barriers mismatch.
// The job keeps ticking (retry: the pending snapshot never completes) although every node heartbeats; only the next
// redeploy clears it. So "after recovery new checkpoints complete again and surviving workers keep processing" fails.
//
// Run (from /repo, with the generated protobuf overlay of /verif):
//   cp /verif/fixes/D56_demo_test.go workers/operator/verif_d56_demo_test.go
//   GOFLAGS=-mod=mod GOPROXY=off go test -overlay /verif/.cache/overlay.json -vet=off -count=1 -run TestVerifD56 ./workers/operator/

import (
	"context"
	"errors"
	"strings"
	"sync"
	"testing"
	"time"

	"reduction.dev/reduction-protocol/handlerpb"
	"reduction.dev/reduction/connectors/embedded"
	"reduction.dev/reduction/proto/jobpb"
	"reduction.dev/reduction/proto/snapshotpb"
	"reduction.dev/reduction/proto/workerpb"
	"reduction.dev/reduction/workers/operator"
	"reduction.dev/reduction/workers/workerstest"
)

// the job accepts acknowledgements only for its pending checkpoint
type d56Job struct {
	workerstest.DummyJob
	mu      sync.Mutex
	pending uint64
	acked   []uint64
}

func (j *d56Job) OperatorCheckpointComplete(ctx context.Context, req *snapshotpb.OperatorCheckpoint) error {
	j.mu.Lock()
	defer j.mu.Unlock()
	if req.CheckpointId != j.pending {
		return errors.New("no pending checkpoint with this id")
	}
	j.acked = append(j.acked, req.CheckpointId)
	return nil
}

func d56Operator(t *testing.T, job *d56Job, srIDs ...string) *operator.Operator {
	op := operator.NewOperator(operator.NewOperatorParams{ID: "op1", UserHandler: &workerstest.SummingHandler{}, Job: job})
	go op.Start(context.Background())
	t.Cleanup(func() { op.Stop() })
	if err := op.HandleDeploy(context.Background(), &workerpb.DeployOperatorRequest{
		Operators:       []*jobpb.NodeIdentity{{Id: "op1", Host: "h"}},
		SourceRunnerIds: srIDs,
		KeyGroupCount:   8,
		StorageLocation: "memory:///d56",
	}, &embedded.RecordingSink{}); err != nil {
		t.Fatal(err)
	}
	return op
}

func d56Send(t *testing.T, op *operator.Operator, sender string, ev *workerpb.Event, what string) error {
	t.Helper()
	res := make(chan error, 1)
	go func() { res <- op.HandleEvent(context.Background(), sender, ev) }()
	select {
	case err := <-res:
		return err
	case <-time.After(2 * time.Second):
		t.Fatalf("%s from %s is parked forever behind the record of the stale barrier", what, sender)
		return nil
	}
}

func d56Barrier(id uint64) *workerpb.Event {
	return &workerpb.Event{Event: &workerpb.Event_CheckpointBarrier{CheckpointBarrier: &workerpb.CheckpointBarrier{CheckpointId: id}}}
}

func TestVerifD56StaleBarrierDoesNotWedgeSingleRunner(t *testing.T) {
	job := &d56Job{}
	op := d56Operator(t, job, "sr1")
	// a barrier of checkpoint 7 of the previous deployment arrives late; the job has no such pending checkpoint
	var err error
	for i := 0; i < 200; i++ { // the event loop starts asynchronously
		err = d56Send(t, op, "sr1", d56Barrier(7), "stale barrier")
		if err == nil || !strings.Contains(err.Error(), "not ready") {
			break
		}
		time.Sleep(time.Millisecond)
	}
	if err == nil {
		t.Fatalf("the job refused the acknowledgement of checkpoint 7, the operator reported success")
	}
	// the job starts checkpoint 8
	job.mu.Lock()
	job.pending = 8
	job.mu.Unlock()
	if err := d56Send(t, op, "sr1", d56Barrier(8), "barrier 8"); err != nil {
		t.Fatalf("barrier of the job's pending checkpoint 8 after one stale barrier: %v", err)
	}
	job.mu.Lock()
	defer job.mu.Unlock()
	if len(job.acked) != 1 || job.acked[0] != 8 {
		t.Fatalf("operator never acknowledged checkpoint 8: %v", job.acked)
	}
}

func TestVerifD56StaleBarrierDoesNotWedgeTwoRunners(t *testing.T) {
	job := &d56Job{pending: 8}
	op := d56Operator(t, job, "sr1", "sr2")
	var err error
	for i := 0; i < 200; i++ {
		err = d56Send(t, op, "sr1", d56Barrier(7), "stale barrier")
		if err == nil || !strings.Contains(err.Error(), "not ready") {
			break
		}
		time.Sleep(time.Millisecond)
	}
	if err != nil {
		t.Fatal(err)
	}
	// sr1 keeps sending records: they must be processed (its barrier for the pending checkpoint 8 has not come yet)
	ev := &workerpb.Event{Event: &workerpb.Event_KeyedEvent{KeyedEvent: &handlerpb.KeyedEvent{Key: []byte("k"), Value: []byte("v")}}}
	evDone := make(chan error, 1)
	go func() { evDone <- op.HandleEvent(context.Background(), "sr1", ev) }()
	if err := d56Send(t, op, "sr2", d56Barrier(8), "barrier 8"); err != nil {
		t.Fatalf("barrier 8 from sr2: %v", err)
	}
	select {
	case err := <-evDone:
		if err != nil {
			t.Fatalf("keyed event after the stale barrier: %v", err)
		}
	case <-time.After(2 * time.Second):
		t.Fatalf("a keyed event from sr1 is parked forever behind the record of the stale barrier")
	}
	if err := d56Send(t, op, "sr1", d56Barrier(8), "barrier 8"); err != nil {
		t.Fatalf("barrier 8 from sr1: %v", err)
	}
	job.mu.Lock()
	defer job.mu.Unlock()
	if len(job.acked) != 1 || job.acked[0] != 8 {
		t.Fatalf("operator never acknowledged checkpoint 8: %v", job.acked)
	}
}
