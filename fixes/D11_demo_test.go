package operator_test

// Copy to /repo/workers/operator/ and run (generated protobuf code comes from the verif overlay):
//   cd /repo && go test -mod=mod -vet=off -count=1 -overlay /verif/.cache/overlay.json -run TestVerifD11 ./workers/operator/

import (
	"testing"
	"time"

	"reduction.dev/reduction/dkv"
	"reduction.dev/reduction/dkv/storage"
	"reduction.dev/reduction/partitioning"
	"reduction.dev/reduction/workers/operator"
)

// D11: timers must fire in timestamp order, each exactly once, however small the timer cache is.
// One key group, subject key "k" (12-byte timer keys), cache of 30 bytes: the third entry is evicted.
func TestVerifD11TimerCacheSmallerThanTimerSet(t *testing.T) {
	db := dkv.Open(dkv.DBOptions{FileSystem: storage.NewMemoryFilesystem()}, nil)
	ks := partitioning.NewKeySpace(1, 1)
	store := operator.NewTimerStore(db, ks, partitioning.KeyGroupRange{Start: 0, End: 1}, 30)
	at := func(n int64) time.Time { return time.Unix(0, n) }

	store.Put([]byte("k"), at(1))
	store.Put([]byte("k"), at(2))
	store.Put([]byte("k"), at(5)) // evicted from the cache: lives only in the DB

	first, ok := store.GetEarliest()
	if !ok || !first.Timestamp.Equal(at(1)) {
		t.Fatalf("first timer: got %v %v, want 1", first.Timestamp.UnixNano(), ok)
	}
	store.Delete(first)

	store.Put([]byte("k"), at(9)) // must not overtake the evicted timer 5

	var got []int64
	for {
		timer, ok := store.GetEarliest()
		if !ok {
			break
		}
		got = append(got, timer.Timestamp.UnixNano())
		store.Delete(timer)
	}
	want := []int64{2, 5, 9}
	if len(got) != len(want) {
		t.Fatalf("fired %v, want %v", got, want)
	}
	for i := range want {
		if got[i] != want[i] {
			t.Fatalf("fired %v, want %v", got, want)
		}
	}
}

// D11 (second half): a reload that stops because the cache filled up must not claim that the whole
// key group is cached, otherwise the timers beyond the cache are never loaded again.
func TestVerifD11ReloadAfterTruncatedLoad(t *testing.T) {
	db := dkv.Open(dkv.DBOptions{FileSystem: storage.NewMemoryFilesystem()}, nil)
	ks := partitioning.NewKeySpace(1, 1)
	at := func(n int64) time.Time { return time.Unix(0, n) }
	big := operator.NewTimerStore(db, ks, partitioning.KeyGroupRange{Start: 0, End: 1}, 1<<20)
	for n := int64(1); n <= 6; n++ {
		big.Put([]byte("k"), at(n))
	}
	// a new store over the same DB (as after a restore) with a cache of two entries
	store := operator.NewTimerStore(db, ks, partitioning.KeyGroupRange{Start: 0, End: 1}, 26)
	var got []int64
	for {
		timer, ok := store.GetEarliest()
		if !ok {
			break
		}
		got = append(got, timer.Timestamp.UnixNano())
		store.Delete(timer)
	}
	if len(got) != 6 {
		t.Fatalf("fired %v, want all of 1..6", got)
	}
	for i, v := range got {
		if v != int64(i+1) {
			t.Fatalf("fired %v, want 1..6 in order", got)
		}
	}
}
