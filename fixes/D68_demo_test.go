package dkv_test

// D68 (open finding): a dkv instance restarted from checkpoint N knows only checkpoint N. If the job retains a NEWER
// checkpoint M > N of the previous instance of that operator (it rolled back to N without giving M up), nothing tells
// the restarted instance about M: once the job drops N and the instance's retention update drops the restored
// checkpoint, the tables it loaded from N's document lose their last pin, their cleanups run
// (ExclusivelyOwnsTable: the key range is the operator's own, nobody is asked) and delete files that checkpoint M -
// whose document entry is intact and which the job never dropped - still references. Opening handle M then fails.
// Own directory for the restarted instance, no in-process release, one handle: neither D25, D34 nor D50.
// (Production retains one checkpoint id, storage/snapshots/store.go, so the impact is low.)
//
// Run: cp /verif/fixes/D68_demo_test.go /repo/dkv/verif_d68_demo_test.go
//      cd /repo && GOFLAGS=-mod=mod GOPROXY=off go test -vet=off -count=1 -run TestVerifD68 ./dkv/
// Fails on the current tree.

import (
	"fmt"
	"runtime"
	"strings"
	"testing"
	"time"

	"reduction.dev/reduction/dkv"
	"reduction.dev/reduction/dkv/recovery"
	"reduction.dev/reduction/dkv/storage"
)

func d68GC() {
	for i := 0; i < 4; i++ {
		runtime.GC()
		runtime.Gosched()
		time.Sleep(30 * time.Millisecond)
	}
}

func d68Count(opts dkv.DBOptions, h recovery.CheckpointHandle) (n int, err error) {
	defer func() {
		if p := recover(); p != nil {
			err = fmt.Errorf("panic: %v", p)
		}
	}()
	db := dkv.Open(opts, []recovery.CheckpointHandle{h})
	var scanErr error
	for range db.ScanPrefix(nil, &scanErr) {
		n++
	}
	if scanErr != nil {
		return n, scanErr
	}
	return n, db.WaitOnTasks()
}

func TestVerifD68RestartFromOlderRetainedCheckpointKeepsNewerOne(t *testing.T) {
	root := storage.NewMemoryFilesystem()
	xo := dkv.DBOptions{FileSystem: root.WithWorkingDir("x"), MemTableSize: 200, L0TableNumCompactionTrigger: 2}
	yo := dkv.DBOptions{FileSystem: root.WithWorkingDir("y"), MemTableSize: 200, L0TableNumCompactionTrigger: 2}

	// X: writes, job checkpoints 1 and 2 (both reference X's tables); X's process dies (its objects are pinned below:
	// a dead process runs no cleanups)
	x := dkv.Open(xo, nil)
	for i := 0; i < 40; i++ {
		x.Put([]byte(fmt.Sprintf("k%03d", i)), []byte("xxxxxxxxxxxxxxxx"))
	}
	x.WaitOnTasks()
	h1, err := x.Checkpoint(1)()
	if err != nil {
		t.Fatal(err)
	}
	x.Put([]byte("zz"), []byte("1"))
	h2, err := x.Checkpoint(2)()
	if err != nil {
		t.Fatal(err)
	}
	x.WaitOnTasks()
	want := 41
	d68GC()
	// the table files of X that exist now are the ones its level list - captured by checkpoint 2 - references
	var x2 []string
	for _, f := range root.List() {
		if strings.Contains(f, "x/") && strings.HasSuffix(f, ".sst") {
			x2 = append(x2, f)
		}
	}
	if len(x2) == 0 {
		t.Fatalf("checkpoint 2 references no table: %v", root.List())
	}

	// Y: the operator is restarted in a directory of its own from the OLDER retained checkpoint 1; the job keeps
	// retaining 1 and 2. Y overwrites and compacts X's tables away and takes checkpoint 3.
	y := dkv.Open(yo, []recovery.CheckpointHandle{h1})
	for r := 0; r < 6; r++ {
		for i := 0; i < 40; i++ {
			y.Put([]byte(fmt.Sprintf("k%03d", i)), []byte(fmt.Sprintf("yyyyyyyyyyyyyy%02d", r)))
		}
		y.WaitOnTasks()
	}
	if _, err := y.Checkpoint(3)(); err != nil {
		t.Fatal(err)
	}
	// the job drops checkpoint 1 - and only 1: it retains 2 and 3
	if err := y.UpdateRetainedCheckpoints([]uint64{2, 3}); err != nil {
		t.Fatal(err)
	}
	y.WaitOnTasks()
	d68GC()
	t.Log("files after Y's retention update and GC:", root.List())

	have := map[string]bool{}
	for _, f := range root.List() {
		have[f] = true
	}
	lost := false
	for _, f := range x2 {
		if !have[f] {
			lost = true
			t.Errorf("table %s of checkpoint 2, which the job never dropped, was deleted by the restarted instance", f)
		}
	}
	if lost {
		return // opening the handle now panics in a background compaction: "no memory file named /x/0000NN.sst"
	}
	n, err := d68Count(dkv.DBOptions{FileSystem: root.WithWorkingDir("q1"), MemTableSize: 1 << 20}, h2)
	if err != nil || n != want {
		t.Errorf("checkpoint 2, which the job never dropped, after the restarted instance's life: %d entries, err=%v (before: %d)", n, err, want)
	}
	runtime.KeepAlive(x)
	runtime.KeepAlive(y)
}
