package dkv_test

import (
	"fmt"
	"runtime"
	"testing"

	"reduction.dev/reduction/dkv"
	"reduction.dev/reduction/dkv/recovery"
	"reduction.dev/reduction/dkv/storage"
)

// D50: a database restored from checkpoint 2 loads only that entry of the directory's `checkpoints`
// document. Its first own save rewrites the document with [2, 3]: checkpoint 1, which the job still
// retains (it never asked to drop it), can no longer be opened — "failed to find indicated
// checkpoint ID 1" — and its WAL file is never cleaned up either.
//
// Copy into /repo/dkv and run: go test -mod=mod -vet=off -count=1 -run TestVerifD50 ./dkv/
func TestVerifD50OlderRetainedCheckpointSurvivesRestore(t *testing.T) {
	fs := storage.NewMemoryFilesystem()
	opts := dkv.DBOptions{FileSystem: fs, MemTableSize: 1 << 20}

	db1 := dkv.Open(opts, nil)
	db1.Put([]byte("a"), []byte("1"))
	h1 := verifD50Checkpoint(t, db1, 1)
	db1.Put([]byte("b"), []byte("2"))
	h2 := verifD50Checkpoint(t, db1, 2)
	if err := db1.UpdateRetainedCheckpoints([]uint64{1, 2}); err != nil {
		t.Fatal(err)
	}

	// restart from the newest checkpoint in the same directory, write, checkpoint 3
	db2 := dkv.Open(opts, []recovery.CheckpointHandle{h2})
	db2.Put([]byte("c"), []byte("3"))
	h3 := verifD50Checkpoint(t, db2, 3)

	for _, tc := range []struct {
		h    recovery.CheckpointHandle
		want string
	}{{h3, "a=1 b=2 c=3 "}, {h2, "a=1 b=2 "}, {h1, "a=1 "}} {
		got, err := verifD50Contents(opts, tc.h)
		if err != nil {
			t.Errorf("restore from retained checkpoint %d: %v", tc.h.CheckpointID, err)
		} else if got != tc.want {
			t.Errorf("restore from checkpoint %d: got %q, want %q", tc.h.CheckpointID, got, tc.want)
		}
	}
	runtime.KeepAlive(db1)
	runtime.KeepAlive(db2)
}

func verifD50Checkpoint(t *testing.T, db *dkv.DB, id uint64) recovery.CheckpointHandle {
	t.Helper()
	h, err := db.Checkpoint(id)()
	if err != nil {
		t.Fatal(err)
	}
	return h
}

func verifD50Contents(opts dkv.DBOptions, h recovery.CheckpointHandle) (out string, err error) {
	defer func() {
		if p := recover(); p != nil {
			err = fmt.Errorf("panic: %v", p)
		}
	}()
	db := dkv.Open(opts, []recovery.CheckpointHandle{h})
	var scanErr error
	for e := range db.ScanPrefix(nil, &scanErr) {
		out += fmt.Sprintf("%s=%s ", e.Key(), e.Value())
	}
	return out, scanErr
}
