package sst_test

import (
	"bytes"
	"slices"
	"testing"

	"reduction.dev/reduction/dkv/kv"
	"reduction.dev/reduction/dkv/sst"
	"reduction.dev/reduction/dkv/storage"
)

type d22Entry struct {
	k, v []byte
	seq  uint64
}

func (e d22Entry) Key() []byte    { return e.k }
func (e d22Entry) Value() []byte  { return e.v }
func (e d22Entry) IsDelete() bool { return false }
func (e d22Entry) SeqNum() uint64 { return e.seq }

// D22: majorCompaction stopped taking tables from a level once the size goal was met, but then went on to
// the next upper level and took at least one table from each of them. A level-0 table holding the newest
// version of a key was merged into the base level while a table of a middle level holding an older version
// stayed in place above it, so the lookup (top-down) returned the older value after the compaction.
func TestVerifD22MajorCompactionKeepsNewestVersionOnTop(t *testing.T) {
	fs := storage.NewMemoryFilesystem()
	tw := sst.NewTableWriter(fs, 0)
	write := func(es ...d22Entry) *sst.Table {
		t.Helper()
		var in []kv.Entry
		for _, e := range es {
			in = append(in, e)
		}
		tb, err := tw.Write(slices.Values(in))
		if err != nil {
			t.Fatal(err)
		}
		return tb
	}
	big := func(n int) []byte { return bytes.Repeat([]byte("x"), n) }

	ll := sst.NewEmptyLevelList(4)
	ll.AddTables(3, write(d22Entry{[]byte("z"), big(20000), 2}))             // base level
	ll.AddTables(2, write(d22Entry{[]byte("a"), big(12000), 1}))             // middle level, table A (oldest, large)
	ll.AddTables(2, write(d22Entry{[]byte("k"), []byte("old"), 5}))          // middle level, table B: older version of k
	ll.AddTables(0, write(d22Entry{[]byte("k"), []byte("new"), 9}))          // level 0: newest version of k

	get := func(ll *sst.LevelList) string {
		e, err := ll.Get([]byte("k"))
		if err != nil {
			t.Fatal(err)
		}
		return string(e.Value())
	}
	if got := get(ll); got != "new" {
		t.Fatalf("before compaction: Get(k) = %q, want new", got)
	}

	c := &sst.Compactor{TableWriter: tw, L0RunNumCompactionTrigger: 1, MaxSizeAmplificationPercent: 50,
		SmallestLevelSize: 1 << 40, LevelSizeMultiplier: 10, TargetTableSize: 1 << 30}
	cs, err := c.Compact(ll)
	if err != nil {
		t.Fatal(err)
	}
	if cs == nil {
		t.Fatal("expected a major compaction (size amplification is above 50%)")
	}
	after := ll.NewWithChangeSet(cs)
	if got := get(after); got != "new" {
		t.Fatalf("after one Compact step: Get(k) = %q, want new (table counts %v)", got, after.TableCounts())
	}
}
