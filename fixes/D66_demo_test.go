package snapshots_test

// D66: checkpoint ids of EXISTING SAVEPOINTS are handed out again. Store.LoadCheckpoint with a savepoint
// URI sets the id counter to max(savepoint id, newest job-*.snapshot in the file store). Savepoint directories are
// named by the checkpoint id alone (savepoints/<seg id>/). After a roll-back to savepoint 1 with the working storage
// (and so the job snapshots) gone, the restored job reaches id 2 again; a savepoint request then writes into the
// directory of the earlier savepoint 2: the URI a user holds for savepoint 2 silently restores another run's state.
// And if that second creation FAILS, HandleGetSavepointURI(2) still announces a URI (the earlier run's job.savepoint),
// while the failure itself is reported to nobody (NewStore drops ErrChan).

// Place as /repo/storage/snapshots/d66_demo_test.go (or graft with -overlay) and run
//   go test -vet=off -count=1 -run TestD66 ./storage/snapshots/
// Fails on the code as it is, passes with fixes/D66.diff.

import (
	"os"
	"path/filepath"
	"testing"
	"time"

	"reduction.dev/reduction/connectors"
	"reduction.dev/reduction/dkv"
	"reduction.dev/reduction/dkv/recovery"
	dkvstorage "reduction.dev/reduction/dkv/storage"
	"reduction.dev/reduction/proto/jobpb"
	"reduction.dev/reduction/proto/snapshotpb"
	"reduction.dev/reduction/storage/locations"
	"reduction.dev/reduction/storage/snapshots"
)

type d66Splitter struct{ connectors.UnimplementedSourceSplitter }

func (*d66Splitter) Checkpoint() []byte { return nil }

func d66Must(t *testing.T, err error) {
	t.Helper()
	if err != nil {
		t.Fatal(err)
	}
}

func TestD66SavepointIdsAreNotReused(t *testing.T) {
	dir := t.TempDir()
	loc := locations.NewLocalDirectory(dir)
	newStore := func(spURI string) (*snapshots.Store, chan string) {
		ev := make(chan string, 8)
		s := snapshots.NewStore(&snapshots.NewStoreParams{CheckpointEvents: ev, FileStore: loc, SavepointsPath: "savepoints", CheckpointsPath: "checkpoints", SavepointURI: spURI})
		s.RegisterSourceSplitter(&d66Splitter{})
		return s, ev
	}
	savepoint := func(s *snapshots.Store, ev chan string, db *dkv.DB, op string) (uint64, string) {
		t.Helper()
		id, _, err := s.CreateSavepoint([]string{op}, []string{"sr"})
		d66Must(t, err)
		h, err := db.Checkpoint(id)()
		d66Must(t, err)
		d66Must(t, s.AddOperatorSnapshot(&snapshotpb.OperatorCheckpoint{CheckpointId: id, OperatorId: op, DkvFileUri: h.URI, KeyGroupRange: &snapshotpb.KeyGroupRange{}}))
		d66Must(t, s.AddSourceSnapshot(&jobpb.SourceRunnerCheckpointCompleteRequest{CheckpointId: id, SourceRunnerId: "sr", SplitStates: [][]byte{{}}}))
		select {
		case <-ev:
		case <-time.After(5 * time.Second):
			t.Fatal("savepoint not published")
		}
		uri, err := s.SavepointURIForID(id)
		d66Must(t, err)
		return id, uri
	}
	value := func(spURI string, scratch string) string {
		t.Helper()
		s, _ := newStore(spURI)
		d66Must(t, s.LoadCheckpoint())
		oc := s.CurrentCheckpoint().OperatorCheckpoints[0]
		db := dkv.Open(dkv.DBOptions{FileSystem: dkvstorage.NewLocalFilesystem(filepath.Join(dir, scratch))}, []recovery.CheckpointHandle{{CheckpointID: oc.CheckpointId, URI: oc.DkvFileUri}})
		e, err := db.Get([]byte("k"))
		d66Must(t, err)
		return string(e.Value())
	}

	// run A: savepoint 1 (k=one), savepoint 2 (k=two)
	sA, evA := newStore("")
	dbA := dkv.Open(dkv.DBOptions{FileSystem: dkvstorage.NewLocalFilesystem(filepath.Join(dir, "work", "opA"))}, nil)
	dbA.Put([]byte("k"), []byte("one"))
	_, uri1 := savepoint(sA, evA, dbA, "opA")
	dbA.Put([]byte("k"), []byte("two"))
	id2, uri2 := savepoint(sA, evA, dbA, "opA")
	if got := value(uri2, "scratch1"); got != "two" {
		t.Fatalf("savepoint 2 holds %q", got)
	}

	// all working storage is lost; roll back to savepoint 1 and run on
	d66Must(t, os.RemoveAll(filepath.Join(dir, "work")))
	d66Must(t, os.RemoveAll(filepath.Join(dir, "checkpoints")))
	sB, evB := newStore(uri1)
	d66Must(t, sB.LoadCheckpoint())
	oc := sB.CurrentCheckpoint().OperatorCheckpoints[0]
	dbB := dkv.Open(dkv.DBOptions{FileSystem: dkvstorage.NewLocalFilesystem(filepath.Join(dir, "work", "opB"))}, []recovery.CheckpointHandle{{CheckpointID: oc.CheckpointId, URI: oc.DkvFileUri}})
	dbB.Put([]byte("k"), []byte("other-history"))
	idB, uriB := savepoint(sB, evB, dbB, "opB")
	t.Logf("run B's savepoint got id %d (run A's second savepoint has id %d), uri %s", idB, id2, uriB)

	// the URI handed out for run A's savepoint 2 must still restore run A's state
	d66Must(t, os.RemoveAll(filepath.Join(dir, "work")))
	d66Must(t, os.RemoveAll(filepath.Join(dir, "checkpoints")))
	if got := value(uri2, "scratch2"); got != "two" {
		t.Fatalf("the URI of run A's savepoint %d now restores k=%q, want \"two\"", id2, got)
	}
}
