package sst_test

import (
	"errors"
	"fmt"
	"slices"
	"testing"

	"reduction.dev/reduction/dkv/kv"
	"reduction.dev/reduction/dkv/sst"
	"reduction.dev/reduction/dkv/storage"
)

type d19Entry struct{ k, v []byte }

func (e d19Entry) Key() []byte    { return e.k }
func (e d19Entry) Value() []byte  { return e.v }
func (e d19Entry) IsDelete() bool { return false }
func (e d19Entry) SeqNum() uint64 { return 1 }

// D19: SearchIndex.Search decrements the binary-search result for an inexact match; for a target
// below the first indexed key that is -1 and Table.Get panics indexing offsets[-1]. The path is
// reached whenever the bloom filter gives a false positive for such a key, so an absent key must
// simply be reported as not found.
func TestVerifD19GetBelowFirstKeyWithBloomFalsePositive(t *testing.T) {
	tw := sst.NewTableWriter(storage.NewMemoryFilesystem(), 0)
	var entries []kv.Entry
	for i := 0; i < 3000; i++ {
		entries = append(entries, d19Entry{k: []byte(fmt.Sprintf("m%05d", i)), v: []byte("v")})
	}
	table, err := tw.Write(slices.Values(entries))
	if err != nil {
		t.Fatal(err)
	}
	// Every key "a<i>" sorts below the first key "m00000" and is absent. Most are rejected by the
	// bloom filter; the others take the index-search path.
	for i := 0; i < 20000; i++ {
		key := []byte(fmt.Sprintf("a%d", i))
		func() {
			defer func() {
				if r := recover(); r != nil {
					t.Fatalf("Get(%q) of an absent key below the first key panicked: %v", key, r)
				}
			}()
			_, err := table.Get(key)
			if !errors.Is(err, kv.ErrNotFound) {
				t.Fatalf("Get(%q): want ErrNotFound, got %v", key, err)
			}
		}()
	}
}
