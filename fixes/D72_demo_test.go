package dkv_test

// D72 (OPEN, no repair applied; same family as D50: one directory, one `checkpoints` document, rewritten).
//
// Run (from /repo):
//   cp /verif/fixes/D72_demo_test.go dkv/verif_d72_demo_test.go
//   GOFLAGS=-mod=mod GOPROXY=off go test -vet=off -count=1 -run TestVerifD72 ./dkv/     (FAILS on the current tree)

import (
	"runtime"
	"testing"

	"reduction.dev/reduction/dkv"
	"reduction.dev/reduction/dkv/kv"
	"reduction.dev/reduction/dkv/recovery"
	"reduction.dev/reduction/dkv/storage"
)

type verifD72Own struct{ start, end int }

func (o verifD72Own) OwnsKey(k []byte) bool {
	g := int(k[0])<<8 | int(k[1])
	return g >= o.start && g < o.end
}
func (o verifD72Own) ExclusivelyOwnsTable(string, []byte, []byte) (bool, error) { return false, nil }

// An operator that keeps running (same id, same directory) but is deployed at ANOTHER position restores from another
// operator's handle. Its next checkpoint rewrites the `checkpoints` document of its directory: the entry of the job
// checkpoint it was restored from (id 1) is now the composite it loaded (the other operator's state). If the job
// checkpoint 2 never completes and the job redeploys from checkpoint 1 again, the handle (its directory's document,
// id 1) no longer describes the state this operator had at checkpoint 1.
func TestVerifD72RetainedHandleSurvivesRepositionedRestore(t *testing.T) {
	root := storage.NewMemoryFilesystem()
	var keep []*dkv.DB
	defer func() { runtime.KeepAlive(keep) }()
	open := func(dir string, own verifD72Own, hs ...recovery.CheckpointHandle) *dkv.DB {
		db := dkv.Open(dkv.DBOptions{FileSystem: root.WithWorkingDir(dir), DataOwnership: own}, hs)
		keep = append(keep, db)
		return db
	}
	kA, kB := []byte{0x00, 0x01, 'a'}, []byte{0x00, 0x81, 'b'}
	a := open("opA", verifD72Own{0, 128})
	a.Put(kA, []byte("va"))
	b := open("opB", verifD72Own{128, 256})
	b.Put(kB, []byte("vb"))
	hA, err := a.Checkpoint(1)()
	if err != nil {
		t.Fatal(err)
	}
	hB, err := b.Checkpoint(1)()
	if err != nil {
		t.Fatal(err)
	}
	// redeploy from job checkpoint 1 with the two running operators at exchanged positions
	a2 := open("opA", verifD72Own{128, 256}, hB)
	_ = open("opB", verifD72Own{0, 128}, hA)
	// checkpoint 2 reaches operator A only (the job checkpoint never completes)
	if _, err := a2.Checkpoint(2)(); err != nil {
		t.Fatal(err)
	}
	// the job redeploys from checkpoint 1 once more, original positions: operator A's handle of checkpoint 1
	c := open("fresh", verifD72Own{0, 128}, hA)
	e, err := c.Get(kA)
	if err == kv.ErrNotFound {
		t.Fatalf("Get(%x) after restoring operator A's checkpoint 1 again: not found, want va", kA)
	}
	if err != nil {
		t.Fatal(err)
	}
	if string(e.Value()) != "va" {
		t.Fatalf("Get(%x) = %s, want va", kA, e.Value())
	}
}
