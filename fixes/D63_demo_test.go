// PLACE AT: /repo/dkv/d63_demo_test.go (package dkv_test). RUN: cd /repo && GOFLAGS=-mod=mod GOPROXY=off go test -vet=off -count=1 -run TestRedeploy_OldInstanceCompactionMustNotOverwriteNewInstanceTable ./dkv/
// Fails on the unchanged code (9 of 18 live keys of the new instance NotFound), passes with fixes/D63.diff (dkv part).
// D63: found by the C07 builder while investigating sporadic "unexpected EOF reading key from 00000N.sst" / lost keys.
package dkv_test

import (
	"fmt"
	"strings"
	"sync/atomic"
	"testing"
	"time"

	"reduction.dev/reduction/dkv"
	"reduction.dev/reduction/dkv/recovery"
	"reduction.dev/reduction/dkv/storage"
)

// parks the first creation of the named file once armed
type nameGatedFS struct {
	storage.FileSystem
	name  string
	armed atomic.Bool
	gate  chan struct{}
	hit   chan struct{}
}

func (g *nameGatedFS) New(path string) storage.File {
	if strings.HasSuffix(path, g.name) && g.armed.CompareAndSwap(true, false) {
		close(g.hit)
		<-g.gate
	}
	return g.FileSystem.New(path)
}

func waitFor(t *testing.T, what string, cond func() bool) {
	t.Helper()
	for i := 0; i < 300; i++ {
		if cond() {
			return
		}
		time.Sleep(10 * time.Millisecond)
	}
	t.Fatalf("timeout waiting for %s", what)
}

// An operator is redeployed inside a living process: HandleDeploy opens a new dkv.DB from the last checkpoint in the
// same directory and drops the old one (DB.Close is a no-op; nothing stops or waits for the old instance's
// background tasks). A compaction of the old instance that is still in flight writes its output under a table number
// the new instance has meanwhile used for one of its own tables.
func TestRedeploy_OldInstanceCompactionMustNotOverwriteNewInstanceTable(t *testing.T) {
	mem := storage.NewMemoryFilesystem()
	fs := &nameGatedFS{FileSystem: mem, name: "000002.sst", gate: make(chan struct{}), hit: make(chan struct{})}
	opts := dkv.DBOptions{FileSystem: fs, MemTableSize: 400, L0TableNumCompactionTrigger: 2}
	fill := func(db *dkv.DB, pfx string, want map[string]string) {
		// one memtable's worth: the last put rotates and enqueues the flush
		for i := 0; !strings.Contains(db.Diagnostics(), "MemTables (num: 2)") && i < 100; i++ {
			k, v := fmt.Sprintf("%s:%03d", pfx, i), fmt.Sprintf("%s-%d-xxxxxxxxxxxxxxxx", pfx, i)
			db.Put([]byte(k), []byte(v))
			if want != nil {
				want[k] = v
			}
		}
	}
	db1 := dkv.Open(opts, nil)
	fill(db1, "base", nil)
	if err := db1.WaitOnTasks(); err != nil {
		t.Fatal(err)
	}
	h, err := db1.Checkpoint(1)()
	if err != nil {
		t.Fatal(err)
	}
	t.Logf("files at checkpoint 1: %v", mem.List())

	// the old deployment keeps working: second flush -> two level-0 tables -> its compaction starts and is parked
	// when it creates its output file 000002.sst
	fs.armed.Store(true)
	fill(db1, "old", nil)
	<-fs.hit

	// redeploy from checkpoint 1 in the same directory: the previous instance is closed first. A Close that returns
	// while the instance still has a background task in flight does not protect the directory.
	released := false
	closed := make(chan error, 1)
	go func() { closed <- db1.Close() }()
	select {
	case err := <-closed:
		if err != nil {
			t.Fatal(err)
		}
	case <-time.After(200 * time.Millisecond):
		// Close waits for the parked compaction: let it finish
		close(fs.gate)
		released = true
		if err := <-closed; err != nil {
			t.Fatal(err)
		}
	}
	db2 := dkv.Open(opts, []recovery.CheckpointHandle{h})
	want := map[string]string{}
	fill(db2, "newa", want)
	settle := func(what, diag string) {
		if released {
			// nothing of the old instance is in the way: the new instance's tasks run to completion
			if err := db2.WaitOnTasks(); err != nil {
				t.Fatal(err)
			}
			return
		}
		// the new instance's compaction queues behind the parked one: wait for its flush only
		waitFor(t, what, func() bool { return strings.Contains(db2.Diagnostics(), diag) })
	}
	settle("first flush of the new instance", "level 0, tables 2")
	fill(db2, "newb", want)
	settle("second flush of the new instance", "level 0, tables 3")
	t.Logf("files after the new instance flushed twice: %v", mem.List())

	// the old instance's parked compaction (if Close did not wait for it) finishes now
	if !released {
		close(fs.gate)
	}
	if err := db1.WaitOnTasks(); err != nil {
		t.Logf("old instance tasks: %v", err)
	}
	lost := 0
	for k, v := range want {
		e, err := db2.Get([]byte(k))
		if err != nil || string(e.Value()) != v {
			lost++
			if lost <= 3 {
				t.Logf("new instance: Get(%s) = %v, %v; want %q", k, e, err, v)
			}
		}
	}
	var scanErr error
	n := 0
	for range db2.ScanPrefix([]byte("new"), &scanErr) {
		n++
	}
	if lost > 0 || scanErr != nil || n != len(want) {
		t.Fatalf("new instance: %d of %d keys unreadable; scan yields %d of %d entries, err=%v", lost, len(want), n, len(want), scanErr)
	}
}
