package dkv_test

import (
	"testing"

	"reduction.dev/reduction/dkv"
	"reduction.dev/reduction/dkv/dkvtest"
	"reduction.dev/reduction/dkv/kv"
	"reduction.dev/reduction/dkv/recovery"
	"reduction.dev/reduction/dkv/storage"
)

// D47 (OPEN, no repair applied): split-then-merge rescale exposes a stale value.
// Instance A (owns everything) flushes k=old into a level-0 table T and checkpoints. X and Y restore from A's
// checkpoint with complementary ownership (X owns k); both level lists reference the shared table T, Y merely hides
// k through its ownership filter. X overwrites k=new (flushed, table Tx) and both checkpoint. Z restores from
// [X, Y] owning everything: LoadCheckpointList appends Y's level 0 after X's, so Y's copy of T (k=old, visible
// again under Z's ownership) is the newest level-0 table and Get(k) returns "old". With the handles in the order
// [Y, X] the answer is "new". The composite level list violates "newer above" from the moment it is loaded, so
// it is outside the hypotheses of the C18 theorems (and of C06's CkptOk: "tables only span the instance's range").
func TestVerifD47SplitThenMergeRestoreStaleRead(t *testing.T) {
	root := storage.NewMemoryFilesystem()
	ownX := dkvtest.NewHashBasedDataOwnership(2, 0)
	ownY := dkvtest.NewHashBasedDataOwnership(2, 1)
	var k []byte
	for i := 0; i < 100; i++ {
		c := []byte{byte('a' + i%26), byte('0' + i/26)}
		if ownX.OwnsKey(c) {
			k = c
			break
		}
	}
	big := make([]byte, 400)
	open := func(dir string, own kv.DataOwnership, hs []recovery.CheckpointHandle) *dkv.DB {
		return dkv.Open(dkv.DBOptions{FileSystem: root.WithWorkingDir(dir), MemTableSize: 200, L0TableNumCompactionTrigger: 100, DataOwnership: own}, hs)
	}
	a := open("a", &kv.AllDataOwnership{}, nil)
	a.Put(k, []byte("old"))
	a.Put([]byte("zz-fill"), big) // rotates: k=old is flushed to a level-0 table
	if err := a.WaitOnTasks(); err != nil {
		t.Fatal(err)
	}
	hA, err := a.Checkpoint(1)()
	if err != nil {
		t.Fatal(err)
	}
	x := open("x", ownX, []recovery.CheckpointHandle{hA})
	y := open("y", ownY, []recovery.CheckpointHandle{hA})
	x.Put(k, []byte("new"))
	x.Put(k[:1], big)
	if err := x.WaitOnTasks(); err != nil {
		t.Fatal(err)
	}
	hX, err := x.Checkpoint(2)()
	if err != nil {
		t.Fatal(err)
	}
	hY, err := y.Checkpoint(2)()
	if err != nil {
		t.Fatal(err)
	}
	for _, order := range [][]recovery.CheckpointHandle{{hY, hX}, {hX, hY}} {
		z := open("z", &kv.AllDataOwnership{}, order)
		e, err := z.Get(k)
		if err != nil {
			t.Fatal(err)
		}
		if string(e.Value()) != "new" {
			t.Errorf("handles starting with %s: Get(%s) = %q, want \"new\"", order[0].URI, k, e.Value())
		}
	}
}
