package operator

// D9: OperatorPartition.ExclusivelyOwnsTable returned (!neighborNeedsTable, err). When the only overlapping
// neighbour could not be asked (RPC error) the result was (true, err); the table cleanup registered by
// sst.NewTableFromDocument logs "failed determining exclusive ownership, not deleting" and then deletes the
// file because canDelete is true. A shared table is deleted exactly when a neighbour is unreachable.
//
// Run (from /repo, with the generated protobuf overlay of /verif):
//   cp /verif/fixes/D9_demo_test.go workers/operator/verif_d9_demo_test.go
//   GOFLAGS=-mod=mod GOPROXY=off go test -overlay /verif/.cache/overlay.json -vet=off -count=1 -run TestVerifD9 ./workers/operator/

import (
	"context"
	"errors"
	"testing"

	"reduction.dev/reduction/partitioning"
	"reduction.dev/reduction/proto"
)

type d9Neighbor struct {
	proto.UnimplementedOperator
	needs bool
	err   error
}

func (n *d9Neighbor) NeedsTable(ctx context.Context, uri string) (bool, error) { return n.needs, n.err }

func TestVerifD9NeighborErrorMeansKeep(t *testing.T) {
	// this operator owns key groups [0,4), the neighbour [4,8); the table spans key groups 2..5
	start, end := []byte{0, 2, 'a'}, []byte{0, 5, 'z'}
	unreachable := &d9Neighbor{err: errors.New("connection refused")}
	p := newOperatorPartition(partitioning.KeyGroupRange{Start: 0, End: 4}, []neighborPartition{
		{keyGroupRange: partitioning.KeyGroupRange{Start: 4, End: 8}, operator: unreachable},
	})
	canDelete, err := p.ExclusivelyOwnsTable("memory:///x/000000.sst", start, end)
	if err == nil {
		t.Fatal("expected the neighbour's error to be reported")
	}
	if canDelete {
		t.Fatalf("neighbour could not be asked (%v) but the table counts as exclusively owned: the cleanup deletes it", err)
	}

	// a definite "no" from every overlapping neighbour still allows deletion
	p = newOperatorPartition(partitioning.KeyGroupRange{Start: 0, End: 4}, []neighborPartition{
		{keyGroupRange: partitioning.KeyGroupRange{Start: 4, End: 8}, operator: &d9Neighbor{}},
	})
	if canDelete, err := p.ExclusivelyOwnsTable("memory:///x/000000.sst", start, end); err != nil || !canDelete {
		t.Fatalf("all neighbours answered no: got (%v, %v), want (true, nil)", canDelete, err)
	}
	// a neighbour that needs the table wins over another neighbour's error
	p = newOperatorPartition(partitioning.KeyGroupRange{Start: 0, End: 3}, []neighborPartition{
		{keyGroupRange: partitioning.KeyGroupRange{Start: 3, End: 5}, operator: unreachable},
		{keyGroupRange: partitioning.KeyGroupRange{Start: 5, End: 8}, operator: &d9Neighbor{needs: true}},
	})
	if canDelete, _ := p.ExclusivelyOwnsTable("memory:///x/000000.sst", start, end); canDelete {
		t.Fatal("a neighbour needs the table")
	}
}
