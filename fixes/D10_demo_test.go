package ds_test

import (
	"testing"

	"reduction.dev/reduction/util/ds"
)

// D10: pushing a value that is already cached must not count its size twice.
func TestVerifD10SortedCachePushExistingKeepsAccounting(t *testing.T) {
	c := ds.NewSortedCache(10)
	for i := 0; i < 5; i++ {
		c.Push([]byte("abc")) // same 3-byte value; cache holds one item
	}
	if c.IsFull() {
		t.Fatalf("cache with one 3-byte item and capacity 10 reports full")
	}
	c.Pop()
	if !c.IsEmpty() {
		t.Fatalf("expected empty")
	}
	c.Push([]byte("0123456789"))
	if !c.IsFull() {
		t.Fatalf("10 bytes in a 10-byte cache must be full")
	}
}
