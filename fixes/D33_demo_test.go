package ds_test

import (
	"testing"

	"reduction.dev/reduction/util/ds"
)

type verifD33Item struct{ prio, index int }

// D33: popping the last remaining element must leave it with index -1 (removed), not 0.
func TestVerifD33HeapPopLastElementReportsRemoved(t *testing.T) {
	h := ds.NewHeap(func(a, b *verifD33Item) int { return a.prio - b.prio }, 0)
	h.SetIndexAssigner(func(x *verifD33Item, i int) { x.index = i })
	it := &verifD33Item{prio: 1, index: -5}
	h.Push(it)
	if it.index != 0 {
		t.Fatalf("pushed item index = %d, want 0", it.index)
	}
	got, ok := h.Pop()
	if !ok || got != it {
		t.Fatalf("pop did not return the item")
	}
	if it.index != -1 {
		t.Fatalf("popped item index = %d, want -1", it.index)
	}
}
