//go:build verif

package batching_test

// D17: ReorderFetcher.flush took the batch from the batcher and reserved its sequence number in two
// separate steps while two goroutines flush (the Add caller and the timeout goroutine), so the later
// batch could reserve the earlier sequence number and the two batches came out swapped.
//
// Copy next to batching/ and run: go test -tags verif -run TestVerifD17 ./batching/
// (the hook point "rf.flush.mid" sits between batcher.Flush and buffer.Reserve).

import (
	"context"
	"testing"
	"time"

	"reduction.dev/reduction/batching"
	"reduction.dev/reduction/clocks"
	"reduction.dev/reduction/util/verifhook"
)

func TestVerifD17FlushersKeepBatchOrder(t *testing.T) {
	ctx, cancel := context.WithCancel(context.Background())
	defer cancel()

	parked := make(chan struct{})
	release := make(chan struct{})
	first := true
	verifhook.Set(func(label string, payload []any) {
		// park only the first flusher (the timeout goroutine) between Flush and Reserve
		if label == "rf.flush.mid" && first {
			first = false
			close(parked)
			<-release
		}
	})
	defer verifhook.Set(nil)

	timer := &clocks.FakeTimer{}
	rf := batching.NewReorderFetcher(ctx, batching.NewReorderFetcherParams[int, int]{
		Batcher:    batching.NewEventBatcher[int](ctx, batching.EventBatcherParams{MaxDelay: time.Hour, MaxSize: 2, Timer: timer}),
		FetchBatch: func(ctx context.Context, events []int) ([]int, error) { return events, nil },
		ErrChan:    make(chan error, 1),
		BufferSize: 4,
	})

	rf.Add(ctx, 1)     // batch {1}, timer armed
	go timer.Trigger() // time-out: the timeout goroutine flushes {1} and parks before Reserve
	select {
	case <-parked:
	case <-time.After(5 * time.Second):
		t.Fatal("timeout goroutine never reached the hook point")
	}

	added := make(chan struct{})
	go func() {
		rf.Add(ctx, 2)
		rf.Add(ctx, 3) // batch {2,3} is full: the Add caller flushes
		close(added)
	}()
	select {
	case <-added: // unrepaired code: {2,3} has already reserved sequence number 0
	case <-time.After(300 * time.Millisecond): // repaired code: the Add caller waits for the parked flusher
	}
	close(release)

	var got []int
	for len(got) < 3 {
		select {
		case r := <-rf.Output:
			got = append(got, r)
		case <-time.After(5 * time.Second):
			t.Fatalf("only %v emitted", got)
		}
	}
	if got[0] != 1 || got[1] != 2 || got[2] != 3 {
		t.Fatalf("items emitted out of order: %v (want [1 2 3])", got)
	}
}
