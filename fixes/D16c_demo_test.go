package kinesis_test

import (
	"strings"
	"testing"
	"time"

	"reduction.dev/reduction/proto/snapshotpb"
)

// D16c (open): shards that were discovered but withheld (a parent is still being read) are not part of the splitter
// checkpoint, and discovery after a restore only lists shards after LastAssignedShardId. Withheld shards with a
// smaller id are therefore never handed out after a restore, and their own children are handed out immediately.
func TestVerifD16cWithheldChildrenSurviveRestore(t *testing.T) {
	e := newD16Env(t, 2)
	s1 := e.splitter()
	if err := s1.Start(nil); err != nil {
		t.Fatal(err)
	}
	e.next(2 * time.Second)              // 0,1
	e.stream.SplitShard(t, sid(0), mid0) // -> 2,3 (withheld while 0 is read)
	e.stream.SplitShard(t, sid(1), mid1) // -> 4,5
	time.Sleep(50 * time.Millisecond)
	s1.NotifySplitsFinished("r1", []string{sid(1)})
	if got := e.next(2 * time.Second); strings.Join(got, ",") != "4@,5@" {
		t.Fatalf("children of 1: %v", got)
	}
	state := s1.Checkpoint() // assigned 0,4,5; last assigned 5; 2,3 withheld
	s1.Close()
	e.stream.SplitShard(t, sid(2), "1000") // -> 6,7, grandchildren of the unfinished shard 0

	s2 := e.splitter()
	if err := s2.Start(&snapshotpb.SourceCheckpoint{SplitterState: state}); err != nil {
		t.Fatal(err)
	}
	defer s2.Close()
	if got := e.next(2 * time.Second); strings.Join(got, ",") != "0@,4@,5@" {
		t.Errorf("restore must hand out exactly the unfinished assigned shards 0,4,5 (6,7 wait for 2, which waits for 0): got %v", got)
	}
	s2.NotifySplitsFinished("r0", []string{sid(0)})
	if got := e.next(500 * time.Millisecond); strings.Join(got, ",") != "2@,3@" {
		t.Errorf("children 2,3 of the finished shard 0 must be handed out, got %v", got)
	}
}
