package dkv_test

// D37 (open finding, no repair): a second rescale can lose or roll back state.
//
// An instance restored from a handle it only partly owns keeps the foreign entries of the shared tables, and its
// compactions re-write them into its own tables. When such siblings are merged by the next rescale, their deeper
// levels overlap in key range (LoadCheckpointList can only sort by start key), the range binary search of
// LevelList.tablesForKey lands on the sibling's table, and Get answers NotFound (or the sibling's stale copy) for a
// key that is present. A repair needs ownership-aware compaction plus reads that resolve overlapping composite
// levels by sequence number; it is not a local change.
//
// This test states the expected behaviour and FAILS on the current tree.
// Run (from /repo):
//   cp /verif/fixes/D37_demo_test.go dkv/verif_d37_demo_test.go
//   GOFLAGS=-mod=mod GOPROXY=off go test -vet=off -count=1 -run TestVerifD37 ./dkv/

import (
	"runtime"
	"testing"
	"time"

	"reduction.dev/reduction/dkv"
	"reduction.dev/reduction/dkv/kv"
	"reduction.dev/reduction/dkv/recovery"
	"reduction.dev/reduction/dkv/storage"
)

type verifD37Own struct{ start, end int }

func (o verifD37Own) OwnsKey(k []byte) bool {
	g := int(k[0])<<8 | int(k[1])
	return g >= o.start && g < o.end
}
func (o verifD37Own) ExclusivelyOwnsTable(string, []byte, []byte) (bool, error) { return false, nil }

func TestVerifD37SecondRescaleKeepsState(t *testing.T) {
	root := storage.NewMemoryFilesystem()
	var keep []*dkv.DB // a collected instance deletes the table files it wrote
	defer func() { runtime.KeepAlive(keep) }()
	open := func(dir string, memTableSize uint64, own verifD37Own, hs ...recovery.CheckpointHandle) *dkv.DB {
		db := dkv.Open(dkv.DBOptions{FileSystem: root.WithWorkingDir(dir), MemTableSize: memTableSize, DataOwnership: own}, hs)
		keep = append(keep, db)
		return db
	}
	ckpt := func(db *dkv.DB, id uint64) recovery.CheckpointHandle {
		for range 3 { // a flush task enqueues its compaction task when it finishes
			if err := db.WaitOnTasks(); err != nil {
				t.Fatal(err)
			}
			time.Sleep(5 * time.Millisecond)
		}
		h, err := db.Checkpoint(id)()
		if err != nil {
			t.Fatal(err)
		}
		return h
	}
	kA, kB, kC := []byte{0x00, 0x41, 'a'}, []byte{0x00, 0x9a, 0x00}, []byte{0x00, 0x47, 0xff}

	// generation 1: operators [64,128) and [128,192) of four
	// (a one-byte memtable flushes every write and lets the compactor move it to the base level)
	old1 := open("old1", 1, verifD37Own{64, 128})
	old1.Put(kA, []byte("a"))
	old2 := open("old2", 1<<20, verifD37Own{128, 192}) // kB only in the WAL at the checkpoint
	old2.Put(kB, []byte("b"))
	h1, h2 := ckpt(old1, 1), ckpt(old2, 1)

	// generation 2 (three operators): [0,86) partly owns old1's range, [86,171) owns the rest of it and part of old2's
	x := open("x", 1, verifD37Own{0, 86}, h1)
	y := open("y", 1, verifD37Own{86, 171}, h2, h1) // replays kB, flushes, compacts it with old1's table
	x.Put(kC, []byte("c"))                          // flush + compaction re-writes old1's table together with the new key
	hx, hy := ckpt(x, 2), ckpt(y, 2)

	// generation 3: one operator takes everything
	z := open("z", 1<<20, verifD37Own{0, 256}, hx, hy)
	for _, kv2 := range [][2][]byte{{kA, []byte("a")}, {kB, []byte("b")}, {kC, []byte("c")}} {
		e, err := z.Get(kv2[0])
		if err == kv.ErrNotFound {
			t.Errorf("Get(%x) after the second rescale: not found, want %s", kv2[0], kv2[1])
			continue
		}
		if err != nil {
			t.Fatal(err)
		}
		if string(e.Value()) != string(kv2[1]) {
			t.Errorf("Get(%x) after the second rescale = %s, want %s", kv2[0], e.Value(), kv2[1])
		}
	}
}
