package operator_test

import (
	"context"
	"testing"

	"reduction.dev/reduction/proto"
	"reduction.dev/reduction/proto/workerpb"
	"reduction.dev/reduction/workers/operator"
)

// D59: the job sends "retain only these checkpoints" to the operators of its newest assembly
// (Job.New: `for retained := range retainedCheckpointsUpdatedChan { job.assembly.UpdateRetainedCheckpoints(...) }`).
// evaluateClusterStatus replaces job.assembly before the new assembly is deployed, so a publication that
// finishes during a redeploy reaches operators that have registered but never been deployed: their database
// is nil and HandleRemoveCheckpoints panics with a nil pointer dereference inside the RPC handler (seen in the
// C01 mini-cluster; harmless for keyed state because the server recovers the panic and the job ignores the error).
// Place in /repo/workers/operator/ and run (generated protobuf code comes from the overlay):
//
//	go test -overlay /verif/.cache/overlay.json -vet=off -count=1 -run TestVerifD59 ./workers/operator/
func TestVerifD59RetentionUpdateBeforeDeploy(t *testing.T) {
	op := operator.NewOperator(operator.NewOperatorParams{ID: "op", Host: "h", Job: proto.NoopJob{}})
	defer func() {
		if r := recover(); r != nil {
			t.Fatalf("HandleRemoveCheckpoints on an operator that was never deployed panicked: %v", r)
		}
	}()
	if err := op.HandleRemoveCheckpoints(context.Background(), &workerpb.UpdateRetainedCheckpointsRequest{CheckpointIds: []uint64{1}}); err == nil {
		t.Fatalf("expected an error from an operator that is not deployed")
	}
}
