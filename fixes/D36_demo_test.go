package dkv_test

// D36: an instance restored from the checkpoints of several instances (any scale-in) keeps one composite
// checkpoint holding one WAL handle per old instance. Checkpoint.Document panicked on such a checkpoint ("should
// not serialize a checkpoint with multiple WALs"), and CheckpointList.Save serialises every retained checkpoint:
// the first checkpoint taken after the restore crashed the process in the background save task. The repository's
// scale-in test never checkpoints after scaling in.
//
// Run (from /repo):
//   cp /verif/fixes/D36_demo_test.go dkv/verif_d36_demo_test.go
//   GOFLAGS=-mod=mod GOPROXY=off go test -vet=off -count=1 -run TestVerifD36 ./dkv/

import (
	"fmt"
	"runtime"
	"testing"

	"reduction.dev/reduction/dkv"
	"reduction.dev/reduction/dkv/recovery"
	"reduction.dev/reduction/dkv/storage"
)

func TestVerifD36CheckpointAfterScaleIn(t *testing.T) {
	root := storage.NewMemoryFilesystem()
	var olds []*dkv.DB // kept reachable: a collected instance deletes the table files it wrote
	defer func() { runtime.KeepAlive(olds) }()
	var handles []recovery.CheckpointHandle
	for i, k := range []string{"\x00\x01a", "\x00\x81b"} {
		db := dkv.Open(dkv.DBOptions{FileSystem: root.WithWorkingDir(fmt.Sprintf("old%d", i))}, nil)
		olds = append(olds, db)
		db.Put([]byte(k), []byte("v"+k[2:]))
		h, err := db.Checkpoint(1)()
		if err != nil {
			t.Fatal(err)
		}
		handles = append(handles, h)
	}

	// scale in: one instance takes over both checkpoints, writes, and takes the next checkpoint
	merged := dkv.Open(dkv.DBOptions{FileSystem: root.WithWorkingDir("new")}, handles)
	merged.Put([]byte("\x00\x01c"), []byte("vc"))
	h, err := merged.Checkpoint(2)() // before the repair: panic in the background save task (kills the test binary)
	if err != nil {
		t.Fatal(err)
	}

	// both the new checkpoint and the still retained composite one restore
	for _, hc := range []struct {
		h    recovery.CheckpointHandle
		want string
	}{
		{h, "[a=va c=vc b=vb]"},
		{recovery.CheckpointHandle{CheckpointID: 1, URI: h.URI}, "[a=va b=vb]"},
	} {
		db := dkv.Open(dkv.DBOptions{FileSystem: root.WithWorkingDir(fmt.Sprintf("again%d", hc.h.CheckpointID))}, []recovery.CheckpointHandle{hc.h})
		var got []string
		var scanErr error
		for e := range db.ScanPrefix(nil, &scanErr) {
			got = append(got, string(e.Key()[2:])+"="+string(e.Value()))
		}
		if scanErr != nil {
			t.Fatal(scanErr)
		}
		if fmt.Sprint(got) != hc.want {
			t.Errorf("restore of checkpoint %d from the scaled-in instance: got %v, want %s", hc.h.CheckpointID, got, hc.want)
		}
	}
}
