package snapshots_test

import (
	"testing"
	"time"

	"reduction.dev/reduction/connectors"
	"reduction.dev/reduction/proto/jobpb"
	"reduction.dev/reduction/proto/snapshotpb"
	"reduction.dev/reduction/storage/locations"
	"reduction.dev/reduction/storage/snapshots"
)

type d12Splitter struct{ connectors.UnimplementedSourceSplitter }

func (*d12Splitter) Checkpoint() []byte { return nil }

// D12: a repeated acknowledgement of the same source runner (e.g. a retried RPC) must not add its
// split states to the job checkpoint a second time.
func TestVerifD12DuplicateSourceRunnerAckKeepsSplitStatesOnce(t *testing.T) {
	events := make(chan string, 1)
	store := snapshots.NewStore(&snapshots.NewStoreParams{
		FileStore:        locations.NewLocalDirectory(t.TempDir()),
		SavepointsPath:   "savepoints",
		CheckpointsPath:  "checkpoints",
		CheckpointEvents: events,
	})
	store.RegisterSourceSplitter(&d12Splitter{})

	id, err := store.CreateCheckpoint([]string{"op1"}, []string{"sr1"})
	if err != nil {
		t.Fatal(err)
	}
	ack := &jobpb.SourceRunnerCheckpointCompleteRequest{CheckpointId: id, SourceRunnerId: "sr1", SplitStates: [][]byte{[]byte("split-a@7")}}
	if err := store.AddSourceSnapshot(ack); err != nil {
		t.Fatal(err)
	}
	if err := store.AddSourceSnapshot(ack); err != nil { // the retry
		t.Fatal(err)
	}
	if err := store.AddOperatorSnapshot(&snapshotpb.OperatorCheckpoint{CheckpointId: id, OperatorId: "op1", DkvFileUri: "op1/checkpoints"}); err != nil {
		t.Fatal(err)
	}
	select {
	case <-events:
	case <-time.After(5 * time.Second):
		t.Fatal("checkpoint was not published")
	}
	got := store.CurrentCheckpoint().SourceCheckpoints[0].SplitStates
	if len(got) != 1 {
		t.Fatalf("split states of one runner with one split recorded %d times: %q", len(got), got)
	}
}
