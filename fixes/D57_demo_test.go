//go:build verif

package jobs_test

// D57: the checkpoint ticker callback is not a task of the job's serial queue.
//
// It runs on the clock's goroutine and reads j.assembly three times without synchronisation (a data race with
// evaluateClusterStatus, reported by `go test -race`), and CreateCheckpoint / StartCheckpoint are separate steps.
// If an operator is lost and replaced while a callback is between reading the assembly and CreateCheckpoint, the
// callback creates a pending snapshot for the PREVIOUS assembly after the new deployment's start() already cleared
// the store. The job then runs on the new assembly with a pending snapshot that waits for a node that is gone:
// every later tick answers "checkpoint in progress" and no checkpoint completes until the next redeploy.
//
// Run (from /repo, with the generated protobuf overlay of /verif; the accessors used are build-tagged):
//   cp /verif/fixes/D57_demo_test.go jobs/verif_d57_demo_test.go
//   GOFLAGS=-mod=mod GOPROXY=off go test -tags verif -overlay /verif/.cache/overlay.json -vet=off -count=1 -run TestVerifD57 ./jobs/

import (
	"context"
	"sync/atomic"
	"testing"
	"time"

	"reduction.dev/reduction-protocol/jobconfigpb"
	"reduction.dev/reduction/clocks"
	"reduction.dev/reduction/config"
	"reduction.dev/reduction/connectors"
	"reduction.dev/reduction/jobs"
	"reduction.dev/reduction/proto"
	"reduction.dev/reduction/proto/jobpb"
	"reduction.dev/reduction/proto/snapshotpb"
	"reduction.dev/reduction/proto/workerpb"
	"reduction.dev/reduction/storage/locations"
	"reduction.dev/reduction/storage/objstore"
)

type d57Gate struct {
	arrived chan struct{}
	release chan struct{}
}

type d57Env struct{ gate atomic.Pointer[d57Gate] }

type d57Op struct {
	proto.UnimplementedOperator
	env *d57Env
	id  string
}

func (o *d57Op) ID() string {
	if g := o.env.gate.Load(); g != nil && o.env.gate.CompareAndSwap(g, nil) {
		g.arrived <- struct{}{}
		<-g.release
	}
	return o.id
}
func (o *d57Op) Host() string                                                  { return "h" }
func (o *d57Op) Deploy(context.Context, *workerpb.DeployOperatorRequest) error { return nil }
func (o *d57Op) UpdateRetainedCheckpoints(context.Context, []uint64) error     { return nil }

type d57Sr struct {
	proto.UnimplementedSourceRunner
	id string
}

func (s *d57Sr) ID() string                                                        { return s.id }
func (s *d57Sr) Host() string                                                      { return "h" }
func (s *d57Sr) Deploy(context.Context, *workerpb.DeploySourceRunnerRequest) error { return nil }
func (s *d57Sr) AssignSplits(context.Context, []*workerpb.SourceSplit) error       { return nil }
func (s *d57Sr) StartCheckpoint(context.Context, uint64) error                     { return nil }

type d57Source struct{}

func (d57Source) Validate() error { return nil }
func (d57Source) NewSourceSplitter(ids []string, hooks connectors.SourceSplitterHooks, errChan chan<- error) connectors.SourceSplitter {
	return &d57Splitter{}
}
func (d57Source) NewSourceReader(connectors.SourceReaderHooks) connectors.SourceReader {
	panic("unused")
}
func (d57Source) ProtoMessage() *jobconfigpb.Source { return &jobconfigpb.Source{} }

type d57Splitter struct {
	connectors.UnimplementedSourceSplitter
}

func (*d57Splitter) IsSourceSplitter()                        {}
func (*d57Splitter) Start(*snapshotpb.SourceCheckpoint) error { return nil }
func (*d57Splitter) Close() error                             { return nil }
func (*d57Splitter) NotifySplitsFinished(string, []string)    {}
func (*d57Splitter) Checkpoint() []byte                       { return nil }

func d57WaitStatus(t *testing.T, job *jobs.Job, want string) {
	t.Helper()
	deadline := time.Now().Add(5 * time.Second)
	for time.Now().Before(deadline) {
		job.VerifSyncC15()
		if job.VerifStatusC15() == want {
			return
		}
		time.Sleep(time.Millisecond)
	}
	t.Fatalf("job did not become %s (is %s)", want, job.VerifStatusC15())
}

func TestVerifD57TickDuringReassemblyLeavesNoForeignPendingSnapshot(t *testing.T) {
	env := &d57Env{}
	clk := clocks.NewFrozenClock()
	loc, err := locations.NewS3Location(objstore.NewMemoryS3Service(), "s3://bucket/job")
	if err != nil {
		t.Fatal(err)
	}
	job, err := jobs.New(&jobs.NewParams{
		JobConfig: &config.Config{WorkerCount: 2, KeyGroupCount: 8, WorkingStorageLocation: "memory:///d57", Sources: []connectors.SourceConfig{d57Source{}}},
		Clock:     clk, Store: loc, ErrChan: make(chan error, 8),
		OperatorFactory:     func(_ string, n *jobpb.NodeIdentity) proto.Operator { return &d57Op{env: env, id: n.Id} },
		SourceRunnerFactory: func(n *jobpb.NodeIdentity) proto.SourceRunner { return &d57Sr{id: n.Id} },
	})
	if err != nil {
		t.Fatal(err)
	}
	for _, id := range []string{"op-a", "op-b"} {
		job.HandleRegisterOperator(&jobpb.NodeIdentity{Id: id, Host: "h"})
	}
	for _, id := range []string{"sr-a", "sr-b"} {
		job.HandleRegisterSourceRunner(&jobpb.NodeIdentity{Id: id, Host: "h"})
	}
	d57WaitStatus(t, job, "Running")

	// the ticker fires; the callback is held inside its first read of the assembly's operator ids
	g := &d57Gate{arrived: make(chan struct{}, 1), release: make(chan struct{})}
	env.gate.Store(g)
	tickDone := make(chan struct{})
	go func() { defer close(tickDone); clk.TickEvery("checkpointing") }()
	select {
	case <-g.arrived:
	case <-time.After(2 * time.Second):
		t.Fatal("the ticker callback did not read the assembly")
	}

	// meanwhile operator op-b is lost and op-c takes its place: the job pauses and starts a new deployment
	memberDone := make(chan struct{})
	go func() {
		defer close(memberDone)
		job.HandleDeregisterOperator(&jobpb.NodeIdentity{Id: "op-b", Host: "h"})
		job.HandleRegisterOperator(&jobpb.NodeIdentity{Id: "op-c", Host: "h"})
	}()
	select {
	case <-memberDone: // the callback is not a task: membership changes run while it is in flight
	case <-time.After(300 * time.Millisecond): // the callback is a task: they wait for it
	}
	close(g.release)
	<-tickDone
	<-memberDone
	d57WaitStatus(t, job, "Running")

	ops, _ := job.VerifAssemblyC15()
	member := map[string]bool{}
	for _, id := range ops {
		member[id] = true
	}
	if _, waitingOps, _, ok := job.VerifStoreC15().VerifPendingC15(); ok {
		for _, id := range waitingOps {
			if !member[id] {
				t.Fatalf("job runs on operators %v with a pending snapshot that waits for %s, which is not in the assembly: no checkpoint can complete", ops, id)
			}
		}
	}
}
