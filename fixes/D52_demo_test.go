package jobs_test

// D52 demo. Place in /repo/jobs/ and run (generated protobuf code grafted by the overlay):
//   cd /repo && GOFLAGS=-mod=mod GOPROXY=off go test -overlay /verif/.cache/overlay.json -vet=off -count=1 -run TestVerifD52 ./jobs/

import (
	"context"
	"sort"
	"strings"
	"testing"
	"time"

	gproto "google.golang.org/protobuf/proto"
	"reduction.dev/reduction/clocks"
	"reduction.dev/reduction/config"
	"reduction.dev/reduction/connectors"
	"reduction.dev/reduction/connectors/kinesis"
	"reduction.dev/reduction/connectors/kinesis/kinesisfake"
	"reduction.dev/reduction/connectors/kinesis/kinesispb"
	"reduction.dev/reduction/jobs"
	"reduction.dev/reduction/proto"
	"reduction.dev/reduction/proto/jobpb"
	"reduction.dev/reduction/proto/snapshotpb"
	"reduction.dev/reduction/proto/workerpb"
	"reduction.dev/reduction/storage/locations"
)

type d52Runner struct {
	proto.UnimplementedSourceRunner
	assigned    chan []*workerpb.SourceSplit
	checkpoints chan uint64
}

func (r *d52Runner) ID() string   { return "sr1" }
func (r *d52Runner) Host() string { return "sr1-host" }
func (r *d52Runner) Deploy(context.Context, *workerpb.DeploySourceRunnerRequest) error {
	return nil
}
func (r *d52Runner) AssignSplits(ctx context.Context, splits []*workerpb.SourceSplit) error {
	if len(splits) > 0 {
		r.assigned <- splits
	}
	return nil
}
func (r *d52Runner) StartCheckpoint(ctx context.Context, id uint64) error {
	r.checkpoints <- id
	return nil
}

type d52Operator struct {
	proto.UnimplementedOperator
	id       string
	deployed chan *workerpb.DeployOperatorRequest
}

func (o *d52Operator) ID() string   { return o.id }
func (o *d52Operator) Host() string { return o.id + "-host" }
func (o *d52Operator) Deploy(ctx context.Context, req *workerpb.DeployOperatorRequest) error {
	o.deployed <- req
	return nil
}
func (o *d52Operator) UpdateRetainedCheckpoints(ctx context.Context, ids []uint64) error { return nil }

func d52Ids(splits []*workerpb.SourceSplit) string {
	var l []string
	for _, s := range splits {
		l = append(l, strings.TrimLeft(strings.TrimPrefix(s.SplitId, "shardId-"), "0")+"@"+string(s.Cursor))
	}
	for i := range l {
		if strings.HasPrefix(l[i], "@") {
			l[i] = "0" + l[i]
		}
	}
	sort.Strings(l)
	return strings.Join(l, ",")
}

// The runner reports position 5 of shard 0 for checkpoint 1. Before the operator acknowledges the checkpoint the
// reader reaches the end of shard 0 (it was split) and notifies the job. The splitter's part of checkpoint 1 is taken
// when the last acknowledgement arrives: it no longer contains shard 0. After a recovery from checkpoint 1 the
// operators hold the state of barrier 1, so shard 0 has to be read again from position 5.
func TestVerifD52ShardFinishedBetweenBarrierAndSplitterCheckpointIsResumed(t *testing.T) {
	srv, _ := kinesisfake.StartFake()
	defer srv.Close()
	client := kinesis.NewLocalClient(srv.URL)
	stream := kinesis.CreateTempStream(t, client, 1)

	clock := clocks.NewFrozenClock()
	runner := &d52Runner{assigned: make(chan []*workerpb.SourceSplit, 16), checkpoints: make(chan uint64, 16)}
	ops := map[string]*d52Operator{
		"op1": {id: "op1", deployed: make(chan *workerpb.DeployOperatorRequest, 4)},
		"op2": {id: "op2", deployed: make(chan *workerpb.DeployOperatorRequest, 4)},
	}
	errChan := make(chan error, 8)
	job, err := jobs.New(&jobs.NewParams{
		JobConfig: &config.Config{
			WorkerCount:            1,
			KeyGroupCount:          8,
			WorkingStorageLocation: t.TempDir(),
			Sources:                []connectors.SourceConfig{kinesis.SourceConfig{StreamARN: stream.StreamARN, Client: client, ShardDiscoveryInterval: 2 * time.Millisecond}},
		},
		Clock:               clock,
		Store:               locations.NewLocalDirectory(t.TempDir()),
		ErrChan:             errChan,
		OperatorFactory:     func(senderID string, node *jobpb.NodeIdentity) proto.Operator { return ops[node.Id] },
		SourceRunnerFactory: func(node *jobpb.NodeIdentity) proto.SourceRunner { return runner },
	})
	if err != nil {
		t.Fatal(err)
	}
	recv := func(what string, ch chan []*workerpb.SourceSplit) []*workerpb.SourceSplit {
		select {
		case v := <-ch:
			return v
		case err := <-errChan:
			t.Fatalf("%s: job error %v", what, err)
		case <-time.After(5 * time.Second):
			t.Fatalf("timed out waiting for %s", what)
		}
		return nil
	}

	job.HandleRegisterOperator(&jobpb.NodeIdentity{Id: "op1", Host: "op1-host"})
	job.HandleRegisterSourceRunner(&jobpb.NodeIdentity{Id: "sr1", Host: "sr1-host"})
	<-ops["op1"].deployed
	if got := d52Ids(recv("first assignment", runner.assigned)); got != "0@" {
		t.Fatalf("first assignment %s", got)
	}

	// shard 0 is split; the children are discovered and withheld while 0 is being read
	stream.SplitShard(t, stream.ShardIDs[0], "1000")
	time.Sleep(50 * time.Millisecond)

	// checkpoint 1: the runner handles the barrier at position 5 of shard 0
	var id uint64
	for deadline := time.Now().Add(5 * time.Second); id == 0 && time.Now().Before(deadline); {
		func() { defer func() { recover() }(); clock.TickEvery("checkpointing") }()
		select {
		case id = <-runner.checkpoints:
		case <-time.After(10 * time.Millisecond):
		}
	}
	state, _ := gproto.Marshal(&kinesispb.Shard{ShardId: stream.ShardIDs[0], Cursor: "5"})
	if err := job.HandleSourceRunnerCheckpointComplete(context.Background(), &jobpb.SourceRunnerCheckpointCompleteRequest{SourceRunnerId: "sr1", CheckpointId: id, SplitStates: [][]byte{state}}); err != nil {
		t.Fatal(err)
	}
	// ... then reads on, reaches the end of the closed shard 0 and says so; the children are handed out
	if err := job.HandleNotifySplitsFinished("sr1", []string{stream.ShardIDs[0]}); err != nil {
		t.Fatal(err)
	}
	if got := d52Ids(recv("children", runner.assigned)); got != "1@,2@" {
		t.Fatalf("children: %s", got)
	}
	// ... and only now the operator's acknowledgement of checkpoint 1 arrives
	if err := job.HandleOperatorCheckpointComplete(context.Background(), &snapshotpb.OperatorCheckpoint{OperatorId: "op1", CheckpointId: id, KeyGroupRange: &snapshotpb.KeyGroupRange{Start: 0, End: 8}}); err != nil {
		t.Fatal(err)
	}
	time.Sleep(100 * time.Millisecond) // checkpoint 1 is written

	// the operator is lost; recovery from checkpoint 1
	job.HandleDeregisterOperator(&jobpb.NodeIdentity{Id: "op1", Host: "op1-host"})
	job.HandleRegisterOperator(&jobpb.NodeIdentity{Id: "op2", Host: "op2-host"})
	req := <-ops["op2"].deployed
	if len(req.Checkpoints) != 1 || req.Checkpoints[0].CheckpointId != id {
		t.Fatalf("operators restore %v, want checkpoint %d", req.Checkpoints, id)
	}
	got := d52Ids(recv("assignment after recovery", runner.assigned))
	if got != "0@5" {
		t.Errorf("operators restore the cut of checkpoint %d, in which shard 0 had been read up to position 5 only: "+
			"shard 0 must be resumed from 5 (and its children wait), but the recovered job assigns %s", id, got)
	}
}
