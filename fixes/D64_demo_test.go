package snapshots_test

import (
	"testing"
	"time"

	"reduction.dev/reduction/connectors"
	"reduction.dev/reduction/proto/jobpb"
	"reduction.dev/reduction/storage/locations"
	"reduction.dev/reduction/storage/snapshots"
)

type d64Splitter struct {
	connectors.UnimplementedSourceSplitter
}

func (*d64Splitter) Checkpoint() []byte { return nil }

// D64: a job is configured with a savepoint URI (jobs.New passes params.SavepointURI to the store on every start).
// It restores the savepoint, runs on and publishes newer checkpoints. When its process is restarted, the job
// must resume from the newest completed checkpoint in its storage — not go back to the savepoint.
func TestVerifD64RestartOfSavepointConfiguredJobResumesFromNewestCheckpoint(t *testing.T) {
	dir := locations.NewLocalDirectory(t.TempDir())
	events := make(chan string, 8)
	newStore := func(savepointURI string) *snapshots.Store {
		s := snapshots.NewStore(&snapshots.NewStoreParams{FileStore: dir, SavepointsPath: "savepoints", CheckpointsPath: "checkpoints",
			CheckpointEvents: events, SavepointURI: savepointURI})
		s.RegisterSourceSplitter(&d64Splitter{})
		return s
	}
	finish := func(s *snapshots.Store, id uint64, position string) {
		t.Helper()
		if err := s.AddSourceSnapshot(&jobpb.SourceRunnerCheckpointCompleteRequest{CheckpointId: id, SourceRunnerId: "sr1", SplitStates: [][]byte{[]byte(position)}}); err != nil {
			t.Fatal(err)
		}
		select {
		case <-events:
		case <-time.After(5 * time.Second):
			t.Fatalf("checkpoint %d was not published", id)
		}
	}

	// somebody takes savepoint 1 (no operators: the artifact is only the job file)
	first := newStore("")
	spID, _, err := first.CreateSavepoint(nil, []string{"sr1"})
	if err != nil {
		t.Fatal(err)
	}
	finish(first, spID, "position-at-savepoint")
	spURI, err := first.SavepointURIForID(spID)
	if err != nil {
		t.Fatal(err)
	}

	// the job is (re)configured to start from that savepoint and runs on: checkpoints 2 and 3
	job := newStore(spURI)
	if err := job.LoadCheckpoint(); err != nil {
		t.Fatal(err)
	}
	var newest uint64
	for i := 0; i < 2; i++ {
		id, err := job.CreateCheckpoint(nil, []string{"sr1"})
		if err != nil {
			t.Fatal(err)
		}
		finish(job, id, "position-after-savepoint")
		newest = id
	}

	// the job process is restarted with the same configuration
	restarted := newStore(spURI)
	if err := restarted.LoadCheckpoint(); err != nil {
		t.Fatal(err)
	}
	ck := restarted.CurrentCheckpoint()
	if ck.GetId() != newest {
		t.Fatalf("the restarted job resumes from checkpoint %d (%q); the newest completed checkpoint in its storage is %d",
			ck.GetId(), ck.GetSourceCheckpoints()[0].GetSplitStates(), newest)
	}
}
