package kinesis_test

import (
	"fmt"
	"math/big"
	"sync"
	"testing"
	"time"

	"google.golang.org/protobuf/proto"
	"reduction.dev/reduction/connectors"
	"reduction.dev/reduction/connectors/kinesis"
	"reduction.dev/reduction/connectors/kinesis/kinesisfake"
	"reduction.dev/reduction/connectors/kinesis/kinesispb"
	"reduction.dev/reduction/proto/workerpb"
)

// Checkpoint() reads the assigned shards (under the tracker's mutex) and afterwards LastAssignedSplitID (without it),
// while the splitter's own goroutine hands out shards. A checkpoint whose shard list was read before an assignment
// and whose LastAssignedShardId was read after it neither contains the newly assigned shards nor lets discovery find
// them again after a restore: they are lost.
func TestVerifCheckpointIsConsistentWithConcurrentAssignment(t *testing.T) {
	srv, _ := kinesisfake.StartFake()
	defer srv.Close()
	client := kinesis.NewLocalClient(srv.URL)
	const roots = 400
	stream := kinesis.CreateTempStream(t, client, roots)
	assigned := make(chan struct{}, 1024)
	sp := kinesis.NewSourceSplitter(kinesis.SourceConfig{StreamARN: stream.StreamARN, Client: client, ShardDiscoveryInterval: time.Millisecond},
		[]string{"r0"}, connectors.SourceSplitterHooks{AssignSplits: func(map[string][]*workerpb.SourceSplit) { assigned <- struct{}{} }}, make(chan error, 8))
	if err := sp.Start(nil); err != nil {
		t.Fatal(err)
	}
	defer sp.Close()
	<-assigned

	next := roots
	for round := 0; round < 150; round++ {
		parent := stream.ShardIDs[round]
		// split the shard in the middle of its range: children next, next+1
		stream.SplitShard(t, parent, splitPoint(round, roots))
		time.Sleep(5 * time.Millisecond) // discovered, withheld
		children := []string{fmt.Sprintf("shardId-%012d", next), fmt.Sprintf("shardId-%012d", next+1)}
		next += 2

		var wg sync.WaitGroup
		stop := make(chan struct{})
		var bad string
		wg.Add(1)
		go func() {
			defer wg.Done()
			for {
				select {
				case <-stop:
					return
				default:
				}
				var st kinesispb.SplitterState
				if err := proto.Unmarshal(sp.Checkpoint(), &st); err != nil {
					continue
				}
				if st.LastAssignedShardId >= children[1] {
					has := map[string]bool{}
					for _, sh := range st.AssignedShards {
						has[sh.ShardId] = true
					}
					if !has[children[0]] || !has[children[1]] {
						bad = fmt.Sprintf("checkpoint with LastAssignedShardId=%s does not list the assigned shards %v", st.LastAssignedShardId, children)
					}
					return
				}
			}
		}()
		sp.NotifySplitsFinished("r0", []string{parent})
		<-assigned
		wg.Wait()
		close(stop)
		if bad != "" {
			t.Fatalf("round %d: %s: after a restore from it these shards are never read", round, bad)
		}
	}
}

func splitPoint(i, roots int) string {
	// middle of root shard i of `roots`
	w := new(big.Int).Div(new(big.Int).Lsh(big.NewInt(1), 128), big.NewInt(int64(roots)))
	m := new(big.Int).Mul(w, big.NewInt(int64(i)))
	return m.Add(m, new(big.Int).Rsh(w, 1)).String()
}
