package snapshots_test

import (
	"testing"
	"time"

	"reduction.dev/reduction/connectors"
	"reduction.dev/reduction/proto/jobpb"
	"reduction.dev/reduction/proto/snapshotpb"
	"reduction.dev/reduction/storage/locations"
	"reduction.dev/reduction/storage/snapshots"
)

type d54Splitter struct{ connectors.UnimplementedSourceSplitter }

func (*d54Splitter) Checkpoint() []byte { return nil }

// D54: every retained-checkpoints notification is sent from its own goroutine, so the order in which the job
// receives them is up to the scheduler. When checkpoints 2 and 3 are published back to back, `[2]` can arrive
// after `[3]`: the operators are then told to retain only checkpoint 2 after 3 has been published.
// The interleaving cannot be forced from outside (there is no hook between `go func()` and the channel send),
// so this demo repeats the race until it shows (usually within a few hundred rounds on a multi-core machine).
func TestVerifD54RetainedNotificationsArriveInPublicationOrder(t *testing.T) {
	const rounds = 3000
	for round := 0; round < rounds; round++ {
		retained := make(chan []uint64) // unbuffered, as jobs.New creates it
		events := make(chan string, 8)
		store := snapshots.NewStore(&snapshots.NewStoreParams{
			FileStore: locations.NewLocalDirectory(t.TempDir()), SavepointsPath: "savepoints", CheckpointsPath: "checkpoints",
			CheckpointEvents: events, RetainedCheckpointsUpdated: retained,
		})
		store.RegisterSourceSplitter(&d54Splitter{})
		for want := uint64(1); want <= 3; want++ {
			id, err := store.CreateCheckpoint([]string{"op1"}, []string{"sr1"})
			if err != nil || id != want {
				t.Fatalf("create: id=%d err=%v", id, err)
			}
			store.AddOperatorSnapshot(&snapshotpb.OperatorCheckpoint{CheckpointId: id, OperatorId: "op1"})
			store.AddSourceSnapshot(&jobpb.SourceRunnerCheckpointCompleteRequest{CheckpointId: id, SourceRunnerId: "sr1"})
			if want == 1 {
				<-events // checkpoint 1 is published before 2 and 3 race
			}
		}
		<-events
		<-events
		// the job's receiver loop gets to the channel now
		var got []uint64
	recv:
		for {
			select {
			case ids := <-retained:
				got = append(got, ids...)
			case <-time.After(20 * time.Millisecond):
				break recv
			}
		}
		for i := 1; i < len(got); i++ {
			if got[i] < got[i-1] {
				t.Fatalf("round %d: retained-checkpoint notifications arrived as %v: operators are told to keep only checkpoint %d after %d was announced", round, got, got[i], got[i-1])
			}
		}
	}
}
