package snapshots_test

// D53: CreateSavepointArtifact reads an operator's `checkpoints` document to list the files of the savepoint's
// checkpoint N, copies those files, and then copies the document FILE again, as it is at that later moment. The
// document is the one mutable DKV file: the operator rewrites it on every later checkpoint and on every retention
// update (DB.UpdateRetainedCheckpoints). If checkpoint N+1 is published while the (long) copy of N's artifact is
// running and the operator applies the retention [N+1] before the document is copied, the artifact gets a
// document without entry N. Creation still reports success (job.savepoint appears) when the removal of the
// obsolete job-N.snapshot has not happened yet (it is a separate goroutine, and a failing Remove is only
// logged) - and starting from the savepoint fails: "checkpoint ID N not found in the checkpoints document".
//
// Place as /repo/storage/snapshots/d53_demo_test.go (or graft with -overlay) and run
//   go test -vet=off -count=1 -run TestD53 ./storage/snapshots/

import (
	"bytes"
	"io"
	"os"
	"path/filepath"
	"strings"
	"testing"
	"time"

	"reduction.dev/reduction/connectors"
	"reduction.dev/reduction/dkv"
	dkvstorage "reduction.dev/reduction/dkv/storage"
	"reduction.dev/reduction/proto/jobpb"
	"reduction.dev/reduction/proto/snapshotpb"
	"reduction.dev/reduction/storage/locations"
	"reduction.dev/reduction/storage/snapshots"
)

type d53Splitter struct{ connectors.UnimplementedSourceSplitter }

func (*d53Splitter) Checkpoint() []byte { return nil }

// d53SlowStore is a slow object store: the copy of the operator's checkpoints document into the savepoint
// directory and the removal of obsolete job snapshots take a while (the test decides how long).
type d53SlowStore struct {
	*locations.LocalDirectory
	docCopyStarted chan struct{}
	docCopyGo      chan struct{}
	removeGo       chan struct{}
}

func (l *d53SlowStore) Copy(src, dst string) error {
	if filepath.Base(src) == "checkpoints" && strings.Contains(dst, "savepoints") {
		close(l.docCopyStarted)
		<-l.docCopyGo
	}
	return l.LocalDirectory.Copy(src, dst)
}

// (after the repair the document reaches the savepoint directory through Write)
func (l *d53SlowStore) Write(path string, r io.Reader) (string, error) {
	data, err := io.ReadAll(r)
	if err != nil {
		return "", err
	}
	if filepath.Base(path) == "checkpoints" && strings.Contains(path, "savepoints") {
		close(l.docCopyStarted)
		<-l.docCopyGo
	}
	return l.LocalDirectory.Write(path, bytes.NewReader(data))
}

func (l *d53SlowStore) Remove(paths ...string) error {
	<-l.removeGo
	return l.LocalDirectory.Remove(paths...)
}

func TestD53SavepointDocumentIsTheOneThatWasListed(t *testing.T) {
	testDir := t.TempDir()
	loc := &d53SlowStore{LocalDirectory: locations.NewLocalDirectory(testDir),
		docCopyStarted: make(chan struct{}), docCopyGo: make(chan struct{}), removeGo: make(chan struct{})}
	events := make(chan string, 4)
	retained := make(chan []uint64, 4)
	store := snapshots.NewStore(&snapshots.NewStoreParams{CheckpointEvents: events, RetainedCheckpointsUpdated: retained,
		FileStore: loc, SavepointsPath: "savepoints", CheckpointsPath: "checkpoints"})
	store.RegisterSourceSplitter(&d53Splitter{})

	opDir := filepath.Join(testDir, "working", "op1")
	db := dkv.Open(dkv.DBOptions{FileSystem: dkvstorage.NewLocalFilesystem(opDir)}, nil)
	db.Put([]byte("a"), []byte("1"))

	complete := func(id uint64) {
		t.Helper()
		h, err := db.Checkpoint(id)()
		d53must(t, err)
		d53must(t, store.AddOperatorSnapshot(&snapshotpb.OperatorCheckpoint{CheckpointId: id, OperatorId: "op1", DkvFileUri: h.URI, KeyGroupRange: &snapshotpb.KeyGroupRange{}}))
		d53must(t, store.AddSourceSnapshot(&jobpb.SourceRunnerCheckpointCompleteRequest{CheckpointId: id, SourceRunnerId: "sr1", SplitStates: [][]byte{{}}}))
	}

	// Savepoint = checkpoint 1. Its artifact is being copied; the WAL is done, the document is next.
	spID, _, err := store.CreateSavepoint([]string{"op1"}, []string{"sr1"})
	d53must(t, err)
	complete(spID)
	select {
	case <-loc.docCopyStarted:
	case <-time.After(5 * time.Second):
		t.Fatal("artifact creation did not reach the document")
	}

	// Meanwhile the next periodic checkpoint is taken and published, and the operator is told to retain only it.
	nextID, err := store.CreateCheckpoint([]string{"op1"}, []string{"sr1"})
	d53must(t, err)
	db.Put([]byte("a"), []byte("2"))
	complete(nextID)
	select {
	case <-events:
	case <-time.After(5 * time.Second):
		t.Fatal("checkpoint 2 was not published")
	}
	select {
	case ids := <-retained:
		d53must(t, db.UpdateRetainedCheckpoints(ids))
	case <-time.After(5 * time.Second):
		t.Fatal("no retention update")
	}

	// The artifact creation goes on and finishes; the obsolete job snapshot is removed afterwards.
	close(loc.docCopyGo)
	select {
	case <-events:
	case <-time.After(5 * time.Second):
		t.Fatal("savepoint creation did not report success")
	}
	close(loc.removeGo)
	spURI, err := store.SavepointURIForID(spID)
	if err != nil {
		t.Skipf("no savepoint was announced (creation failed visibly): %v", err)
	}

	// The savepoint was announced: it must be usable once the working storage is gone.
	d53must(t, os.RemoveAll(filepath.Join(testDir, "working")))
	d53must(t, os.RemoveAll(filepath.Join(testDir, "checkpoints")))
	store2 := snapshots.NewStore(&snapshots.NewStoreParams{FileStore: locations.NewLocalDirectory(testDir), SavepointsPath: "savepoints", CheckpointsPath: "checkpoints", SavepointURI: spURI})
	store2.RegisterSourceSplitter(&d53Splitter{})
	if err := store2.LoadCheckpoint(); err != nil {
		t.Fatalf("starting from the announced savepoint %s failed: %v", spURI, err)
	}
}

func d53must(t *testing.T, err error) {
	t.Helper()
	if err != nil {
		t.Fatal(err)
	}
}
