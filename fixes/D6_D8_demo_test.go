package dkv_test

// D8: recovery.LoadCheckpointList appended the level >= 1 tables of the given handles in handle order. A deeper
// level is binary searched by key range (LevelList.tablesForKey), so with the old instances' handles in any order
// but ascending key order the search missed tables: Get returned NotFound for keys that ScanPrefix still listed.
//
// D6: sst.writeEntry recorded the sequence number of the LAST KEY as the table's endSeqNum, entries arrive in key
// order, so LevelList.LatestSeqNum could be below versions stored in the table. DB.Start restarts the sequence at
// LatestSeqNum and replays only the owned WAL entries; after a rescale the new instance then numbered new writes
// below the restored table versions and ScanPrefix (newest sequence number wins) returned the stale value while
// Get returned the new one.
//
// Run (from /repo):
//   cp /verif/fixes/D6_D8_demo_test.go dkv/verif_d6_d8_demo_test.go
//   GOFLAGS=-mod=mod GOPROXY=off go test -vet=off -count=1 -run 'TestVerifD6|TestVerifD8' ./dkv/

import (
	"fmt"
	"runtime"
	"testing"

	"reduction.dev/reduction/dkv"
	"reduction.dev/reduction/dkv/kv"
	"reduction.dev/reduction/dkv/recovery"
	"reduction.dev/reduction/dkv/storage"
)

// ownership by the big-endian key group in the first two key bytes (as workers/operator.OperatorPartition)
type verifKGOwnership struct{ start, end int }

func (o verifKGOwnership) OwnsKey(k []byte) bool {
	g := int(k[0])<<8 | int(k[1])
	return g >= o.start && g < o.end
}
func (o verifKGOwnership) ExclusivelyOwnsTable(string, []byte, []byte) (bool, error) {
	return false, nil
}

func verifKey(keyGroup int, name string) []byte {
	return append([]byte{byte(keyGroup >> 8), byte(keyGroup)}, name...)
}

func verifGet(db *dkv.DB, k []byte) string {
	e, err := db.Get(k)
	if err == kv.ErrNotFound || (err == nil && e.IsDelete()) {
		return "<absent>"
	}
	if err != nil {
		return "error: " + err.Error()
	}
	return string(e.Value())
}

func TestVerifD8MergedDeeperLevelsStaySearchable(t *testing.T) {
	root := storage.NewMemoryFilesystem()
	groups := []int{0x01, 0x80, 0xc0}
	var handles []recovery.CheckpointHandle
	var olds []*dkv.DB // kept reachable: a collected instance deletes the table files it wrote
	defer func() { runtime.KeepAlive(olds) }()
	for i, g := range groups {
		// a one-byte memtable flushes every write; the compactor then moves everything to the base level
		db := dkv.Open(dkv.DBOptions{FileSystem: root.WithWorkingDir(fmt.Sprintf("old%d", i)), MemTableSize: 1}, nil)
		db.Put(verifKey(g, "a"), []byte("va"))
		db.Put(verifKey(g, "b"), []byte("vb"))
		olds = append(olds, db)
		if err := db.WaitOnTasks(); err != nil {
			t.Fatal(err)
		}
		h, err := db.Checkpoint(1)()
		if err != nil {
			t.Fatal(err)
		}
		handles = append(handles, h)
	}
	for _, order := range [][]int{{0, 1, 2}, {2, 1, 0}, {1, 0, 2}, {1, 2, 0}} {
		hs := []recovery.CheckpointHandle{handles[order[0]], handles[order[1]], handles[order[2]]}
		db := dkv.Open(dkv.DBOptions{
			FileSystem:    root.WithWorkingDir(fmt.Sprintf("new%v", order)),
			DataOwnership: verifKGOwnership{0, 256},
		}, hs)
		for _, g := range groups {
			for _, name := range []string{"a", "b"} {
				if got := verifGet(db, verifKey(g, name)); got != "v"+name {
					t.Errorf("handles in order %v: Get(%x) = %s, want v%s", order, verifKey(g, name), got, name)
				}
			}
		}
	}
}

func TestVerifD6WritesAfterRescaleWinInScans(t *testing.T) {
	root := storage.NewMemoryFilesystem()
	old := dkv.Open(dkv.DBOptions{FileSystem: root.WithWorkingDir("old"), MemTableSize: 200}, nil)
	defer func() { runtime.KeepAlive(old) }()        // a collected instance deletes the table files it wrote
	old.Put(verifKey(0xf9, "k9"), []byte("v9"))      // seq 1, last key of the table
	old.Put(verifKey(0xf5, "k5"), []byte("v5"))      // seq 2
	old.Put(verifKey(0xf4, "k4"), []byte("v4"))      // seq 3
	old.Put(verifKey(0x01, "k1"), make([]byte, 300)) // seq 4, first key of the table; fills the memtable
	if err := old.WaitOnTasks(); err != nil {
		t.Fatal(err)
	}
	h, err := old.Checkpoint(1)()
	if err != nil {
		t.Fatal(err)
	}

	// scale out: the new instance owns key groups [0, 128) only
	db := dkv.Open(dkv.DBOptions{
		FileSystem:    root.WithWorkingDir("new"),
		DataOwnership: verifKGOwnership{0, 128},
	}, []recovery.CheckpointHandle{h})
	k1 := verifKey(0x01, "k1")
	db.Put(k1, []byte("new"))
	if got := verifGet(db, k1); got != "new" {
		t.Fatalf("Get after the write = %q, want new", got)
	}
	var scanErr error
	var scanned []string
	for e := range db.ScanPrefix(k1, &scanErr) {
		scanned = append(scanned, string(e.Value()))
	}
	if scanErr != nil {
		t.Fatal(scanErr)
	}
	if fmt.Sprint(scanned) != "[new]" {
		t.Fatalf("ScanPrefix after the write returned the restored %d-byte value, want [new]", len(scanned[0]))
	}
}
