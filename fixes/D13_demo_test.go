package snapshots_test

import (
	"bytes"
	"io"
	"strings"
	"testing"
	"time"

	"reduction.dev/reduction/connectors"
	"reduction.dev/reduction/proto/jobpb"
	"reduction.dev/reduction/proto/snapshotpb"
	"reduction.dev/reduction/storage/locations"
	"reduction.dev/reduction/storage/snapshots"

	"google.golang.org/protobuf/proto"
)

type d13Splitter struct{ connectors.UnimplementedSourceSplitter }

func (*d13Splitter) Checkpoint() []byte { return nil }

// d13SlowWrite delays the upload of the job checkpoint with id `slow` until release is closed.
type d13SlowWrite struct {
	*locations.LocalDirectory
	slow    uint64
	release chan struct{}
	removed chan []string
}

func (l *d13SlowWrite) Write(path string, r io.Reader) (string, error) {
	data, err := io.ReadAll(r)
	if err != nil {
		return "", err
	}
	var ckpt snapshotpb.JobCheckpoint
	if proto.Unmarshal(data, &ckpt) == nil && ckpt.Id == l.slow {
		<-l.release
	}
	return l.LocalDirectory.Write(path, bytes.NewReader(data))
}

func (l *d13SlowWrite) Remove(paths ...string) error {
	err := l.LocalDirectory.Remove(paths...)
	l.removed <- paths
	return err
}

// D13: the upload of checkpoint 2 is slow and completes after checkpoint 3 has been published.
// Checkpoint 3 must stay the current checkpoint, its file must stay, and operators must not be
// told to retain only checkpoint 2.
func TestVerifD13LatePublicationKeepsNewerCheckpoint(t *testing.T) {
	loc := &d13SlowWrite{LocalDirectory: locations.NewLocalDirectory(t.TempDir()), slow: 2, release: make(chan struct{}), removed: make(chan []string, 8)}
	events := make(chan string, 8)
	retained := make(chan []uint64, 8)
	store := snapshots.NewStore(&snapshots.NewStoreParams{
		FileStore:                  loc,
		SavepointsPath:             "savepoints",
		CheckpointsPath:            "checkpoints",
		CheckpointEvents:           events,
		RetainedCheckpointsUpdated: retained,
	})
	store.RegisterSourceSplitter(&d13Splitter{})
	complete := func(want uint64) {
		t.Helper()
		id, err := store.CreateCheckpoint([]string{"op1"}, []string{"sr1"})
		if err != nil || id != want {
			t.Fatalf("create: id=%d err=%v", id, err)
		}
		if err := store.AddOperatorSnapshot(&snapshotpb.OperatorCheckpoint{CheckpointId: id, OperatorId: "op1"}); err != nil {
			t.Fatal(err)
		}
		if err := store.AddSourceSnapshot(&jobpb.SourceRunnerCheckpointCompleteRequest{CheckpointId: id, SourceRunnerId: "sr1"}); err != nil {
			t.Fatal(err)
		}
	}
	wait := func(what string, ch <-chan string) string {
		t.Helper()
		select {
		case v := <-ch:
			return v
		case <-time.After(5 * time.Second):
			t.Fatalf("timed out waiting for %s", what)
			return ""
		}
	}

	complete(1)
	wait("publication of 1", events)
	complete(2) // upload parked
	complete(3)
	uri3 := wait("publication of 3", events)
	select { // cleanup of checkpoint 1
	case <-loc.removed:
	case <-time.After(5 * time.Second):
		t.Fatal("no cleanup after checkpoint 3")
	}
	if ids := <-retained; len(ids) != 1 || ids[0] != 3 {
		t.Fatalf("retained after 3 = %v", ids)
	}

	close(loc.release) // the slow upload of 2 finishes now
	wait("publication of 2", events)
	select { // let the cleanup decided by the late publication run, if there is one
	case paths := <-loc.removed:
		for _, p := range paths {
			if strings.HasSuffix(uri3, p) {
				t.Errorf("the late publication of checkpoint 2 deleted the file of checkpoint 3 (%s)", p)
			}
		}
	case <-time.After(300 * time.Millisecond):
	}
	if got := store.CurrentCheckpoint().GetId(); got != 3 {
		t.Errorf("current checkpoint is %d after the late publication of 2, want 3", got)
	}
	select {
	case ids := <-retained:
		t.Errorf("operators were told to retain only %v after checkpoint 3 had been announced", ids)
	case <-time.After(100 * time.Millisecond):
	}
	if _, err := loc.Read(uri3); err != nil {
		t.Errorf("file of checkpoint 3 is gone: %v", err)
	}
}
