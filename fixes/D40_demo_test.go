package dkv_test

import (
	"testing"

	"reduction.dev/reduction/dkv"
	"reduction.dev/reduction/dkv/recovery"
	"reduction.dev/reduction/dkv/storage"
)

// D40: CheckpointList.RetainOnly marked every checkpoint for removal before it rejected (panicked on) a
// request naming only checkpoints the database does not have. The job sends such a request when a job
// checkpoint taken by the previous deployment is published after the redeploy. The marks survived, so the
// next valid UpdateRetainedCheckpoints destroyed the WAL of the checkpoint it was asked to retain and the
// database could no longer be restored from it ("db.boot: reading wal ... file not found").
func TestVerifD40RejectedRetainRequestDoesNotMarkCheckpoints(t *testing.T) {
	fs := storage.NewMemoryFilesystem()
	db := dkv.Open(dkv.DBOptions{FileSystem: fs}, nil)
	db.Put([]byte("k"), []byte("v"))
	handle, err := db.Checkpoint(3)()
	if err != nil {
		t.Fatal(err)
	}

	func() {
		defer func() { recover() }() // the request is rejected with a panic (an RPC error for the job)
		db.UpdateRetainedCheckpoints([]uint64{2})
	}()
	if err := db.UpdateRetainedCheckpoints([]uint64{3}); err != nil {
		t.Fatal(err)
	}

	func() {
		defer func() {
			if r := recover(); r != nil {
				t.Fatalf("restoring from the retained checkpoint 3 failed: %v", r)
			}
		}()
		restored := dkv.Open(dkv.DBOptions{FileSystem: fs}, []recovery.CheckpointHandle{handle})
		got, err := restored.Get([]byte("k"))
		if err != nil || string(got.Value()) != "v" {
			t.Fatalf("restored Get(k) = %v, %v; want v", got, err)
		}
	}()
}

// D40 (second half): the job announces "retain only N" when the publication of job checkpoint N has finished;
// by then the operator may already have taken its checkpoint for N+1 (a new job checkpoint starts as soon as
// N is complete, before N's file is written). RetainOnly dropped N+1 as well, so once N+1 became the job's
// current checkpoint the operator state could not be restored any more
// ("failed to find indicated checkpoint ID 4 in the checkpoints file").
func TestVerifD40RetainKeepsNewerCheckpoint(t *testing.T) {
	fs := storage.NewMemoryFilesystem()
	db := dkv.Open(dkv.DBOptions{FileSystem: fs}, nil)
	db.Put([]byte("k"), []byte("v3"))
	if _, err := db.Checkpoint(3)(); err != nil {
		t.Fatal(err)
	}
	db.Put([]byte("k"), []byte("v4"))
	handle4, err := db.Checkpoint(4)()
	if err != nil {
		t.Fatal(err)
	}
	if err := db.UpdateRetainedCheckpoints([]uint64{3}); err != nil { // publication of 3 finished late
		t.Fatal(err)
	}
	// the checkpoints document is rewritten by every save; take the handle of the latest one
	handle4b, err := db.Checkpoint(5)()
	if err != nil {
		t.Fatal(err)
	}
	handle4.URI = handle4b.URI

	defer func() {
		if r := recover(); r != nil {
			t.Fatalf("restoring from checkpoint 4 failed: %v", r)
		}
	}()
	restored := dkv.Open(dkv.DBOptions{FileSystem: fs}, []recovery.CheckpointHandle{handle4})
	got, err := restored.Get([]byte("k"))
	if err != nil || string(got.Value()) != "v4" {
		t.Fatalf("restored Get(k) = %v, %v; want v4", got, err)
	}
}
