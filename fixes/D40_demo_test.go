package dkv_test

import (
	"testing"

	"reduction.dev/reduction/dkv"
	"reduction.dev/reduction/dkv/recovery"
	"reduction.dev/reduction/dkv/storage"
)

// D40: CheckpointList.RetainOnly marked every checkpoint for removal before it rejected (panicked on) a
// request naming only checkpoints the database does not have. The job sends such a request when a job
// checkpoint taken by the previous deployment is published after the redeploy. The marks survived, so the
// next valid UpdateRetainedCheckpoints destroyed the WAL of the checkpoint it was asked to retain and the
// database could no longer be restored from it ("db.boot: reading wal ... file not found").
func TestVerifD40RejectedRetainRequestDoesNotMarkCheckpoints(t *testing.T) {
	fs := storage.NewMemoryFilesystem()
	db := dkv.Open(dkv.DBOptions{FileSystem: fs}, nil)
	db.Put([]byte("k"), []byte("v"))
	handle, err := db.Checkpoint(3)()
	if err != nil {
		t.Fatal(err)
	}

	func() {
		defer func() { recover() }() // the request is rejected with a panic (an RPC error for the job)
		db.UpdateRetainedCheckpoints([]uint64{2})
	}()
	if err := db.UpdateRetainedCheckpoints([]uint64{3}); err != nil {
		t.Fatal(err)
	}

	func() {
		defer func() {
			if r := recover(); r != nil {
				t.Fatalf("restoring from the retained checkpoint 3 failed: %v", r)
			}
		}()
		restored := dkv.Open(dkv.DBOptions{FileSystem: fs}, []recovery.CheckpointHandle{handle})
		got, err := restored.Get([]byte("k"))
		if err != nil || string(got.Value()) != "v" {
			t.Fatalf("restored Get(k) = %v, %v; want v", got, err)
		}
	}()
}
