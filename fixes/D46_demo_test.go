//go:build verif

package dkv_test

// D46: DB.NeedsTable read the checkpoint list first and the live level list second. A Checkpoint() that captures the
// live level list and a compaction commit that then drops a table from it, both landing between the two reads, made
// NeedsTable answer "not needed" for a table the new, retained checkpoint references: the neighbour that asked
// deletes the file. Reading the live level list first closes the window: a table that is not live at the first read
// can never become part of a later checkpoint, and one that is live answers "needed" at once.
//
// The interleaving is imposed at the verification hook point "dkv.needstable.between" (build tag verif):
//   cp /verif/fixes/D46_demo_test.go /repo/dkv/verif_d46_demo_test.go
//   cd /repo && GOFLAGS=-mod=mod GOPROXY=off go test -tags verif -vet=off -count=1 -run TestVerifD46 ./dkv/

import (
	"testing"
	"time"

	"reduction.dev/reduction/dkv"
	"reduction.dev/reduction/dkv/storage"
	"reduction.dev/reduction/util/verifhook"
)

func TestVerifD46NeedsTableDuringCheckpointAndCompaction(t *testing.T) {
	fs := storage.NewMemoryFilesystem()
	db := dkv.Open(dkv.DBOptions{FileSystem: fs, MemTableSize: 200, TargetFileSize: 96, L0TableNumCompactionTrigger: 4}, nil)
	comp := db.VerifCompactor()
	comp.SmallestLevelSize = 1
	put := func(round byte) {
		for i := byte(0); i < 12; i++ {
			db.Put([]byte{0, 0, round, i}, []byte("0123456789abcdefghij"))
		}
		if err := db.WaitOnTasks(); err != nil {
			t.Fatal(err)
		}
	}
	liveURIs := func() map[string]bool {
		m := map[string]bool{}
		for _, l := range db.VerifLevels().VerifLayout() {
			for _, ti := range l {
				m[ti.URI] = true
			}
		}
		return m
	}
	put(0)
	if _, err := db.Checkpoint(1)(); err != nil { // an older checkpoint, so the list is never empty
		t.Fatal(err)
	}
	inCkpt1 := liveURIs()
	put(1)
	// a table that is live but in no checkpoint yet
	uri := ""
	for u := range liveURIs() {
		if !inCkpt1[u] && u > uri {
			uri = u
		}
	}
	if uri == "" {
		t.Skip("no new live table to ask about")
	}
	if !db.NeedsTable(uri) {
		t.Fatal("a live table must be needed")
	}

	parked, resume := make(chan struct{}), make(chan struct{})
	verifhook.Set(func(label string, payload []any) {
		if label == "dkv.needstable.between" && len(payload) > 0 && payload[0] == any(db) {
			close(parked)
			<-resume
		}
	})
	defer verifhook.Set(nil)
	answer := make(chan bool, 1)
	go func() { answer <- db.NeedsTable(uri) }()
	select {
	case a := <-answer:
		// the first read already said "needed" (live level list read first): nothing to interleave
		if !a {
			t.Fatal("live table reported as not needed")
		}
		return
	case <-parked:
	case <-time.After(5 * time.Second):
		t.Fatal("NeedsTable neither answered nor reached the hook point")
	}
	verifhook.Set(nil)
	// between the two reads: a checkpoint captures the live level list, then compactions replace the table
	if _, err := db.Checkpoint(2)(); err != nil {
		t.Fatal(err)
	}
	for round := byte(2); round < 12; round++ {
		put(round)
		if !db.VerifLevels().IncludesTable(uri) {
			break
		}
	}
	if db.VerifLevels().IncludesTable(uri) {
		t.Skip("the table was not compacted away")
	}
	close(resume)
	if a := <-answer; !a {
		t.Fatalf("NeedsTable(%s) = false although retained checkpoint 2 references the table", uri)
	}
}
