package kinesis_test

import (
	"sort"
	"strings"
	"testing"
	"time"

	"google.golang.org/protobuf/proto"
	"reduction.dev/reduction/connectors"
	"reduction.dev/reduction/connectors/kinesis"
	"reduction.dev/reduction/connectors/kinesis/kinesisfake"
	"reduction.dev/reduction/connectors/kinesis/kinesispb"
	"reduction.dev/reduction/proto/snapshotpb"
	"reduction.dev/reduction/proto/workerpb"
)

type d16Env struct {
	t      *testing.T
	stream *kinesis.TempStream
	cfg    kinesis.SourceConfig
	ch     chan map[string][]*workerpb.SourceSplit
}

func newD16Env(t *testing.T, shards int) *d16Env {
	srv, _ := kinesisfake.StartFake()
	t.Cleanup(srv.Close)
	client := kinesis.NewLocalClient(srv.URL)
	stream := kinesis.CreateTempStream(t, client, shards)
	return &d16Env{t: t, stream: stream, cfg: kinesis.SourceConfig{StreamARN: stream.StreamARN, Client: client, ShardDiscoveryInterval: time.Millisecond}}
}

func (e *d16Env) splitter() connectors.SourceSplitter {
	e.ch = make(chan map[string][]*workerpb.SourceSplit, 64)
	return e.cfg.NewSourceSplitter([]string{"r0", "r1"}, connectors.SourceSplitterHooks{
		AssignSplits: func(a map[string][]*workerpb.SourceSplit) { e.ch <- a },
	}, make(chan error, 8))
}

// next returns the short ids ("0", "5", ...) of the next AssignSplits call, or nil when none arrives in time.
func (e *d16Env) next(wait time.Duration) []string {
	select {
	case a := <-e.ch:
		var ids []string
		for _, ss := range a {
			for _, s := range ss {
				ids = append(ids, strings.TrimLeft(strings.TrimPrefix(s.SplitId, "shardId-"), "0")+"@"+string(s.Cursor))
			}
		}
		for i := range ids {
			if strings.HasPrefix(ids[i], "@") {
				ids[i] = "0" + ids[i]
			}
		}
		sort.Strings(ids)
		return ids
	case <-time.After(wait):
		return nil
	}
}

func sid(i int) string { return "shardId-" + strings.Repeat("0", 11) + string(rune('0'+i)) }

func cursorState(t *testing.T, shard, cursor string) []byte {
	b, err := proto.Marshal(&kinesispb.Shard{ShardId: shard, Cursor: cursor})
	if err != nil {
		t.Fatal(err)
	}
	return b
}

const mid0 = "42535295865117307932921825928971026432"  // 2^125
const mid1 = "255211775190703847597530955573826158592" // 2^127 + 2^126

// D16a: restoring a splitter from its own checkpoint must not panic and must hand every previously assigned shard
// out exactly once with its checkpointed cursor (D16b).
func TestVerifD16RestoreAssignsEachShardOnceWithCursor(t *testing.T) {
	e := newD16Env(t, 2)
	s1 := e.splitter()
	if err := s1.Start(nil); err != nil {
		t.Fatal(err)
	}
	if got := e.next(2 * time.Second); strings.Join(got, ",") != "0@,1@" {
		t.Fatalf("initial assignment %v", got)
	}
	state := s1.Checkpoint()
	s1.Close()

	s2 := e.splitter()
	err := s2.Start(&snapshotpb.SourceCheckpoint{SplitterState: state, SplitStates: [][]byte{cursorState(t, sid(0), "c0"), cursorState(t, sid(1), "c1")}})
	if err != nil {
		t.Fatal(err)
	}
	defer s2.Close()
	if got := e.next(2 * time.Second); strings.Join(got, ",") != "0@c0,1@c1" {
		t.Fatalf("after restore every assigned shard must be handed out once with its cursor, got %v", got)
	}
}

// D16d: a finished shard must never be handed out again.
func TestVerifD16FinishedShardIsNotReassigned(t *testing.T) {
	e := newD16Env(t, 2)
	s := e.splitter()
	if err := s.Start(nil); err != nil {
		t.Fatal(err)
	}
	defer s.Close()
	e.next(2 * time.Second)                   // 0,1
	e.stream.SplitShard(t, sid(0), mid0)      // -> 2,3
	e.stream.SplitShard(t, sid(1), mid1)      // -> 4,5
	time.Sleep(50 * time.Millisecond)         // discovered, withheld
	s.NotifySplitsFinished("r1", []string{sid(1)})
	if got := e.next(2 * time.Second); strings.Join(got, ",") != "4@,5@" {
		t.Fatalf("children of 1: %v", got)
	}
	s.NotifySplitsFinished("r1", []string{sid(5)}) // reader reached the end of shard 5
	s.NotifySplitsFinished("r0", []string{sid(0)})
	if got := e.next(2 * time.Second); strings.Join(got, ",") != "2@,3@" {
		t.Fatalf("children of 0: %v", got)
	}
	if got := e.next(300 * time.Millisecond); got != nil {
		t.Fatalf("no shard is left to hand out, but the splitter assigned %v again", got)
	}
}
