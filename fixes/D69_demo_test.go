package operator_test

// D69: the operator serves callers that are not among the deployed SourceRunnerIds.
//
// HandleEvent takes the sender id only to align checkpoint barriers; it never checks that the sender is one of the
// source runners of the current deployment. A runner of the previous assembly that is still alive after a redeploy
// (the job replaced it after a missed heartbeat; D39 family) keeps sending with its old id: its events are handed to
// the handler and enter the state and the next checkpoint, its watermark becomes an extra upstream entry of the timer
// registry, and its barrier starts an alignment record. The checkpoint then does not contain "exactly the events each
// upstream source runner delivered before its barrier".
//
// Run (from /repo, with the generated protobuf overlay of /verif):
//   cp /verif/fixes/D69_demo_test.go workers/operator/verif_d69_demo_test.go
//   GOFLAGS=-mod=mod GOPROXY=off go test -overlay /verif/.cache/overlay.json -vet=off -count=1 -run TestVerifD69 ./workers/operator/

import (
	"context"
	"testing"
	"time"

	"reduction.dev/reduction-protocol/handlerpb"
	"reduction.dev/reduction/connectors/embedded"
	"reduction.dev/reduction/proto/jobpb"
	"reduction.dev/reduction/proto/workerpb"
	"reduction.dev/reduction/workers/operator"
	"reduction.dev/reduction/workers/workerstest"
)

func TestVerifD69UndeployedSenderIsRefused(t *testing.T) {
	handler := &workerstest.RecordingHandler{}
	op := operator.NewOperator(operator.NewOperatorParams{ID: "op1", UserHandler: handler, Job: &workerstest.DummyJob{}})
	go op.Start(context.Background())
	defer op.Stop()
	ctx := context.Background()
	if err := op.HandleDeploy(ctx, &workerpb.DeployOperatorRequest{
		Operators:       []*jobpb.NodeIdentity{{Id: "op1", Host: "h"}},
		SourceRunnerIds: []string{"sr1", "sr2"},
		KeyGroupCount:   256,
		StorageLocation: t.TempDir(),
	}, &embedded.RecordingSink{}); err != nil {
		t.Fatal(err)
	}
	event := func(key string) *workerpb.Event {
		return &workerpb.Event{Event: &workerpb.Event_KeyedEvent{KeyedEvent: &handlerpb.KeyedEvent{Key: []byte(key)}}}
	}
	// wait until the operator is ready
	var err error
	for deadline := time.Now().Add(2 * time.Second); time.Now().Before(deadline); time.Sleep(5 * time.Millisecond) {
		if err = op.HandleEvent(ctx, "sr1", event("from-sr1")); err == nil {
			break
		}
	}
	if err != nil {
		t.Fatal(err)
	}

	// a runner of the previous deployment, not among the SourceRunnerIds of this one
	err = op.HandleEvent(ctx, "sr-of-previous-deployment", event("from-ghost"))
	if err == nil {
		t.Errorf("an event of a sender that is not a source runner of this deployment was accepted")
	}
	for _, req := range handler.ProcessEventBatchRequests {
		for _, e := range req.Events {
			if string(e.GetKeyedEvent().GetKey()) == "from-ghost" {
				t.Errorf("the event of the undeployed sender reached the handler (and with it the state and the next checkpoint)")
			}
		}
	}
}
