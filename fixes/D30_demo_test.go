package sst_test

import (
	"encoding/json"
	"slices"
	"testing"

	"reduction.dev/reduction/dkv/kv"
	"reduction.dev/reduction/dkv/sst"
	"reduction.dev/reduction/dkv/storage"
)

type d30Entry struct{ k, v []byte }

func (e d30Entry) Key() []byte    { return e.k }
func (e d30Entry) Value() []byte  { return e.v }
func (e d30Entry) IsDelete() bool { return false }
func (e d30Entry) SeqNum() uint64 { return 1 }

// D30: TableDocument stored the start and end keys as JSON strings. Keys are arbitrary bytes
// (operator keys start with a big-endian key group), and encoding/json replaces invalid UTF-8 with
// U+FFFD, so a table re-opened from a saved checkpoint document had a different key range and
// level lookups skipped it.
func TestVerifD30DocumentKeepsBinaryRangeKeysThroughJSON(t *testing.T) {
	fs := storage.NewMemoryFilesystem()
	k1 := []byte{0x80, 0x01, 0x00, 'a'}
	k2 := []byte{0x80, 0x02, 0x00, 'b'}
	tb, err := sst.NewTableWriter(fs, 0).Write(slices.Values([]kv.Entry{d30Entry{k1, []byte("x")}, d30Entry{k2, []byte("y")}}))
	if err != nil {
		t.Fatal(err)
	}
	data, err := json.Marshal(tb.Document())
	if err != nil {
		t.Fatal(err)
	}
	var doc sst.TableDocument
	if err := json.Unmarshal(data, &doc); err != nil {
		t.Fatal(err)
	}
	reopened := sst.NewTableFromDocument(fs, &kv.AllDataOwnership{}, doc)
	for _, k := range [][]byte{k1, k2} {
		if !reopened.RangeContainsKey(k) {
			t.Fatalf("table re-opened from its JSON document no longer covers key %x (document %s)", k, data)
		}
	}
}
