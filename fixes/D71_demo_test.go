//go:build verif

package jobs_test

// D71: a source runner that stops answering right after its Deploy returned wedges the job's task queue.
//
// Job.start() hands the source splitter an AssignSplits hook that posts `j.assembly.AssignSplits(assignments)` as a
// TASK of the job's serial queue; Assembly.AssignSplits fans the call out with context.Background() and waits for
// every runner. If one runner never answers (the worker died or hung after acknowledging its Deploy; the clients have
// no request timeout), that task never returns: the Running task queued behind it never runs, and no registration,
// deregistration or heartbeat expiry is ever processed again. The job stays Starting on the dead assembly.
// (Deploy, StartCheckpoint and UpdateRetainedCheckpoints are issued off the queue and do not have this effect.)
//
// Run (from /repo, with the generated protobuf overlay of /verif; the accessors used are build-tagged):
//   cp /verif/fixes/D71_demo_test.go jobs/verif_d71_demo_test.go
//   GOFLAGS=-mod=mod GOPROXY=off go test -tags verif -overlay /verif/.cache/overlay.json -vet=off -count=1 -run TestVerifD71 ./jobs/

import (
	"context"
	"testing"
	"time"

	"reduction.dev/reduction-protocol/jobconfigpb"
	"reduction.dev/reduction/clocks"
	"reduction.dev/reduction/config"
	"reduction.dev/reduction/connectors"
	"reduction.dev/reduction/jobs"
	"reduction.dev/reduction/proto"
	"reduction.dev/reduction/proto/jobpb"
	"reduction.dev/reduction/proto/snapshotpb"
	"reduction.dev/reduction/proto/workerpb"
	"reduction.dev/reduction/storage/locations"
	"reduction.dev/reduction/storage/objstore"
)

type d71Op struct {
	proto.UnimplementedOperator
	id string
}

func (o *d71Op) ID() string                                                    { return o.id }
func (o *d71Op) Host() string                                                  { return "h" }
func (o *d71Op) Deploy(context.Context, *workerpb.DeployOperatorRequest) error { return nil }
func (o *d71Op) UpdateRetainedCheckpoints(context.Context, []uint64) error     { return nil }

// the runner answers its Deploy and then never answers again
type d71Sr struct {
	proto.UnimplementedSourceRunner
	id   string
	hang chan struct{}
}

func (s *d71Sr) ID() string                                                        { return s.id }
func (s *d71Sr) Host() string                                                      { return "h" }
func (s *d71Sr) Deploy(context.Context, *workerpb.DeploySourceRunnerRequest) error { return nil }
func (s *d71Sr) StartCheckpoint(context.Context, uint64) error                     { return nil }
func (s *d71Sr) AssignSplits(ctx context.Context, _ []*workerpb.SourceSplit) error {
	<-s.hang
	return nil
}

type d71Source struct{}

func (d71Source) Validate() error { return nil }
func (d71Source) NewSourceSplitter(ids []string, hooks connectors.SourceSplitterHooks, errChan chan<- error) connectors.SourceSplitter {
	return &d71Splitter{ids: ids, hooks: hooks}
}
func (d71Source) NewSourceReader(connectors.SourceReaderHooks) connectors.SourceReader {
	panic("unused")
}
func (d71Source) ProtoMessage() *jobconfigpb.Source { return &jobconfigpb.Source{} }

type d71Splitter struct {
	connectors.UnimplementedSourceSplitter
	ids   []string
	hooks connectors.SourceSplitterHooks
}

func (*d71Splitter) IsSourceSplitter() {}
func (s *d71Splitter) Start(*snapshotpb.SourceCheckpoint) error {
	as := map[string][]*workerpb.SourceSplit{}
	for _, id := range s.ids {
		as[id] = []*workerpb.SourceSplit{{SplitId: "0", SourceId: "s"}}
	}
	s.hooks.AssignSplits(as) // what every real splitter does when it starts
	return nil
}
func (*d71Splitter) Close() error                          { return nil }
func (*d71Splitter) NotifySplitsFinished(string, []string) {}
func (*d71Splitter) Checkpoint() []byte                    { return nil }

func TestVerifD71UnresponsiveRunnerDoesNotWedgeTheJob(t *testing.T) {
	hang := make(chan struct{})
	defer close(hang)
	loc, err := locations.NewS3Location(objstore.NewMemoryS3Service(), "s3://bucket/job")
	if err != nil {
		t.Fatal(err)
	}
	job, err := jobs.New(&jobs.NewParams{
		JobConfig: &config.Config{WorkerCount: 1, KeyGroupCount: 8, WorkingStorageLocation: "memory:///d71", Sources: []connectors.SourceConfig{d71Source{}}},
		Clock:     clocks.NewFrozenClock(), Store: loc, ErrChan: make(chan error, 8),
		OperatorFactory:     func(_ string, n *jobpb.NodeIdentity) proto.Operator { return &d71Op{id: n.Id} },
		SourceRunnerFactory: func(n *jobpb.NodeIdentity) proto.SourceRunner { return &d71Sr{id: n.Id, hang: hang} },
	})
	if err != nil {
		t.Fatal(err)
	}
	job.HandleRegisterOperator(&jobpb.NodeIdentity{Id: "op-a", Host: "h"})
	job.HandleRegisterSourceRunner(&jobpb.NodeIdentity{Id: "sr-a", Host: "h"})
	time.Sleep(50 * time.Millisecond) // the deployment went out; sr-a answered Deploy and is silent from now on

	// the dead runner's worker is noticed and deregistered; a replacement registers: the job must take notice
	done := make(chan struct{})
	go func() {
		defer close(done)
		job.HandleDeregisterSourceRunner(&jobpb.NodeIdentity{Id: "sr-a", Host: "h"})
		job.HandleRegisterSourceRunner(&jobpb.NodeIdentity{Id: "sr-b", Host: "h"})
	}()
	select {
	case <-done:
	case <-time.After(2 * time.Second):
		t.Fatalf("the job's task queue is stuck behind AssignSplits to the unresponsive runner (status %s): membership changes are not processed any more", job.VerifStatusC15())
	}
}
