package dkv_test

// D24: DB.NeedsTable answered from Checkpoint.tableURIset, which only checkpoints loaded from a document have.
// After its first own checkpoint and a retention update that drops the restored checkpoint, an instance denied
// needing a shared table that its new checkpoint and its live level list still use; the neighbour that asked
// then deleted the file.
//
// Run: cp /verif/fixes/D24_demo_test.go /repo/dkv/verif_d24_demo_test.go
//      cd /repo && GOFLAGS=-mod=mod GOPROXY=off go test -vet=off -count=1 -run TestVerifD24 ./dkv/

import (
	"runtime"
	"testing"
	"time"

	"reduction.dev/reduction/dkv"
	"reduction.dev/reduction/dkv/dkvtest"
	"reduction.dev/reduction/dkv/recovery"
	"reduction.dev/reduction/dkv/storage"
)

func d24GC() {
	for i := 0; i < 3; i++ {
		runtime.GC()
		runtime.Gosched()
		time.Sleep(20 * time.Millisecond)
	}
}

type d24AskOwnership struct{ other func(uri string) bool }

func (o *d24AskOwnership) OwnsKey(key []byte) bool { return true }
func (o *d24AskOwnership) ExclusivelyOwnsTable(uri string, s, e []byte) (bool, error) {
	return !o.other(uri), nil
}

func TestVerifD24NeighbourStillNeedsSharedTable(t *testing.T) {
	entryList := dkvtest.SequentialEntriesList(100)
	root := storage.NewMemoryFilesystem()
	xOpts := dkv.DBOptions{FileSystem: root.WithWorkingDir("x"), MemTableSize: uint64(entryList.Size) / 2}
	x := dkv.Open(xOpts, nil)
	for _, e := range entryList.Entries {
		x.Put(e.Key(), e.Value())
	}
	x.WaitOnTasks()
	h, err := x.Checkpoint(1)()
	if err != nil {
		t.Fatal(err)
	}
	defer runtime.KeepAlive(x) // x's process "crashed": its objects never run cleanups

	var b *dkv.DB
	a := dkv.Open(dkv.DBOptions{FileSystem: root.WithWorkingDir("a"), DataOwnership: &d24AskOwnership{other: func(uri string) bool { return b.NeedsTable(uri) }}}, []recovery.CheckpointHandle{h})
	b = dkv.Open(dkv.DBOptions{FileSystem: root.WithWorkingDir("b"), DataOwnership: &d24AskOwnership{other: func(uri string) bool { return true }}}, []recovery.CheckpointHandle{h})
	uri := "memory:///x/000000.sst"
	t.Log("b needs before:", b.NeedsTable(uri), root.List())
	if _, err := b.Checkpoint(2)(); err != nil {
		t.Fatal(err)
	}
	if err := b.UpdateRetainedCheckpoints([]uint64{2}); err != nil {
		t.Fatal(err)
	}
	t.Log("b needs after retain [2]:", b.NeedsTable(uri))
	_ = a
	a = nil // a is released (or compacts the shared table away)
	d24GC()
	t.Log("files", root.List())
	for _, entry := range entryList.Entries {
		if _, err := b.Get(entry.Key()); err != nil {
			t.Fatalf("b get: %v", err)
		}
	}
}
