package snapshots_test

import (
	"strings"
	"testing"
	"time"

	"reduction.dev/reduction/connectors"
	"reduction.dev/reduction/proto/jobpb"
	"reduction.dev/reduction/storage/locations"
	"reduction.dev/reduction/storage/snapshots"
)

type d65Splitter struct{ connectors.UnimplementedSourceSplitter }

func (*d65Splitter) Checkpoint() []byte { return nil }

// d65SlowCopy delays the copy of the job checkpoint file into the savepoint directory until released
type d65SlowCopy struct {
	*locations.LocalDirectory
	release chan struct{}
	removed chan struct{}
}

func (l *d65SlowCopy) Copy(src, dst string) error {
	if strings.HasSuffix(dst, "job.savepoint") {
		<-l.release
	}
	return l.LocalDirectory.Copy(src, dst)
}
func (l *d65SlowCopy) Remove(paths ...string) error {
	err := l.LocalDirectory.Remove(paths...)
	l.removed <- struct{}{}
	return err
}

// D65: a savepoint is requested and its checkpoint is published. The publisher goroutine creates the savepoint
// artifact AFTER the store's lock section and copies the job checkpoint file last. If the next checkpoint is
// published meanwhile, its cleanup removes that job file (the savepoint's checkpoint is obsolete by then), the copy
// fails, the error goes to the store's errChan (never set by NewStore: the goroutine blocks forever) and the
// savepoint silently never exists.
func TestVerifD65SavepointArtifactSurvivesNextCheckpoint(t *testing.T) {
	loc := &d65SlowCopy{LocalDirectory: locations.NewLocalDirectory(t.TempDir()), release: make(chan struct{}), removed: make(chan struct{}, 4)}
	events := make(chan string, 4)
	store := snapshots.NewStore(&snapshots.NewStoreParams{FileStore: loc, SavepointsPath: "savepoints", CheckpointsPath: "checkpoints", CheckpointEvents: events})
	store.RegisterSourceSplitter(&d65Splitter{})
	id, _, err := store.CreateSavepoint(nil, []string{"sr1"})
	if err != nil {
		t.Fatal(err)
	}
	store.AddSourceSnapshot(&jobpb.SourceRunnerCheckpointCompleteRequest{CheckpointId: id, SourceRunnerId: "sr1"})
	// the savepoint's publication is now copying files; the next periodic checkpoint completes meanwhile
	deadline := time.Now().Add(5 * time.Second)
	for store.CurrentCheckpoint().GetId() != id && time.Now().Before(deadline) {
		time.Sleep(time.Millisecond)
	}
	id2, err := store.CreateCheckpoint(nil, []string{"sr1"})
	if err != nil {
		t.Fatal(err)
	}
	store.AddSourceSnapshot(&jobpb.SourceRunnerCheckpointCompleteRequest{CheckpointId: id2, SourceRunnerId: "sr1"})
	<-events // checkpoint 2 published
	<-loc.removed
	close(loc.release)
	select {
	case <-events:
	case <-time.After(time.Second):
	}
	if _, err := store.SavepointURIForID(id); err != nil {
		t.Fatalf("savepoint %d was requested and its checkpoint published, but the artifact does not exist: %v", id, err)
	}
}
