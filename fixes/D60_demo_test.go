package snapshots_test

import (
	"errors"
	"io"
	"os"
	"path/filepath"
	"testing"
	"time"

	"reduction.dev/reduction/connectors"
	"reduction.dev/reduction/proto/jobpb"
	"reduction.dev/reduction/proto/snapshotpb"
	"reduction.dev/reduction/storage/locations"
	"reduction.dev/reduction/storage/snapshots"
)

type d60Splitter struct {
	connectors.UnimplementedSourceSplitter
}

func (*d60Splitter) Checkpoint() []byte { return nil }

// d60Publish runs a store over a fresh directory up to checkpoint n and returns the directory and the file of n.
func d60Publish(t *testing.T, n uint64) (root, file string) {
	t.Helper()
	root = t.TempDir()
	events := make(chan string, 1)
	s := snapshots.NewStore(&snapshots.NewStoreParams{FileStore: locations.NewLocalDirectory(root), SavepointsPath: "savepoints", CheckpointsPath: "checkpoints", CheckpointEvents: events})
	s.RegisterSourceSplitter(&d60Splitter{})
	for want := uint64(1); want <= n; want++ {
		id, err := s.CreateCheckpoint([]string{"op1"}, []string{"sr1"})
		if err != nil || id != want {
			t.Fatalf("create: id=%d err=%v", id, err)
		}
		s.AddOperatorSnapshot(&snapshotpb.OperatorCheckpoint{CheckpointId: id, OperatorId: "op1", DkvFileUri: "op1/checkpoints"})
		s.AddSourceSnapshot(&jobpb.SourceRunnerCheckpointCompleteRequest{CheckpointId: id, SourceRunnerId: "sr1", SplitStates: [][]byte{[]byte("position")}})
		select {
		case file = <-events:
		case <-time.After(5 * time.Second):
			t.Fatal("not published")
		}
	}
	return root, file
}

// dyingReader delivers the first part of the data and then fails: the writer is lost in the middle of the write.
type dyingReader struct{ data []byte }

func (r *dyingReader) Read(p []byte) (int, error) {
	if len(r.data) == 0 {
		return 0, errors.New("job process lost")
	}
	n := copy(p, r.data)
	r.data = r.data[n:]
	return n, nil
}

// D60: the job process is lost while the file of checkpoint 2 is being written. The complete file of checkpoint 1
// is still in the storage (its removal is only decided after the write). A restart must resume from checkpoint 1,
// the newest COMPLETED one — not fail on, or resume from, a cut-off file of checkpoint 2.
func TestVerifD60RestartAfterCrashDuringSnapshotWrite(t *testing.T) {
	_, file2 := d60Publish(t, 2)
	full, err := os.ReadFile(file2)
	if err != nil {
		t.Fatal(err)
	}
	for _, cut := range []int{0, len(full) / 2, len(full) - 1} {
		root, _ := d60Publish(t, 1)
		dir := locations.NewLocalDirectory(root)
		// the publication of checkpoint 2 gets as far as `cut` bytes into fileStore.Write
		dir.Write(filepath.Join("checkpoints", filepath.Base(file2)), io.Reader(&dyingReader{data: full[:cut]}))

		func() {
			defer func() {
				if p := recover(); p != nil {
					t.Errorf("write of checkpoint 2 interrupted after %d of %d bytes: LoadCheckpoint panics: %v", cut, len(full), p)
				}
			}()
			restarted := snapshots.NewStore(&snapshots.NewStoreParams{FileStore: dir, SavepointsPath: "savepoints", CheckpointsPath: "checkpoints"})
			if err := restarted.LoadCheckpoint(); err != nil {
				t.Errorf("write of checkpoint 2 interrupted after %d of %d bytes: the job cannot start any more: LoadCheckpoint: %v", cut, len(full), err)
				return
			}
			if got := restarted.CurrentCheckpoint().GetId(); got != 1 {
				t.Errorf("write of checkpoint 2 interrupted after %d of %d bytes: resumed from checkpoint %d, want the newest complete checkpoint 1", cut, len(full), got)
			}
		}()
	}
}
