package dkv_test

// D25 (open finding): tables written by an instance (sst.NewTable) register an unconditional delete-on-GC cleanup.
// When the DB object is released in the same process (operator redeploy: Operator.HandleDeploy replaces o.db) its
// Table objects become unreachable, the next garbage collection deletes their files, although the retained
// checkpoint document on disk - and the instance that was just reopened from it - reference them.
// Tables loaded from a document whose key range lies inside the operator's own range behave the same way
// (ExclusivelyOwnsTable answers true without asking anybody).
//
// Run: cp /verif/fixes/D25_demo_test.go /repo/dkv/verif_d25_demo_test.go
//      cd /repo && GOFLAGS=-mod=mod GOPROXY=off go test -vet=off -count=1 -run TestVerifD25 ./dkv/
// Fails on the current tree (not repaired: file lifetime is tied to object lifetime by design).

import (
	"runtime"
	"testing"
	"time"

	"reduction.dev/reduction/dkv"
	"reduction.dev/reduction/dkv/dkvtest"
	"reduction.dev/reduction/dkv/recovery"
	"reduction.dev/reduction/dkv/storage"
)

func d25GC() {
	for i := 0; i < 3; i++ {
		runtime.GC()
		runtime.Gosched()
		time.Sleep(20 * time.Millisecond)
	}
}

func TestVerifD25InProcessRedeployKeepsCheckpointTables(t *testing.T) {
	entryList := dkvtest.SequentialEntriesList(100)
	fs := storage.NewMemoryFilesystem()
	dbOptions := dkv.DBOptions{FileSystem: fs, MemTableSize: uint64(entryList.Size) / 2}
	db := dkv.Open(dbOptions, nil)
	for _, e := range entryList.Entries {
		db.Put(e.Key(), e.Value())
	}
	if err := db.WaitOnTasks(); err != nil {
		t.Fatal(err)
	}
	ckpt, err := db.Checkpoint(1)()
	if err != nil {
		t.Fatal(err)
	}
	db.WaitOnTasks()
	t.Log("files before", fs.List())
	db = dkv.Open(dbOptions, []recovery.CheckpointHandle{ckpt})
	d25GC()
	t.Log("files after redeploy+GC", fs.List())
	for _, entry := range entryList.Entries {
		_, err := db.Get(entry.Key())
		if err != nil {
			t.Fatalf("get after in-process redeploy: %v", err)
		}
	}
}

