package operator_test

// D15: in-flight checkpoint state outlives the deployment it belongs to, so after a failure that strikes while a
// checkpoint is in progress no checkpoint ever completes again.
//
//   * snapshots.Store kept the pending snapshot of the previous deployment (CreateCheckpoint answered
//     ErrCheckpointInProgress forever) and collected one source splitter per deployment (finishSnapshot then
//     panicked with "only one source splitter is supported" on the first completion after ANY redeploy);
//   * operator.Operator kept its half-aligned checkpoint record across HandleDeploy, so the next barrier was
//     rejected ("checkpoint ID mismatch") and senders that had already delivered the old barrier parked forever.
//
// Run (from /repo, with the generated protobuf overlay of /verif):
//   cp /verif/fixes/D15_demo_test.go workers/operator/verif_d15_demo_test.go
//   GOFLAGS=-mod=mod GOPROXY=off go test -overlay /verif/.cache/overlay.json -vet=off -count=1 -run TestVerifD15 ./workers/operator/

import (
	"context"
	"testing"
	"time"

	"reduction.dev/reduction/connectors"
	"reduction.dev/reduction/connectors/embedded"
	"reduction.dev/reduction/proto/jobpb"
	"reduction.dev/reduction/proto/snapshotpb"
	"reduction.dev/reduction/proto/workerpb"
	"reduction.dev/reduction/storage/locations"
	"reduction.dev/reduction/storage/objstore"
	"reduction.dev/reduction/storage/snapshots"
	"reduction.dev/reduction/workers/operator"
	"reduction.dev/reduction/workers/workerstest"
)

type d15Splitter struct {
	connectors.UnimplementedSourceSplitter
}

func (*d15Splitter) IsSourceSplitter()  {}
func (*d15Splitter) Checkpoint() []byte { return nil }

func TestVerifD15StoreCheckpointsAgainAfterRedeploy(t *testing.T) {
	loc, err := locations.NewS3Location(objstore.NewMemoryS3Service(), "s3://bucket/job")
	if err != nil {
		t.Fatal(err)
	}
	store := snapshots.NewStore(&snapshots.NewStoreParams{FileStore: loc, CheckpointsPath: "checkpoints", SavepointsPath: "savepoints", ErrChan: make(chan error, 4)})

	// first deployment; source runner sr2 dies while checkpoint 1 is pending
	store.RegisterSourceSplitter(&d15Splitter{})
	id, err := store.CreateCheckpoint([]string{"op1"}, []string{"sr1", "sr2"})
	if err != nil || id != 1 {
		t.Fatalf("first checkpoint: id=%d err=%v", id, err)
	}
	if err := store.AddSourceSnapshot(&jobpb.SourceRunnerCheckpointCompleteRequest{CheckpointId: 1, SourceRunnerId: "sr1"}); err != nil {
		t.Fatal(err)
	}

	// the job redeploys with sr3 (Job.start registers the new deployment's splitter)
	store.RegisterSourceSplitter(&d15Splitter{})
	id, err = store.CreateCheckpoint([]string{"op1"}, []string{"sr1", "sr3"})
	if err != nil {
		t.Fatalf("checkpointing never resumes after the redeploy: %v", err)
	}
	for _, sr := range []string{"sr1", "sr3"} {
		if err := store.AddSourceSnapshot(&jobpb.SourceRunnerCheckpointCompleteRequest{CheckpointId: id, SourceRunnerId: sr}); err != nil {
			t.Fatal(err)
		}
	}
	func() {
		defer func() {
			if p := recover(); p != nil {
				t.Fatalf("completing the first checkpoint after a redeploy panicked: %v", p)
			}
		}()
		if err := store.AddOperatorSnapshot(&snapshotpb.OperatorCheckpoint{CheckpointId: id, OperatorId: "op1", KeyGroupRange: &snapshotpb.KeyGroupRange{Start: 0, End: 8}}); err != nil {
			t.Fatal(err)
		}
	}()
	deadline := time.Now().Add(5 * time.Second)
	for time.Now().Before(deadline) {
		if cur := store.CurrentCheckpoint(); cur != nil && cur.Id == id {
			return
		}
		time.Sleep(time.Millisecond)
	}
	t.Fatalf("checkpoint %d was never published", id)
}

func TestVerifD15OperatorAlignsAgainAfterRedeploy(t *testing.T) {
	job := &workerstest.DummyJob{}
	op := operator.NewOperator(operator.NewOperatorParams{ID: "op1", UserHandler: &workerstest.SummingHandler{}, Job: job})
	go op.Start(context.Background())
	defer op.Stop()

	deploy := func(srs ...string) {
		t.Helper()
		if err := op.HandleDeploy(context.Background(), &workerpb.DeployOperatorRequest{
			Operators:       []*jobpb.NodeIdentity{{Id: "op1", Host: "h"}},
			SourceRunnerIds: srs,
			KeyGroupCount:   8,
			StorageLocation: "memory:///d15",
		}, &embedded.RecordingSink{}); err != nil {
			t.Fatal(err)
		}
	}
	barrier := func(sender string, id uint64) error {
		res := make(chan error, 1)
		go func() {
			res <- op.HandleEvent(context.Background(), sender, &workerpb.Event{Event: &workerpb.Event_CheckpointBarrier{CheckpointBarrier: &workerpb.CheckpointBarrier{CheckpointId: id}}})
		}()
		select {
		case err := <-res:
			return err
		case <-time.After(2 * time.Second):
			t.Fatalf("barrier %d from %s is parked forever behind the abandoned checkpoint", id, sender)
			return nil
		}
	}

	deploy("sr1", "sr2")
	var err error
	for i := 0; i < 200; i++ { // the event loop starts asynchronously
		if err = barrier("sr1", 1); err == nil {
			break
		}
		time.Sleep(time.Millisecond)
	}
	if err != nil {
		t.Fatal(err)
	}

	// sr2 died before sending barrier 1; the job redeploys the surviving operator with sr3
	deploy("sr1", "sr3")
	if err := barrier("sr1", 2); err != nil {
		t.Fatalf("first barrier after the redeploy: %v", err)
	}
	if err := barrier("sr3", 2); err != nil {
		t.Fatalf("second barrier after the redeploy: %v", err)
	}
	if job.OperatorCheckpoint == nil || job.OperatorCheckpoint.CheckpointId != 2 {
		t.Fatalf("operator did not complete checkpoint 2: %v", job.OperatorCheckpoint)
	}
}
