package operator_test

// D43: a sender parked behind its own checkpoint barrier is never woken when the operator is redeployed.
//
// alignSender parks a sender that already delivered barrier N on the checkpoint's allBarriersReceived channel.
// HandleDeploy drops the half-aligned checkpoint of the previous deployment (fix D15) but nobody closes that
// channel, so the parked HandleEvent call (an RPC handler goroutine on the operator, and the calling goroutine
// of an in-process sender) blocks forever. Merely closing the channel would be worse: the woken call would
// enqueue an event of the OLD deployment into the NEW deployment's state (the sources replay it after the
// restore, so it would be applied twice). The repair wakes the parked callers with an error instead.
//
// The same bookkeeping also removes the "close of closed channel" panic of a repeated barrier N on a
// checkpoint whose acknowledgement to the job failed (the completed record stays until the redeploy).
//
// Run (from /repo, with the generated protobuf overlay of /verif):
//   cp /verif/fixes/D43_demo_test.go workers/operator/verif_d43_demo_test.go
//   GOFLAGS=-mod=mod GOPROXY=off go test -overlay /verif/.cache/overlay.json -vet=off -count=1 -run TestVerifD43 ./workers/operator/

import (
	"context"
	"errors"
	"testing"
	"time"

	"reduction.dev/reduction-protocol/handlerpb"
	"reduction.dev/reduction/connectors/embedded"
	"reduction.dev/reduction/proto/jobpb"
	"reduction.dev/reduction/proto/snapshotpb"
	"reduction.dev/reduction/proto/workerpb"
	"reduction.dev/reduction/workers/operator"
	"reduction.dev/reduction/workers/workerstest"
)

func d43Operator(t *testing.T, job *d43Job, handler *workerstest.RecordingHandler, srIDs []string) (*operator.Operator, func()) {
	op := operator.NewOperator(operator.NewOperatorParams{ID: "op1", UserHandler: handler, Job: job})
	go op.Start(context.Background())
	deploy := func() {
		if err := op.HandleDeploy(context.Background(), &workerpb.DeployOperatorRequest{
			Operators:       []*jobpb.NodeIdentity{{Id: "op1", Host: "h"}},
			SourceRunnerIds: srIDs,
			KeyGroupCount:   256,
			StorageLocation: t.TempDir(),
		}, &embedded.RecordingSink{}); err != nil {
			t.Fatal(err)
		}
	}
	deploy()
	return op, deploy
}

type d43Job struct {
	workerstest.DummyJob
	failAck bool
}

func (j *d43Job) OperatorCheckpointComplete(ctx context.Context, req *snapshotpb.OperatorCheckpoint) error {
	if j.failAck {
		return errors.New("job unreachable")
	}
	return nil
}

func d43Barrier(id uint64) *workerpb.Event {
	return &workerpb.Event{Event: &workerpb.Event_CheckpointBarrier{CheckpointBarrier: &workerpb.CheckpointBarrier{CheckpointId: id}}}
}

func d43Event(key string) *workerpb.Event {
	return &workerpb.Event{Event: &workerpb.Event_KeyedEvent{KeyedEvent: &handlerpb.KeyedEvent{Key: []byte(key)}}}
}

func d43Eventually(t *testing.T, what string, f func() error) {
	var err error
	for deadline := time.Now().Add(2 * time.Second); time.Now().Before(deadline); time.Sleep(5 * time.Millisecond) {
		if err = f(); err == nil {
			return
		}
	}
	t.Fatalf("%s: %v", what, err)
}

func TestVerifD43ParkedSenderIsWokenByRedeploy(t *testing.T) {
	handler := &workerstest.RecordingHandler{}
	op, redeploy := d43Operator(t, &d43Job{}, handler, []string{"sr1", "sr2"})
	defer op.Stop()
	ctx := context.Background()

	d43Eventually(t, "first event", func() error { return op.HandleEvent(ctx, "sr1", d43Event("before")) })
	if err := op.HandleEvent(ctx, "sr1", d43Barrier(1)); err != nil {
		t.Fatal(err)
	}
	// sr1 delivered barrier 1; its next event parks until sr2's barrier arrives
	parked := make(chan error, 1)
	go func() { parked <- op.HandleEvent(ctx, "sr1", d43Event("after-barrier")) }()
	select {
	case err := <-parked:
		t.Fatalf("post-barrier event was not held back: %v", err)
	case <-time.After(100 * time.Millisecond):
	}

	// sr2 never sends its barrier: the job redeploys the assembly
	redeploy()

	select {
	case err := <-parked:
		if err == nil {
			t.Fatalf("an event of the previous deployment was accepted by the new deployment")
		}
	case <-time.After(2 * time.Second):
		t.Fatalf("the HandleEvent call parked on the abandoned checkpoint never returns after the redeploy")
	}
	for _, req := range handler.ProcessEventBatchRequests {
		for _, e := range req.Events {
			if string(e.GetKeyedEvent().GetKey()) == "after-barrier" {
				t.Fatalf("the parked event of the previous deployment reached the handler after the redeploy")
			}
		}
	}
	// the new deployment aligns and checkpoints normally
	if err := op.HandleEvent(ctx, "sr1", d43Barrier(2)); err != nil {
		t.Fatal(err)
	}
	if err := op.HandleEvent(ctx, "sr2", d43Barrier(2)); err != nil {
		t.Fatal(err)
	}
}

func TestVerifD43RepeatedBarrierAfterFailedAckDoesNotPanic(t *testing.T) {
	job := &d43Job{failAck: true}
	op, _ := d43Operator(t, job, &workerstest.RecordingHandler{}, []string{"sr1"})
	defer op.Stop()
	ctx := context.Background()
	d43Eventually(t, "first event", func() error { return op.HandleEvent(ctx, "sr1", d43Event("k")) })
	if err := op.HandleEvent(ctx, "sr1", d43Barrier(1)); err == nil {
		t.Fatal("expected the failed acknowledgement to be reported to the sender")
	}
	done := make(chan error, 1)
	go func() { done <- op.HandleEvent(ctx, "sr1", d43Barrier(1)) }() // the sender retries its batch
	select {
	case <-done: // any answer is fine; before the repair the operator process died with "close of closed channel"
	case <-time.After(2 * time.Second):
		t.Fatal("retried barrier never answered")
	}
}
