package dkv_test

import (
	"fmt"
	"runtime"
	"testing"

	"reduction.dev/reduction/dkv"
	"reduction.dev/reduction/dkv/recovery"
	"reduction.dev/reduction/dkv/storage"
)

// D67: a database restored from checkpoint 1 numbers its new table files above the tables of
// checkpoint 1 only. Checkpoint 2, taken later by the previous instance and still retained by the
// job, references table files with higher numbers: the restored instance's first flush reuses such a
// number and overwrites the file. Restoring from handle 2 afterwards succeeds and silently returns
// the wrong contents (a write made after checkpoint 2 appears, a write made before it is gone).
//
// Copy into /repo/dkv and run: go test -mod=mod -vet=off -count=1 -run TestVerifD67 ./dkv/
func TestVerifD67NewerRetainedCheckpointSurvivesRestoreFromOlder(t *testing.T) {
	fs := storage.NewMemoryFilesystem()
	opts := dkv.DBOptions{FileSystem: fs, MemTableSize: 1 << 20}

	db1 := dkv.Open(opts, nil)
	db1.Put([]byte("a"), []byte("1"))
	h1 := verifD67Checkpoint(t, db1, 1) // nothing flushed yet: checkpoint 1 references no table
	db1.Put([]byte("b"), []byte("2"))
	verifD67Flush(t, db1) // 000000.sst (and what compaction makes of it) holds a, b
	h2 := verifD67Checkpoint(t, db1, 2)
	if err := db1.UpdateRetainedCheckpoints([]uint64{1, 2}); err != nil {
		t.Fatal(err)
	}

	// the job falls back to checkpoint 1 (same directory), writes and flushes
	db2 := dkv.Open(opts, []recovery.CheckpointHandle{h1})
	db2.Put([]byte("c"), []byte("3"))
	verifD67Flush(t, db2)

	// checkpoint 2 was never given up by the job: it must still restore a, b
	got, err := verifD67Contents(opts, h2)
	if err != nil {
		t.Fatalf("restore from retained checkpoint 2: %v", err)
	}
	if want := "a=1 b=2 zz-filler "; got != want {
		t.Errorf("restore from retained checkpoint 2: got %q, want %q", got, want)
	}
	runtime.KeepAlive(db1)
	runtime.KeepAlive(db2)
}

func verifD67Checkpoint(t *testing.T, db *dkv.DB, id uint64) recovery.CheckpointHandle {
	t.Helper()
	h, err := db.Checkpoint(id)()
	if err != nil {
		t.Fatal(err)
	}
	return h
}

// verifD67Flush fills the memtable with one large value so that it rotates and waits for the flush.
func verifD67Flush(t *testing.T, db *dkv.DB) {
	t.Helper()
	db.Put([]byte("zz-filler"), make([]byte, 1<<20))
	if err := db.WaitOnTasks(); err != nil {
		t.Fatal(err)
	}
}

func verifD67Contents(opts dkv.DBOptions, h recovery.CheckpointHandle) (out string, err error) {
	defer func() {
		if p := recover(); p != nil {
			err = fmt.Errorf("panic: %v", p)
		}
	}()
	db := dkv.Open(opts, []recovery.CheckpointHandle{h})
	var scanErr error
	for e := range db.ScanPrefix(nil, &scanErr) {
		if string(e.Key()) == "zz-filler" {
			out += "zz-filler "
			continue
		}
		out += fmt.Sprintf("%s=%s ", e.Key(), e.Value())
	}
	return out, scanErr
}
