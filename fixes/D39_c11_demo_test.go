//go:build verif

package sourcerunner_test

// D39 seen from C11: after a second HandleDeploy on a LIVE source runner two goroutines consume its output stream and
// share one unsynchronised watermarker, so a watermark stamped by one of them can be broadcast after a larger one of
// the other: the runner's watermarks, as an operator receives them, decrease.
//   cd /repo && go test -mod=mod -vet=off -count=1 -tags verif -overlay /verif/.cache/overlay.json -run TestVerifD39C11 ./workers/sourcerunner/

import (
	"context"
	"encoding/binary"
	"sync"
	"testing"
	"time"

	"google.golang.org/protobuf/types/known/timestamppb"
	"reduction.dev/reduction-protocol/handlerpb"
	"reduction.dev/reduction-protocol/jobconfigpb"
	"reduction.dev/reduction/batching"
	"reduction.dev/reduction/connectors"
	"reduction.dev/reduction/proto"
	"reduction.dev/reduction/proto/jobpb"
	"reduction.dev/reduction/proto/workerpb"
	"reduction.dev/reduction/workers/sourcerunner"
)

type d39Job struct{ proto.UnimplementedJob }

func (d39Job) RegisterSourceRunner(context.Context, *jobpb.NodeIdentity) error   { return nil }
func (d39Job) DeregisterSourceRunner(context.Context, *jobpb.NodeIdentity) error { return nil }

type d39Keyer struct{}

func (d39Keyer) ProcessEventBatch(context.Context, *handlerpb.ProcessEventBatchRequest) (*handlerpb.ProcessEventBatchResponse, error) {
	return &handlerpb.ProcessEventBatchResponse{}, nil
}
func (d39Keyer) KeyEventBatch(ctx context.Context, events [][]byte) ([][]*handlerpb.KeyedEvent, error) {
	out := make([][]*handlerpb.KeyedEvent, len(events))
	for i, e := range events {
		out[i] = []*handlerpb.KeyedEvent{{Key: []byte("k"), Timestamp: timestamppb.New(time.Unix(int64(binary.BigEndian.Uint64(e)), 0))}}
	}
	return out, nil
}

type d39Reader struct {
	connectors.UnimplementedSourceReader
	cmd chan [][]byte
}

func (r *d39Reader) AssignSplits([]*workerpb.SourceSplit) error { return nil }
func (r *d39Reader) ReadEvents() ([][]byte, error) {
	ev, ok := <-r.cmd
	if !ok {
		return nil, connectors.ErrEndOfInput
	}
	return ev, nil
}

type d39Sink struct {
	proto.UnimplementedOperator
	mu  sync.Mutex
	wms []time.Time
}

func (o *d39Sink) HandleEventBatch(ctx context.Context, batch []*workerpb.Event) error {
	o.mu.Lock()
	defer o.mu.Unlock()
	for _, e := range batch {
		if w, ok := e.Event.(*workerpb.Event_Watermark); ok {
			o.wms = append(o.wms, w.Watermark.Timestamp.AsTime())
		}
	}
	return nil
}
func (o *d39Sink) ID() string { return "sink" }

func TestVerifD39C11WatermarksDecreaseAfterLiveRedeploy(t *testing.T) {
	sink := &d39Sink{}
	var reader *d39Reader
	sr := sourcerunner.New(sourcerunner.NewParams{
		Host: "sr", UserHandler: d39Keyer{}, Job: d39Job{},
		OperatorFactory:     func(string, *jobpb.NodeIdentity) proto.Operator { return sink },
		SourceReaderFactory: func(*jobconfigpb.Source) connectors.SourceReader { return reader },
		EventBatching:       batching.EventBatcherParams{MaxSize: 1},
	})
	go sr.Start(context.Background())
	defer sr.Stop()
	ticks := make(chan time.Time)
	deploy := func() {
		reader = &d39Reader{cmd: make(chan [][]byte)}
		if err := sr.HandleDeploy(context.Background(), &workerpb.DeploySourceRunnerRequest{
			Sources: []*jobconfigpb.Source{{}}, Operators: []*jobpb.NodeIdentity{{Id: "op0", Host: "h"}}, KeyGroupCount: 8,
		}); err != nil {
			t.Fatal(err)
		}
		sr.VerifSetWatermarkTicks(ticks)
		if err := sr.HandleAssignSplits([]*workerpb.SourceSplit{{}}); err != nil {
			t.Fatal(err)
		}
	}
	deploy()
	old := reader
	old.cmd <- [][]byte{binary.BigEndian.AppendUint64(nil, 1)}
	time.Sleep(20 * time.Millisecond)
	deploy() // the runner is live: its first deployment's loop and output-stream consumer keep running

	deadline := time.Now().Add(8 * time.Second)
	secs := uint64(10)
	for time.Now().Before(deadline) {
		secs += 10
		ev := [][]byte{binary.BigEndian.AppendUint64(nil, secs)}
		// either event loop may take the read and the tick
		select {
		case reader.cmd <- ev:
		case old.cmd <- ev:
		}
		select {
		case ticks <- time.Now():
		case <-time.After(50 * time.Millisecond):
		}
		sink.mu.Lock()
		for i := 1; i < len(sink.wms); i++ {
			if sink.wms[i].Before(sink.wms[i-1]) {
				a, b := sink.wms[i-1], sink.wms[i]
				sink.mu.Unlock()
				t.Fatalf("the runner's watermarks decreased at the operator: %v then %v", a.UTC(), b.UTC())
			}
		}
		sink.mu.Unlock()
	}
	t.Logf("no decrease observed in %d watermarks (the race did not show in this run)", len(sink.wms))
}
