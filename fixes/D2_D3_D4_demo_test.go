package dkv_test

import (
	"slices"
	"strings"
	"sync"
	"testing"

	"github.com/stretchr/testify/require"
	"reduction.dev/reduction/dkv"
	"reduction.dev/reduction/dkv/kv"
	"reduction.dev/reduction/dkv/storage"
)

// gateFS blocks Save of *.sst files until released, so a flush can be held in flight.
type gateFS struct {
	storage.FileSystem
	gate chan struct{}
}

type gateFile struct {
	storage.File
	gate chan struct{}
}

func (g *gateFS) New(path string) storage.File {
	f := g.FileSystem.New(path)
	if strings.HasSuffix(path, ".sst") {
		return &gateFile{File: f, gate: g.gate}
	}
	return f
}

func (f *gateFile) Save() error {
	<-f.gate
	return f.File.Save()
}

func filler(n int) []byte { return []byte(strings.Repeat("x", n)) }

// D2: a key present in a sealed memtable and the active memtable must read the newest value.
func TestVerifD2GetPrefersNewestMemtable(t *testing.T) {
	gate := make(chan struct{})
	var once sync.Once
	release := func() { once.Do(func() { close(gate) }) }
	defer release()
	fs := &gateFS{FileSystem: storage.NewMemoryFilesystem().WithWorkingDir("d2"), gate: gate}
	db := dkv.Open(dkv.DBOptions{FileSystem: fs, MemTableSize: 200}, nil)
	db.Put([]byte("k"), []byte("old"))
	db.Put([]byte("zz"), filler(300)) // seals the memtable; its flush blocks on the gate
	db.Put([]byte("k"), []byte("new"))
	got, err := db.Get([]byte("k"))
	require.NoError(t, err)
	require.Equal(t, "new", string(got.Value()))
	release()
	require.NoError(t, db.WaitOnTasks())
}

// D3: a key present in two level-0 tables must read the newer table.
func TestVerifD3GetPrefersNewestL0Table(t *testing.T) {
	fs := storage.NewMemoryFilesystem().WithWorkingDir("d3")
	db := dkv.Open(dkv.DBOptions{FileSystem: fs, MemTableSize: 200, L0TableNumCompactionTrigger: 100}, nil)
	db.Put([]byte("k"), []byte("old"))
	db.Put([]byte("zz"), filler(300))
	require.NoError(t, db.WaitOnTasks())
	db.Put([]byte("k"), []byte("new"))
	db.Put([]byte("zz"), filler(300))
	require.NoError(t, db.WaitOnTasks())
	got, err := db.Get([]byte("k"))
	require.NoError(t, err)
	require.Equal(t, "new", string(got.Value()))
}

// D4: a delete in memory must hide the flushed put from scans too.
func TestVerifD4ScanDoesNotResurrectDeletedKey(t *testing.T) {
	fs := storage.NewMemoryFilesystem().WithWorkingDir("d4")
	db := dkv.Open(dkv.DBOptions{FileSystem: fs, MemTableSize: 200, L0TableNumCompactionTrigger: 100}, nil)
	db.Put([]byte("k"), []byte("v"))
	db.Put([]byte("zz"), filler(300))
	require.NoError(t, db.WaitOnTasks())
	db.Delete([]byte("k"))
	got, err := db.Get([]byte("k"))
	require.NoError(t, err)
	require.True(t, got.IsDelete())
	var scanErr error
	entries := slices.Collect(db.ScanPrefix([]byte("k"), &scanErr))
	require.NoError(t, scanErr)
	require.Empty(t, keysOf(entries))
}

// D4 (memtable variant): a delete in the active memtable must hide a put in a sealed memtable from scans.
func TestVerifD4ScanDoesNotResurrectAcrossMemtables(t *testing.T) {
	gate := make(chan struct{})
	var once sync.Once
	release := func() { once.Do(func() { close(gate) }) }
	defer release()
	fs := &gateFS{FileSystem: storage.NewMemoryFilesystem().WithWorkingDir("d4b"), gate: gate}
	db := dkv.Open(dkv.DBOptions{FileSystem: fs, MemTableSize: 200}, nil)
	db.Put([]byte("k"), []byte("v"))
	db.Put([]byte("zz"), filler(300)) // seals; flush blocks
	db.Delete([]byte("k"))
	var scanErr error
	entries := slices.Collect(db.ScanPrefix([]byte("k"), &scanErr))
	require.NoError(t, scanErr)
	require.Empty(t, keysOf(entries))
	release()
	require.NoError(t, db.WaitOnTasks())
}

func keysOf(es []kv.Entry) []string {
	var out []string
	for _, e := range es {
		out = append(out, string(e.Key()))
	}
	return out
}
