package dkv_test

import (
	"testing"

	"reduction.dev/reduction/dkv"
	"reduction.dev/reduction/dkv/recovery"
	"reduction.dev/reduction/dkv/storage"
)

// D41: after scaling out, several operators restore from the same checkpoint of one old operator, so their
// checkpoint lists all reference the old operator's WAL files. When the job later retains only a newer
// checkpoint, each of them destroys the old checkpoint. On the local file system the second removal of the
// same WAL file returned "no such file or directory" (the memory and S3 file systems delete idempotently),
// so the second operator's next db.Checkpoint failed: its job checkpoint could never complete, the sending
// source runner stopped on the error and the operator went on processing records behind the barrier.
func TestVerifD41SharedCheckpointWALIsRemovedOnce(t *testing.T) {
	old := dkv.Open(dkv.DBOptions{FileSystem: storage.NewLocalFilesystem(t.TempDir())}, nil)
	old.Put([]byte("k"), []byte("v"))
	handle, err := old.Checkpoint(4)()
	if err != nil {
		t.Fatal(err)
	}

	// two new instances restore from the old instance's checkpoint ...
	var dbs []*dkv.DB
	for i := 0; i < 2; i++ {
		dbs = append(dbs, dkv.Open(dkv.DBOptions{FileSystem: storage.NewLocalFilesystem(t.TempDir())}, []recovery.CheckpointHandle{handle}))
	}
	// ... take their own checkpoint 5, are told to retain only 5 and take checkpoint 6
	for i, db := range dbs {
		db.Put([]byte("k"), []byte("w"))
		if _, err := db.Checkpoint(5)(); err != nil {
			t.Fatalf("instance %d checkpoint 5: %v", i, err)
		}
		if err := db.UpdateRetainedCheckpoints([]uint64{5}); err != nil {
			t.Fatalf("instance %d retain 5: %v", i, err)
		}
		if _, err := db.Checkpoint(6)(); err != nil {
			t.Fatalf("instance %d checkpoint 6: %v", i, err)
		}
	}
}
