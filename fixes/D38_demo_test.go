package snapshots_test

// D38: starting a job from a savepoint stored on S3 always failed. RestoreCheckpointFromSavepointArtifact
// computed the savepoint directory with filepath.Dir and the source paths with filepath.Join, which clean
// "s3://bucket/..." to "s3:/bucket/...": S3Location no longer recognises the URI, treats it as a relative key
// and looks for "<prefix>/s3:/bucket/<prefix>/savepoints/...", which does not exist. (CreateSavepointArtifact
// joins relative paths and is not affected; local directories are not affected.)

import (
	"testing"

	"reduction.dev/reduction/connectors"
	"reduction.dev/reduction/dkv"
	"reduction.dev/reduction/dkv/recovery"
	dkvstorage "reduction.dev/reduction/dkv/storage"
	"reduction.dev/reduction/proto/jobpb"
	"reduction.dev/reduction/proto/snapshotpb"
	"reduction.dev/reduction/storage/locations"
	"reduction.dev/reduction/storage/objstore"
	"reduction.dev/reduction/storage/snapshots"
)

type d38Splitter struct {
	connectors.UnimplementedSourceSplitter
}

func (*d38Splitter) Checkpoint() []byte { return nil }

func d38must(t *testing.T, err error) {
	t.Helper()
	if err != nil {
		t.Fatal(err)
	}
}

func TestD38SavepointRestoresOnS3(t *testing.T) {
	svc := objstore.NewMemoryS3Service()
	loc, err := locations.NewS3Location(svc, "s3://bucket/job")
	d38must(t, err)
	events := make(chan string, 4)
	store := snapshots.NewStore(&snapshots.NewStoreParams{CheckpointEvents: events, FileStore: loc, SavepointsPath: "savepoints", CheckpointsPath: "checkpoints"})
	store.RegisterSourceSplitter(&d38Splitter{})
	db := dkv.Open(dkv.DBOptions{FileSystem: dkvstorage.NewS3FileSystem(svc, "bucket", "job/working/op1")}, nil)
	db.Put([]byte("a"), []byte("1"))
	id, _, err := store.CreateSavepoint([]string{"op1"}, []string{"sr1"})
	d38must(t, err)
	h, err := db.Checkpoint(id)()
	d38must(t, err)
	t.Log("doc uri", h.URI)
	d38must(t, store.AddOperatorSnapshot(&snapshotpb.OperatorCheckpoint{CheckpointId: id, OperatorId: "op1", DkvFileUri: h.URI, KeyGroupRange: &snapshotpb.KeyGroupRange{}}))
	d38must(t, store.AddSourceSnapshot(&jobpb.SourceRunnerCheckpointCompleteRequest{CheckpointId: id, SourceRunnerId: "sr1", SplitStates: [][]byte{{}}}))
	<-events
	for p := range loc.List() {
		t.Log("object", p)
	}
	spURI, err := store.SavepointURIForID(id)
	d38must(t, err)
	t.Log("savepoint uri", spURI)
	store2 := snapshots.NewStore(&snapshots.NewStoreParams{FileStore: loc, SavepointsPath: "savepoints", CheckpointsPath: "checkpoints", SavepointURI: spURI})
	if err := store2.LoadCheckpoint(); err != nil {
		t.Fatalf("starting from the savepoint URI failed: %v", err)
	}
	oc := store2.CurrentCheckpoint().OperatorCheckpoints[0]
	db2 := dkv.Open(dkv.DBOptions{FileSystem: dkvstorage.NewS3FileSystem(svc, "bucket", "job/working/op1b")}, []recovery.CheckpointHandle{{CheckpointID: oc.CheckpointId, URI: oc.DkvFileUri}})
	e, err := db2.Get([]byte("a"))
	d38must(t, err)
	if string(e.Value()) != "1" {
		t.Fatal("wrong value")
	}
}
