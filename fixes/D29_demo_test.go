package sst_test

import (
	"slices"
	"testing"

	"reduction.dev/reduction/dkv/kv"
	"reduction.dev/reduction/dkv/sst"
	"reduction.dev/reduction/dkv/storage"
)

// D29: a bounded cursor over an empty range (end bound 0) behaved as unbounded, so scanning a table
// written from an empty run decoded the bloom-filter block as entries and failed with
// "unexpected EOF" instead of yielding nothing.
func TestVerifD29EmptyRunScansEmpty(t *testing.T) {
	fs := storage.NewMemoryFilesystem()
	tables, err := sst.NewTableWriter(fs, 0).WriteRun(slices.Values([]kv.Entry{}), 100)
	if err != nil {
		t.Fatal(err)
	}
	for _, tb := range tables {
		for _, table := range []*sst.Table{tb, sst.NewTableFromDocument(fs, &kv.AllDataOwnership{}, tb.Document())} {
			var scanErr error
			n := 0
			for range table.ScanPrefix(nil, &scanErr) {
				n++
			}
			if scanErr != nil || n != 0 {
				t.Fatalf("scan of an empty table: %d entries, err=%v", n, scanErr)
			}
		}
	}
}
