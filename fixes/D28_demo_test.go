package dkv_test

import (
	"runtime"
	"testing"

	"reduction.dev/reduction/dkv"
	"reduction.dev/reduction/dkv/recovery"
	"reduction.dev/reduction/dkv/storage"
)

// D28: a database opened from a checkpoint created its table writer at file number 0, so in the
// directory of the checkpoint its first flush wrote 000000.sst over the table file that the
// restored (and still retained) checkpoint references: keys of the checkpoint became unreadable in
// the restored database, and every later restore from the same checkpoint saw the wrong table.
//
// Copy into /repo/dkv and run: go test -mod=mod -vet=off -count=1 -run TestVerifD28 ./dkv/
func TestVerifD28RestoredDBKeepsCheckpointTables(t *testing.T) {
	fs := storage.NewMemoryFilesystem()
	opts := dkv.DBOptions{FileSystem: fs, MemTableSize: 1 << 20}

	// First instance: one flushed table (000000.sst) holding "old", then a checkpoint.
	db1 := dkv.Open(opts, nil)
	db1.Put([]byte("old"), []byte("1"))
	verifD28Flush(t, db1, 100)
	handle, err := db1.Checkpoint(1)()
	if err != nil {
		t.Fatal(err)
	}
	handles := []recovery.CheckpointHandle{handle}

	// Second instance restored from the checkpoint in the same directory; it flushes other keys.
	db2 := dkv.Open(opts, handles)
	db2.Put([]byte("new"), []byte("2"))
	verifD28Flush(t, db2, 100)
	if _, err := db2.Get([]byte("old")); err != nil {
		t.Errorf("restored database lost a checkpointed key after its first flush: Get(old): %v", err)
	}
	if _, err := db2.Get([]byte("new")); err != nil {
		t.Errorf("Get(new): %v", err)
	}

	// The checkpoint is still retained: a third instance restores from the same handle.
	db3 := dkv.Open(opts, handles)
	if _, err := db3.Get([]byte("old")); err != nil {
		t.Errorf("second restore from the retained checkpoint: Get(old): %v", err)
	}
	if e, err := db3.Get([]byte("new")); err == nil {
		t.Errorf("second restore from the retained checkpoint sees a write made after it: new=%s", e.Value())
	}

	// Table objects delete their file when they are collected (a separate subject, D25): keep the
	// earlier instances alive, as separate processes would not run each other's cleanups.
	runtime.KeepAlive(db1)
	runtime.KeepAlive(db2)
}

// verifD28Flush fills the memtable with one large value so that it rotates and waits for the flush.
func verifD28Flush(t *testing.T, db *dkv.DB, n int) {
	t.Helper()
	db.Put([]byte("zz-filler"), make([]byte, 1<<20))
	if err := db.WaitOnTasks(); err != nil {
		t.Fatal(err)
	}
}
