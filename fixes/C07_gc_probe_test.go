// Probe (not a defect): a ScanPrefix iterator held across compactions that replace all its tables and forced GC stays complete;
// its table files are deleted only after the iterator is released. PLACE AT /repo/dkv/c07_gc_probe_test.go; RUN: go test -vet=off -count=1 -run TestC07Probe -v ./dkv/
package dkv_test

import (
	"fmt"
	"runtime"
	"strings"
	"testing"
	"time"

	"reduction.dev/reduction/dkv"
	"reduction.dev/reduction/dkv/storage"
)

// scan obtained, compaction replaces every table it selected, GC runs the table cleanups, then the scan is consumed
func TestC07Probe_HeldScanAcrossCompactionAndGC(t *testing.T) {
	for round := 0; round < 6; round++ {
		fs := storage.NewMemoryFilesystem()
		db := dkv.Open(dkv.DBOptions{FileSystem: fs, MemTableSize: 300, TargetFileSize: 200, L0TableNumCompactionTrigger: 2}, nil)
		want := map[string]string{}
		put := func(k, v string) { db.Put([]byte(k), []byte(v)); want[k] = v }
		for i := 0; i < 60; i++ {
			put(fmt.Sprintf("user:%03d", i), fmt.Sprintf("v%d-%s", i, strings.Repeat("x", 20)))
		}
		if err := db.WaitOnTasks(); err != nil {
			t.Fatal(err)
		}
		before := fs.List()
		var scanErr error
		scan := db.ScanPrefix([]byte("user:"), &scanErr)

		// new writes to other keys until compactions have replaced the old tables
		db2 := db
		for i := 0; i < 400; i++ {
			db2.Put([]byte(fmt.Sprintf("zfill:%04d", i)), []byte(strings.Repeat("y", 30)))
		}
		if err := db.WaitOnTasks(); err != nil {
			t.Fatal(err)
		}
		for i := 0; i < 5; i++ {
			runtime.GC()
			time.Sleep(5 * time.Millisecond)
		}
		after := fs.List()
		gone := 0
		for _, f := range before {
			found := false
			for _, g := range after {
				if f == g {
					found = true
				}
			}
			if !found && strings.HasSuffix(f, ".sst") {
				gone++
			}
		}
		got := map[string]string{}
		n := 0
		for e := range scan {
			got[string(e.Key())] = string(e.Value())
			n++
		}
		if scanErr != nil {
			t.Fatalf("round %d: scan error after %d entries (tables gone: %d of %d): %v", round, n, gone, len(before), scanErr)
		}
		for k, v := range want {
			if got[k] != v {
				t.Fatalf("round %d: key %s: got %q want %q (tables gone: %d)", round, k, got[k], v, gone)
			}
		}
		scan = nil
		for i := 0; i < 5; i++ {
			runtime.GC()
			time.Sleep(5 * time.Millisecond)
		}
		after2 := fs.List()
		gone2 := 0
		for _, f := range before {
			found := false
			for _, g := range after2 {
				if f == g {
					found = true
				}
			}
			if !found && strings.HasSuffix(f, ".sst") {
				gone2++
			}
		}
		t.Logf("gone while held=%d, gone after release=%d", gone, gone2)
		t.Logf("round %d ok: files before=%d after=%d gone=%d entries=%d diag=%s", round, len(before), len(after), gone, n, strings.ReplaceAll(db.Diagnostics(), "\n", " | ")[:120])
	}
}
