package wal_test

import (
	"fmt"
	"testing"

	"reduction.dev/reduction/dkv/storage"
	"reduction.dev/reduction/dkv/wal"
)

// D27: Rotate copied the carried-over segments without their latestSeqNum, so a Truncate on the
// new writer (the flush of an older memtable committing after a checkpoint) found no segment
// newer than its sequence number and dropped segments whose entries had not been flushed.
func verifD27Replay(t *testing.T, w *wal.Writer, fs storage.FileSystem, after uint64) (got []string) {
	t.Helper()
	defer func() {
		if r := recover(); r != nil {
			t.Fatalf("replay panicked: %v", r)
		}
	}()
	w.Rotate(fs)
	if err := w.Save(); err != nil {
		t.Fatal(err)
	}
	for e, err := range wal.NewReader(fs, w.Handle(after)).All() {
		if err != nil {
			t.Fatal(err)
		}
		got = append(got, string(e.Key()))
	}
	return got
}

func TestVerifD27RotateKeepsSegmentSeqNums(t *testing.T) {
	fs := storage.NewMemoryFilesystem()
	w := wal.NewWriter(fs, 0, 1<<20)
	w.Put([]byte("k1"), []byte("v"), 1)
	w.Cut() // memtable {1} sealed, flush pending
	w.Put([]byte("k2"), []byte("v"), 2)
	w.Cut()           // memtable {2} sealed, flush pending
	w = w.Rotate(fs)  // checkpoint
	w.Truncate(1)     // only the first flush has committed
	got := verifD27Replay(t, w, fs, 1)
	if fmt.Sprint(got) != "[k2]" {
		t.Fatalf("entries after seqNum 1: got %v, want [k2]", got)
	}
}

func TestVerifD27RotateKeepsActiveSegmentSeqNum(t *testing.T) {
	fs := storage.NewMemoryFilesystem()
	w := wal.NewWriter(fs, 0, 1<<20)
	w.Put([]byte("k1"), []byte("v"), 1)
	w.Cut() // memtable {1} sealed, flush pending
	w.Put([]byte("k2"), []byte("v"), 2)
	w = w.Rotate(fs) // checkpoint while k2 is only in the active segment
	w.Put([]byte("k3"), []byte("v"), 3)
	w.Cut()       // memtable {2,3} sealed
	w.Truncate(1) // flush of memtable {1} commits
	got := verifD27Replay(t, w, fs, 1)
	if fmt.Sprint(got) != "[k2 k3]" {
		t.Fatalf("entries after seqNum 1: got %v, want [k2 k3]", got)
	}
}
