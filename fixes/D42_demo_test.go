package dkv_test

import (
	"sync"
	"testing"

	"reduction.dev/reduction/dkv"
	"reduction.dev/reduction/dkv/recovery"
	"reduction.dev/reduction/dkv/storage"
)

// D42: DB.UpdateRetainedCheckpoints (the job's retention update, arriving on an RPC goroutine) and DB.Checkpoint
// (the operator's event loop plus its background save) read and replace CheckpointList.checkpoints and rewrite
// the checkpoints file without synchronisation. A retention update computed from the list before checkpoint N
// was added and assigned after it silently drops N, and the file of a concurrent save can miss N as well:
// the operator acknowledges N, the job publishes it, and the next restore panics with
// "failed to find indicated checkpoint ID N in the checkpoints file" (seen as a rare, non-reproducing restore
// failure in the C01 mini-cluster). The window is narrow, so this demo is meant for the race detector:
//
//	go test -race -run TestVerifD42 ./dkv/
//
// reports DATA RACE in checkpoint_list.go (RetainOnly vs Add / Save) before the repair and passes after it.
func TestVerifD42RetentionUpdateConcurrentWithCheckpoint(t *testing.T) {
	fs := storage.NewMemoryFilesystem()
	db := dkv.Open(dkv.DBOptions{FileSystem: fs}, nil)
	db.Put([]byte("k"), []byte("v"))
	if _, err := db.Checkpoint(1)(); err != nil {
		t.Fatal(err)
	}
	for id := uint64(2); id < 40; id++ {
		var wg sync.WaitGroup
		var handle recovery.CheckpointHandle
		var ckErr error
		wg.Add(2)
		go func() {
			defer wg.Done()
			handle, ckErr = db.Checkpoint(id)()
		}()
		go func() {
			defer wg.Done()
			defer func() { recover() }()
			db.UpdateRetainedCheckpoints([]uint64{id - 1})
		}()
		wg.Wait()
		if ckErr != nil {
			t.Fatalf("checkpoint %d: %v", id, ckErr)
		}
		// the acknowledged checkpoint must still be known to the database ...
		if err := db.UpdateRetainedCheckpoints([]uint64{id}); err != nil {
			t.Fatalf("checkpoint %d: %v", id, err)
		}
		// ... and restorable from the handle that was acknowledged
		func() {
			defer func() {
				if r := recover(); r != nil {
					t.Fatalf("restoring from acknowledged checkpoint %d failed: %v", id, r)
				}
			}()
			dkv.Open(dkv.DBOptions{FileSystem: fs}, []recovery.CheckpointHandle{handle})
		}()
	}
}
