package sourcerunner_test

// D48: a StartCheckpoint request that is still queued inside a surviving source runner when it is redeployed is
// acknowledged in the NEW deployment with the OLD checkpoint id.
//
// HandleStartCheckpoint puts the request into the runner's checkpointBarrier channel; HandleDeploy neither drains
// that channel nor stops the previous event loop (D39). If the loop was busy (here: inside a source read) when the
// request arrived and the job meanwhile abandoned that checkpoint and redeployed the runner, the new loop takes the
// stale request, acknowledges the abandoned id, the job refuses it, and the createCheckpoint error terminates the
// NEW loop. The runner keeps heartbeating but never answers a StartCheckpoint again: no job checkpoint completes.
//
// Run (from /repo, with the generated protobuf overlay of /verif):
//   cp /verif/fixes/D48_demo_test.go workers/sourcerunner/verif_d48_demo_test.go
//   GOFLAGS=-mod=mod GOPROXY=off go test -overlay /verif/.cache/overlay.json -vet=off -count=1 -run TestVerifD48 ./workers/sourcerunner/

import (
	"context"
	"errors"
	"sync"
	"testing"
	"time"

	"reduction.dev/reduction-protocol/handlerpb"
	"reduction.dev/reduction-protocol/jobconfigpb"
	"reduction.dev/reduction/batching"
	"reduction.dev/reduction/clocks"
	"reduction.dev/reduction/connectors"
	"reduction.dev/reduction/proto"
	"reduction.dev/reduction/proto/jobpb"
	"reduction.dev/reduction/proto/workerpb"
	"reduction.dev/reduction/workers/sourcerunner"
)

type d48Job struct {
	proto.NoopJob
	mu      sync.Mutex
	pending uint64
	acked   chan uint64
}

func (j *d48Job) RegisterSourceRunner(context.Context, *jobpb.NodeIdentity) error { return nil }
func (j *d48Job) RegisterOperator(context.Context, *jobpb.NodeIdentity) error     { return nil }
func (j *d48Job) NotifySplitsFinished(context.Context, string, []string) error    { return nil }
func (j *d48Job) OnSourceRunnerCheckpointComplete(ctx context.Context, req *jobpb.SourceRunnerCheckpointCompleteRequest) error {
	j.mu.Lock()
	defer j.mu.Unlock()
	if req.CheckpointId != j.pending {
		return errors.New("no pending checkpoint with this id")
	}
	j.acked <- req.CheckpointId
	return nil
}

type d48Op struct{ proto.UnimplementedOperator }

func (*d48Op) ID() string                                                { return "op1" }
func (*d48Op) Host() string                                              { return "h" }
func (*d48Op) HandleEventBatch(context.Context, []*workerpb.Event) error { return nil }

type d48Handler struct{}

func (d48Handler) ProcessEventBatch(context.Context, *handlerpb.ProcessEventBatchRequest) (*handlerpb.ProcessEventBatchResponse, error) {
	return &handlerpb.ProcessEventBatchResponse{}, nil
}
func (d48Handler) KeyEventBatch(ctx context.Context, events [][]byte) ([][]*handlerpb.KeyedEvent, error) {
	return make([][]*handlerpb.KeyedEvent, len(events)), nil
}

// the reader of the first deployment blocks inside its first read (a slow source); later readers are idle
type d48Reader struct {
	connectors.UnimplementedSourceReader
	reading chan struct{}
	hold    chan struct{}
}

func (r *d48Reader) AssignSplits([]*workerpb.SourceSplit) error { return nil }
func (r *d48Reader) Checkpoint() [][]byte                       { return nil }
func (r *d48Reader) ReadEvents() ([][]byte, error) {
	if r.hold != nil {
		select {
		case r.reading <- struct{}{}:
		default:
		}
		<-r.hold
	}
	time.Sleep(time.Millisecond)
	return nil, nil
}

func TestVerifD48QueuedStartCheckpointDoesNotSurviveRedeploy(t *testing.T) {
	job := &d48Job{pending: 1, acked: make(chan uint64, 4)}
	first := &d48Reader{reading: make(chan struct{}, 1), hold: make(chan struct{})}
	defer close(first.hold)
	readers := []connectors.SourceReader{first, &d48Reader{}, &d48Reader{}}
	sr := sourcerunner.New(sourcerunner.NewParams{
		Host: "h", UserHandler: d48Handler{}, Job: job, Clock: clocks.NewFrozenClock(),
		OperatorFactory:     func(string, *jobpb.NodeIdentity) proto.Operator { return &d48Op{} },
		SourceReaderFactory: func(*jobconfigpb.Source) connectors.SourceReader { r := readers[0]; readers = readers[1:]; return r },
		EventBatching:       batching.EventBatcherParams{MaxSize: 1},
	})
	ctx, cancel := context.WithCancel(context.Background())
	defer cancel()
	go sr.Start(ctx)
	deploy := func() {
		t.Helper()
		if err := sr.HandleDeploy(ctx, &workerpb.DeploySourceRunnerRequest{
			Operators: []*jobpb.NodeIdentity{{Id: "op1", Host: "h"}}, KeyGroupCount: 8, Sources: []*jobconfigpb.Source{{}}}); err != nil {
			t.Fatal(err)
		}
	}
	deploy()
	if err := sr.HandleAssignSplits([]*workerpb.SourceSplit{{SplitId: "0", SourceId: "s"}}); err != nil {
		t.Fatal(err)
	}
	select {
	case <-first.reading: // the runner's loop is inside the source read
	case <-time.After(2 * time.Second):
		t.Fatal("the runner never read from its source")
	}
	sr.HandleStartCheckpoint(ctx, 1) // queued behind the read

	// a peer fails: the job abandons checkpoint 1 and redeploys the surviving runner; its next checkpoint is 2
	job.mu.Lock()
	job.pending = 2
	job.mu.Unlock()
	deploy()
	time.Sleep(50 * time.Millisecond) // the new loop had its chance to take the stale request
	done := make(chan struct{})
	go func() { sr.HandleStartCheckpoint(ctx, 2); close(done) }()
	select {
	case id := <-job.acked:
		if id != 2 {
			t.Fatalf("acknowledged checkpoint %d", id)
		}
	case <-time.After(2 * time.Second):
		t.Fatal("the redeployed runner never acknowledges checkpoint 2: its new loop died acknowledging the abandoned checkpoint 1")
	}
}
