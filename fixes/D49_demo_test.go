package snapshots_test

import (
	"testing"
	"time"

	"reduction.dev/reduction/connectors"
	"reduction.dev/reduction/proto/jobpb"
	"reduction.dev/reduction/proto/snapshotpb"
	"reduction.dev/reduction/storage/locations"
	"reduction.dev/reduction/storage/snapshots"
)

type d49Splitter struct {
	connectors.UnimplementedSourceSplitter
}

func (*d49Splitter) Checkpoint() []byte { return nil }

// D49: rolling a job back to an older savepoint in its own storage must not hand out the ids of checkpoints
// that were written after that savepoint again (their files are still there), and a later restart without
// the savepoint must resume from the checkpoint taken after the rollback, not from the old timeline.
func TestVerifD49SavepointRestartContinuesAfterNewestLocalCheckpoint(t *testing.T) {
	dir := locations.NewLocalDirectory(t.TempDir())
	events := make(chan string, 8)
	newStore := func(savepointURI string) *snapshots.Store {
		s := snapshots.NewStore(&snapshots.NewStoreParams{
			FileStore: dir, SavepointsPath: "savepoints", CheckpointsPath: "checkpoints",
			CheckpointEvents: events, SavepointURI: savepointURI,
		})
		s.RegisterSourceSplitter(&d49Splitter{})
		return s
	}
	finish := func(s *snapshots.Store, id uint64, split string) {
		t.Helper()
		if err := s.AddSourceSnapshot(&jobpb.SourceRunnerCheckpointCompleteRequest{CheckpointId: id, SourceRunnerId: "sr1", SplitStates: [][]byte{[]byte(split)}}); err != nil {
			t.Fatal(err)
		}
		select {
		case <-events:
		case <-time.After(5 * time.Second):
			t.Fatalf("checkpoint %d was not published", id)
		}
	}

	store := newStore("")
	// checkpoint 1 is a savepoint (no operators: its artifact is only the job file)
	spID, _, err := store.CreateSavepoint(nil, []string{"sr1"})
	if err != nil || spID != 1 {
		t.Fatalf("savepoint: id=%d err=%v", spID, err)
	}
	finish(store, 1, "at-1")
	spURI, err := store.SavepointURIForID(1)
	if err != nil {
		t.Fatal(err)
	}
	// the job continues: checkpoints 2 and 3
	for want := uint64(2); want <= 3; want++ {
		id, err := store.CreateCheckpoint([]string{"op1"}, []string{"sr1"})
		if err != nil || id != want {
			t.Fatalf("create: id=%d err=%v", id, err)
		}
		if err := store.AddOperatorSnapshot(&snapshotpb.OperatorCheckpoint{CheckpointId: id, OperatorId: "op1"}); err != nil {
			t.Fatal(err)
		}
		finish(store, id, "old-timeline")
	}

	// roll back to savepoint 1 in the same storage
	rolledBack := newStore(spURI)
	if err := rolledBack.LoadCheckpoint(); err != nil {
		t.Fatal(err)
	}
	if got := rolledBack.CurrentCheckpoint().GetId(); got != 1 {
		t.Fatalf("restored checkpoint %d, want the savepoint 1", got)
	}
	id, err := rolledBack.CreateCheckpoint(nil, []string{"sr1"})
	if err != nil {
		t.Fatal(err)
	}
	if id <= 3 {
		t.Fatalf("checkpoint id %d handed out again although checkpoint 3 was written to this storage before", id)
	}
	finish(rolledBack, id, "new-timeline")

	// a later restart without the savepoint resumes from the checkpoint taken after the rollback
	restarted := newStore("")
	if err := restarted.LoadCheckpoint(); err != nil {
		t.Fatal(err)
	}
	ck := restarted.CurrentCheckpoint()
	if ck.GetId() != id || string(ck.SourceCheckpoints[0].SplitStates[0]) != "new-timeline" {
		t.Fatalf("restart resumed from checkpoint %d (%q), want %d (new-timeline)", ck.GetId(), ck.SourceCheckpoints[0].SplitStates, id)
	}
}
