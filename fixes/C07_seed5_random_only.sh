#!/bin/sh
# usage: run2.sh <patch> <name> <seed> : like run.sh but the window-iter-held Fixed witness is removed in the scratch copy
patch=$(readlink -f "$1"); id=$2; seed=$3
wt=/tmp/mut-c07p-$id; vv=/tmp/mutv-c07p-$id
git -C /repo worktree add --detach "$wt" HEAD >/dev/null 2>&1 || exit 2
if ! git -C "$wt" apply "$patch"; then echo "PATCH DOES NOT APPLY"; git -C /repo worktree remove --force "$wt"; exit 2; fi
(cd /repo && git ls-files --others --exclude-standard | grep -E 'verif_(export|hook)' | while read f; do mkdir -p "$wt/$(dirname $f)"; cp "$f" "$wt/$f"; done)
mkdir -p "$vv" && git -C /verif archive good | tar -x -C "$vv" && rsync -a /verif/.cache "$vv"/ 2>/dev/null; mkdir -p "$vv/lean" && rsync -a /verif/lean/.lake "$vv/lean"/ 2>/dev/null
cp /verif/harness/cmd/corr/c07.go "$vv/harness/cmd/corr/c07.go"
grep -v 'Tags: \[\]string{"window-iter-held"}' "$vv/harness/cmd/corr/c07.go" > "$vv/c07.tmp" && mv "$vv/c07.tmp" "$vv/harness/cmd/corr/c07.go"; sed -i "s/^func c07Sweep(tier string) \[\]lib.Case {/func c07Sweep(tier string) []lib.Case {\n\tif tier == \"quick\" {\n\t\treturn nil\n\t}/" "$vv/harness/cmd/corr/c07.go"
rm -f "$vv"/.cache/pb.stamp
(cd "$vv" && VERIF_SEED=$seed VERIF_REPO="$wt" timeout 1800 ./check C07 quick > "/tmp/c07mut/out_$id.txt" 2>"/tmp/c07mut/err_$id.txt"; echo "== C07 seed=$seed exit=$?")
grep -E "^(VIOLATION|KNOWN-FINDING)" /tmp/c07mut/out_$id.txt | sed "s#$vv#/verif#" | head -5
grep -E "diverg|broken|\.go:[0-9]+:[0-9]+:" /tmp/c07mut/err_$id.txt /tmp/c07mut/out_$id.txt | head -8 | cut -c1-300
git -C /repo worktree remove --force "$wt"; rm -rf "$vv"
