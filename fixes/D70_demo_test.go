//go:build verif

package operator_test

// D70 (residual window of D63, open): Operator.HandleDeploy closes the previous dkv instance before it reopens the
// directory, but DB.Close is one pending.Wait(): it drains the background tasks enqueued so far and does not stop
// intake. The operator's event goroutine (processEvents -> processEventBatch -> KeyedStateStore.ApplyMutations ->
// db.Put) does not take o.mu, and o.stateStore still points at the OLD store until dkv.Open has returned. A batch
// whose handler call was outstanding when the redeploy started is therefore applied to the old, already "closed"
// database; when that fills its memtable the old instance enqueues a flush AFTER Wait returned, and the flush writes
// a table file under the old instance's numbering into the directory the new instance has just reopened from its
// checkpoint - the same file name the new instance gives its own next table. Whichever writes second wins (flushes of
// all instances of a process are serialised on one queue); here the new instance's table overwrites the late one, and
// then the old instance's table OBJECT for that name - created by sst.NewTable, unconditional delete on collection -
// is collected and deletes the file the running instance's level list references.
//
// The schedule is imposed with the existing hook point dkv.flush.done (observation only) and a blocking slog handler (HandleDeploy is
// held inside dkv.Open at "db.start replaying the WAL", i.e. after Close returned and before o.db / o.stateStore are
// replaced).
//
// Run: cp /verif/fixes/D70_demo_test.go /repo/workers/operator/verif_d70_demo_test.go
//      cd /repo && GOFLAGS=-mod=mod GOPROXY=off go test -tags verif -vet=off -count=1 -run TestVerifD70 ./workers/operator/
// Fails on the current tree.

import (
	"bytes"
	"context"
	"crypto/sha256"
	"fmt"
	"log/slog"
	"os"
	"path/filepath"
	"runtime"
	"sort"
	"strings"
	"sync"
	"sync/atomic"
	"testing"
	"time"

	"reduction.dev/reduction-protocol/handlerpb"
	"reduction.dev/reduction/connectors/embedded"
	"reduction.dev/reduction/proto/jobpb"
	"reduction.dev/reduction/proto/snapshotpb"
	"reduction.dev/reduction/proto/workerpb"
	"reduction.dev/reduction/util/verifhook"
	"reduction.dev/reduction/workers/operator"
	"reduction.dev/reduction/workers/workerstest"
)

type d70Handler struct {
	mode    atomic.Int32 // 0: one small put; 1: wait for `hold`, then ~70 MB of puts; 2: ~70 MB of puts at once
	entered chan struct{}
	hold    chan struct{}
}

func (h *d70Handler) KeyEventBatch(ctx context.Context, events [][]byte) ([][]*handlerpb.KeyedEvent, error) {
	return nil, nil
}

func d70Big(tag byte) []*handlerpb.StateMutation {
	var ms []*handlerpb.StateMutation
	for i := 0; i < 70; i++ {
		ms = append(ms, &handlerpb.StateMutation{Mutation: &handlerpb.StateMutation_Put{Put: &handlerpb.PutMutation{
			Key: []byte(fmt.Sprintf("big%03d", i)), Value: bytes.Repeat([]byte{tag}, 1<<20)}}})
	}
	return ms
}

func (h *d70Handler) ProcessEventBatch(ctx context.Context, req *handlerpb.ProcessEventBatchRequest) (*handlerpb.ProcessEventBatchResponse, error) {
	key := req.KeyStates[0].Key
	var ms []*handlerpb.StateMutation
	switch h.mode.Load() {
	case 0:
		ms = []*handlerpb.StateMutation{{Mutation: &handlerpb.StateMutation_Put{Put: &handlerpb.PutMutation{Key: []byte("a"), Value: []byte("1")}}}}
	case 1:
		h.entered <- struct{}{}
		<-h.hold
		ms = d70Big('o')
	default:
		ms = d70Big('n')
	}
	return &handlerpb.ProcessEventBatchResponse{KeyResults: []*handlerpb.KeyResult{{Key: key,
		StateMutationNamespaces: []*handlerpb.StateMutationNamespace{{Namespace: "ns", Mutations: ms}}}}}, nil
}

// d70Log blocks the goroutine that logs `msg` until release is closed.
type d70Log struct {
	slog.Handler
	msg     string
	reached chan struct{}
	release chan struct{}
	once    *sync.Once
}

func (l d70Log) Handle(ctx context.Context, r slog.Record) error {
	if r.Message == l.msg {
		l.once.Do(func() {
			close(l.reached)
			<-l.release
		})
	}
	return nil
}
func (l d70Log) Enabled(context.Context, slog.Level) bool { return true }
func (l d70Log) WithAttrs([]slog.Attr) slog.Handler        { return l }
func (l d70Log) WithGroup(string) slog.Handler             { return l }

func d70Tables(dir string) map[string]string {
	out := map[string]string{}
	filepath.Walk(dir, func(p string, info os.FileInfo, err error) error {
		if err == nil && !info.IsDir() && strings.HasSuffix(p, ".sst") {
			b, _ := os.ReadFile(p)
			out[filepath.Base(p)] = fmt.Sprintf("%x/%d", sha256.Sum256(b), len(b))
		}
		return nil
	})
	return out
}

func d70Event(key string) *workerpb.Event {
	return &workerpb.Event{Event: &workerpb.Event_KeyedEvent{KeyedEvent: &handlerpb.KeyedEvent{Key: []byte(key), Value: []byte("v")}}}
}

func TestVerifD70LateWriteOfClosedInstanceAfterRedeploy(t *testing.T) {
	defer verifhook.Set(nil)
	ctx := context.Background()
	dir := t.TempDir()
	h := &d70Handler{entered: make(chan struct{}, 1), hold: make(chan struct{})}
	job := &workerstest.DummyJob{}
	op := operator.NewOperator(operator.NewOperatorParams{ID: "op1", UserHandler: h, Job: job})
	go op.Start(ctx)
	defer op.Stop()

	req := &workerpb.DeployOperatorRequest{Operators: []*jobpb.NodeIdentity{{Id: "op1", Host: "h"}},
		SourceRunnerIds: []string{"sr1"}, KeyGroupCount: 8, StorageLocation: dir}
	if err := op.HandleDeploy(ctx, req, &embedded.RecordingSink{}); err != nil {
		t.Fatal(err)
	}
	var err error
	for i := 0; i < 100; i++ {
		if err = op.HandleEvent(ctx, "sr1", d70Event("k")); err == nil {
			break
		}
		time.Sleep(10 * time.Millisecond)
	}
	if err != nil {
		t.Fatal(err)
	}
	// job checkpoint 1
	if err := op.HandleEvent(ctx, "sr1", &workerpb.Event{Event: &workerpb.Event_CheckpointBarrier{
		CheckpointBarrier: &workerpb.CheckpointBarrier{CheckpointId: 1}}}); err != nil {
		t.Fatal(err)
	}
	if job.OperatorCheckpoint == nil {
		t.Fatal("no checkpoint reported")
	}
	ck := job.OperatorCheckpoint
	old := op.VerifDB()

	oldFlushed, newFlushed := make(chan struct{}), make(chan struct{})
	var once1, once2 sync.Once
	oldID := fmt.Sprintf("%p", old)
	verifhook.Set(func(label string, payload []any) {
		if label == "dkv.flush.done" {
			if fmt.Sprintf("%p", payload[0]) == oldID {
				once1.Do(func() { close(oldFlushed) })
			} else {
				once2.Do(func() { close(newFlushed) })
			}
		}
	})

	// an event whose handler call is outstanding when the redeploy begins
	h.mode.Store(1)
	evDone := make(chan error, 1)
	go func() { evDone <- op.HandleEvent(ctx, "sr1", d70Event("k")) }()
	<-h.entered

	// the redeploy from checkpoint 1, held inside dkv.Open: the old instance is closed, o.db/o.stateStore not yet replaced
	lg := d70Log{msg: "db.start replaying the WAL", reached: make(chan struct{}), release: make(chan struct{}), once: &sync.Once{}}
	op.Logger = slog.New(lg)
	depDone := make(chan error, 1)
	req2 := &workerpb.DeployOperatorRequest{Operators: req.Operators, SourceRunnerIds: req.SourceRunnerIds, KeyGroupCount: 8,
		StorageLocation: dir, Checkpoints: []*snapshotpb.OperatorCheckpoint{ck}}
	go func() { depDone <- op.HandleDeploy(ctx, req2, &embedded.RecordingSink{}) }()
	select {
	case <-lg.reached:
	case <-time.After(10 * time.Second):
		t.Fatal("HandleDeploy did not reach dkv.Open")
	}

	// the handler answers: the batch is applied to the closed instance, which enqueues a flush - after Close returned -
	// that writes a table file into the directory under the old instance's numbering
	close(h.hold)
	select {
	case <-oldFlushed:
	case <-time.After(30 * time.Second):
		t.Fatal("the closed instance did not flush")
	}
	old.WaitOnTasks()
	late := d70Tables(dir)
	t.Log("table files written by the closed instance after Close returned:", late)
	if len(late) == 0 {
		t.Fatal("no late table file")
	}

	// the redeploy completes; the new instance flushes a table of its own
	close(lg.release)
	if err := <-depDone; err != nil {
		t.Fatal(err)
	}
	<-evDone
	h.mode.Store(2)
	for i := 0; i < 100; i++ {
		if err = op.HandleEvent(ctx, "sr1", d70Event("k")); err == nil {
			break
		}
		time.Sleep(10 * time.Millisecond)
	}
	if err != nil {
		t.Fatal(err)
	}
	select {
	case <-newFlushed:
	case <-time.After(20 * time.Second):
		t.Fatal("the new instance did not flush")
	}
	cur := op.VerifDB()
	if cur == old {
		t.Fatal("database was not replaced")
	}
	cur.WaitOnTasks()
	var live []string
	for _, l := range cur.VerifLevels().VerifLayout() {
		for _, ti := range l {
			live = append(live, filepath.Base(ti.URI))
		}
	}
	sort.Strings(live)
	before := d70Tables(dir)
	t.Log("the running instance lists", live, "files", before)
	for _, name := range live {
		if l, ok := late[name]; ok {
			t.Logf("table file name %s was written by the closed instance (%s) and by the running instance (%s)", name, l[:12], before[name][:12])
		}
	}

	// the closed instance is garbage now: the table objects it created after Close delete "their" files
	old = nil
	verifhook.Set(nil)
	for i := 0; i < 4; i++ {
		runtime.GC()
		time.Sleep(30 * time.Millisecond)
	}
	after := d70Tables(dir)
	for _, name := range live {
		if before[name] != after[name] {
			t.Errorf("table %s, listed by the running instance, was lost through a flush that the instance closed before the redeploy started after Close returned (%q -> %q)",
				name, before[name], after[name])
		}
	}
	runtime.KeepAlive(cur)
}
