package mergesort_test

import (
	"iter"
	"runtime"
	"slices"
	"testing"
	"time"

	"reduction.dev/reduction/dkv/mergesort"
)

// A consumer that stops early leaves the pulled input iterators suspended forever (Merge discards iter.Pull's stop).
func TestVerifMergeEarlyBreakLeaksPulledIterators(t *testing.T) {
	before := runtime.NumGoroutine()
	for i := 0; i < 200; i++ {
		its := []iter.Seq[int]{slices.Values([]int{1, 3, 5}), slices.Values([]int{2, 4, 6})}
		for range mergesort.Merge(its, func(a, b int) int { return a - b }, func(a, b int) int { return a }) {
			break
		}
	}
	runtime.GC()
	time.Sleep(50 * time.Millisecond)
	after := runtime.NumGoroutine()
	if after-before > 10 {
		t.Fatalf("goroutines before=%d after=%d: pulled iterators are never stopped", before, after)
	}
}
