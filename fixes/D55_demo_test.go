package snapshots_test

import (
	"testing"
	"time"

	"reduction.dev/reduction/connectors"
	"reduction.dev/reduction/proto/jobpb"
	"reduction.dev/reduction/proto/snapshotpb"
	"reduction.dev/reduction/storage/locations"
	"reduction.dev/reduction/storage/snapshots"
)

type d55Splitter struct{ connectors.UnimplementedSourceSplitter }

func (*d55Splitter) Checkpoint() []byte { return nil }

// D55: a checkpoint id that was handed out but not published before the job process was lost is handed
// out again after the restart, and acknowledgements of the OLD checkpoint with that id (its operators
// are still alive) are accepted into the NEW checkpoint: ids do not strictly increase across restarts
// and a checkpoint is published from acknowledgements that were not made for it.
func TestVerifD55CheckpointIdReusedAfterCrashAcceptsOldAcks(t *testing.T) {
	dir := locations.NewLocalDirectory(t.TempDir())
	events := make(chan string, 4)
	newStore := func() *snapshots.Store {
		s := snapshots.NewStore(&snapshots.NewStoreParams{FileStore: dir, SavepointsPath: "savepoints", CheckpointsPath: "checkpoints", CheckpointEvents: events})
		s.RegisterSourceSplitter(&d55Splitter{})
		if err := s.LoadCheckpoint(); err != nil {
			t.Fatal(err)
		}
		return s
	}

	before := newStore()
	oldID, err := before.CreateCheckpoint([]string{"op1"}, []string{"sr1"})
	if err != nil {
		t.Fatal(err)
	}
	// the job process is lost before anybody acknowledged; operators and source runners keep running

	after := newStore()
	newID, err := after.CreateCheckpoint([]string{"op1"}, []string{"sr1"})
	if err != nil {
		t.Fatal(err)
	}
	if newID <= oldID {
		t.Errorf("checkpoint id %d handed out after the restart, id %d had been handed out before it", newID, oldID)
	}

	// acknowledgements of the pre-crash checkpoint arrive at the restarted job
	errOp := after.AddOperatorSnapshot(&snapshotpb.OperatorCheckpoint{CheckpointId: oldID, OperatorId: "op1", DkvFileUri: "op1/state-before-crash"})
	errSr := after.AddSourceSnapshot(&jobpb.SourceRunnerCheckpointCompleteRequest{CheckpointId: oldID, SourceRunnerId: "sr1", SplitStates: [][]byte{[]byte("position-before-crash")}})
	if errOp == nil || errSr == nil {
		t.Errorf("acknowledgements of the pre-crash checkpoint %d were accepted by the restarted job (op: %v, source: %v)", oldID, errOp, errSr)
	}
	select {
	case <-events:
		ck := after.CurrentCheckpoint()
		t.Errorf("checkpoint %d was published from acknowledgements made for the pre-crash checkpoint: %v / %q",
			ck.GetId(), ck.GetOperatorCheckpoints()[0].GetDkvFileUri(), ck.GetSourceCheckpoints()[0].GetSplitStates())
	case <-time.After(300 * time.Millisecond):
	}
}
