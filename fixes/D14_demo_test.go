package snapshots_test

import (
	"testing"
	"time"

	"reduction.dev/reduction/connectors"
	"reduction.dev/reduction/proto/jobpb"
	"reduction.dev/reduction/proto/snapshotpb"
	"reduction.dev/reduction/storage/locations"
	"reduction.dev/reduction/storage/snapshots"
)

type d14Splitter struct{ connectors.UnimplementedSourceSplitter }

func (*d14Splitter) Checkpoint() []byte { return nil }

// d14KeepFiles is a storage location on which obsolete files are still present (the job stopped
// before the asynchronous cleanup ran).
type d14KeepFiles struct{ *locations.LocalDirectory }

func (d14KeepFiles) Remove(paths ...string) error { return nil }

// D14: with the files of checkpoints 2 and 3 both present, a restarted job must resume from 3.
// (The encoded file name of id 2 sorts before the one of id 3, so "first listed" is not "newest".)
func TestVerifD14RestartLoadsNewestCheckpoint(t *testing.T) {
	dir := locations.NewLocalDirectory(t.TempDir())
	events := make(chan string, 1)
	store := snapshots.NewStore(&snapshots.NewStoreParams{
		FileStore:        d14KeepFiles{dir},
		SavepointsPath:   "savepoints",
		CheckpointsPath:  "checkpoints",
		CheckpointEvents: events,
	})
	store.RegisterSourceSplitter(&d14Splitter{})
	for want := uint64(1); want <= 3; want++ {
		id, err := store.CreateCheckpoint([]string{"op1"}, []string{"sr1"})
		if err != nil || id != want {
			t.Fatalf("create: id=%d err=%v", id, err)
		}
		if err := store.AddOperatorSnapshot(&snapshotpb.OperatorCheckpoint{CheckpointId: id, OperatorId: "op1"}); err != nil {
			t.Fatal(err)
		}
		if err := store.AddSourceSnapshot(&jobpb.SourceRunnerCheckpointCompleteRequest{CheckpointId: id, SourceRunnerId: "sr1"}); err != nil {
			t.Fatal(err)
		}
		select {
		case <-events:
		case <-time.After(5 * time.Second):
			t.Fatal("checkpoint was not published")
		}
	}

	restarted := snapshots.NewStore(&snapshots.NewStoreParams{FileStore: dir, SavepointsPath: "savepoints", CheckpointsPath: "checkpoints"})
	if err := restarted.LoadCheckpoint(); err != nil {
		t.Fatal(err)
	}
	if got := restarted.CurrentCheckpoint().GetId(); got != 3 {
		t.Fatalf("restart resumed from checkpoint %d, newest completed checkpoint is 3", got)
	}
	restarted.RegisterSourceSplitter(&d14Splitter{})
	if id, _ := restarted.CreateCheckpoint([]string{"op1"}, []string{"sr1"}); id != 4 {
		t.Fatalf("next checkpoint id after restart is %d, want 4", id)
	}
}
