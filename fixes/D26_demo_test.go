package snapshots_test

// D26: a savepoint artifact must contain the files of the DKV checkpoint that the savepoint's job
// checkpoint refers to. The operator's `checkpoints` document is rewritten by every later DKV
// checkpoint, and CreateSavepointArtifact runs asynchronously after the job snapshot file was
// written (finishSnapshotAsync), when the store already accepts the next periodic checkpoint.
// ListFiles took the LAST checkpoint of the document, restore (LoadCheckpointList) looks the
// savepoint's id up: if the operator saved checkpoint 2 before the artifact of savepoint 1 was
// created, the artifact held checkpoint 2's WAL and not checkpoint 1's, so starting from the
// savepoint after the working storage is gone cannot read the state of checkpoint 1.
//
// Run (from /repo): go test -overlay <overlay with this file grafted into storage/snapshots> -run TestD26 ./storage/snapshots/

import (
	"bytes"
	"io"
	"os"
	"path/filepath"
	"strings"
	"testing"
	"time"

	"reduction.dev/reduction/connectors"
	"reduction.dev/reduction/dkv"
	"reduction.dev/reduction/dkv/recovery"
	dkvstorage "reduction.dev/reduction/dkv/storage"
	"reduction.dev/reduction/proto/jobpb"
	"reduction.dev/reduction/proto/snapshotpb"
	"reduction.dev/reduction/storage/locations"
	"reduction.dev/reduction/storage/snapshots"
)

type d26Splitter struct{ connectors.UnimplementedSourceSplitter }

func (*d26Splitter) Checkpoint() []byte { return nil }

// d26SlowWrite parks the upload of job snapshot files until release is closed (a slow object store).
type d26SlowWrite struct {
	*locations.LocalDirectory
	parked  chan struct{}
	release chan struct{}
}

func (l *d26SlowWrite) Write(path string, r io.Reader) (string, error) {
	data, err := io.ReadAll(r)
	if err != nil {
		return "", err
	}
	if strings.HasSuffix(path, ".snapshot") {
		select {
		case l.parked <- struct{}{}:
		default:
		}
		<-l.release
	}
	return l.LocalDirectory.Write(path, bytes.NewReader(data))
}

func TestD26SavepointHoldsFilesOfItsOwnCheckpoint(t *testing.T) {
	testDir := t.TempDir()
	loc := &d26SlowWrite{LocalDirectory: locations.NewLocalDirectory(testDir), parked: make(chan struct{}, 1), release: make(chan struct{})}

	checkpointEvents := make(chan string, 4)
	errChan := make(chan error, 4)
	store := snapshots.NewStore(&snapshots.NewStoreParams{
		CheckpointEvents: checkpointEvents,
		ErrChan:          errChan,
		FileStore:        loc,
		SavepointsPath:   "savepoints",
		CheckpointsPath:  "checkpoints",
	})
	store.RegisterSourceSplitter(&d26Splitter{})

	opDir := filepath.Join(testDir, "working", "op1")
	db := dkv.Open(dkv.DBOptions{FileSystem: dkvstorage.NewLocalFilesystem(opDir)}, nil)
	db.Put([]byte("a"), []byte("1"))
	db.Put([]byte("b"), []byte("2"))

	// Savepoint = job checkpoint 1.
	spID, created, err := store.CreateSavepoint([]string{"op1"}, []string{"sr1"})
	if err != nil || !created {
		t.Fatalf("CreateSavepoint: %v %v", created, err)
	}
	h1, err := db.Checkpoint(spID)()
	if err != nil {
		t.Fatal(err)
	}
	must(t, store.AddOperatorSnapshot(&snapshotpb.OperatorCheckpoint{CheckpointId: spID, OperatorId: "op1", DkvFileUri: h1.URI, KeyGroupRange: &snapshotpb.KeyGroupRange{}}))
	must(t, store.AddSourceSnapshot(&jobpb.SourceRunnerCheckpointCompleteRequest{CheckpointId: spID, SourceRunnerId: "sr1", SplitStates: [][]byte{{}}}))

	// The job snapshot of checkpoint 1 is being uploaded. The store is free for the next periodic
	// checkpoint, and the operator completes its part of it.
	select {
	case <-loc.parked:
	case <-time.After(5 * time.Second):
		t.Fatal("job snapshot write did not start")
	}
	nextID, err := store.CreateCheckpoint([]string{"op1"}, []string{"sr1"})
	if err != nil {
		t.Fatalf("next periodic checkpoint refused: %v", err)
	}
	db.Put([]byte("a"), []byte("changed-after-savepoint"))
	db.Put([]byte("c"), []byte("3"))
	if _, err := db.Checkpoint(nextID)(); err != nil {
		t.Fatal(err)
	}

	// Upload finishes; the savepoint artifact is created now.
	close(loc.release)
	select {
	case err := <-errChan:
		t.Fatalf("savepoint creation failed: %v", err)
	case <-checkpointEvents:
	case <-time.After(5 * time.Second):
		t.Fatal("savepoint was not created")
	}
	spURI, err := store.SavepointURIForID(spID)
	must(t, err)

	// All working storage is lost.
	must(t, os.RemoveAll(filepath.Join(testDir, "working")))
	must(t, os.RemoveAll(filepath.Join(testDir, "checkpoints")))

	// Start from the savepoint.
	store2 := snapshots.NewStore(&snapshots.NewStoreParams{FileStore: locations.NewLocalDirectory(testDir), SavepointsPath: "savepoints", CheckpointsPath: "checkpoints", SavepointURI: spURI})
	store2.RegisterSourceSplitter(&d26Splitter{})
	must(t, store2.LoadCheckpoint())
	ckpt := store2.CurrentCheckpoint()
	if ckpt == nil || ckpt.Id != spID || len(ckpt.OperatorCheckpoints) != 1 {
		t.Fatalf("unexpected restored job checkpoint %v", ckpt)
	}
	oc := ckpt.OperatorCheckpoints[0]

	got := map[string]string{}
	func() {
		defer func() {
			if r := recover(); r != nil {
				t.Fatalf("opening the operator state from the savepoint failed: %v", r)
			}
		}()
		db2 := dkv.Open(dkv.DBOptions{FileSystem: dkvstorage.NewLocalFilesystem(opDir)},
			[]recovery.CheckpointHandle{{CheckpointID: oc.CheckpointId, URI: oc.DkvFileUri}})
		var scanErr error
		for e := range db2.ScanPrefix(nil, &scanErr) {
			got[string(e.Key())] = string(e.Value())
		}
		if scanErr != nil {
			t.Fatalf("scan: %v", scanErr)
		}
	}()
	want := map[string]string{"a": "1", "b": "2"}
	if len(got) != len(want) || got["a"] != "1" || got["b"] != "2" {
		t.Fatalf("state restored from savepoint %d = %v, want the state of checkpoint %d = %v", spID, got, spID, want)
	}
}

func must(t *testing.T, err error) {
	t.Helper()
	if err != nil {
		t.Fatal(err)
	}
}
