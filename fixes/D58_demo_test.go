package operator_test

// Copy to /repo/workers/operator/ and run (generated protobuf code comes from the verif overlay):
//   cd /repo && go test -mod=mod -vet=off -count=1 -overlay /verif/.cache/overlay.json -run TestVerifD58 ./workers/operator/

import (
	"context"
	"sync"
	"testing"
	"time"

	"reduction.dev/reduction-protocol/handlerpb"
	"reduction.dev/reduction/connectors/embedded"
	"reduction.dev/reduction/proto/jobpb"
	"reduction.dev/reduction/proto/workerpb"
	"reduction.dev/reduction/workers/operator"
	"reduction.dev/reduction/workers/workerstest"
)

type d58Handler struct {
	mu   sync.Mutex
	told []time.Time
}

func (h *d58Handler) ProcessEventBatch(ctx context.Context, req *handlerpb.ProcessEventBatchRequest) (*handlerpb.ProcessEventBatchResponse, error) {
	h.mu.Lock()
	h.told = append(h.told, req.Watermark.AsTime())
	h.mu.Unlock()
	return &handlerpb.ProcessEventBatchResponse{}, nil
}

func (h *d58Handler) KeyEventBatch(ctx context.Context, events [][]byte) ([][]*handlerpb.KeyedEvent, error) {
	return nil, nil
}

// D58: the watermark the handler is told is the minimum of the upstream runners' watermarks, a runner that has not
// reported counting as the epoch. Before the first watermark message of a deployment that minimum is the epoch, but
// the handler is told time.Time{} (0001-01-01): TimerRegistry.watermark is only assigned in AdvanceWatermark.
func TestVerifD58HandlerToldEpochBeforeFirstWatermark(t *testing.T) {
	h := &d58Handler{}
	op := operator.NewOperator(operator.NewOperatorParams{ID: "op1", UserHandler: h, Job: &workerstest.DummyJob{}})
	go op.Start(context.Background())
	defer op.Stop()
	if err := op.HandleDeploy(context.Background(), &workerpb.DeployOperatorRequest{
		Operators:       []*jobpb.NodeIdentity{{Id: "op1", Host: "h"}},
		SourceRunnerIds: []string{"sr1", "sr2"},
		KeyGroupCount:   8,
		StorageLocation: "memory:///d58",
	}, &embedded.RecordingSink{}); err != nil {
		t.Fatal(err)
	}
	deadline := time.Now().Add(5 * time.Second)
	for {
		err := op.HandleEvent(context.Background(), "sr1", &workerpb.Event{Event: &workerpb.Event_KeyedEvent{
			KeyedEvent: &handlerpb.KeyedEvent{Key: []byte("k")}}})
		if err == nil {
			break
		}
		if time.Now().After(deadline) {
			t.Fatal(err)
		}
		time.Sleep(5 * time.Millisecond)
	}
	h.mu.Lock()
	defer h.mu.Unlock()
	if len(h.told) != 1 {
		t.Fatalf("expected one batch, got %d", len(h.told))
	}
	if !h.told[0].Equal(time.Unix(0, 0)) {
		t.Fatalf("before any watermark message the handler was told %v, want the epoch (minimum over runners that have not reported)", h.told[0].UTC())
	}
}
