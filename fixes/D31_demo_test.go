package sst_test

import (
	"bytes"
	"slices"
	"testing"

	"reduction.dev/reduction/dkv/kv"
	"reduction.dev/reduction/dkv/sst"
	"reduction.dev/reduction/dkv/storage"
)

type d31Entry struct{ k, v []byte }

func (e d31Entry) Key() []byte    { return e.k }
func (e d31Entry) Value() []byte  { return e.v }
func (e d31Entry) IsDelete() bool { return false }
func (e d31Entry) SeqNum() uint64 { return 1 }

// D31: when the input ended exactly at a chunk boundary WriteRun appended a table written from an
// empty buffer. Its key range is (nil, nil), so the run's ranges were no longer ordered and a
// level holding the run could send a binary search past the tables that contain the key.
func TestVerifD31WriteRunNoTrailingEmptyTable(t *testing.T) {
	fs := storage.NewMemoryFilesystem()
	// One entry larger than 1.5x the target: it is flushed as a full chunk and the input is exhausted.
	entries := []kv.Entry{d31Entry{k: []byte("a"), v: bytes.Repeat([]byte("x"), 200)}}
	tables, err := sst.NewTableWriter(fs, 0).WriteRun(slices.Values(entries), 100)
	if err != nil {
		t.Fatal(err)
	}
	if len(tables) != 1 {
		t.Fatalf("want 1 table, got %d", len(tables))
	}
	for i, tb := range tables {
		if tb.EntriesSize() == 0 {
			t.Fatalf("table %d of %d is empty", i, len(tables))
		}
		if !tb.RangeContainsKey([]byte("a")) && i == 0 {
			t.Fatalf("table 0 does not cover its key")
		}
	}
}
