//go:build verif

package dkv_test

import (
	"slices"
	"strings"
	"sync"
	"testing"
	"time"

	"github.com/stretchr/testify/require"
	"reduction.dev/reduction/dkv"
	"reduction.dev/reduction/dkv/storage"
	"reduction.dev/reduction/util/verifhook"
)

// D5: a flush that commits between the two snapshots a read takes must not hide the flushed data.
// The reader is parked between its snapshots (hook dkv.read.between) while the flush commit runs.
func TestVerifD5ReadDuringFlushCommit(t *testing.T) {
	for _, mode := range []string{"get", "scan"} {
		fs := storage.NewMemoryFilesystem().WithWorkingDir("d5" + mode)
		db := dkv.Open(dkv.DBOptions{FileSystem: fs, MemTableSize: 200, L0TableNumCompactionTrigger: 100}, nil)

		flushGate := make(chan struct{}) // holds the flush before its commit
		flushDone := make(chan struct{}) // closed when the commit happened
		readerParked := make(chan struct{})
		var once sync.Once
		armed := false
		verifhook.Set(func(label string, payload []any) {
			if len(payload) == 0 || payload[0] != any(db) {
				return
			}
			switch label {
			case "dkv.flush.commit":
				<-flushGate
			case "dkv.flush.done":
				close(flushDone)
			case "dkv.read.between":
				if armed {
					once.Do(func() {
						close(readerParked)
						close(flushGate) // let the flush commit while the reader sits between its snapshots
						select {
						case <-flushDone:
						case <-time.After(5 * time.Second):
						}
					})
				}
			}
		})
		db.Put([]byte("k"), []byte("v"))
		db.Put([]byte("zz"), []byte(strings.Repeat("x", 300))) // seals the memtable holding k; flush waits at the commit
		armed = true
		if mode == "get" {
			got, err := db.Get([]byte("k"))
			require.NoError(t, err, "Get(k) while the flush commits")
			require.Equal(t, "v", string(got.Value()))
		} else {
			var scanErr error
			entries := slices.Collect(db.ScanPrefix([]byte("k"), &scanErr))
			require.NoError(t, scanErr)
			require.Len(t, entries, 1, "ScanPrefix(k) while the flush commits")
		}
		verifhook.Set(nil)
		require.NoError(t, db.WaitOnTasks())
	}
}
