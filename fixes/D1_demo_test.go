package sliceu_test

import (
	"cmp"
	"testing"

	"reduction.dev/reduction/util/sliceu"
)

// D1: half-open binary search with `high = i - 1` skips elements.
func TestVerifD1SearchUniqueFindsEveryElement(t *testing.T) {
	for n := 0; n <= 9; n++ {
		xs := make([]int, n)
		for i := range xs {
			xs[i] = 2 * i
		}
		for i, x := range xs {
			got, ok := sliceu.SearchUnique(xs, x, cmp.Compare[int])
			if !ok || got != i {
				t.Fatalf("n=%d: search %d: got (%d,%v) want (%d,true)", n, x, got, ok, i)
			}
		}
	}
}
