import json,sys,glob,os
pid=sys.argv[1]; d=sys.argv[2]
p=[json.loads(l) for l in open('/verif/properties.jsonl') if json.loads(l)['id']==pid][0]
prev=[]
for dd in sorted(glob.glob(f'/verif/seeded/{pid}-*')):
    try: prev.append(json.load(open(os.path.join(dd,'meta.json'))).get('summary',''))
    except Exception: pass
AVOID=''
if prev:
    AVOID='\n\nEarlier contributors already produced the following changes for this property; yours must be DIFFERENT in mechanism and code site (do not redo or vary these):\n'+'\n'.join(f'  - {x}' for x in prev if x)+'\n'
print(f"""You are working alone in a scratch git worktree of a Go repository at {d} (reduction: a stateful stream-processing engine in Go with its own LSM key-value store "dkv", write-ahead log, barrier-aligned distributed checkpoints, savepoints, watermarks and event-time timers). Work ONLY inside {d}. Do not read or touch /repo or /verif. Generated protobuf code is already copied into the worktree (untracked *.pb.go / *.connect.go files), so `go build ./...` works; always run Go with `export GOFLAGS=-mod=mod GOPROXY=off` and no network. Some package test binaries (connectors, rpc) need testing/synctest and do not compile: ignore those.

Here is a semantic property the system is supposed to satisfy (id {pid}): "{p['title']}".
Statement: {p['statement']}
It must hold: {p['quantifier']['text']}
Relevant files: {', '.join(p['anchors']['files'])}

TASK: produce a change to the repository source that BREAKS this property while (a) still compiling, (b) still passing the existing test suite (`go test -vet=off -count=1 ./dkv/... ./batching/... ./util/... ./storage/locations/... ./storage/objstore/...` plus the tests of any other package you touch that compiles), and (c) needing something specific to manifest — a particular interleaving, a crash or fault at a particular point, a multi-step sequence of operations, an unusual input, or two cooperating sites that each look fine alone — NOT something ordinary use would expose at once. It should look like a plausible refactor, optimisation or well-meant fix by a maintainer (no comments announcing the bug). Keep it small (a few lines to a few dozen).

Also provide a DEMONSTRATION: a Go test file (or small program) placed in the worktree that FAILS with your change and PASSES without it, exercising the real code (for concurrency-dependent breaks you may synchronise with channels/gating wrappers around interfaces the code already accepts, or use the hook package util/verifhook with `-tags verif` if the code has a hook at the right place: `verifhook.Set(func(label string, payload []any))` is called at `verifhook.At(...)` sites and may block).

{AVOID}
Produce TWO independent changes using different mechanisms / code sites if you can (SEED1, SEED2); one good one is better than two weak ones. For each N deliver in {d}/SEEDN/: patch.diff (output of `git diff` for tracked source files only — not the demo), the demo file (say in meta where it must be placed and the exact command to run it), and meta.json: {{"property": "{pid}", "summary": one sentence, "needs_to_manifest": what specific situation triggers it, "files_touched": [...], "demo_path_in_repo": "...", "demo_cmd": "...", "verified": the commands you ran and their outcomes with and without the change (existing suite green with the change; demo red with / green without)}}. Verify all of that yourself (use `git diff > /tmp/yourpatch && git apply -R /tmp/yourpatch` to test both ways; NEVER use `git stash`: the stash is shared between all worktrees of this repository and other people are working in sibling worktrees) before finishing, and leave the worktree with NO source change applied (git diff empty), only the SEED directories. Final message: a short summary of each seed.""")
