#!/bin/bash
# usage: tools/seedrefresh.sh <seedname>...   re-runs the quick checks (own property + those that caught it before)
# against /repo HEAD + seeded/<name>/patch.diff in scratch copies and rewrites caught_by / checks_run in meta.json.
for name in "$@"; do
  d=/verif/seeded/$name
  [ -f "$d/patch.diff" ] || continue
  patch="$d/patch.diff"
  [ -f "$d/equivalent_on_current_head.diff" ] && patch="$d/equivalent_on_current_head.diff"
  props=$(python3 - "$d/meta.json" <<'PY'
import json,sys,re
m=json.load(open(sys.argv[1]))
ps=[m["property"]]
for c in m.get("caught_by",[]):
    for x in re.findall(r"C\d\d",c):
        if x not in ps: ps.append(x)
for x in m.get("also_check",[]):
    if x not in ps: ps.append(x)
print(" ".join(ps))
PY
)
  res=$(/verif/tools/mutrun.sh "$patch" quick $props 2>&1)
  python3 - "$name" "$res" $props <<'PY'
import json,sys
name,res=sys.argv[1:3]; props=sys.argv[3:]
p=f"/verif/seeded/{name}/meta.json"
m=json.load(open(p))
if "PATCH DOES NOT APPLY" in res:
    m["patch_applies_to_head"]=False
else:
    m["patch_applies_to_head"]=True
    m["checks_run"]={"props":props,"tier":"quick","output":res.splitlines()}
    m["caught_by"]=sorted(set(l.split("property=")[1].split()[0] for l in res.splitlines() if l.startswith("VIOLATION")))
json.dump(m,open(p,"w"),indent=1)
print(name,"CAUGHT BY:",m.get("caught_by"),"" if m["patch_applies_to_head"] else "(patch does not apply to HEAD; previous result kept)")
PY
done
