#!/bin/bash
# usage: tools/harmlessrun.sh <outdir> [streams]   runs every behaviour-preserving patch in harmless/ through all 20 quick
# checks (scratch copies via tools/mutrun.sh, committed tag `good` of /verif); a VIOLATION line in any output is a false alarm.
out=${1:-/tmp/harmless-out}; streams=${2:-4}
mkdir -p "$out"
ls -d /verif/harmless/*/ | xargs -n1 basename | xargs -P "$streams" -I{} sh -c "/verif/tools/mutrun.sh /verif/harmless/{}/patch.diff quick C01 C02 C03 C04 C05 C06 C07 C08 C09 C10 C11 C12 C13 C14 C15 C16 C17 C18 C19 C20 > $out/{}.out 2>&1"
grep -l "^VIOLATION" "$out"/*.out | sed 's#.*/##' | tr '\n' ' '; echo
echo "patches: $(ls $out/*.out | wc -l), with a VIOLATION line: $(grep -l '^VIOLATION' $out/*.out | wc -l)"
