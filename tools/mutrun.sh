#!/bin/sh
# usage: tools/mutrun.sh <patch.diff> <tier> <Cxx>...   runs the checks against /repo HEAD + patch in scratch copies; leaves nothing behind
patch=$(readlink -f "$1"); tier=$2; shift 2
id=$$
wt=/tmp/mut-$id; vv=/tmp/mutv-$id
git -C /repo worktree add --detach "$wt" HEAD >/dev/null 2>&1 || exit 2
if ! git -C "$wt" apply "$patch"; then echo "PATCH DOES NOT APPLY"; git -C /repo worktree remove --force "$wt"; exit 2; fi
# untracked verif-tagged accessor files of builders still at work (not yet committed in /repo)
(cd /repo && git ls-files --others --exclude-standard | grep -E 'verif_(export|hook)' | while read f; do mkdir -p "$wt/$(dirname $f)"; cp "$f" "$wt/$f"; done)
# the COMMITTED state of /verif (builders may be mid-edit in the working copy), plus the build caches
mkdir -p "$vv" && git -C /verif archive $(git -C /verif rev-parse -q --verify good >/dev/null && echo good || echo HEAD) | tar -x -C "$vv" && rsync -a /verif/.cache "$vv"/ && mkdir -p "$vv/lean" && rsync -a /verif/lean/.lake "$vv/lean"/
rm -f "$vv"/.cache/pb.stamp
for p in "$@"; do
  (cd "$vv" && VERIF_REPO="$wt" timeout 1800 ./check "$p" "$tier" 2>"$vv/err_$p.txt" | grep -E "^(VIOLATION|KNOWN-FINDING)" | sed "s#$vv#/verif#" ; echo "== $p exit=$?"; grep -E "diverg|broken obligation|\.go:[0-9]+:[0-9]+:" "$vv/err_$p.txt" | head -5 | cut -c1-300)
done
git -C /repo worktree remove --force "$wt"; rm -rf "$vv"
