// protogen: minimal proto3 -> FileDescriptorProto compiler + plugin driver.
// usage: protogen -root /repo -out DIR -plugin path/to/protoc-gen-go [-plugin ...] file.proto...
package main

import (
	"bytes"
	"flag"
	"fmt"
	"os"
	"os/exec"
	"path/filepath"
	"strconv"
	"strings"
	"unicode"

	"google.golang.org/protobuf/proto"
	"google.golang.org/protobuf/reflect/protodesc"
	"google.golang.org/protobuf/reflect/protoreflect"
	"google.golang.org/protobuf/reflect/protoregistry"
	"google.golang.org/protobuf/types/descriptorpb"
	"google.golang.org/protobuf/types/pluginpb"

	_ "google.golang.org/protobuf/types/known/timestamppb"
	_ "reduction.dev/reduction-protocol/handlerpb"
	_ "reduction.dev/reduction-protocol/jobconfigpb"
)

type multi []string

func (m *multi) String() string     { return strings.Join(*m, ",") }
func (m *multi) Set(s string) error { *m = append(*m, s); return nil }

// ---- lexer ----
type tok struct {
	s   string
	str bool
}

func lex(src string) []tok {
	var out []tok
	i := 0
	for i < len(src) {
		c := src[i]
		switch {
		case c == '/' && i+1 < len(src) && src[i+1] == '/':
			for i < len(src) && src[i] != '\n' {
				i++
			}
		case c == '/' && i+1 < len(src) && src[i+1] == '*':
			j := strings.Index(src[i+2:], "*/")
			i += j + 4
		case unicode.IsSpace(rune(c)):
			i++
		case c == '"':
			j := i + 1
			for src[j] != '"' {
				j++
			}
			out = append(out, tok{src[i+1 : j], true})
			i = j + 1
		case unicode.IsLetter(rune(c)) || c == '_' || unicode.IsDigit(rune(c)) || c == '.':
			j := i
			for j < len(src) && (unicode.IsLetter(rune(src[j])) || src[j] == '_' || unicode.IsDigit(rune(src[j])) || src[j] == '.') {
				j++
			}
			out = append(out, tok{src[i:j], false})
			i = j
		default:
			out = append(out, tok{string(c), false})
			i++
		}
	}
	return out
}

type parser struct {
	t    []tok
	p    int
	file string
}

func (p *parser) peek() string {
	if p.p >= len(p.t) {
		return ""
	}
	return p.t[p.p].s
}
func (p *parser) next() tok { t := p.t[p.p]; p.p++; return t }
func (p *parser) expect(s string) {
	if t := p.next(); t.s != s {
		panic(fmt.Sprintf("%s: expected %q got %q", p.file, s, t.s))
	}
}

var scalar = map[string]descriptorpb.FieldDescriptorProto_Type{
	"double": descriptorpb.FieldDescriptorProto_TYPE_DOUBLE, "float": descriptorpb.FieldDescriptorProto_TYPE_FLOAT,
	"int32": descriptorpb.FieldDescriptorProto_TYPE_INT32, "int64": descriptorpb.FieldDescriptorProto_TYPE_INT64,
	"uint32": descriptorpb.FieldDescriptorProto_TYPE_UINT32, "uint64": descriptorpb.FieldDescriptorProto_TYPE_UINT64,
	"sint32": descriptorpb.FieldDescriptorProto_TYPE_SINT32, "sint64": descriptorpb.FieldDescriptorProto_TYPE_SINT64,
	"fixed32": descriptorpb.FieldDescriptorProto_TYPE_FIXED32, "fixed64": descriptorpb.FieldDescriptorProto_TYPE_FIXED64,
	"bool": descriptorpb.FieldDescriptorProto_TYPE_BOOL, "string": descriptorpb.FieldDescriptorProto_TYPE_STRING,
	"bytes": descriptorpb.FieldDescriptorProto_TYPE_BYTES,
}

func jsonName(s string) string {
	var b strings.Builder
	up := false
	for _, r := range s {
		if r == '_' {
			up = true
			continue
		}
		if up {
			b.WriteRune(unicode.ToUpper(r))
			up = false
		} else {
			b.WriteRune(r)
		}
	}
	return b.String()
}

func (p *parser) field(msg *descriptorpb.DescriptorProto, oneof *int32) {
	label := descriptorpb.FieldDescriptorProto_LABEL_OPTIONAL
	if p.peek() == "repeated" {
		p.next()
		label = descriptorpb.FieldDescriptorProto_LABEL_REPEATED
	}
	typ := p.next().s
	name := p.next().s
	p.expect("=")
	num, err := strconv.Atoi(p.next().s)
	if err != nil {
		panic(err)
	}
	p.expect(";")
	f := &descriptorpb.FieldDescriptorProto{
		Name: proto.String(name), Number: proto.Int32(int32(num)), Label: label.Enum(), JsonName: proto.String(jsonName(name)),
	}
	if st, ok := scalar[typ]; ok {
		f.Type = st.Enum()
	} else {
		f.Type = descriptorpb.FieldDescriptorProto_TYPE_MESSAGE.Enum()
		f.TypeName = proto.String(typ) // resolved later
	}
	if oneof != nil {
		f.OneofIndex = oneof
	}
	msg.Field = append(msg.Field, f)
}

func (p *parser) message() *descriptorpb.DescriptorProto {
	m := &descriptorpb.DescriptorProto{Name: proto.String(p.next().s)}
	p.expect("{")
	for p.peek() != "}" {
		if p.peek() == "oneof" {
			p.next()
			idx := int32(len(m.OneofDecl))
			m.OneofDecl = append(m.OneofDecl, &descriptorpb.OneofDescriptorProto{Name: proto.String(p.next().s)})
			p.expect("{")
			for p.peek() != "}" {
				p.field(m, &idx)
			}
			p.expect("}")
			continue
		}
		if p.peek() == "message" || p.peek() == "enum" || p.peek() == "map" || p.peek() == "reserved" || p.peek() == "optional" {
			panic(p.file + ": unsupported construct " + p.peek())
		}
		p.field(m, nil)
	}
	p.expect("}")
	return m
}

func (p *parser) service() *descriptorpb.ServiceDescriptorProto {
	s := &descriptorpb.ServiceDescriptorProto{Name: proto.String(p.next().s)}
	p.expect("{")
	for p.peek() != "}" {
		p.expect("rpc")
		m := &descriptorpb.MethodDescriptorProto{Name: proto.String(p.next().s)}
		p.expect("(")
		if p.peek() == "stream" {
			panic("stream unsupported")
		}
		m.InputType = proto.String(p.next().s)
		p.expect(")")
		p.expect("returns")
		p.expect("(")
		if p.peek() == "stream" {
			panic("stream unsupported")
		}
		m.OutputType = proto.String(p.next().s)
		p.expect(")")
		if p.peek() == "{" {
			p.next()
			p.expect("}")
		} else {
			p.expect(";")
		}
		s.Method = append(s.Method, m)
	}
	p.expect("}")
	return s
}

func parse(name, src string) *descriptorpb.FileDescriptorProto {
	p := &parser{t: lex(src), file: name}
	fd := &descriptorpb.FileDescriptorProto{Name: proto.String(name)}
	for p.p < len(p.t) {
		switch t := p.next().s; t {
		case "syntax":
			p.expect("=")
			fd.Syntax = proto.String(p.next().s)
			p.expect(";")
		case "package":
			fd.Package = proto.String(p.next().s)
			p.expect(";")
		case "import":
			fd.Dependency = append(fd.Dependency, p.next().s)
			p.expect(";")
		case "option":
			k := p.next().s
			p.expect("=")
			v := p.next().s
			p.expect(";")
			if k != "go_package" {
				panic("unsupported option " + k)
			}
			fd.Options = &descriptorpb.FileOptions{GoPackage: proto.String(v)}
		case "message":
			fd.MessageType = append(fd.MessageType, p.message())
		case "service":
			fd.Service = append(fd.Service, p.service())
		default:
			panic(name + ": unexpected token " + t)
		}
	}
	return fd
}

func main() {
	var plugins multi
	root := flag.String("root", ".", "import root")
	out := flag.String("out", "out", "output dir")
	flag.Var(&plugins, "plugin", "plugin binary (repeatable)")
	flag.Parse()

	files := map[string]*descriptorpb.FileDescriptorProto{}
	var order []string
	known := map[string]bool{} // fully-qualified message names
	var load func(name string)
	load = func(name string) {
		if _, ok := files[name]; ok {
			return
		}
		if src, err := os.ReadFile(filepath.Join(*root, name)); err == nil {
			fd := parse(name, string(src))
			files[name] = fd
			for _, d := range fd.Dependency {
				load(d)
			}
			for _, m := range fd.MessageType {
				known[fd.GetPackage()+"."+m.GetName()] = true
			}
			order = append(order, name)
			return
		}
		d, err := protoregistry.GlobalFiles.FindFileByPath(name)
		if err != nil {
			panic(fmt.Sprintf("cannot resolve import %s: %v", name, err))
		}
		fd := protodesc.ToFileDescriptorProto(d)
		files[name] = fd
		for _, dep := range fd.Dependency {
			load(dep)
		}
		var walk func(prefix string, ms protoreflect.MessageDescriptors)
		walk = func(prefix string, ms protoreflect.MessageDescriptors) {
			for i := 0; i < ms.Len(); i++ {
				known[string(ms.Get(i).FullName())] = true
				walk("", ms.Get(i).Messages())
			}
		}
		walk("", d.Messages())
		order = append(order, name)
	}
	for _, f := range flag.Args() {
		load(f)
	}

	resolve := func(fd *descriptorpb.FileDescriptorProto, n string) string {
		if strings.HasPrefix(n, ".") {
			return n
		}
		if known[n] {
			return "." + n
		}
		if q := fd.GetPackage() + "." + n; known[q] {
			return "." + q
		}
		panic(fmt.Sprintf("%s: cannot resolve type %s", fd.GetName(), n))
	}
	for _, name := range flag.Args() {
		fd := files[name]
		for _, m := range fd.MessageType {
			for _, f := range m.Field {
				if f.TypeName != nil {
					f.TypeName = proto.String(resolve(fd, *f.TypeName))
				}
			}
		}
		for _, s := range fd.Service {
			for _, m := range s.Method {
				m.InputType = proto.String(resolve(fd, *m.InputType))
				m.OutputType = proto.String(resolve(fd, *m.OutputType))
			}
		}
	}
	for _, name := range flag.Args() {
		if _, err := protodesc.NewFile(files[name], resolverFor(files)); err != nil {
			panic(fmt.Sprintf("%s: %v", name, err))
		}
	}

	req := &pluginpb.CodeGeneratorRequest{FileToGenerate: flag.Args(), Parameter: proto.String("paths=source_relative")}
	for _, n := range order {
		req.ProtoFile = append(req.ProtoFile, files[n])
	}
	reqB, err := proto.Marshal(req)
	if err != nil {
		panic(err)
	}
	for _, pl := range plugins {
		cmd := exec.Command(pl)
		cmd.Stdin = bytes.NewReader(reqB)
		var so bytes.Buffer
		cmd.Stdout = &so
		cmd.Stderr = os.Stderr
		if err := cmd.Run(); err != nil {
			panic(fmt.Sprintf("%s: %v", pl, err))
		}
		var resp pluginpb.CodeGeneratorResponse
		if err := proto.Unmarshal(so.Bytes(), &resp); err != nil {
			panic(err)
		}
		if resp.Error != nil {
			panic(pl + ": " + resp.GetError())
		}
		for _, f := range resp.File {
			dst := filepath.Join(*out, f.GetName())
			os.MkdirAll(filepath.Dir(dst), 0o755)
			if err := os.WriteFile(dst, []byte(f.GetContent()), 0o644); err != nil {
				panic(err)
			}
			fmt.Println("wrote", dst)
		}
	}
}

type mapResolver struct{ files *protoregistry.Files }

func resolverFor(files map[string]*descriptorpb.FileDescriptorProto) protodesc.Resolver {
	r := &protoregistry.Files{}
	var add func(n string)
	done := map[string]bool{}
	add = func(n string) {
		if done[n] {
			return
		}
		done[n] = true
		fd := files[n]
		for _, d := range fd.Dependency {
			add(d)
		}
		for _, m := range fd.MessageType {
			for _, f := range m.Field {
				if f.TypeName != nil && !strings.HasPrefix(*f.TypeName, ".") {
					return
				}
			}
		}
		f, err := protodesc.NewFile(fd, r)
		if err != nil {
			return
		}
		r.RegisterFile(f)
	}
	for n := range files {
		add(n)
	}
	return r
}
