module verif/tools/protogen

go 1.24

require (
	google.golang.org/protobuf v1.36.3
	reduction.dev/reduction-protocol v0.0.5-0.20250502133230-e5852cf15cdc
)
