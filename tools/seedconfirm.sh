#!/bin/bash
# usage: tools/seedconfirm.sh <seeddir> <name> <Cxx> [more Cxx]
# Confirms an independently produced property-breaking change in a scratch worktree (demo green without / red with,
# pinned suite green with), stores it under /verif/seeded/<name>/ and runs the given checks against it.
sd=$(readlink -f "$1"); name=$2; shift 2
export GOFLAGS=-mod=mod GOPROXY=off
wt=/tmp/conf-$$
git -C /repo worktree add --detach "$wt" HEAD >/dev/null 2>&1 || exit 2
(cd /verif/.cache/pb && find . -type f | while read f; do mkdir -p "$wt/$(dirname $f)"; cp "$f" "$wt/$f"; done)
demo_path=$(jq -r .demo_path_in_repo "$sd/meta.json" | grep -oE '[A-Za-z0-9_./-]+' | head -1)
demo_file=$(basename "$demo_path"); [ -f "$sd/$demo_file" ] || demo_file=$(ls "$sd" | grep -v -E '^(patch.diff|meta.json)$' | head -1)
demo_dir=$(dirname "$demo_path")
case "$demo_path" in *.go) ;; *) demo_dir="$demo_path"; demo_path="$demo_path/$demo_file";; esac
mkdir -p "$wt/$demo_dir"; cp "$sd/$demo_file" "$wt/$demo_path"
tags=""; grep -q "go:build verif" "$sd/$demo_file" && tags="-tags verif"
pkg="./$demo_dir/"
runpat=$(jq -r .demo_cmd "$sd/meta.json" | grep -oE '\-run [^ ]+' | head -1 | tr -d "'\"")
run_demo() { (cd "$wt" && timeout 600 go test $tags -vet=off -count=1 -timeout 300s $runpat "$pkg" >/tmp/conf-demo-$$.txt 2>&1; echo $?); }
without=$(run_demo)
if ! git -C "$wt" apply "$sd/patch.diff"; then echo "PATCH DOES NOT APPLY to HEAD"; git -C /repo worktree remove --force "$wt"; exit 2; fi
build=$( (cd "$wt" && go build ./... >/dev/null 2>&1; echo $?) )
with=$(run_demo); tail -5 /tmp/conf-demo-$$.txt | cut -c1-200
rm "$wt/$demo_path"
suite=$( (cd "$wt" && go test -json -vet=off -count=1 -timeout 25m ./... 2>/dev/null | python3 -c "
import sys,json
p=set()
for l in sys.stdin:
    try: e=json.loads(l)
    except: continue
    if e.get('Test') and e.get('Action')=='pass': p.add(e['Package']+'::'+e['Test'])
b=set(json.load(open('/root/.vp/BASELINE.json'))['stable_pass'])
print(len(b-p))") )
git -C /repo worktree remove --force "$wt"; rm -f /tmp/conf-demo-$$.txt
echo "demo without patch exit=$without, build with patch exit=$build, demo with patch exit=$with, pinned tests missing with patch=$suite"
if [ "$without" = 0 ] && [ "$build" = 0 ] && [ "$with" != 0 ] && [ "$suite" = 0 ]; then
  mkdir -p /verif/seeded/$name && cp "$sd"/* /verif/seeded/$name/
  res=$(/verif/tools/mutrun.sh "$sd/patch.diff" quick "$@" 2>&1)
  echo "$res"
  python3 - "$name" "$without" "$with" "$suite" "$res" "$@" <<'PY'
import json,sys
name,wo,wi,suite,res=sys.argv[1:6]; props=sys.argv[6:]
p=f"/verif/seeded/{name}/meta.json"
m=json.load(open(p))
m["confirmed_by_coordinator"]={"demo_without_patch_exit":int(wo),"demo_with_patch_exit":int(wi),"pinned_suite_missing_with_patch":int(suite),"base":"git -C /repo rev-parse HEAD at confirmation time"}
m["checks_run"]={"props":props,"tier":"quick","output":res.splitlines()}
m["caught_by"]=[l.split("property=")[1].split()[0] for l in res.splitlines() if l.startswith("VIOLATION")]
json.dump(m,open(p,"w"),indent=1)
print("CAUGHT BY:",m["caught_by"])
PY
else
  echo "SEED NOT CONFIRMED"
fi
