#!/bin/sh
# usage: tools/mkseedwt.sh <name>  -> scratch worktree /tmp/seed-<name> of /repo HEAD with generated protobuf code copied in
set -e
d=/tmp/seed-$1
git -C /repo worktree add --detach "$d" HEAD >/dev/null 2>&1
(cd /verif/.cache/pb && find . -type f | while read f; do mkdir -p "$d/$(dirname $f)"; cp "$f" "$d/$f"; done)
echo "$d"
