#!/usr/bin/env python3
"""Computes, per property, the minimal set of harness/cmd/corr files that builds on its own (harness/deps.json).
./check falls back to such a single-property build when the all-properties harness does not compile, so that a
change in /repo that breaks one property's harness cannot raise alarms for the others."""
import glob, json, os, re, subprocess, sys
V = os.path.dirname(os.path.dirname(os.path.abspath(__file__)))
D = os.path.join(V, "harness/cmd/corr")
env = dict(os.environ, GOFLAGS="-mod=mod", GOPROXY="off")
files = sorted(os.path.basename(f) for f in glob.glob(os.path.join(D, "*.go")) if not f.endswith("_test.go"))
src = {f: open(os.path.join(D, f)).read() for f in files}
def defines(sym):
    pat = re.compile(r"^(?:func\s+(?:\([^)]*\)\s*)?%s\b|type\s+%s\b|var\s+%s\b|const\s+%s\b|\s+%s\s+=|\s+%s\s)" % ((re.escape(sym),) * 6), re.M)
    return [f for f in files if pat.search(src[f])]
out = {}
for n in range(1, 21):
    pid = f"C{n:02d}"
    cur = ["main.go"] + [f for f in files if re.match(rf"c{n:02d}([_a-z].*)?\.go$", f)]
    for _ in range(12):
        p = subprocess.run(["go", "build", "-tags", "verif", "-overlay", os.path.join(V, ".cache/overlay.json"), "-o", "/dev/null"] + cur,
                           cwd=D, env=env, capture_output=True, text=True)
        if p.returncode == 0:
            break
        syms = set(re.findall(r"undefined: (\w+)", p.stderr))
        add = []
        for s in syms:
            for f in defines(s):
                if f not in cur and f not in add:
                    add.append(f)
        if not add:
            print(pid, "cannot resolve:", p.stderr[:400], file=sys.stderr)
            break
        cur += add
    out[pid] = cur
json.dump(out, open(os.path.join(V, "harness/deps.json"), "w"), indent=1)
for k, v in out.items():
    print(k, v)
