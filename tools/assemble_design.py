#!/usr/bin/env python3
"""Replaces each `### Cxx — …` subsection of DESIGN.md §8 by the as-built description in design/Cxx.md (when present)."""
import re, os
p = '/verif/DESIGN.md'
s = open(p).read()
m8 = re.search(r'^## 8\. .*$', s, re.M)
m9 = re.search(r'^## 9\. .*$', s, re.M)
head, sec8, tail = s[:m8.start()], s[m8.start():m9.start()], s[m9.start():]
parts = re.split(r'(?m)^(?=### C\d\d )', sec8)
out = [parts[0]]
for part in parts[1:]:
    pid = part[4:7]
    f = f'/verif/design/{pid}.md'
    title = part.split('\n', 1)[0]
    if os.path.exists(f):
        body = open(f).read().strip()
        body = re.sub(r'(?m)^#{1,3} ', '#### ', body)  # demote headings inside the subsection
        out.append(f"{title}\n*(as built; written by the property's builder, file design/{pid}.md)*\n\n{body}\n\n")
    else:
        out.append(part)
head = head.replace("Status of this document: sections 0–12 were written before any framework code (the plan); section 13 records what\nwas built and supersedes the plan where they differ.",
    "Status of this document: sections 0–7 and 9–12 were written before any framework code (the plan); section 8 has been\nreplaced by the builders' as-built descriptions (design/Cxx.md), and section 13 records what was built (status tables,\nrepaired and open defects, seeded changes, harmless rewrites, audits) and supersedes the plan where they differ.")
open(p, 'w').write(head + ''.join(out) + tail)
print("inlined:", [x[4:7] for x in parts[1:] if os.path.exists(f'/verif/design/{x[4:7]}.md')])
