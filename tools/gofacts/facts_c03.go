package main

// Facts for C03 (keyed state store): the layout of the composite key as the current source writes and reads it
// (workers/operator/keyed_state_store.go). Variable names and statement order are not looked at; what is extracted:
//
//   ksLenBits / ksLenBigEndian   the one binary.<Order>.PutUint<N> call of encodeSubjectKey (encodeDBKey: the same call, or it builds on encodeSubjectKey)
//   ksNsLenBits                  the uintN(len(namespace)) conversion that writes the namespace length
//   ksDecodeSkip                 low bound of the slice expression decodeKey starts reading from        (compositeKey[3:])
//   ksDecodeLenBits / ksDecodeNsBits   the two `var … uintN` length variables of decodeKey, in order
//   ksDecodeBigEndian            every binary.Read in decodeKey names binary.BigEndian
//
// The model (Model/KeyedState.lean decodeKey) and the layout theorem (Props/C03.lean) are re-checked against them.
// A shape this reader does not recognise is reported as a problem attributed to the facts concerned (the last good
// value is kept, never a guessed 0); tools/gofacts/fallbacks.json names the correspondences that observe each fact
// completely (C05 `dbkey`/`subjkey` compare the encoded bytes, C03 `decode`/`get` go through the real decodeKey).

import (
	"go/ast"
	"strconv"
	"strings"
)

func init() { extraFactFns = append(extraFactFns, c03Facts) }

var c03UintBits = map[string]uint64{"uint8": 8, "byte": 8, "uint16": 16, "uint32": 32, "uint64": 64}

// putUint finds the binary.<Order>.PutUint<N> calls of a function: (bits, bigEndian) per call.
func c03PutUints(fn *ast.FuncDecl) (out [][2]uint64) {
	ast.Inspect(fn, func(n ast.Node) bool {
		c, ok := n.(*ast.CallExpr)
		if !ok {
			return true
		}
		name := selName(c.Fun)
		for _, ord := range []string{"BigEndian", "LittleEndian"} {
			pfx := "binary." + ord + ".PutUint"
			if strings.HasPrefix(name, pfx) {
				if bits, err := strconv.ParseUint(name[len(pfx):], 10, 64); err == nil {
					be := uint64(0)
					if ord == "BigEndian" {
						be = 1
					}
					out = append(out, [2]uint64{bits, be})
				}
			}
		}
		return true
	})
	return out
}

func c03Facts(fc *facts) {
	f := parseFile("workers/operator/keyed_state_store.go")
	subj := findFuncOr(f, "KeyedStateStore", "encodeSubjectKey")
	dbk := findFuncOr(f, "KeyedStateStore", "encodeDBKey")
	dec := findFuncOr(f, "KeyedStateStore", "decodeKey")

	// encodeDBKey either writes the same length field itself or builds on encodeSubjectKey
	a, b := c03PutUints(subj), c03PutUints(dbk)
	delegates := false
	ast.Inspect(dbk, func(n ast.Node) bool {
		if c, ok := n.(*ast.CallExpr); ok && strings.HasSuffix(selName(c.Fun), ".encodeSubjectKey") {
			delegates = true
		}
		return true
	})
	if len(a) == 1 && ((len(b) == 1 && a[0] == b[0]) || (len(b) == 0 && delegates)) {
		fc.set("ksLenBits", a[0][0], true, "")
		fc.set("ksLenBigEndian", a[0][1], true, "")
	} else {
		problemFor([]string{"ksLenBits", "ksLenBigEndian"}, "subject-key length field: encodeSubjectKey writes %v, encodeDBKey writes %v (expected one equal binary.<Order>.PutUint<N> call each, or encodeDBKey building on encodeSubjectKey)", a, b)
	}

	// uintN(len(namespace))
	var nsBits []uint64
	ast.Inspect(dbk, func(n ast.Node) bool {
		c, ok := n.(*ast.CallExpr)
		if !ok || len(c.Args) != 1 {
			return true
		}
		id, ok := c.Fun.(*ast.Ident)
		if !ok {
			return true
		}
		bits, ok := c03UintBits[id.Name]
		if !ok {
			return true
		}
		if inner, ok := c.Args[0].(*ast.CallExpr); ok && selName(inner.Fun) == "len" && len(inner.Args) == 1 && selName(inner.Args[0]) == "namespace" {
			nsBits = append(nsBits, bits)
		}
		return true
	})
	if len(nsBits) == 1 {
		fc.set("ksNsLenBits", nsBits[0], true, "")
	} else {
		problemFor([]string{"ksNsLenBits"}, "namespace length field: expected one uintN(len(namespace)) in encodeDBKey, found %v", nsBits)
	}

	// decodeKey
	var skips, varBits []uint64
	be, le, otherOrder := 0, 0, 0
	ast.Inspect(dec, func(n ast.Node) bool {
		switch x := n.(type) {
		case *ast.SliceExpr:
			if x.High == nil && x.Low != nil {
				if v, ok := litVal(x.Low); ok {
					skips = append(skips, v)
				}
			}
		case *ast.ValueSpec:
			if id, ok := x.Type.(*ast.Ident); ok {
				if bits, ok := c03UintBits[id.Name]; ok {
					for range x.Names {
						varBits = append(varBits, bits)
					}
				}
			}
		case *ast.CallExpr:
			if selName(x.Fun) == "binary.Read" && len(x.Args) == 3 {
				switch selName(x.Args[1]) {
				case "binary.BigEndian":
					be++
				case "binary.LittleEndian":
					le++
				default:
					otherOrder++ // a byte order this reader cannot name: not guessed
				}
			}
		}
		return true
	})
	if len(skips) == 1 {
		fc.set("ksDecodeSkip", skips[0], true, "")
	} else {
		problemFor([]string{"ksDecodeSkip"}, "decodeKey: expected one x[<constant>:] slice expression, found %v", skips)
	}
	if len(varBits) == 2 {
		fc.set("ksDecodeLenBits", varBits[0], true, "")
		fc.set("ksDecodeNsBits", varBits[1], true, "")
	} else {
		problemFor([]string{"ksDecodeLenBits", "ksDecodeNsBits"}, "decodeKey: expected two unsigned length variables, found %v", varBits)
	}
	switch {
	case be >= 2 && le == 0 && otherOrder == 0:
		fc.set("ksDecodeBigEndian", 1, true, "")
	case le >= 2 && be == 0 && otherOrder == 0:
		fc.set("ksDecodeBigEndian", 0, true, "")
	default:
		problemFor([]string{"ksDecodeBigEndian"}, "decodeKey: expected binary.Read calls naming one byte order, found %d big-endian, %d little-endian, %d other", be, le, otherOrder)
	}
}
