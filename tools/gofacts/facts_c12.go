package main

import (
	"go/ast"
	"go/token"
)

// C12: code-shape facts of storage/snapshots/store.go that the sequential model of the store relies on.
//
//	c12CallsAtomic          HARD. every public state-changing call of Store starts with `s.stateMu.Lock()` followed by
//	                        `defer s.stateMu.Unlock()` and neither it nor any Store method it calls synchronously
//	                        (helpers, at any depth; bodies of `go` statements and function literals excluded) touches
//	                        stateMu again: one call = one critical section.
//	c12FinishHoldsLock      HARD. sourceSplitter.Checkpoint() is called synchronously inside the critical section of
//	                        AddOperatorSnapshot and AddSourceSnapshot (through whatever helpers), and no function on that
//	                        path releases the lock: a finished snapshot is never visible as pending to another call.
//	c12LoadCounterMaxLocal  observed by C12 (`restart`/`sprestart` followed by `create`): LoadCheckpoint sets the id
//	                        counter once, to max(loadedCheckpoint.Id, newestLocalID). 0 = the old rule (loaded id only);
//	                        any other shape is reported as not re-derivable (last value kept, fallback correspondence).
//
// The recognisers are structural (which calls happen under the lock), independent of local names, comments and of
// helper extraction inside store.go.
func init() { extraFactFns = append(extraFactFns, c12Facts) }

// muOps counts stateMu operations in n, not descending into function literals (they run later / elsewhere).
func muOps(n ast.Node, recv string) int {
	k := 0
	ast.Inspect(n, func(x ast.Node) bool {
		switch c := x.(type) {
		case *ast.FuncLit:
			return false
		case *ast.CallExpr:
			switch selName(c.Fun) {
			case recv + ".stateMu.Lock", recv + ".stateMu.Unlock", recv + ".stateMu.TryLock", recv + ".stateMu.RLock", recv + ".stateMu.RUnlock":
				k++
			}
		}
		return true
	})
	return k
}

func recvName(fn *ast.FuncDecl) string {
	if fn.Recv != nil && len(fn.Recv.List) == 1 && len(fn.Recv.List[0].Names) == 1 {
		return fn.Recv.List[0].Names[0].Name
	}
	return "s"
}

// syncCallees returns the Store methods called synchronously from fn (not from go statements / function literals),
// and whether a `.Checkpoint()` call on something else than the receiver happens synchronously in fn.
func syncCallees(fn *ast.FuncDecl, methods map[string]*ast.FuncDecl) (callees []string, callsCheckpoint bool) {
	recv := recvName(fn)
	ast.Inspect(fn.Body, func(x ast.Node) bool {
		switch c := x.(type) {
		case *ast.FuncLit:
			return false
		case *ast.GoStmt:
			return false
		case *ast.CallExpr:
			if sel, ok := c.Fun.(*ast.SelectorExpr); ok {
				if id, ok := sel.X.(*ast.Ident); ok && id.Name == recv {
					if _, ok := methods[sel.Sel.Name]; ok {
						callees = append(callees, sel.Sel.Name)
					}
				} else if sel.Sel.Name == "Checkpoint" {
					callsCheckpoint = true
				}
			}
		}
		return true
	})
	return
}

func c12Facts(fc *facts) {
	f := parseFile("storage/snapshots/store.go")
	b2u := func(b bool) uint64 {
		if b {
			return 1
		}
		return 0
	}
	methods := map[string]*ast.FuncDecl{}
	for _, d := range f.Decls {
		if fd, ok := d.(*ast.FuncDecl); ok && fd.Body != nil && fd.Recv != nil && findFunc(f, "Store", fd.Name.Name) == fd {
			methods[fd.Name.Name] = fd
		}
	}
	// closure of synchronous helper calls; reports lock operations in helpers and a synchronous Checkpoint() call
	var walk func(name string, seen map[string]bool) (helperMuOps int, checkpoint bool)
	walk = func(name string, seen map[string]bool) (int, bool) {
		fn := methods[name]
		callees, cp := syncCallees(fn, methods)
		ops := 0
		for _, c := range callees {
			if seen[c] {
				continue
			}
			seen[c] = true
			ops += muOps(methods[c].Body, recvName(methods[c]))
			o, p := walk(c, seen)
			ops += o
			cp = cp || p
		}
		return ops, cp
	}
	atomic := true
	finishHolds := true
	for _, name := range []string{"CreateCheckpoint", "CreateSavepoint", "AddOperatorSnapshot", "AddSourceSnapshot", "RegisterSourceSplitter", "CurrentCheckpoint"} {
		fn := methods[name]
		if fn == nil || len(fn.Body.List) < 2 {
			problem("snapshots.Store.%s not found", name)
			return
		}
		recv := recvName(fn)
		first, ok1 := fn.Body.List[0].(*ast.ExprStmt)
		second, ok2 := fn.Body.List[1].(*ast.DeferStmt)
		own := ok1 && ok2 && selCall(first.X) == recv+".stateMu.Lock" && selCall(second.Call) == recv+".stateMu.Unlock" && muOps(fn.Body, recv) == 2
		helperOps, checkpoint := walk(name, map[string]bool{name: true})
		if !own || helperOps != 0 {
			atomic = false
		}
		if name == "AddOperatorSnapshot" || name == "AddSourceSnapshot" {
			if !own || helperOps != 0 || !checkpoint {
				finishHolds = false
			}
		}
	}
	fc.set("c12CallsAtomic", b2u(atomic), true, "")
	fc.set("c12FinishHoldsLock", b2u(finishHolds), true, "")

	load := methods["LoadCheckpoint"]
	if load == nil {
		problemFor([]string{"c12LoadCounterMaxLocal"}, "snapshots.Store.LoadCheckpoint not found")
		return
	}
	recv := recvName(load)
	// the counter assignment(s) in LoadCheckpoint
	var rhs []ast.Expr
	other := 0
	ast.Inspect(load.Body, func(x ast.Node) bool {
		switch n := x.(type) {
		case *ast.AssignStmt:
			for i, l := range n.Lhs {
				if selName(l) == recv+".state.checkpointID" {
					if n.Tok == token.ASSIGN && len(n.Rhs) == len(n.Lhs) {
						rhs = append(rhs, n.Rhs[i])
					} else {
						other++
					}
				}
			}
		case *ast.IncDecStmt:
			if selName(n.X) == recv+".state.checkpointID" {
				other++
			}
		}
		return true
	})
	isLoadedID := func(e ast.Expr) bool {
		s, ok := e.(*ast.SelectorExpr)
		return ok && s.Sel.Name == "Id"
	}
	switch {
	case other == 0 && len(rhs) == 1 && isLoadedID(rhs[0]):
		fc.set("c12LoadCounterMaxLocal", 0, true, "") // the pre-D49 rule: the loaded checkpoint's id only
	case other == 0 && len(rhs) == 1 && isMaxOfLoadedAndLocal(rhs[0], load, isLoadedID):
		fc.set("c12LoadCounterMaxLocal", 1, true, "")
	default:
		fc.set("c12LoadCounterMaxLocal", 0, false, "LoadCheckpoint's counter assignment `checkpointID = max(<loaded>.Id, <newest local id>)`")
	}
}

func selCall(e ast.Expr) string {
	if c, ok := e.(*ast.CallExpr); ok {
		return selName(c.Fun)
	}
	return ""
}

// isMaxOfLoadedAndLocal: max(x.Id, v) (either order) where v is a local variable that is only ever assigned the
// first result of checkpointIDFromFilePath / savepointIDFromFilePath (through `id, ok := checkpointIDFromFilePath(..)`).
func isMaxOfLoadedAndLocal(e ast.Expr, load *ast.FuncDecl, isLoadedID func(ast.Expr) bool) bool {
	c, ok := e.(*ast.CallExpr)
	if !ok || selName(c.Fun) != "max" || len(c.Args) != 2 {
		return false
	}
	var local *ast.Ident
	switch {
	case isLoadedID(c.Args[0]):
		local, _ = c.Args[1].(*ast.Ident)
	case isLoadedID(c.Args[1]):
		local, _ = c.Args[0].(*ast.Ident)
	}
	if local == nil {
		return false
	}
	// names bound to the id result of checkpointIDFromFilePath
	decoded := map[string]bool{}
	ast.Inspect(load.Body, func(x ast.Node) bool {
		if a, ok := x.(*ast.AssignStmt); ok && len(a.Rhs) == 1 && len(a.Lhs) == 2 {
			// ids decoded from listed file names: job snapshot files and (D66) savepoint artifacts
			if fn := selCall(a.Rhs[0]); fn == "checkpointIDFromFilePath" || fn == "savepointIDFromFilePath" {
				if id, ok := a.Lhs[0].(*ast.Ident); ok {
					decoded[id.Name] = true
				}
			}
		}
		return true
	})
	assigns, good := 0, true
	ast.Inspect(load.Body, func(x ast.Node) bool {
		a, ok := x.(*ast.AssignStmt)
		if !ok {
			return true
		}
		for i, l := range a.Lhs {
			if id, ok := l.(*ast.Ident); ok && id.Name == local.Name && a.Tok == token.ASSIGN {
				assigns++
				r, ok := a.Rhs[min(i, len(a.Rhs)-1)].(*ast.Ident)
				if len(a.Rhs) != len(a.Lhs) || !ok || !decoded[r.Name] {
					good = false
				}
			}
		}
		return true
	})
	return assigns >= 1 && good
}
