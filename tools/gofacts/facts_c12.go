package main

import (
	"go/ast"
	"go/token"
)

// C12: code-shape facts of storage/snapshots/store.go that the sequential model of the store relies on.
//
//	c12CallsAtomic            every public state-changing call is `s.stateMu.Lock(); defer s.stateMu.Unlock(); …`
//	                          with no other Lock/Unlock of stateMu in its body (one call = one critical section)
//	c12FinishHoldsLock        finishSnapshot never touches stateMu itself: the lock of the calling Add…Snapshot is
//	                          held across sourceSplitter.Checkpoint() until the caller clears pendingSnapshot
//	c12LoadCounterMaxLocal    LoadCheckpoint sets the id counter exactly once, to
//	                          max(loadedCheckpoint.Id, newestLocalID), where newestLocalID is only raised to ids decoded
//	                          from listed file names (checkpointIDFromFilePath)
func init() { extraFactFns = append(extraFactFns, c12Facts) }

func isMuCall(e ast.Expr, method string) bool {
	c, ok := e.(*ast.CallExpr)
	return ok && selName(c.Fun) == "s.stateMu."+method
}

func countMuCalls(n ast.Node) int {
	k := 0
	ast.Inspect(n, func(x ast.Node) bool {
		if c, ok := x.(*ast.CallExpr); ok {
			switch selName(c.Fun) {
			case "s.stateMu.Lock", "s.stateMu.Unlock", "s.stateMu.TryLock":
				k++
			}
		}
		return true
	})
	return k
}

func c12Facts(fc *facts) {
	f := parseFile("storage/snapshots/store.go")
	b2u := func(b bool) uint64 {
		if b {
			return 1
		}
		return 0
	}
	atomic := true
	for _, name := range []string{"CreateCheckpoint", "CreateSavepoint", "AddOperatorSnapshot", "AddSourceSnapshot", "RegisterSourceSplitter", "CurrentCheckpoint"} {
		fn := findFunc(f, "Store", name)
		if fn == nil || fn.Body == nil || len(fn.Body.List) < 2 {
			problem("snapshots.Store.%s not found", name)
			return
		}
		first, ok1 := fn.Body.List[0].(*ast.ExprStmt)
		second, ok2 := fn.Body.List[1].(*ast.DeferStmt)
		if !(ok1 && ok2 && isMuCall(first.X, "Lock") && isMuCall(second.Call, "Unlock") && countMuCalls(fn.Body) == 2) {
			atomic = false
		}
	}
	fc.set("c12CallsAtomic", b2u(atomic), true, "")

	fin := findFunc(f, "Store", "finishSnapshot")
	if fin == nil || fin.Body == nil {
		problem("snapshots.Store.finishSnapshot not found")
		return
	}
	callsSplitter := false
	ast.Inspect(fin.Body, func(x ast.Node) bool {
		if c, ok := x.(*ast.CallExpr); ok {
			if s, ok := c.Fun.(*ast.SelectorExpr); ok && s.Sel.Name == "Checkpoint" {
				callsSplitter = true
			}
		}
		return true
	})
	fc.set("c12FinishHoldsLock", b2u(callsSplitter && countMuCalls(fin.Body) == 0), true, "")

	load := findFunc(f, "Store", "LoadCheckpoint")
	if load == nil || load.Body == nil {
		problem("snapshots.Store.LoadCheckpoint not found")
		return
	}
	nAssign, maxShape := 0, false
	localOK, localAssigns := true, 0
	ast.Inspect(load.Body, func(x ast.Node) bool {
		switch n := x.(type) {
		case *ast.AssignStmt:
			for i, l := range n.Lhs {
				switch selName(l) {
				case "s.state.checkpointID":
					nAssign++
					if n.Tok == token.ASSIGN && len(n.Rhs) == len(n.Lhs) {
						if c, ok := n.Rhs[i].(*ast.CallExpr); ok && selName(c.Fun) == "max" && len(c.Args) == 2 {
							a, b := selName(c.Args[0]), selName(c.Args[1])
							maxShape = (a == "loadedCheckpoint.Id" && b == "newestLocalID") || (b == "loadedCheckpoint.Id" && a == "newestLocalID")
						}
					}
				case "newestLocalID":
					// only `newestLocalID = id` (guarded by `id > newestLocalID` in the listing loop)
					localAssigns++
					if !(n.Tok == token.ASSIGN && len(n.Rhs) == len(n.Lhs) && selName(n.Rhs[i]) == "id") {
						localOK = false
					}
				}
			}
		case *ast.IncDecStmt:
			if selName(n.X) == "s.state.checkpointID" || selName(n.X) == "newestLocalID" {
				nAssign += 10
			}
		}
		return true
	})
	fc.set("c12LoadCounterMaxLocal", b2u(nAssign == 1 && maxShape && localOK && localAssigns == 1), true, "")
}
