package main

// C19: the compare / pick functions handed to mergesort.Merge by kv.MergeEntries, translated so that the
// merge theorems are stated about what dkv/kv/kv.go says now.
func init() {
	ids := map[string]string{
		"a": "a", "b": "b",
		"a.SeqNum()": "(seqOf a)", "b.SeqNum()": "(seqOf b)",
		"a.Key()": "(keyOf a)", "b.Key()": "(keyOf b)",
	}
	fnSpecs = append(fnSpecs,
		fnSpec{"dkv/kv/kv.go", "", "keepNewest", "c19KeepNewest", "{α : Type} (seqOf : α → Nat) (a b : α) : α", ids},
		fnSpec{"dkv/kv/kv.go", "", "AscendingEntries", "c19AscendingEntries", "{α : Type} (keyOf : α → Bytes) (a b : α) : Int", ids},
	)
}
