package main

// Facts for C08 (DKV checkpoint / restore); Props/C08.lean `code_shape` is re-checked against them.
//
// HARD facts (locking / ordering of side effects: the trace validation cannot observe a lock, so these stay proof
// obligations). They are recognised by structure — which calls happen between Lock and Unlock of the same mutex
// expression and in which order — independent of local variable names, comments and helper methods of the same
// file (calls to them are followed). Value 1 = the structure is there, 0 = it is not.
//
//	c08CaptureUnderLock   DB.Checkpoint: the WAL `Rotate` (assigned back to the db's writer field) and the
//	                      checkpoint list's `Add` of the previous writer both happen inside one Lock…Unlock section
//	                      of the same mutex, and every argument of `Add` (level list, sequence number, writer) is read inside
//	                      that section — no value obtained before the Lock (one atomic `checkpoint` action)
//	c08SaveWalThenDoc     DB.Checkpoint: the previous writer's `Save()` happens before the checkpoint list's `Save(fs)`
//	                      (`saveWal` then `saveDoc`), both after the lock section
//	c08SaveUnderListLock  CheckpointList.Save: Lock + deferred Unlock of one mutex are its first statements, no other
//	                      lock operation occurs, and the documents are collected (`Document()`), the file is written
//	                      (`Save()`), the pending WALs are destroyed (`Destroy()`) in that order inside it (the model's
//	                      `saveList` is one atomic step: overlapping saves serialise)
//
//	c08AddUnderListLock / c08RetainUnderListLock / c08IncludesUnderListLock
//	                      CheckpointList.Add, RetainOnly and IncludesTable touch the list's fields only while holding the
//	                      mutex that Save holds (so the model's `checkpoint`, `retain` and a neighbour's NeedsTable are
//	                      atomic with respect to a save in progress)
//
// OBSERVED facts (their whole content is what the C08 traces compare on the real code). When the source no longer
// has the recognised text the fact is reported as a problem with the last good value kept, and
// tools/gofacts/fallbacks.json names C08 as the correspondence that then establishes (or refutes, with a replay) it:
//
//	c08AfterIsLatest      CheckpointList.Add: the WAL handle starts after `ll.LatestSeqNum`
//	c08StartSeqFromLevels DB.Start: `db.seqNum = latestCP.Levels.LatestSeqNum`
//	c08StartSkipsTableIDs DB.Start: `db.tableWriter.SkipTo(latestCP.NextTableID())` (repair D28)
//	c08StartNextWALID     DB.Start: the new writer is numbered `latestCP.NextWALID()`
//	c08FlushTruncates     flush commit: `db.wal.Truncate(db.sstables.LatestSeqNum)` under the lock, after the level swap
//	c08EndSeqIsMax        writeEntry: `t.endSeqNum = max(t.endSeqNum, entry.SeqNum())` (repair D6)
//	c08RotateKeepsMarks   wal.Writer.Rotate copies `latestSeqNum` of carried segments (repair D27)
//	c08RetainKeepsNewer   RetainOnly keeps `idsSet.Has(cp.ID) || cp.ID > newestRetainedID` (the model's `keeps`)

import (
	"bytes"
	"go/ast"
	"go/printer"
	"go/token"
	"strings"
)

func init() { extraFactFns = append(extraFactFns, c08Facts) }

func c08Src(n ast.Node) string {
	var b bytes.Buffer
	printer.Fprint(&b, token.NewFileSet(), n)
	return strings.Join(strings.Fields(b.String()), " ")
}

func c08Bool(b bool) uint64 {
	if b {
		return 1
	}
	return 0
}

// c08Event is one call in evaluation-relevant source order.
type c08Event struct {
	name  string // method / function name
	recv  string // printed receiver expression ("" for plain functions)
	nargs int
	args  []string
	defer_ bool
	inLit  bool   // inside a function literal (runs later / asynchronously)
	assign string // printed left-hand side when the call is the sole right-hand side of an assignment
}

// c08Events linearises the calls of a function body in source order, following calls to methods that are declared
// in the same file on the same receiver type (helper extraction), two levels deep.
func c08Events(file *ast.File, fn *ast.FuncDecl, depth int) []c08Event {
	var out []c08Event
	if fn == nil || fn.Body == nil {
		return out
	}
	recvType := ""
	if fn.Recv != nil && len(fn.Recv.List) == 1 {
		recvType = strings.TrimPrefix(c08Src(fn.Recv.List[0].Type), "*")
	}
	recvName := ""
	if fn.Recv != nil && len(fn.Recv.List) == 1 && len(fn.Recv.List[0].Names) == 1 {
		recvName = fn.Recv.List[0].Names[0].Name
	}
	assigned := map[*ast.CallExpr]string{}
	deferred := map[*ast.CallExpr]bool{}
	calledFun := map[*ast.SelectorExpr]bool{}
	var walk func(n ast.Node, inLit bool)
	walk = func(n ast.Node, inLit bool) {
		ast.Inspect(n, func(x ast.Node) bool {
			switch v := x.(type) {
			case *ast.FuncLit:
				if v != n {
					walk(v.Body, true)
					return false
				}
			case *ast.AssignStmt:
				if len(v.Lhs) == 1 && len(v.Rhs) == 1 {
					if c, ok := v.Rhs[0].(*ast.CallExpr); ok {
						assigned[c] = c08Src(v.Lhs[0])
					}
				}
			case *ast.DeferStmt:
				deferred[v.Call] = true
			case *ast.SelectorExpr:
				// a helper method of the same receiver handed over as a method value (`Enqueue(q, db.helper)`): it runs later
				if depth > 0 && recvName != "" && !calledFun[v] {
					if id, ok := v.X.(*ast.Ident); ok && id.Name == recvName {
						if h := findFunc(file, recvType, v.Sel.Name); h != nil && h != fn {
							out = append(out, c08Inline(file, h, depth-1, recvName, nil, true)...)
						}
					}
				}
			case *ast.CallExpr:
				if sel, ok := v.Fun.(*ast.SelectorExpr); ok {
					calledFun[sel] = true
				}
				ev := c08Event{nargs: len(v.Args), inLit: inLit, defer_: deferred[v], assign: assigned[v]}
				for _, a := range v.Args {
					ev.args = append(ev.args, c08Src(a))
				}
				switch f := v.Fun.(type) {
				case *ast.SelectorExpr:
					ev.name, ev.recv = f.Sel.Name, c08Src(f.X)
				case *ast.Ident:
					ev.name = f.Name
				default:
					return true
				}
				// follow helper methods of the same receiver declared in this file
				if depth > 0 && recvName != "" && ev.recv == recvName {
					if h := findFunc(file, recvType, ev.name); h != nil && h != fn {
						out = append(out, c08Inline(file, h, depth-1, recvName, ev.args, inLit)...)
						return true
					}
				}
				out = append(out, ev)
			}
			return true
		})
	}
	walk(fn.Body, false)
	return out
}

// c08Inline returns the events of helper h as they appear at a call site: the helper's receiver becomes the caller's
// receiver and its parameters become the argument expressions of the call (so a value keeps its caller-side name).
func c08Inline(file *ast.File, h *ast.FuncDecl, depth int, recvName string, args []string, inLit bool) []c08Event {
	sub := c08Events(file, h, depth)
	subst := map[string]string{}
	if h.Recv != nil && len(h.Recv.List) == 1 && len(h.Recv.List[0].Names) == 1 {
		subst[h.Recv.List[0].Names[0].Name] = recvName
	}
	if h.Type.Params != nil {
		i := 0
		for _, f := range h.Type.Params.List {
			for _, n := range f.Names {
				if i < len(args) {
					subst[n.Name] = args[i]
				}
				i++
			}
		}
	}
	ren := func(e string) string {
		for from, to := range subst {
			if e == from {
				return to
			}
			if strings.HasPrefix(e, from+".") {
				return to + strings.TrimPrefix(e, from)
			}
		}
		return e
	}
	for i := range sub {
		sub[i].inLit = sub[i].inLit || inLit
		sub[i].recv = ren(sub[i].recv)
		sub[i].assign = ren(sub[i].assign)
		for j := range sub[i].args {
			sub[i].args[j] = ren(sub[i].args[j])
		}
	}
	return sub
}

func c08Find(evs []c08Event, from int, pred func(c08Event) bool) int {
	for i := from; i < len(evs); i++ {
		if pred(evs[i]) {
			return i
		}
	}
	return -1
}

// c08CheckpointShape: (capture under one lock section, WAL saved before the document).
func c08CheckpointShape(file *ast.File) (capture, order bool) {
	fn := findFunc(file, "DB", "Checkpoint")
	if fn == nil || fn.Body == nil {
		return false, false
	}
	evs := c08Events(file, fn, 2)
	// the variable that keeps the writer being sealed: `<v> := <recv>.<field>` before the Rotate whose result is
	// assigned back to the same `<recv>.<field>`
	rot := c08Find(evs, 0, func(e c08Event) bool { return e.name == "Rotate" && e.assign != "" && e.assign == e.recv })
	if rot < 0 {
		return false, false
	}
	walField := evs[rot].recv
	prevVar := ""
	ast.Inspect(fn.Body, func(x ast.Node) bool {
		if a, ok := x.(*ast.AssignStmt); ok && len(a.Lhs) == 1 && len(a.Rhs) == 1 && c08Src(a.Rhs[0]) == walField {
			if id, ok := a.Lhs[0].(*ast.Ident); ok && prevVar == "" {
				prevVar = id.Name
			}
		}
		return true
	})
	if prevVar == "" {
		return false, false
	}
	lock := c08Find(evs, 0, func(e c08Event) bool { return e.name == "Lock" && !e.inLit })
	if lock < 0 || lock > rot {
		return false, false
	}
	mu := evs[lock].recv
	unlock := c08Find(evs, lock+1, func(e c08Event) bool { return e.name == "Unlock" && e.recv == mu && !e.inLit })
	if unlock < 0 {
		return false, false
	}
	end := unlock
	if evs[unlock].defer_ {
		end = len(evs) // held until the function returns
	}
	add := c08Find(evs, 0, func(e c08Event) bool {
		if e.name != "Add" || e.inLit {
			return false
		}
		for _, a := range e.args {
			if a == prevVar {
				return true
			}
		}
		return false
	})
	// no second lock section of that mutex in between, everything in the synchronous part
	relock := c08Find(evs, lock+1, func(e c08Event) bool { return e.name == "Lock" && e.recv == mu && !e.inLit })
	capture = add > lock && add < end && rot > lock && rot < end && !evs[rot].inLit && (relock < 0 || relock > end) &&
		c08AddArgsReadUnderLock(fn, prevVar)
	// the previous writer's Save() before the list's Save(fs); both after the lock section
	walSave := c08Find(evs, 0, func(e c08Event) bool { return e.name == "Save" && e.recv == prevVar })
	docSave := c08Find(evs, 0, func(e c08Event) bool { return e.name == "Save" && e.recv != prevVar && e.nargs == 1 })
	order = walSave >= 0 && docSave > walSave && (evs[unlock].defer_ || walSave > unlock)
	return capture, order
}

// c08AddArgsReadUnderLock: everything handed to the checkpoint list's Add — the level list, the sequence number, the
// sealed writer — is read inside the lock section: an argument is built from parameters, from fields of the receiver
// (read at the call, i.e. under the lock) and from locals that are (all) assigned after the Lock call. A value obtained
// before the Lock (a level-list snapshot taken for a log line, say) would not be captured atomically with the rotation.
func c08AddArgsReadUnderLock(fn *ast.FuncDecl, prevVar string) bool {
	var lockPos token.Pos
	var add *ast.CallExpr
	ast.Inspect(fn.Body, func(x ast.Node) bool {
		if _, ok := x.(*ast.FuncLit); ok {
			return false
		}
		c, ok := x.(*ast.CallExpr)
		if !ok {
			return true
		}
		sel, ok := c.Fun.(*ast.SelectorExpr)
		if !ok {
			return true
		}
		if sel.Sel.Name == "Lock" && lockPos == 0 {
			lockPos = c.Pos()
		}
		if sel.Sel.Name == "Add" && add == nil {
			for _, a := range c.Args {
				if id, ok := a.(*ast.Ident); ok && id.Name == prevVar {
					add = c
				}
			}
		}
		return true
	})
	if lockPos == 0 || add == nil {
		return false
	}
	okNames := map[string]bool{"nil": true, "true": true, "false": true}
	if fn.Recv != nil {
		for _, f := range fn.Recv.List {
			for _, n := range f.Names {
				okNames[n.Name] = true
			}
		}
	}
	if fn.Type.Params != nil {
		for _, f := range fn.Type.Params.List {
			for _, n := range f.Names {
				okNames[n.Name] = true
			}
		}
	}
	// where each local is assigned
	assigned := map[string][]token.Pos{}
	ast.Inspect(fn.Body, func(x ast.Node) bool {
		switch v := x.(type) {
		case *ast.AssignStmt:
			for _, l := range v.Lhs {
				if id, ok := l.(*ast.Ident); ok {
					assigned[id.Name] = append(assigned[id.Name], v.Pos())
				}
			}
		case *ast.ValueSpec:
			for _, n := range v.Names {
				assigned[n.Name] = append(assigned[n.Name], v.Pos())
			}
		}
		return true
	})
	good := true
	for _, a := range add.Args {
		ast.Inspect(a, func(x ast.Node) bool {
			switch v := x.(type) {
			case *ast.SelectorExpr:
				ast.Inspect(v.X, func(y ast.Node) bool { // the selected name itself is a field / method, not a local
					if id, ok := y.(*ast.Ident); ok {
						if !okNames[id.Name] {
							ps := assigned[id.Name]
							if len(ps) == 0 {
								return true // package name or builtin
							}
							for _, p := range ps {
								if p < lockPos || p > add.Pos() {
									good = false
								}
							}
						}
					}
					return true
				})
				return false
			case *ast.Ident:
				if okNames[v.Name] {
					return true
				}
				ps := assigned[v.Name]
				for _, p := range ps {
					if p < lockPos || p > add.Pos() {
						good = false
					}
				}
			}
			return true
		})
	}
	return good
}

// c08SaveShape: CheckpointList.Save is one critical section of the list mutex.
func c08SaveShape(file *ast.File) bool {
	fn := findFunc(file, "CheckpointList", "Save")
	if fn == nil || fn.Body == nil || len(fn.Body.List) < 2 {
		return false
	}
	// first two statements: <mu>.Lock() ; defer <mu>.Unlock()
	first, ok1 := fn.Body.List[0].(*ast.ExprStmt)
	second, ok2 := fn.Body.List[1].(*ast.DeferStmt)
	if !ok1 || !ok2 {
		return false
	}
	c1, ok := first.X.(*ast.CallExpr)
	if !ok {
		return false
	}
	s1, ok1 := c1.Fun.(*ast.SelectorExpr)
	s2, ok2 := second.Call.Fun.(*ast.SelectorExpr)
	if !ok1 || !ok2 || s1.Sel.Name != "Lock" || s2.Sel.Name != "Unlock" || c08Src(s1.X) != c08Src(s2.X) {
		return false
	}
	evs := c08Events(file, fn, 2)
	locks := 0
	for _, e := range evs {
		if e.name == "Lock" || e.name == "Unlock" || e.name == "RLock" || e.name == "RUnlock" || e.name == "TryLock" {
			locks++
		}
	}
	doc := c08Find(evs, 0, func(e c08Event) bool { return e.name == "Document" && e.nargs == 0 })
	write := c08Find(evs, 0, func(e c08Event) bool { return e.name == "Save" && e.nargs == 0 })
	destroy := c08Find(evs, 0, func(e c08Event) bool { return e.name == "Destroy" && e.nargs == 0 })
	anyLit := false
	for _, e := range evs {
		if (e.name == "Save" || e.name == "Destroy" || e.name == "Document") && e.inLit {
			anyLit = true // deferred to a closure: not provably inside the section
		}
	}
	return locks == 2 && doc >= 0 && doc < write && write < destroy && !anyLit
}

// c08ListLockField returns the mutex field CheckpointList.Save locks first ("mu").
func c08ListLockField(file *ast.File) string {
	fn := findFunc(file, "CheckpointList", "Save")
	if fn == nil || fn.Body == nil || len(fn.Body.List) == 0 || fn.Recv == nil || len(fn.Recv.List[0].Names) != 1 {
		return ""
	}
	es, ok := fn.Body.List[0].(*ast.ExprStmt)
	if !ok {
		return ""
	}
	c, ok := es.X.(*ast.CallExpr)
	if !ok {
		return ""
	}
	sel, ok := c.Fun.(*ast.SelectorExpr)
	if !ok || sel.Sel.Name != "Lock" {
		return ""
	}
	inner, ok := sel.X.(*ast.SelectorExpr)
	if !ok {
		return ""
	}
	if id, ok := inner.X.(*ast.Ident); !ok || id.Name != fn.Recv.List[0].Names[0].Name {
		return ""
	}
	return inner.Sel.Name
}

// c08StructFields lists the field names of a struct type declared in the file.
func c08StructFields(file *ast.File, name string) []string {
	var out []string
	ast.Inspect(file, func(x ast.Node) bool {
		ts, ok := x.(*ast.TypeSpec)
		if !ok || ts.Name.Name != name {
			return true
		}
		if st, ok := ts.Type.(*ast.StructType); ok {
			for _, f := range st.Fields.List {
				for _, n := range f.Names {
					out = append(out, n.Name)
				}
			}
		}
		return false
	})
	return out
}

// c08LockedAccess: the method touches the fields of its receiver's struct only between `<recv>.<mu>.Lock()` and the
// matching Unlock (deferred, or a later plain call) of the list mutex — the one Save holds. Independent of names of
// locals and of the statement forms in between.
func c08LockedAccess(file *ast.File, method string) bool {
	mu := c08ListLockField(file)
	fn := findFunc(file, "CheckpointList", method)
	if mu == "" || fn == nil || fn.Body == nil || fn.Recv == nil || len(fn.Recv.List[0].Names) != 1 {
		return false
	}
	recv := fn.Recv.List[0].Names[0].Name
	fields := map[string]bool{}
	for _, f := range c08StructFields(file, "CheckpointList") {
		if f != mu {
			fields[f] = true
		}
	}
	var lockPos, unlockPos token.Pos
	deferredUnlock := false
	isMu := func(e ast.Expr) bool {
		sel, ok := e.(*ast.SelectorExpr)
		if !ok || sel.Sel.Name != mu {
			return false
		}
		id, ok := sel.X.(*ast.Ident)
		return ok && id.Name == recv
	}
	deferred := map[*ast.CallExpr]bool{}
	ast.Inspect(fn.Body, func(x ast.Node) bool {
		switch v := x.(type) {
		case *ast.DeferStmt:
			deferred[v.Call] = true
		case *ast.CallExpr:
			if sel, ok := v.Fun.(*ast.SelectorExpr); ok && isMu(sel.X) {
				switch sel.Sel.Name {
				case "Lock":
					if lockPos == 0 {
						lockPos = v.Pos()
					}
				case "Unlock":
					if deferred[v] {
						deferredUnlock = true
					} else if v.Pos() > unlockPos {
						unlockPos = v.Pos()
					}
				}
			}
		}
		return true
	})
	if lockPos == 0 || (!deferredUnlock && unlockPos == 0) {
		return false
	}
	ok := true
	touched := false
	ast.Inspect(fn.Body, func(x ast.Node) bool {
		sel, isSel := x.(*ast.SelectorExpr)
		if !isSel || !fields[sel.Sel.Name] {
			return true
		}
		if id, isID := sel.X.(*ast.Ident); isID && id.Name == recv {
			touched = true
			if sel.Pos() < lockPos || (!deferredUnlock && sel.Pos() > unlockPos) {
				ok = false
			}
		}
		return true
	})
	return ok && touched
}

// c08Observed reports an observed fact: 1 when the text is there, otherwise a problem (last good value kept).
func c08Observed(fc *facts, name string, found bool, what string) {
	fc.set(name, 1, found, what)
}

func c08FnSrc(f *ast.File, recv, name string) string {
	if f == nil {
		return ""
	}
	if fn := findFunc(f, recv, name); fn != nil {
		return c08Src(fn)
	}
	return ""
}

func c08Facts(fc *facts) {
	db := parseFile("dkv/db.go")
	capture, order := c08CheckpointShape(db)
	fc.set("c08CaptureUnderLock", c08Bool(capture), true, "")
	fc.set("c08SaveWalThenDoc", c08Bool(order), true, "")

	cl := parseFile("dkv/recovery/checkpoint_list.go")
	fc.set("c08SaveUnderListLock", c08Bool(c08SaveShape(cl)), true, "")
	fc.set("c08AddUnderListLock", c08Bool(c08LockedAccess(cl, "Add")), true, "")
	fc.set("c08RetainUnderListLock", c08Bool(c08LockedAccess(cl, "RetainOnly")), true, "")
	fc.set("c08IncludesUnderListLock", c08Bool(c08LockedAccess(cl, "IncludesTable")), true, "")

	start := c08FnSrc(db, "DB", "Start")
	c08Observed(fc, "c08StartSeqFromLevels", strings.Contains(start, "db.seqNum = latestCP.Levels.LatestSeqNum"),
		"DB.Start: db.seqNum = latestCP.Levels.LatestSeqNum")
	c08Observed(fc, "c08StartSkipsTableIDs", strings.Contains(start, "db.tableWriter.SkipTo(latestCP.NextTableID())"),
		"DB.Start: db.tableWriter.SkipTo(latestCP.NextTableID())")
	c08Observed(fc, "c08StartNextWALID", strings.Contains(start, "wal.NewWriter(db.fs, latestCP.NextWALID(), db.maxWALSize)"),
		"DB.Start: wal.NewWriter(db.fs, latestCP.NextWALID(), db.maxWALSize)")

	rm := c08FnSrc(db, "DB", "rotateMemtable")
	c08Observed(fc, "c08FlushTruncates", strings.Contains(rm, "db.sstables = db.sstables.NewWithChangeSet(cs) db.mtables.Dequeue(sealedTables) db.wal.Truncate(db.sstables.LatestSeqNum) db.mu.Unlock()"),
		"flush commit: level swap, Dequeue, db.wal.Truncate(db.sstables.LatestSeqNum) in one lock section")

	c08Observed(fc, "c08AfterIsLatest", strings.Contains(c08FnSrc(cl, "CheckpointList", "Add"), "w.Handle(ll.LatestSeqNum)"),
		"CheckpointList.Add: w.Handle(ll.LatestSeqNum)")
	ro2 := c08FnSrc(cl, "CheckpointList", "RetainOnly")
	c08Observed(fc, "c08RetainKeepsNewer", strings.Contains(ro2, "if idsSet.Has(cp.ID) || cp.ID > newestRetainedID {") &&
		strings.Contains(ro2, "newestRetainedID = max(newestRetainedID, id)"),
		"RetainOnly: keep idsSet.Has(cp.ID) || cp.ID > newestRetainedID")

	tw := parseFile("dkv/sst/table_writer.go")
	c08Observed(fc, "c08EndSeqIsMax", strings.Contains(c08FnSrc(tw, "", "writeEntry"), "t.endSeqNum = max(t.endSeqNum, entry.SeqNum())"),
		"writeEntry: t.endSeqNum = max(t.endSeqNum, entry.SeqNum())")

	ww := parseFile("dkv/wal/writer.go")
	ro := c08FnSrc(ww, "Writer", "Rotate")
	c08Observed(fc, "c08RotateKeepsMarks", strings.Contains(ro, "&bufferSegment{buf: b.buf, latestSeqNum: b.latestSeqNum}") &&
		strings.Contains(ro, "&bufferSegment{buf: w.activeBuffer.buf, latestSeqNum: w.latestSeqNum}") &&
		strings.Contains(ro, "NewWriter(fs, w.id+1, w.maxSize)"),
		"wal.Writer.Rotate: carried segments keep latestSeqNum; next id = w.id+1")
}
