package main

// Facts for C08 (DKV checkpoint / restore). Each fact is 1 when the statement the model relies on is present
// in the source in the expected place, 0 otherwise; Props/C08.lean `code_shape` is re-checked against them.
//
//	c08CaptureUnderLock   DB.Checkpoint: `db.wal = db.wal.Rotate(db.fs)` and `db.checkpoints.Add(ckptID, db.sstables,
//	                      prevWAL, db.seqNum)` both between `db.mu.Lock()` and `db.mu.Unlock()` (one atomic `checkpoint` action)
//	c08SaveWalThenDoc     the asynchronous part saves the WAL before the checkpoint list (`saveWal` then `saveDoc`)
//	c08AfterIsLatest      CheckpointList.Add: the WAL handle starts after `ll.LatestSeqNum`
//	c08StartSeqFromLevels DB.Start: `db.seqNum = latestCP.Levels.LatestSeqNum`
//	c08StartSkipsTableIDs DB.Start: `db.tableWriter.SkipTo(latestCP.NextTableID())` (repair D28)
//	c08StartNextWALID     DB.Start: the new writer is numbered `latestCP.NextWALID()`
//	c08FlushTruncates     flush commit: `db.wal.Truncate(db.sstables.LatestSeqNum)` under the lock, after the level swap
//	c08EndSeqIsMax        writeEntry: `t.endSeqNum = max(t.endSeqNum, entry.SeqNum())` (repair D6)
//	c08RotateKeepsMarks   wal.Writer.Rotate copies `latestSeqNum` of carried segments (repair D27)
//	c08SaveUnderListLock  CheckpointList.Save: `cl.mu.Lock(); defer cl.mu.Unlock()` are its first statements and the
//	                      document is collected, written (`file.Save()`) and the pending WALs destroyed in that one
//	                      critical section (the model's `saveList` is one atomic step: overlapping saves serialise)
//	c08RetainKeepsNewer   RetainOnly keeps `idsSet.Has(cp.ID) || cp.ID > newestRetainedID` (the model's `keeps`)

import (
	"bytes"
	"go/ast"
	"go/printer"
	"go/token"
	"strings"
)

func init() { extraFactFns = append(extraFactFns, c08Facts) }

func c08Src(n ast.Node) string {
	var b bytes.Buffer
	printer.Fprint(&b, token.NewFileSet(), n)
	return strings.Join(strings.Fields(b.String()), " ")
}

// c08Stmts returns the rendered top-level statements of a function body.
func c08Stmts(fn *ast.FuncDecl) []string {
	var out []string
	if fn == nil || fn.Body == nil {
		return out
	}
	for _, s := range fn.Body.List {
		out = append(out, c08Src(s))
	}
	return out
}

func c08Index(stmts []string, want string) int {
	for i, s := range stmts {
		if s == want {
			return i
		}
	}
	return -1
}

func c08Bool(b bool) uint64 {
	if b {
		return 1
	}
	return 0
}

func c08Facts(fc *facts) {
	db := parseFile("dkv/db.go")
	ck := c08Stmts(findFunc(db, "DB", "Checkpoint"))
	lock, unlock := c08Index(ck, "db.mu.Lock()"), c08Index(ck, "db.mu.Unlock()")
	rot := c08Index(ck, "db.wal = db.wal.Rotate(db.fs)")
	add := c08Index(ck, "db.checkpoints.Add(ckptID, db.sstables, prevWAL, db.seqNum)")
	prev := c08Index(ck, "prevWAL := db.wal")
	fc.set("c08CaptureUnderLock", c08Bool(lock >= 0 && lock < prev && prev < rot && rot < unlock && prev < add && add < unlock), true, "")

	whole := ""
	if fn := findFunc(db, "DB", "Checkpoint"); fn != nil {
		whole = c08Src(fn)
	}
	iw, id := strings.Index(whole, "prevWAL.Save()"), strings.Index(whole, "db.checkpoints.Save(db.fs)")
	fc.set("c08SaveWalThenDoc", c08Bool(iw >= 0 && id > iw), true, "")

	start := ""
	if fn := findFunc(db, "DB", "Start"); fn != nil {
		start = c08Src(fn)
	}
	fc.set("c08StartSeqFromLevels", c08Bool(strings.Contains(start, "db.seqNum = latestCP.Levels.LatestSeqNum")), true, "")
	fc.set("c08StartSkipsTableIDs", c08Bool(strings.Contains(start, "db.tableWriter.SkipTo(latestCP.NextTableID())")), true, "")
	fc.set("c08StartNextWALID", c08Bool(strings.Contains(start, "wal.NewWriter(db.fs, latestCP.NextWALID(), db.maxWALSize)")), true, "")

	rm := ""
	if fn := findFunc(db, "DB", "rotateMemtable"); fn != nil {
		rm = c08Src(fn)
	}
	a := strings.Index(rm, "db.sstables = db.sstables.NewWithChangeSet(cs) db.mtables.Dequeue(sealedTables) db.wal.Truncate(db.sstables.LatestSeqNum) db.mu.Unlock()")
	fc.set("c08FlushTruncates", c08Bool(a >= 0), true, "")

	cl := parseFile("dkv/recovery/checkpoint_list.go")
	addSrc := ""
	if fn := findFunc(cl, "CheckpointList", "Add"); fn != nil {
		addSrc = c08Src(fn)
	}
	fc.set("c08AfterIsLatest", c08Bool(strings.Contains(addSrc, "w.Handle(ll.LatestSeqNum)")), true, "")

	sv := c08Stmts(findFunc(cl, "CheckpointList", "Save"))
	svSrc := strings.Join(sv, " ; ")
	iCollect, iWrite := strings.Index(svSrc, "ckpt.Document()"), strings.Index(svSrc, "file.Save()")
	iDestroy, iClear := strings.Index(svSrc, "cp.Destroy()"), strings.Index(svSrc, "cl.checkpointsPendingRemoval = nil")
	fc.set("c08SaveUnderListLock", c08Bool(len(sv) >= 2 && sv[0] == "cl.mu.Lock()" && sv[1] == "defer cl.mu.Unlock()" &&
		strings.Count(svSrc, "cl.mu.") == 2 && iCollect > 0 && iCollect < iWrite && iWrite < iDestroy && iDestroy < iClear), true, "")
	ro2 := ""
	if fn := findFunc(cl, "CheckpointList", "RetainOnly"); fn != nil {
		ro2 = c08Src(fn)
	}
	fc.set("c08RetainKeepsNewer", c08Bool(strings.Contains(ro2, "if idsSet.Has(cp.ID) || cp.ID > newestRetainedID {") &&
		strings.Contains(ro2, "newestRetainedID = max(newestRetainedID, id)")), true, "")

	tw := parseFile("dkv/sst/table_writer.go")
	we := ""
	if fn := findFunc(tw, "", "writeEntry"); fn != nil {
		we = c08Src(fn)
	}
	fc.set("c08EndSeqIsMax", c08Bool(strings.Contains(we, "t.endSeqNum = max(t.endSeqNum, entry.SeqNum())")), true, "")

	ww := parseFile("dkv/wal/writer.go")
	ro := ""
	if fn := findFunc(ww, "Writer", "Rotate"); fn != nil {
		ro = c08Src(fn)
	}
	fc.set("c08RotateKeepsMarks", c08Bool(strings.Contains(ro, "&bufferSegment{buf: b.buf, latestSeqNum: b.latestSeqNum}") &&
		strings.Contains(ro, "&bufferSegment{buf: w.activeBuffer.buf, latestSeqNum: w.latestSeqNum}") &&
		strings.Contains(ro, "NewWriter(fs, w.id+1, w.maxSize)")), true, "")
}
