package main

// Fact for C02 (barrier alignment): does Operator.HandleEvent turn away callers that are not source runners of the
// current deployment (finding D69 / its repair)?
//
//     c02SenderChecked  1: before the alignment decision HandleEvent returns for a sender it does not find among the
//                          operator's source runners; 0: the sender id is only used for alignment
//
// Structural recogniser: in the method HandleEvent of Operator, among the statements that precede the one calling
// alignSender, an `if` whose condition mentions both the sender parameter (the first string parameter, whatever its
// name) and the receiver's source-runner bookkeeping (any selector on the receiver whose field has type *upstreams,
// whatever it is called, directly or through a method/slices.Contains call) and whose body returns. Variable,
// receiver and helper names do not matter. The whole content of the fact is observed by the C02 correspondence
// (`send`/`sendb` of an undeployed caller answer `refused` or `passed|parked`; see fallbacks.json), so an
// unrecognised HandleEvent is reported for the fact by name (last good value kept).

import "go/ast"

func init() { extraFactFns = append(extraFactFns, c02Facts) }

func c02Facts(fc *facts) {
	f := parseFile("workers/operator/operator.go")
	fn := findFunc(f, "Operator", "HandleEvent")
	if fn == nil || fn.Body == nil || fn.Recv == nil || len(fn.Recv.List) != 1 || len(fn.Recv.List[0].Names) != 1 {
		fc.set("c02SenderChecked", 0, false, "Operator.HandleEvent")
		return
	}
	recv := fn.Recv.List[0].Names[0].Name
	sender := ""
	for _, p := range fn.Type.Params.List {
		if id, ok := p.Type.(*ast.Ident); ok && id.Name == "string" && len(p.Names) > 0 {
			sender = p.Names[0].Name
			break
		}
	}
	// fields of Operator of type *upstreams
	upFields := map[string]bool{}
	for _, d := range f.Decls {
		gd, ok := d.(*ast.GenDecl)
		if !ok {
			continue
		}
		for _, sp := range gd.Specs {
			ts, ok := sp.(*ast.TypeSpec)
			if !ok || ts.Name.Name != "Operator" {
				continue
			}
			st, ok := ts.Type.(*ast.StructType)
			if !ok {
				continue
			}
			for _, fld := range st.Fields.List {
				t := fld.Type
				if s, ok := t.(*ast.StarExpr); ok {
					t = s.X
				}
				if id, ok := t.(*ast.Ident); ok && id.Name == "upstreams" {
					for _, n := range fld.Names {
						upFields[n.Name] = true
					}
				}
			}
		}
	}
	mentions := func(n ast.Node) (snd, ups bool) {
		ast.Inspect(n, func(x ast.Node) bool {
			switch e := x.(type) {
			case *ast.Ident:
				if e.Name == sender {
					snd = true
				}
			case *ast.SelectorExpr:
				if id, ok := e.X.(*ast.Ident); ok && id.Name == recv && upFields[e.Sel.Name] {
					ups = true
				}
			}
			return true
		})
		return
	}
	callsAlign := func(n ast.Node) bool {
		found := false
		ast.Inspect(n, func(x ast.Node) bool {
			if c, ok := x.(*ast.CallExpr); ok {
				if s, ok := c.Fun.(*ast.SelectorExpr); ok && s.Sel.Name == "alignSender" {
					found = true
				}
			}
			return !found
		})
		return found
	}
	returns := func(b *ast.BlockStmt) bool {
		found := false
		ast.Inspect(b, func(x ast.Node) bool {
			if _, ok := x.(*ast.ReturnStmt); ok {
				found = true
			}
			return !found
		})
		return found
	}
	sawAlign, checked := false, false
	for _, st := range fn.Body.List {
		if callsAlign(st) {
			sawAlign = true
			break
		}
		if is, ok := st.(*ast.IfStmt); ok {
			cond := ast.Node(is.Cond)
			snd, ups := mentions(cond)
			if is.Init != nil {
				s2, u2 := mentions(is.Init)
				snd, ups = snd || s2, ups || u2
			}
			if snd && ups && returns(is.Body) {
				checked = true
			}
		}
	}
	if sender == "" || len(upFields) == 0 || !sawAlign {
		fc.set("c02SenderChecked", 0, false, "Operator.HandleEvent (sender parameter, *upstreams field, alignSender call)")
		return
	}
	v := uint64(0)
	if checked {
		v = 1
	}
	fc.set("c02SenderChecked", v, true, "")
}
