package main

// Facts for C11 (watermarks) and C10 (timer registry guards): the comparison used by each one-line decision, the
// constant slack of CurrentWatermark and the initial upstream watermark, extracted from the current source.
//
// The recognisers read structure, not text: receiver, parameter and local variable names do not matter, operands of a
// time comparison may appear in either order (`a.After(b)` = `b.Before(a)`, `a.Compare(b) > 0`), a guard may be written
// as `if c { return }; act` or `if !c { act }`, duration arithmetic is evaluated symbolically (local variables, operand
// order, parentheses, `-a - b` vs `-(a + b)`).
//
// Every fact here is a decision whose whole content is observed directly by lockstep operations of C10/C11 on the real
// code (see tools/gofacts/fallbacks.json). So an unrecognised shape is reported for the fact by name (ok=false: the
// last good value is kept and ./check ties the definition by running those correspondences); it is never silently
// turned into another value. A recognised shape with a different comparison/constant changes the generated fact and
// the theorems of Props/C10.lean / Props/C11.lean are re-checked against it.

import (
	"go/ast"
	"go/token"
)

func init() { extraFactFns = append(extraFactFns, c11Facts) }

func c11Unparen(e ast.Expr) ast.Expr {
	for {
		p, ok := e.(*ast.ParenExpr)
		if !ok {
			return e
		}
		e = p.X
	}
}

// relation codes between x and y as interpreted by the Lean model (Wm.timeCond):
// 0: x > y (x.After(y)), 1: x < y (x.Before(y)), 2: x <= y, 3: x >= y
var c11RelNeg = map[uint64]uint64{0: 2, 2: 0, 1: 3, 3: 1}
var c11RelSwap = map[uint64]uint64{0: 1, 1: 0, 2: 3, 3: 2} // the same relation with the operands exchanged

// c11TimeRel recognises a boolean expression comparing the two time values identified by isX / isY and returns the
// relation code of x relative to y.
func c11TimeRel(e ast.Expr, isX, isY func(ast.Expr) bool) (uint64, bool) {
	e = c11Unparen(e)
	if u, ok := e.(*ast.UnaryExpr); ok && u.Op == token.NOT {
		c, ok := c11TimeRel(u.X, isX, isY)
		return c11RelNeg[c], ok
	}
	// a.After(b) / a.Before(b) / a.Equal is not a decision we model
	if c, ok := e.(*ast.CallExpr); ok && len(c.Args) == 1 {
		if sel, ok := c.Fun.(*ast.SelectorExpr); ok {
			var code uint64
			switch sel.Sel.Name {
			case "After":
				code = 0
			case "Before":
				code = 1
			default:
				return 0, false
			}
			a, b := c11Unparen(sel.X), c11Unparen(c.Args[0])
			if isX(a) && isY(b) {
				return code, true
			}
			if isY(a) && isX(b) {
				return c11RelSwap[code], true
			}
		}
		return 0, false
	}
	// a.Compare(b) <op> 0   /   0 <op> a.Compare(b)
	if b, ok := e.(*ast.BinaryExpr); ok {
		ops := map[token.Token]uint64{token.GTR: 0, token.LSS: 1, token.LEQ: 2, token.GEQ: 3}
		code, ok := ops[b.Op]
		if !ok {
			return 0, false
		}
		l, r := c11Unparen(b.X), c11Unparen(b.Y)
		if v, isLit := litVal(l); isLit && v == 0 {
			l, r = r, l
			code = c11RelSwap[code]
		} else if v, isLit := litVal(r); !isLit || v != 0 {
			return 0, false
		}
		c, ok := l.(*ast.CallExpr)
		if !ok || len(c.Args) != 1 {
			return 0, false
		}
		sel, ok := c.Fun.(*ast.SelectorExpr)
		if !ok || sel.Sel.Name != "Compare" {
			return 0, false
		}
		a, bb := c11Unparen(sel.X), c11Unparen(c.Args[0])
		if isX(a) && isY(bb) {
			return code, true
		}
		if isY(a) && isX(bb) {
			return c11RelSwap[code], true
		}
	}
	return 0, false
}

func c11RecvName(fn *ast.FuncDecl) string {
	if fn.Recv != nil && len(fn.Recv.List) == 1 && len(fn.Recv.List[0].Names) == 1 {
		return fn.Recv.List[0].Names[0].Name
	}
	return ""
}

func c11ParamNames(fn *ast.FuncDecl) []string {
	var out []string
	if fn.Type != nil && fn.Type.Params != nil {
		for _, f := range fn.Type.Params.List {
			for _, n := range f.Names {
				out = append(out, n.Name)
			}
		}
	}
	return out
}

func c11IsSel(recv, field string) func(ast.Expr) bool {
	return func(e ast.Expr) bool { return recv != "" && selName(c11Unparen(e)) == recv+"."+field }
}
func c11IsIdent(name string) func(ast.Expr) bool {
	return func(e ast.Expr) bool { id, ok := c11Unparen(e).(*ast.Ident); return ok && name != "" && id.Name == name }
}

// guarded recognises `if C { <then> }` (no else, no init) as the first statement, or as the only statement, and
// tells whether <then> is a bare return/break (an "escape").
func c11IsEscape(b *ast.BlockStmt) bool {
	if len(b.List) != 1 {
		return false
	}
	switch s := b.List[0].(type) {
	case *ast.ReturnStmt:
		return len(s.Results) == 0
	case *ast.BranchStmt:
		return s.Tok == token.BREAK
	}
	return false
}

var durationUnits = map[string]int64{"time.Nanosecond": 1, "time.Microsecond": 1000, "time.Millisecond": 1000000, "time.Second": 1000000000}

// c11LinDur evaluates a duration expression to  a*lateness + c  (nanoseconds); lets holds local definitions.
func c11LinDur(e ast.Expr, isLateness func(ast.Expr) bool, lets map[string]ast.Expr, depth int) (a, c int64, ok bool) {
	if depth > 12 {
		return 0, 0, false
	}
	e = c11Unparen(e)
	if isLateness(e) {
		return 1, 0, true
	}
	switch n := e.(type) {
	case *ast.Ident:
		if d, ok := lets[n.Name]; ok {
			return c11LinDur(d, isLateness, lets, depth+1)
		}
		if v, ok := litVal(n); ok {
			return 0, int64(v), true
		}
	case *ast.BasicLit:
		if v, ok := litVal(n); ok {
			return 0, int64(v), true
		}
	case *ast.SelectorExpr:
		if v, ok := durationUnits[selName(n)]; ok {
			return 0, v, true
		}
	case *ast.UnaryExpr:
		if n.Op == token.SUB {
			a, c, ok := c11LinDur(n.X, isLateness, lets, depth+1)
			return -a, -c, ok
		}
		if n.Op == token.ADD {
			return c11LinDur(n.X, isLateness, lets, depth+1)
		}
	case *ast.BinaryExpr:
		a1, c1, ok1 := c11LinDur(n.X, isLateness, lets, depth+1)
		a2, c2, ok2 := c11LinDur(n.Y, isLateness, lets, depth+1)
		if !ok1 || !ok2 {
			return 0, 0, false
		}
		switch n.Op {
		case token.ADD:
			return a1 + a2, c1 + c2, true
		case token.SUB:
			return a1 - a2, c1 - c2, true
		case token.MUL:
			if a1 == 0 {
				return c1 * a2, c1 * c2, true
			}
			if a2 == 0 {
				return a1 * c2, c1 * c2, true
			}
		}
	case *ast.CallExpr:
		// time.Duration(x)
		if selName(n.Fun) == "time.Duration" && len(n.Args) == 1 {
			return c11LinDur(n.Args[0], isLateness, lets, depth+1)
		}
	}
	return 0, 0, false
}

func c11Facts(fc *facts) {
	wf := parseFile("workers/wmark/watermarks.go")

	// AdvanceTime(p): maxTimestamp becomes p exactly when <p rel maxTimestamp>; written as
	// `if C { w.max = p }` or `if !C { return }; w.max = p`
	func() {
		const what = "Watermarker.AdvanceTime: `if <param cmp recv.maxTimestamp> { recv.maxTimestamp = param }` (or the early-return form)"
		adv := findFunc(wf, "Watermarker", "AdvanceTime")
		ps := []string{}
		if adv != nil {
			ps = c11ParamNames(adv)
		}
		if adv == nil || adv.Body == nil || len(ps) != 1 {
			fc.set("wmAdvanceCond", 0, false, what)
			return
		}
		isP, isMax := c11IsIdent(ps[0]), c11IsSel(c11RecvName(adv), "maxTimestamp")
		isAssign := func(s ast.Stmt) bool {
			as, ok := s.(*ast.AssignStmt)
			return ok && as.Tok == token.ASSIGN && len(as.Lhs) == 1 && len(as.Rhs) == 1 && isMax(as.Lhs[0]) && isP(as.Rhs[0])
		}
		body := adv.Body.List
		if len(body) == 1 {
			if is, ok := body[0].(*ast.IfStmt); ok && is.Init == nil && is.Else == nil && len(is.Body.List) == 1 && isAssign(is.Body.List[0]) {
				if code, ok := c11TimeRel(is.Cond, isP, isMax); ok {
					fc.set("wmAdvanceCond", code, true, "")
					return
				}
			}
		}
		if len(body) == 2 && isAssign(body[1]) {
			if is, ok := body[0].(*ast.IfStmt); ok && is.Init == nil && is.Else == nil && c11IsEscape(is.Body) {
				if code, ok := c11TimeRel(is.Cond, isP, isMax); ok {
					fc.set("wmAdvanceCond", c11RelNeg[code], true, "")
					return
				}
			}
		}
		fc.set("wmAdvanceCond", 0, false, what)
	}()

	// CurrentWatermark: `return recv.maxTimestamp.Add(E)` with E = -(allowedLateness + slack), after local definitions
	func() {
		const what = "Watermarker.CurrentWatermark: `return recv.maxTimestamp.Add(-(recv.allowedLateness + <constant duration>))`"
		cur := findFunc(wf, "Watermarker", "CurrentWatermark")
		if cur == nil || cur.Body == nil || len(cur.Body.List) == 0 {
			fc.set("wmSlackNs", 0, false, what)
			return
		}
		recv := c11RecvName(cur)
		lets := map[string]ast.Expr{}
		body := cur.Body.List
		for _, s := range body[:len(body)-1] {
			as, ok := s.(*ast.AssignStmt)
			if !ok || as.Tok != token.DEFINE || len(as.Lhs) != 1 || len(as.Rhs) != 1 {
				fc.set("wmSlackNs", 0, false, what)
				return
			}
			id, ok := as.Lhs[0].(*ast.Ident)
			if !ok {
				fc.set("wmSlackNs", 0, false, what)
				return
			}
			lets[id.Name] = as.Rhs[0]
		}
		rs, ok := body[len(body)-1].(*ast.ReturnStmt)
		if ok && len(rs.Results) == 1 {
			if c, ok := c11Unparen(rs.Results[0]).(*ast.CallExpr); ok && len(c.Args) == 1 {
				if sel, ok := c.Fun.(*ast.SelectorExpr); ok && sel.Sel.Name == "Add" && c11IsSel(recv, "maxTimestamp")(sel.X) {
					if a, k, ok := c11LinDur(c.Args[0], c11IsSel(recv, "allowedLateness"), lets, 0); ok && a == -1 && k <= 0 {
						fc.set("wmSlackNs", uint64(-k), true, "")
						return
					}
				}
			}
		}
		fc.set("wmSlackNs", 0, false, what)
	}()

	rf := parseFile("workers/operator/timer_registry.go")

	// SetTimer(key, t): the timer is dropped exactly when <recv.watermark rel t>; written as
	// `if C { return }; recv.store.Put(key, t)` or `if !C { recv.store.Put(key, t) }`
	func() {
		const what = "TimerRegistry.SetTimer: `if <recv.watermark cmp t> { return }; recv.store.Put(key, t)` (or the guarded-call form)"
		st := findFunc(rf, "TimerRegistry", "SetTimer")
		ps := []string{}
		if st != nil {
			ps = c11ParamNames(st)
		}
		if st == nil || st.Body == nil || len(ps) != 2 {
			fc.set("timerGuardCond", 0, false, what)
			return
		}
		recv := c11RecvName(st)
		isWm, isT := c11IsSel(recv, "watermark"), c11IsIdent(ps[1])
		isPut := func(s ast.Stmt) bool {
			es, ok := s.(*ast.ExprStmt)
			if !ok {
				return false
			}
			c, ok := es.X.(*ast.CallExpr)
			return ok && selName(c.Fun) == recv+".store.Put" && len(c.Args) == 2 && c11IsIdent(ps[0])(c.Args[0]) && isT(c.Args[1])
		}
		body := st.Body.List
		if len(body) == 2 && isPut(body[1]) {
			if is, ok := body[0].(*ast.IfStmt); ok && is.Init == nil && is.Else == nil && c11IsEscape(is.Body) {
				if code, ok := c11TimeRel(is.Cond, isWm, isT); ok {
					fc.set("timerGuardCond", code, true, "")
					return
				}
			}
		}
		if len(body) == 1 {
			if is, ok := body[0].(*ast.IfStmt); ok && is.Init == nil && is.Else == nil && len(is.Body.List) == 1 && isPut(is.Body.List[0]) {
				if code, ok := c11TimeRel(is.Cond, isWm, isT); ok {
					fc.set("timerGuardCond", c11RelNeg[code], true, "")
					return
				}
			}
		}
		fc.set("timerGuardCond", 0, false, what)
	}()

	// AdvanceWatermark: the fire loop stops exactly when <timer.Timestamp rel composite>, where composite is the local
	// that receives the minimum of the upstreams (or recv.watermark itself): `if C { break }` / `if C { return }`
	func() {
		const what = "TimerRegistry.AdvanceWatermark: exactly one `if <timer.Timestamp cmp composite> { break }` in the fire loop"
		aw := findFunc(rf, "TimerRegistry", "AdvanceWatermark")
		if aw == nil || aw.Body == nil {
			fc.set("fireStopCond", 0, false, what)
			return
		}
		recv := c11RecvName(aw)
		composite := map[string]bool{}
		ast.Inspect(aw, func(n ast.Node) bool {
			as, ok := n.(*ast.AssignStmt)
			if !ok || len(as.Lhs) != 1 || len(as.Rhs) != 1 {
				return true
			}
			// x := iteru.MinFunc(...)   and   recv.watermark = x
			if c, ok := c11Unparen(as.Rhs[0]).(*ast.CallExpr); ok && selName(c.Fun) == "iteru.MinFunc" {
				if id, ok := as.Lhs[0].(*ast.Ident); ok {
					composite[id.Name] = true
				}
			}
			return true
		})
		isComp := func(e ast.Expr) bool {
			e = c11Unparen(e)
			if id, ok := e.(*ast.Ident); ok {
				return composite[id.Name]
			}
			return c11IsSel(recv, "watermark")(e)
		}
		isTs := func(e ast.Expr) bool {
			sel, ok := c11Unparen(e).(*ast.SelectorExpr)
			if !ok || sel.Sel.Name != "Timestamp" {
				return false
			}
			_, isId := sel.X.(*ast.Ident)
			return isId
		}
		var stops []uint64
		ast.Inspect(aw, func(n ast.Node) bool {
			is, ok := n.(*ast.IfStmt)
			if !ok || is.Else != nil || !c11IsEscape(is.Body) {
				return true
			}
			if code, ok := c11TimeRel(is.Cond, isTs, isComp); ok {
				stops = append(stops, code)
			}
			return true
		})
		if len(stops) == 1 {
			fc.set("fireStopCond", stops[0], true, "")
		} else {
			fc.set("fireStopCond", 0, false, what)
		}
	}()

	// NewTimerRegistry: the `time.Unix(<int>, <int>)` every configured runner's entry of the upstream map starts with
	// (an assignment `<map>[<id>] = time.Unix(a, b)`), and the initial value of the registry's `watermark` field in the
	// returned composite literal (`watermark: time.Unix(a, b)`; no such field = `time.Time{}`: regInitZero = 1)
	func() {
		const what = "NewTimerRegistry: exactly one `<map>[<id>] = time.Unix(<int>, <int>)` as the initial upstream watermark"
		const whatW = "NewTimerRegistry: one `&TimerRegistry{...}` literal whose `watermark` field is absent or `time.Unix(<int>, <int>)`"
		unixLit := func(e ast.Expr) (uint64, uint64, bool) {
			c, ok := c11Unparen(e).(*ast.CallExpr)
			if !ok || selName(c.Fun) != "time.Unix" || len(c.Args) != 2 {
				return 0, 0, false
			}
			a, ok1 := litVal(c.Args[0])
			b, ok2 := litVal(c.Args[1])
			return a, b, ok1 && ok2
		}
		nr := findFunc(rf, "", "NewTimerRegistry")
		var inits [][2]uint64
		var lits []*ast.CompositeLit
		if nr != nil {
			ast.Inspect(nr, func(n ast.Node) bool {
				switch x := n.(type) {
				case *ast.AssignStmt:
					if x.Tok == token.ASSIGN && len(x.Lhs) == 1 && len(x.Rhs) == 1 {
						if _, isIdx := x.Lhs[0].(*ast.IndexExpr); isIdx {
							if a, b, ok := unixLit(x.Rhs[0]); ok {
								inits = append(inits, [2]uint64{a, b})
							}
						}
					}
				case *ast.CompositeLit:
					if id, ok := x.Type.(*ast.Ident); ok && id.Name == "TimerRegistry" {
						lits = append(lits, x)
					}
				}
				return true
			})
		}
		if len(inits) == 1 {
			fc.set("upstreamInitSec", inits[0][0], true, "")
			fc.set("upstreamInitNsec", inits[0][1], true, "")
		} else {
			fc.set("upstreamInitSec", 0, false, what)
			fc.set("upstreamInitNsec", 0, false, what)
		}
		okW := false
		if len(lits) == 1 {
			var field ast.Expr
			count := 0
			for _, el := range lits[0].Elts {
				if kv, ok := el.(*ast.KeyValueExpr); ok && selName(kv.Key) == "watermark" {
					field = kv.Value
					count++
				}
			}
			if count == 0 {
				fc.set("regInitZero", 1, true, "")
				fc.set("regInitSec", 0, true, "")
				fc.set("regInitNsec", 0, true, "")
				okW = true
			} else if count == 1 {
				if a, b, ok := unixLit(field); ok {
					fc.set("regInitZero", 0, true, "")
					fc.set("regInitSec", a, true, "")
					fc.set("regInitNsec", b, true, "")
					okW = true
				} else if cl, ok := c11Unparen(field).(*ast.CompositeLit); ok && selName(cl.Type) == "time.Time" && len(cl.Elts) == 0 {
					fc.set("regInitZero", 1, true, "")
					fc.set("regInitSec", 0, true, "")
					fc.set("regInitNsec", 0, true, "")
					okW = true
				}
			}
		}
		if !okW {
			fc.set("regInitZero", 0, false, whatW)
			fc.set("regInitSec", 0, false, whatW)
			fc.set("regInitNsec", 0, false, whatW)
		}
	}()
}
