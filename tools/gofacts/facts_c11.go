package main

// Facts for C11 (watermarks) and C10 (timer registry guards): the comparison used by each one-line decision and the
// constant slack of CurrentWatermark, extracted from the current source. A changed operand or an unknown shape is a
// "problem" (exit 3 = broken correspondence); a changed comparison or constant changes the generated fact, and the
// theorems in Props/C10.lean / Props/C11.lean are re-checked against it.

import (
	"go/ast"
	"go/token"
)

func init() { extraFactFns = append(extraFactFns, c11Facts) }

// timeCond recognises `[!]X.After(Y)` / `[!]X.Before(Y)` and returns the code the Lean model interprets
// (Wm.timeCond): 0 = X after Y, 1 = X before Y, 2 = not after, 3 = not before.
func timeCond(e ast.Expr, wantX, wantY string) (uint64, bool) {
	neg := false
	for {
		if p, ok := e.(*ast.ParenExpr); ok {
			e = p.X
			continue
		}
		if u, ok := e.(*ast.UnaryExpr); ok && u.Op == token.NOT {
			neg = !neg
			e = u.X
			continue
		}
		break
	}
	c, ok := e.(*ast.CallExpr)
	if !ok || len(c.Args) != 1 {
		return 0, false
	}
	sel, ok := c.Fun.(*ast.SelectorExpr)
	if !ok || selName(sel.X) != wantX || selName(c.Args[0]) != wantY {
		return 0, false
	}
	var code uint64
	switch sel.Sel.Name {
	case "After":
		code = 0
	case "Before":
		code = 1
	default:
		return 0, false
	}
	if neg {
		code += 2
	}
	return code, true
}

var durationUnits = map[string]uint64{"time.Nanosecond": 1, "time.Microsecond": 1000, "time.Millisecond": 1000000, "time.Second": 1000000000}

func c11Facts(fc *facts) {
	wf := parseFile("workers/wmark/watermarks.go")

	// AdvanceTime: `if eventTimestamp.After(w.maxTimestamp) { w.maxTimestamp = eventTimestamp }`
	adv := findFuncOr(wf, "Watermarker", "AdvanceTime")
	okAdv := false
	if len(adv.Body.List) == 1 {
		if is, ok := adv.Body.List[0].(*ast.IfStmt); ok && is.Init == nil && is.Else == nil && len(is.Body.List) == 1 {
			if as, ok := is.Body.List[0].(*ast.AssignStmt); ok && as.Tok == token.ASSIGN && len(as.Lhs) == 1 && len(as.Rhs) == 1 &&
				selName(as.Lhs[0]) == "w.maxTimestamp" && selName(as.Rhs[0]) == "eventTimestamp" {
				if code, ok := timeCond(is.Cond, "eventTimestamp", "w.maxTimestamp"); ok {
					fc.set("wmAdvanceCond", code, true, "")
					okAdv = true
				}
			}
		}
	}
	if !okAdv {
		problemFor([]string{"wmAdvanceCond"}, "Watermarker.AdvanceTime no longer has the shape `if eventTimestamp.After|Before(w.maxTimestamp) { w.maxTimestamp = eventTimestamp }`")
	}

	// CurrentWatermark: `return w.maxTimestamp.Add(-(w.allowedLateness + time.<Unit>))`
	cur := findFuncOr(wf, "Watermarker", "CurrentWatermark")
	okCur := false
	if len(cur.Body.List) == 1 {
		if rs, ok := cur.Body.List[0].(*ast.ReturnStmt); ok && len(rs.Results) == 1 {
			if c, ok := rs.Results[0].(*ast.CallExpr); ok && selName(c.Fun) == "w.maxTimestamp.Add" && len(c.Args) == 1 {
				if u, ok := c.Args[0].(*ast.UnaryExpr); ok && u.Op == token.SUB {
					inner := u.X
					if p, ok := inner.(*ast.ParenExpr); ok {
						inner = p.X
					}
					if b, ok := inner.(*ast.BinaryExpr); ok && b.Op == token.ADD && selName(b.X) == "w.allowedLateness" {
						if v, ok := durationUnits[selName(b.Y)]; ok {
							fc.set("wmSlackNs", v, true, "")
							okCur = true
						}
					}
				}
			}
		}
	}
	if !okCur {
		problemFor([]string{"wmSlackNs"}, "Watermarker.CurrentWatermark no longer has the shape `return w.maxTimestamp.Add(-(w.allowedLateness + time.<Unit>))`")
	}

	rf := parseFile("workers/operator/timer_registry.go")

	// SetTimer: `if !r.watermark.Before(t) { return }` followed by `r.store.Put(key, t)`
	st := findFuncOr(rf, "TimerRegistry", "SetTimer")
	okSet := false
	if len(st.Body.List) == 2 {
		if is, ok := st.Body.List[0].(*ast.IfStmt); ok && is.Init == nil && is.Else == nil && len(is.Body.List) == 1 {
			if r, ok := is.Body.List[0].(*ast.ReturnStmt); ok && len(r.Results) == 0 {
				if es, ok := st.Body.List[1].(*ast.ExprStmt); ok {
					if c, ok := es.X.(*ast.CallExpr); ok && selName(c.Fun) == "r.store.Put" && len(c.Args) == 2 && selName(c.Args[0]) == "key" && selName(c.Args[1]) == "t" {
						if code, ok := timeCond(is.Cond, "r.watermark", "t"); ok {
							fc.set("timerGuardCond", code, true, "")
							okSet = true
						}
					}
				}
			}
		}
	}
	if !okSet {
		problemFor([]string{"timerGuardCond"}, "TimerRegistry.SetTimer no longer has the shape `if <r.watermark cmp t> { return }; r.store.Put(key, t)`")
	}

	// AdvanceWatermark: the loop's stop test `if timer.Timestamp.After(compositeWatermark) { break }`,
	// and the initial upstream value `time.Unix(a, b)` of NewTimerRegistry
	aw := findFuncOr(rf, "TimerRegistry", "AdvanceWatermark")
	var stops []uint64
	ast.Inspect(aw, func(n ast.Node) bool {
		is, ok := n.(*ast.IfStmt)
		if !ok || len(is.Body.List) != 1 {
			return true
		}
		if br, ok := is.Body.List[0].(*ast.BranchStmt); ok && br.Tok == token.BREAK {
			if code, ok := timeCond(is.Cond, "timer.Timestamp", "compositeWatermark"); ok {
				stops = append(stops, code)
			}
		}
		return true
	})
	if len(stops) == 1 {
		fc.set("fireStopCond", stops[0], true, "")
	} else {
		problemFor([]string{"fireStopCond"}, "TimerRegistry.AdvanceWatermark: expected exactly one `if timer.Timestamp.After|Before(compositeWatermark) { break }`, found %d", len(stops))
	}

	nr := findFuncOr(rf, "", "NewTimerRegistry")
	var inits [][2]uint64
	ast.Inspect(nr, func(n ast.Node) bool {
		c, ok := n.(*ast.CallExpr)
		if ok && selName(c.Fun) == "time.Unix" && len(c.Args) == 2 {
			a, ok1 := litVal(c.Args[0])
			b, ok2 := litVal(c.Args[1])
			if ok1 && ok2 {
				inits = append(inits, [2]uint64{a, b})
			}
		}
		return true
	})
	if len(inits) == 1 {
		fc.set("upstreamInitSec", inits[0][0], true, "")
		fc.set("upstreamInitNsec", inits[0][1], true, "")
	} else {
		problemFor([]string{"upstreamInitSec", "upstreamInitNsec"}, "NewTimerRegistry: expected exactly one time.Unix(<lit>, <lit>) initial upstream watermark, found %d", len(inits))
	}
}
