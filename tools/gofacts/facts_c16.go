package main

// C16: HOW kinesis.SourceSplitter.Checkpoint reads the tracker state it persists (D61).
//
//	c16CheckpointOneLockedRead  1: the values stored as `AssignedShards` and `LastAssignedShardId` both come from ONE
//	                               call `a, …, l := <tracker>.M()` of a SplitTracker method M that locks the tracker's
//	                               mutex first, unlocks it by `defer`, and returns the LastAssignedSplitID field at the
//	                               position of `l`; Checkpoint itself does not read `.LastAssignedSplitID`;
//	                            0: Checkpoint reads `.LastAssignedSplitID` itself (outside the tracker's critical
//	                               section), or the two values come from different calls.
//
// Props/C16.lean `checkpoint_is_one_locked_read` requires the value 1 (hard obligation: no correspondence exercises
// the interleaving deterministically; the `stress` op of the C16 harness only finds it with some probability).
// The recogniser is structural: names of locals and of the method are free; the mutex field is found by being the
// receiver of `.Lock()`.

import "go/ast"

func init() { extraFactFns = append(extraFactFns, c16Facts) }

func c16Facts(fc *facts) {
	const name = "c16CheckpointOneLockedRead"
	sf := parseFile("connectors/kinesis/source_splitter.go")
	tf := parseFile("connectors/kinesis/split_tracker.go")
	ck := findFunc(sf, "SourceSplitter", "Checkpoint")
	if ck == nil {
		ck = findFunc(sf, "", "Checkpoint")
	}
	if ck == nil || ck.Body == nil {
		problemFor([]string{name}, "kinesis.SourceSplitter.Checkpoint not found")
		return
	}
	// the composite literal that is persisted
	var lastExpr, listExpr ast.Expr
	ast.Inspect(ck.Body, func(x ast.Node) bool {
		cl, ok := x.(*ast.CompositeLit)
		if !ok {
			return true
		}
		for _, el := range cl.Elts {
			kv, ok := el.(*ast.KeyValueExpr)
			if !ok {
				continue
			}
			if k, ok := kv.Key.(*ast.Ident); ok {
				switch k.Name {
				case "LastAssignedShardId":
					lastExpr = kv.Value
				case "AssignedShards":
					listExpr = kv.Value
				}
			}
		}
		return true
	})
	if lastExpr == nil || listExpr == nil {
		problemFor([]string{name}, "Checkpoint: no literal with AssignedShards and LastAssignedShardId")
		return
	}
	// a direct read of the field in Checkpoint is the unlocked read
	direct := false
	ast.Inspect(ck.Body, func(x ast.Node) bool {
		if s, ok := x.(*ast.SelectorExpr); ok && s.Sel.Name == "LastAssignedSplitID" {
			direct = true
		}
		return true
	})
	if direct {
		fc.set(name, 0, true, "")
		return
	}
	lastID, ok := lastExpr.(*ast.Ident)
	if !ok {
		problemFor([]string{name}, "Checkpoint: LastAssignedShardId is neither a local nor the tracker's field")
		return
	}
	// the defining assignment `a, l := recv.M()`
	var method string
	var listVar string
	idPos, nResults := 1, 2 // position of the id among the call's results
	ast.Inspect(ck.Body, func(x ast.Node) bool {
		as, ok := x.(*ast.AssignStmt)
		if !ok || len(as.Lhs) < 2 || len(as.Rhs) != 1 {
			return true
		}
		call, okc := as.Rhs[0].(*ast.CallExpr)
		l0, ok0 := as.Lhs[0].(*ast.Ident)
		if !okc || !ok0 {
			return true
		}
		for k := 1; k < len(as.Lhs); k++ {
			if lk, ok := as.Lhs[k].(*ast.Ident); ok && lk.Name == lastID.Name {
				if sel, ok := call.Fun.(*ast.SelectorExpr); ok {
					method, listVar, idPos, nResults = sel.Sel.Name, l0.Name, k, len(as.Lhs)
				}
			}
		}
		return true
	})
	if method == "" {
		fc.set(name, 0, true, "") // the id comes from somewhere else than the call that returns the list
		return
	}
	// the persisted list is built from the first result of that call
	usesList := false
	ast.Inspect(ck.Body, func(x ast.Node) bool {
		if r, ok := x.(*ast.RangeStmt); ok {
			if id, ok := r.X.(*ast.Ident); ok && id.Name == listVar {
				usesList = true
			}
		}
		if id, ok := x.(*ast.Ident); ok && id.Name == listVar && x != nil {
			if e, ok := listExpr.(*ast.Ident); ok && e.Name == listVar {
				usesList = true
			}
		}
		return true
	})
	m := findFunc(tf, "SplitTracker", method)
	if m == nil || m.Body == nil || m.Recv == nil || len(m.Recv.List) == 0 || len(m.Recv.List[0].Names) == 0 {
		problemFor([]string{name}, "SplitTracker.%s not found", method)
		return
	}
	recv := m.Recv.List[0].Names[0].Name
	// first statement: recv.<mu>.Lock(); a top-level `defer recv.<mu>.Unlock()`; no other Unlock
	muField := ""
	if len(m.Body.List) > 0 {
		if es, ok := m.Body.List[0].(*ast.ExprStmt); ok {
			if call, ok := es.X.(*ast.CallExpr); ok {
				if sel, ok := call.Fun.(*ast.SelectorExpr); ok && sel.Sel.Name == "Lock" {
					if in, ok := sel.X.(*ast.SelectorExpr); ok {
						if id, ok := in.X.(*ast.Ident); ok && id.Name == recv {
							muField = in.Sel.Name
						}
					}
				}
			}
		}
	}
	deferred, otherUnlock := false, false
	for _, st := range m.Body.List {
		if d, ok := st.(*ast.DeferStmt); ok {
			if sel, ok := d.Call.Fun.(*ast.SelectorExpr); ok && sel.Sel.Name == "Unlock" {
				if in, ok := sel.X.(*ast.SelectorExpr); ok && in.Sel.Name == muField {
					deferred = true
				}
			}
		}
	}
	ast.Inspect(m.Body, func(x ast.Node) bool {
		if _, ok := x.(*ast.DeferStmt); ok {
			return false
		}
		if call, ok := x.(*ast.CallExpr); ok {
			if sel, ok := call.Fun.(*ast.SelectorExpr); ok && sel.Sel.Name == "Unlock" {
				otherUnlock = true
			}
		}
		return true
	})
	// second result of every return is the field (or a local assigned from it inside the critical section)
	fromField := map[string]bool{}
	ast.Inspect(m.Body, func(x ast.Node) bool {
		if as, ok := x.(*ast.AssignStmt); ok && len(as.Lhs) == len(as.Rhs) {
			for i, r := range as.Rhs {
				if s, ok := r.(*ast.SelectorExpr); ok && s.Sel.Name == "LastAssignedSplitID" {
					if id, ok := as.Lhs[i].(*ast.Ident); ok {
						fromField[id.Name] = true
					}
				}
			}
		}
		return true
	})
	returnsField, returns := true, 0
	ast.Inspect(m.Body, func(x ast.Node) bool {
		if r, ok := x.(*ast.ReturnStmt); ok {
			returns++
			if len(r.Results) != nResults {
				returnsField = false
				return true
			}
			switch v := r.Results[idPos].(type) {
			case *ast.SelectorExpr:
				if v.Sel.Name != "LastAssignedSplitID" {
					returnsField = false
				}
			case *ast.Ident:
				if !fromField[v.Name] {
					returnsField = false
				}
			default:
				returnsField = false
			}
		}
		return true
	})
	if muField != "" && deferred && !otherUnlock && returns > 0 && returnsField && usesList {
		fc.set(name, 1, true, "")
		return
	}
	problemFor([]string{name}, "SplitTracker.%s is not `lock; defer unlock; … return <assigned>, <LastAssignedSplitID>` (lock=%v defer=%v otherUnlock=%v returnsField=%v usesList=%v)", method, muField != "", deferred, otherUnlock, returnsField, usesList)
}
