package main

// C16: HOW kinesis.SourceSplitter.Checkpoint reads the tracker state it persists (D61).
//
//	(helper-tolerant: Checkpoint may build its lists through helpers and loops; what counts is where the values come from)
//	c16CheckpointOneLockedRead  1: the values stored as `AssignedShards` and `LastAssignedShardId` both come from ONE
//	                               call `a, …, l := <tracker>.M()` of a SplitTracker method M that locks the tracker's
//	                               mutex first, unlocks it by `defer`, and returns the LastAssignedSplitID field at the
//	                               position of `l`; Checkpoint itself does not read `.LastAssignedSplitID`;
//	                            0: Checkpoint reads `.LastAssignedSplitID` itself (outside the tracker's critical
//	                               section), or the two values come from different calls.
//
// Props/C16.lean `checkpoint_is_one_locked_read` requires the value 1 (hard obligation: no correspondence exercises
// the interleaving deterministically; the `stress` op of the C16 harness only finds it with some probability).
// The recogniser is structural: names of locals and of the method are free; the mutex field is found by being the
// receiver of `.Lock()`.

import (
	"bytes"
	"go/ast"
	"go/printer"
	"strings"
)

func exprString(e ast.Expr) string {
	if e == nil {
		return ""
	}
	var b bytes.Buffer
	printer.Fprint(&b, fset, e)
	return b.String()
}

func init() { extraFactFns = append(extraFactFns, c16Facts) }

func c16Facts(fc *facts) {
	const name = "c16CheckpointOneLockedRead"
	sf := parseFile("connectors/kinesis/source_splitter.go")
	tf := parseFile("connectors/kinesis/split_tracker.go")
	ck := findFunc(sf, "SourceSplitter", "Checkpoint")
	if ck == nil {
		ck = findFunc(sf, "", "Checkpoint")
	}
	if ck == nil || ck.Body == nil {
		problemFor([]string{name}, "kinesis.SourceSplitter.Checkpoint not found")
		return
	}
	// the composite literal that is persisted
	var lastExpr, listExpr ast.Expr
	var persisted []ast.Expr // every `…Shards` value of the persisted literal
	ast.Inspect(ck.Body, func(x ast.Node) bool {
		cl, ok := x.(*ast.CompositeLit)
		if !ok {
			return true
		}
		for _, el := range cl.Elts {
			kv, ok := el.(*ast.KeyValueExpr)
			if !ok {
				continue
			}
			if k, ok := kv.Key.(*ast.Ident); ok {
				switch k.Name {
				case "LastAssignedShardId":
					lastExpr = kv.Value
				case "AssignedShards":
					listExpr = kv.Value
				}
				if strings.HasSuffix(k.Name, "Shards") {
					persisted = append(persisted, kv.Value)
				}
			}
		}
		return true
	})
	if lastExpr == nil || listExpr == nil {
		problemFor([]string{name}, "Checkpoint: no literal with AssignedShards and LastAssignedShardId")
		return
	}
	// a direct read of the field in Checkpoint is the unlocked read
	direct := false
	ast.Inspect(ck.Body, func(x ast.Node) bool {
		if s, ok := x.(*ast.SelectorExpr); ok && s.Sel.Name == "LastAssignedSplitID" {
			direct = true
		}
		return true
	})
	if direct {
		fc.set(name, 0, true, "")
		return
	}
	lastID, ok := lastExpr.(*ast.Ident)
	if !ok {
		problemFor([]string{name}, "Checkpoint: LastAssignedShardId is neither a local nor the tracker's field")
		return
	}
	// the ONE call `a, …, l := <tracker>.M()` that defines the id
	var method string
	var results []string
	var trackerExpr ast.Expr
	idPos, nResults := 1, 2 // position of the id among the call's results
	ast.Inspect(ck.Body, func(x ast.Node) bool {
		as, ok := x.(*ast.AssignStmt)
		if !ok || len(as.Lhs) < 2 || len(as.Rhs) != 1 {
			return true
		}
		call, okc := as.Rhs[0].(*ast.CallExpr)
		if !okc {
			return true
		}
		for k := 0; k < len(as.Lhs); k++ {
			if lk, ok := as.Lhs[k].(*ast.Ident); ok && lk.Name == lastID.Name {
				if sel, ok := call.Fun.(*ast.SelectorExpr); ok {
					method, idPos, nResults, trackerExpr = sel.Sel.Name, k, len(as.Lhs), sel.X
					results = nil
					for _, l := range as.Lhs {
						if id, ok := l.(*ast.Ident); ok {
							results = append(results, id.Name)
						}
					}
				}
			}
		}
		return true
	})
	if method == "" {
		fc.set(name, 0, true, "") // the id comes from somewhere else than a call that also returns the lists
		return
	}
	// Locals derived from the results of that call (through helpers, loops, conversions): a local assigned in a
	// statement that mentions a derived variable — on its right-hand side, in the range expression of an enclosing
	// loop, or as the indexed target `pb[i] = …` — is derived too.
	derived := map[string]bool{}
	for _, r := range results {
		derived[r] = true
	}
	mentions := func(n ast.Node) bool {
		found := false
		if n == nil {
			return false
		}
		ast.Inspect(n, func(y ast.Node) bool {
			if id, ok := y.(*ast.Ident); ok && derived[id.Name] {
				found = true
			}
			return true
		})
		return found
	}
	for changed := true; changed; {
		changed = false
		var walk func(n ast.Node, inDerivedLoop bool)
		walk = func(n ast.Node, inDerivedLoop bool) {
			ast.Inspect(n, func(y ast.Node) bool {
				switch t := y.(type) {
				case *ast.RangeStmt:
					if t.Body != nil {
						walk(t.Body, inDerivedLoop || mentions(t.X))
					}
					return false
				case *ast.AssignStmt:
					from := inDerivedLoop
					for _, r := range t.Rhs {
						from = from || mentions(r)
					}
					if from {
						for _, l := range t.Lhs {
							target := l
							if ix, ok := l.(*ast.IndexExpr); ok {
								target = ix.X
							}
							if id, ok := target.(*ast.Ident); ok && id.Name != "_" && !derived[id.Name] {
								derived[id.Name] = true
								changed = true
							}
						}
					}
				}
				return true
			})
		}
		walk(ck.Body, false)
	}
	// every persisted tracker value is built from results of that call only: the expression mentions a derived local
	// and no other tracker read exists in Checkpoint (checked below)
	usesList := mentions(listExpr)
	for _, el := range persisted {
		usesList = usesList && mentions(el)
	}
	// Checkpoint reads the tracker nowhere else: the receiver expression of the call occurs exactly once
	trackerReads := 0
	want := exprString(trackerExpr)
	ast.Inspect(ck.Body, func(x ast.Node) bool {
		if e, ok := x.(ast.Expr); ok && exprString(e) == want {
			trackerReads++
			return false
		}
		return true
	})
	if trackerReads != 1 {
		fc.set(name, 0, true, "") // Checkpoint reads tracker state outside the one locked call
		return
	}
	m := findFunc(tf, "SplitTracker", method)
	if m == nil || m.Body == nil || m.Recv == nil || len(m.Recv.List) == 0 || len(m.Recv.List[0].Names) == 0 {
		problemFor([]string{name}, "SplitTracker.%s not found", method)
		return
	}
	recv := m.Recv.List[0].Names[0].Name
	// first statement: recv.<mu>.Lock(); a top-level `defer recv.<mu>.Unlock()`; no other Unlock
	muField := ""
	if len(m.Body.List) > 0 {
		if es, ok := m.Body.List[0].(*ast.ExprStmt); ok {
			if call, ok := es.X.(*ast.CallExpr); ok {
				if sel, ok := call.Fun.(*ast.SelectorExpr); ok && sel.Sel.Name == "Lock" {
					if in, ok := sel.X.(*ast.SelectorExpr); ok {
						if id, ok := in.X.(*ast.Ident); ok && id.Name == recv {
							muField = in.Sel.Name
						}
					}
				}
			}
		}
	}
	deferred, otherUnlock := false, false
	for _, st := range m.Body.List {
		if d, ok := st.(*ast.DeferStmt); ok {
			if sel, ok := d.Call.Fun.(*ast.SelectorExpr); ok && sel.Sel.Name == "Unlock" {
				if in, ok := sel.X.(*ast.SelectorExpr); ok && in.Sel.Name == muField {
					deferred = true
				}
			}
		}
	}
	ast.Inspect(m.Body, func(x ast.Node) bool {
		if _, ok := x.(*ast.DeferStmt); ok {
			return false
		}
		if call, ok := x.(*ast.CallExpr); ok {
			if sel, ok := call.Fun.(*ast.SelectorExpr); ok && sel.Sel.Name == "Unlock" {
				otherUnlock = true
			}
		}
		return true
	})
	// second result of every return is the field (or a local assigned from it inside the critical section)
	fromField := map[string]bool{}
	ast.Inspect(m.Body, func(x ast.Node) bool {
		if as, ok := x.(*ast.AssignStmt); ok && len(as.Lhs) == len(as.Rhs) {
			for i, r := range as.Rhs {
				if s, ok := r.(*ast.SelectorExpr); ok && s.Sel.Name == "LastAssignedSplitID" {
					if id, ok := as.Lhs[i].(*ast.Ident); ok {
						fromField[id.Name] = true
					}
				}
			}
		}
		return true
	})
	returnsField, returns := true, 0
	ast.Inspect(m.Body, func(x ast.Node) bool {
		if r, ok := x.(*ast.ReturnStmt); ok {
			returns++
			if len(r.Results) != nResults {
				returnsField = false
				return true
			}
			switch v := r.Results[idPos].(type) {
			case *ast.SelectorExpr:
				if v.Sel.Name != "LastAssignedSplitID" {
					returnsField = false
				}
			case *ast.Ident:
				if !fromField[v.Name] {
					returnsField = false
				}
			default:
				returnsField = false
			}
		}
		return true
	})
	if muField != "" && deferred && !otherUnlock && returns > 0 && returnsField && usesList {
		fc.set(name, 1, true, "")
		return
	}
	if muField == "" || !deferred || otherUnlock || !usesList {
		// the method does not hold the mutex from its first statement to its return, or a persisted list does not come
		// from the one call
		fc.set(name, 0, true, "")
		return
	}
	problemFor([]string{name}, "SplitTracker.%s: the value returned at the id's position is not the LastAssignedSplitID field (returns=%d)", method, returns)
}
