package main

import (
	"go/ast"
	"go/token"
)

// C01: code-shape facts behind three atomic steps of Model/Pipeline.lean (hard obligations: `Props/C01.lean`
// `model_steps_match_code_shape` states that all of them are 1, so a build fails when one is lost).
//
//	c01StartReadsCheckpointOnce  `restart` restores operator state and source cursors from ONE published checkpoint:
//	                             Job.start, together with the Job methods it calls synchronously, calls
//	                             CurrentCheckpoint() exactly once, and that call comes before the Deploy call.
//	c01OperatorCheckpointOrder   `opCkpt o` = snapshot of everything delivered, then acknowledgement, as one step:
//	                             handleCheckpointBarrier takes the operator's write lock first (Lock, defer Unlock) and,
//	                             in this order, flushes the pending handler batch (processEventBatch), takes the DKV
//	                             checkpoint (a `.Checkpoint(` call) and acknowledges (OperatorCheckpointComplete).
//	c01RunnerCutBeforeBarrier    `barrier r` = cut of the cursors, acknowledgement, barrier behind everything read:
//	                             in the read loop (processEvents) the case that receives from the barrier channel calls
//	                             createCheckpoint before it sends on the output stream, and createCheckpoint reads the
//	                             reader's Checkpoint() before it calls OnSourceRunnerCheckpointComplete.
//
// The recognisers look at which calls happen and in which source order inside the named functions; they do not depend
// on local variable names, comments or statements in between.
func init() { extraFactFns = append(extraFactFns, c01Facts) }

// callPositions returns the positions of the calls in n whose selector (or function) name is `name`, in source order;
// bodies of go statements and function literals are skipped when sync is set.
func c01CallPositions(n ast.Node, name string, sync bool) []token.Pos {
	var out []token.Pos
	if n == nil {
		return nil
	}
	ast.Inspect(n, func(x ast.Node) bool {
		switch c := x.(type) {
		case *ast.FuncLit:
			return !sync
		case *ast.GoStmt:
			return !sync
		case *ast.CallExpr:
			switch f := c.Fun.(type) {
			case *ast.SelectorExpr:
				if f.Sel.Name == name {
					out = append(out, c.Pos())
				}
			case *ast.Ident:
				if f.Name == name {
					out = append(out, c.Pos())
				}
			}
		}
		return true
	})
	return out
}

func c01B(b bool) uint64 {
	if b {
		return 1
	}
	return 0
}

func c01Facts(fc *facts) {
	// ---- Job.start
	jf := parseFile("jobs/job.go")
	start := findFunc(jf, "Job", "start")
	if start == nil {
		problemFor([]string{"c01StartReadsCheckpointOnce"}, "jobs.Job.start not found")
	} else {
		recv := recvName(start)
		// CurrentCheckpoint calls in start and in the Job methods it calls synchronously (one level is what exists;
		// deeper helpers are followed as well)
		seen := map[string]bool{"start": true}
		total := len(c01CallPositions(start.Body, "CurrentCheckpoint", true))
		var follow func(fn *ast.FuncDecl, r string)
		follow = func(fn *ast.FuncDecl, r string) {
			ast.Inspect(fn.Body, func(x ast.Node) bool {
				switch c := x.(type) {
				case *ast.FuncLit, *ast.GoStmt:
					return false
				case *ast.CallExpr:
					if sel, ok := c.Fun.(*ast.SelectorExpr); ok {
						if id, ok := sel.X.(*ast.Ident); ok && id.Name == r && !seen[sel.Sel.Name] {
							if callee := findFunc(jf, "Job", sel.Sel.Name); callee != nil && callee.Body != nil {
								seen[sel.Sel.Name] = true
								total += len(c01CallPositions(callee.Body, "CurrentCheckpoint", true))
								follow(callee, recvName(callee))
							}
						}
					}
				}
				return true
			})
		}
		follow(start, recv)
		own := c01CallPositions(start.Body, "CurrentCheckpoint", true)
		deploy := c01CallPositions(start.Body, "Deploy", true)
		fc.set("c01StartReadsCheckpointOnce", c01B(total == 1 && len(own) == 1 && len(deploy) >= 1 && own[0] < deploy[0]), true, "")
	}

	// ---- Operator.handleCheckpointBarrier
	of := parseFile("workers/operator/operator.go")
	hcb := findFunc(of, "Operator", "handleCheckpointBarrier")
	if hcb == nil || hcb.Body == nil || len(hcb.Body.List) < 2 {
		problemFor([]string{"c01OperatorCheckpointOrder"}, "operator.Operator.handleCheckpointBarrier not found")
	} else {
		recv := recvName(hcb)
		first, ok1 := hcb.Body.List[0].(*ast.ExprStmt)
		second, ok2 := hcb.Body.List[1].(*ast.DeferStmt)
		locked := ok1 && ok2 && selCall(first.X) == recv+".mu.Lock" && selCall(second.Call) == recv+".mu.Unlock"
		flush := c01CallPositions(hcb.Body, "processEventBatch", true)
		ckpt := c01CallPositions(hcb.Body, "Checkpoint", true)
		ack := c01CallPositions(hcb.Body, "OperatorCheckpointComplete", true)
		ordered := len(flush) >= 1 && len(ckpt) >= 1 && len(ack) >= 1 && flush[0] < ckpt[0] && ckpt[len(ckpt)-1] < ack[0]
		fc.set("c01OperatorCheckpointOrder", c01B(locked && ordered), true, "")
	}

	// ---- SourceRunner.processEvents / createCheckpoint
	sf := parseFile("workers/sourcerunner/source_runner.go")
	pe := findFunc(sf, "SourceRunner", "processEvents")
	cc := findFunc(sf, "SourceRunner", "createCheckpoint")
	if pe == nil || cc == nil || pe.Body == nil || cc.Body == nil {
		problemFor([]string{"c01RunnerCutBeforeBarrier"}, "sourcerunner.SourceRunner.processEvents / createCheckpoint not found")
		return
	}
	recv := recvName(pe)
	caseOK := false
	ast.Inspect(pe.Body, func(x ast.Node) bool {
		cl, ok := x.(*ast.CommClause)
		if !ok || cl.Comm == nil {
			return true
		}
		// the case receiving from the barrier channel
		recvFrom := ""
		ast.Inspect(cl.Comm, func(y ast.Node) bool {
			if u, ok := y.(*ast.UnaryExpr); ok && u.Op == token.ARROW {
				recvFrom = selName(u.X)
			}
			return true
		})
		if recvFrom != recv+".checkpointBarrier" {
			return true
		}
		var cut, send token.Pos
		for _, st := range cl.Body {
			if p := c01CallPositions(st, "createCheckpoint", true); len(p) > 0 && cut == 0 {
				cut = p[0]
			}
			ast.Inspect(st, func(y ast.Node) bool {
				if s, ok := y.(*ast.SendStmt); ok && selName(s.Chan) == recv+".outputStream" && send == 0 {
					send = s.Pos()
				}
				return true
			})
		}
		caseOK = cut != 0 && send != 0 && cut < send
		return true
	})
	snap := c01CallPositions(cc.Body, "Checkpoint", true)
	ack := c01CallPositions(cc.Body, "OnSourceRunnerCheckpointComplete", true)
	// nobody else takes the runner's cut: createCheckpoint is called only from the read loop
	others := 0
	for _, d := range sf.Decls {
		if fd, ok := d.(*ast.FuncDecl); ok && fd.Body != nil && fd != pe {
			others += len(c01CallPositions(fd.Body, "createCheckpoint", false))
		}
	}
	fc.set("c01RunnerCutBeforeBarrier", c01B(caseOK && len(snap) >= 1 && len(ack) >= 1 && snap[0] < ack[0] && others == 0), true, "")
}
