package main

import (
	"go/ast"
	"go/token"
)

// C01: code-shape facts behind three atomic steps of Model/Pipeline.lean (hard obligations: `Props/C01.lean`
// `model_steps_match_code_shape` states that all of them are 1, so a build fails when one is lost).
//
//	c01StartReadsCheckpointOnce  `restart` restores operator state and source cursors from ONE published checkpoint:
//	                             Job.start, together with the Job methods it calls synchronously, calls
//	                             CurrentCheckpoint() exactly once, and that call comes before the Deploy call.
//	c01OperatorCheckpointOrder   `opCkpt o` = snapshot of everything delivered, then acknowledgement, as one step:
//	                             handleCheckpointBarrier takes the operator's write lock first (Lock, defer Unlock) and,
//	                             in this order, flushes the pending handler batch (processEventBatch), takes the DKV
//	                             checkpoint (a `.Checkpoint(` call) and acknowledges (OperatorCheckpointComplete).
//	c01RunnerCutBeforeBarrier    `barrier r` = cut of the cursors, acknowledgement, barrier behind everything read:
//	                             in the read loop (processEvents) the case that receives from the barrier channel calls
//	                             createCheckpoint before it sends on the output stream, and createCheckpoint reads the
//	                             reader's Checkpoint() before it calls OnSourceRunnerCheckpointComplete.
//
// The recognisers work on the linearised list of synchronous calls of the named function in source order, in which a
// call of a method of the same type on the receiver (or of a plain function of the same file) is followed by the list
// of that helper, three levels deep (c01Linear). They therefore do not depend on local names, comments, statements in
// between, early-return / inverted-if forms, or on parts of the function being extracted into helpers; bodies of go
// statements and function literals are not part of the list.
func init() { extraFactFns = append(extraFactFns, c01Facts) }

// callPositions returns the positions of the calls in n whose selector (or function) name is `name`, in source order;
// bodies of go statements and function literals are skipped when sync is set.
func c01CallPositions(n ast.Node, name string, sync bool) []token.Pos {
	var out []token.Pos
	if n == nil {
		return nil
	}
	ast.Inspect(n, func(x ast.Node) bool {
		switch c := x.(type) {
		case *ast.FuncLit:
			return !sync
		case *ast.GoStmt:
			return !sync
		case *ast.CallExpr:
			switch f := c.Fun.(type) {
			case *ast.SelectorExpr:
				if f.Sel.Name == name {
					out = append(out, c.Pos())
				}
			case *ast.Ident:
				if f.Name == name {
					out = append(out, c.Pos())
				}
			}
		}
		return true
	})
	return out
}

// c01Linear lists, in source order, the names of the calls made synchronously by the statements `nodes` of a method
// whose receiver variable is `recv` (bodies of go statements and function literals are skipped). A call of a method of
// the same type on the receiver, or of a plain function of the same file, is followed by the linearised body of that
// helper (up to `depth` levels), so that extracting part of a function into a helper does not change the list.
// Sends are listed as "send:<field>" for `recv.<field> <- …`, lock operations on `recv.mu` as "mu.Lock" etc.
func c01Linear(f *ast.File, typ, recv string, nodes []ast.Node, depth int, seen map[string]bool) []string {
	var out []string
	var visit func(n ast.Node)
	visit = func(n ast.Node) {
		ast.Inspect(n, func(x ast.Node) bool {
			switch c := x.(type) {
			case *ast.FuncLit, *ast.GoStmt:
				return false
			case *ast.SendStmt:
				if sel, ok := c.Chan.(*ast.SelectorExpr); ok {
					if id, ok := sel.X.(*ast.Ident); ok && id.Name == recv {
						out = append(out, "send:"+sel.Sel.Name)
					}
				}
			case *ast.CallExpr:
				name, onRecv, plain := "", false, false
				switch fn := c.Fun.(type) {
				case *ast.SelectorExpr:
					name = fn.Sel.Name
					if id, ok := fn.X.(*ast.Ident); ok && id.Name == recv {
						onRecv = true
					}
					if selName(fn.X) == recv+".mu" {
						name = "mu." + name
					}
				case *ast.Ident:
					name, plain = fn.Name, true
				}
				if name == "" {
					return true
				}
				out = append(out, name)
				if depth > 0 && !seen[name] {
					var callee *ast.FuncDecl
					if onRecv {
						callee = findFunc(f, typ, name)
					} else if plain {
						callee = findFunc(f, "", name)
					}
					if callee != nil && callee.Body != nil {
						// arguments first (they are evaluated before the body runs)
						for _, a := range c.Args {
							visit(a)
						}
						seen2 := map[string]bool{name: true}
						for k := range seen {
							seen2[k] = true
						}
						r := ""
						if callee.Recv != nil {
							r = recvName(callee)
						}
						out = append(out, c01Linear(f, typ, r, []ast.Node{callee.Body}, depth-1, seen2)...)
						return false
					}
				}
			}
			return true
		})
	}
	for _, n := range nodes {
		visit(n)
	}
	return out
}

func c01Index(l []string, name string) int {
	for i, x := range l {
		if x == name {
			return i
		}
	}
	return -1
}

func c01Count(l []string, name string) int {
	k := 0
	for _, x := range l {
		if x == name {
			k++
		}
	}
	return k
}

func c01B(b bool) uint64 {
	if b {
		return 1
	}
	return 0
}

func c01Facts(fc *facts) {
	// ---- Job.start: one CurrentCheckpoint() in start and everything it calls synchronously, before Deploy
	jf := parseFile("jobs/job.go")
	start := findFunc(jf, "Job", "start")
	if start == nil || start.Body == nil {
		problemFor([]string{"c01StartReadsCheckpointOnce"}, "jobs.Job.start not found")
	} else {
		l := c01Linear(jf, "Job", recvName(start), []ast.Node{start.Body}, 3, map[string]bool{"start": true})
		cur, dep := c01Index(l, "CurrentCheckpoint"), c01Index(l, "Deploy")
		fc.set("c01StartReadsCheckpointOnce", c01B(c01Count(l, "CurrentCheckpoint") == 1 && dep >= 0 && cur < dep), true, "")
	}

	// ---- Operator.handleCheckpointBarrier: lock, then flush < DKV checkpoint < acknowledgement (helpers followed)
	of := parseFile("workers/operator/operator.go")
	hcb := findFunc(of, "Operator", "handleCheckpointBarrier")
	if hcb == nil || hcb.Body == nil {
		problemFor([]string{"c01OperatorCheckpointOrder"}, "operator.Operator.handleCheckpointBarrier not found")
	} else {
		l := c01Linear(of, "Operator", recvName(hcb), []ast.Node{hcb.Body}, 3, map[string]bool{"handleCheckpointBarrier": true})
		lock, flush := c01Index(l, "mu.Lock"), c01Index(l, "processEventBatch")
		ckpt, ack := c01Index(l, "Checkpoint"), c01Index(l, "OperatorCheckpointComplete")
		// the write lock is taken first and released only by a deferred Unlock of the handler itself
		deferred := false
		for _, st := range hcb.Body.List {
			if d, ok := st.(*ast.DeferStmt); ok && selCall(d.Call) == recvName(hcb)+".mu.Unlock" {
				deferred = true
			}
		}
		ok := lock == 0 && deferred && c01Count(l, "mu.Lock") == 1 && c01Count(l, "mu.Unlock") == 1 &&
			c01Count(l, "mu.RLock") == 0 && c01Count(l, "mu.RUnlock") == 0 &&
			flush > lock && ckpt > flush && ack > ckpt && c01Count(l, "OperatorCheckpointComplete") == 1
		// no DKV checkpoint before the flush
		fc.set("c01OperatorCheckpointOrder", c01B(ok), true, "")
	}

	// ---- SourceRunner.processEvents: barrier case = reader Checkpoint() < acknowledgement < send on the output stream
	sf := parseFile("workers/sourcerunner/source_runner.go")
	pe := findFunc(sf, "SourceRunner", "processEvents")
	if pe == nil || pe.Body == nil {
		problemFor([]string{"c01RunnerCutBeforeBarrier"}, "sourcerunner.SourceRunner.processEvents not found")
		return
	}
	recv := recvName(pe)
	caseOK := false
	ast.Inspect(pe.Body, func(x ast.Node) bool {
		cl, ok := x.(*ast.CommClause)
		if !ok || cl.Comm == nil {
			return true
		}
		recvFrom := ""
		ast.Inspect(cl.Comm, func(y ast.Node) bool {
			if u, ok := y.(*ast.UnaryExpr); ok && u.Op == token.ARROW {
				recvFrom = selName(u.X)
			}
			return true
		})
		if recvFrom != recv+".checkpointBarrier" {
			return true
		}
		nodes := make([]ast.Node, len(cl.Body))
		for i, st := range cl.Body {
			nodes[i] = st
		}
		l := c01Linear(sf, "SourceRunner", recv, nodes, 3, map[string]bool{"processEvents": true})
		snap, ack, send := c01Index(l, "Checkpoint"), c01Index(l, "OnSourceRunnerCheckpointComplete"), c01Index(l, "send:outputStream")
		caseOK = snap >= 0 && ack > snap && send > ack
		return true
	})
	// nobody else takes the runner's cut: one acknowledgement call site in the file
	acks := 0
	for _, d := range sf.Decls {
		if fd, ok := d.(*ast.FuncDecl); ok && fd.Body != nil {
			acks += len(c01CallPositions(fd.Body, "OnSourceRunnerCheckpointComplete", false))
		}
	}
	fc.set("c01RunnerCutBeforeBarrier", c01B(caseOK && acks == 1), true, "")
}
