package main

import "go/ast"

// C04: the router's hand-off to an operator's sender goroutine is an UNBUFFERED channel (HARD obligation, no fallback).
//
//	c04HandoffUnbuffered  workers/sourcerunner/operator_cluster.go, newBatchingOperator: the `batches` field of the
//	                      batchingOperator literal is `make(chan []*workerpb.Event)` with no capacity argument, it is assigned
//	                      nowhere else in the file, and `Flush`/`HandleEvent` send on it with a plain (blocking) send
//
// The model's `sSend` (Model/Runner.lean) needs the operator goroutine in its select: that is what an unbuffered channel
// gives. With a buffer a full batch can wait in the channel while the next partial batch times out and overtakes it
// (C04.buffered_handoff_reorders).
func init() { extraFactFns = append(extraFactFns, c04Facts) }

func c04Facts(fc *facts) {
	f := parseFile("workers/sourcerunner/operator_cluster.go")
	fn := findFunc(f, "", "newBatchingOperator")
	found, ok := false, true
	if fn != nil {
		ast.Inspect(fn.Body, func(x ast.Node) bool {
			kv, isKV := x.(*ast.KeyValueExpr)
			if !isKV || selName(kv.Key) != "batches" {
				return true
			}
			found = true
			call, isCall := kv.Value.(*ast.CallExpr)
			if !isCall || selName(call.Fun) != "make" || len(call.Args) != 1 {
				ok = false
				return true
			}
			if _, isChan := call.Args[0].(*ast.ChanType); !isChan {
				ok = false
			}
			return true
		})
	}
	// no other assignment to a `.batches` field anywhere in the file, and no select-with-default around a send on it
	ast.Inspect(f, func(x ast.Node) bool {
		switch n := x.(type) {
		case *ast.AssignStmt:
			for _, l := range n.Lhs {
				if se, isSel := l.(*ast.SelectorExpr); isSel && se.Sel.Name == "batches" {
					ok = false
				}
			}
		case *ast.SelectStmt:
			hasDefault, sends := false, false
			for _, cl := range n.Body.List {
				cc := cl.(*ast.CommClause)
				if cc.Comm == nil {
					hasDefault = true
				}
				if snd, isSend := cc.Comm.(*ast.SendStmt); isSend {
					if se, isSel := snd.Chan.(*ast.SelectorExpr); isSel && se.Sel.Name == "batches" {
						sends = true
					}
				}
			}
			if hasDefault && sends {
				ok = false
			}
		}
		return true
	})
	v := uint64(0)
	if found && ok {
		v = 1
	}
	fc.set("c04HandoffUnbuffered", v, fn != nil && found, "batchingOperator.batches in newBatchingOperator")
}
