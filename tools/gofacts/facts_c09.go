package main

// Facts for C09 (file lifetime). The decision rules of the table cleanups are small enough to be read off the AST:
//
//	c09OwnsErrKeeps      OperatorPartition.ExclusivelyOwnsTable has a top-level `if err != nil { return false, err }`
//	                     before its final `return !neighborNeedsTable, …` (1) or returns (!needs, err) unguarded (0)
//	c09OwnsNoDeadline    … its query context is context.WithCancel(context.Background()): no deadline, no timer (1)
//	c09OwnsErrPassed     … and the query goroutine sends (needsTable, err) on unchanged: an error is never dropped (1)
//	c09NeedsChecksLive   DB.NeedsTable reads the checkpoint list and the live level list (1), checkpoints only (0)
//	c09NeedsLiveFirst    … and reads the live level list before the checkpoint list (1) or after it (0)
//	c09CkptUsesLevels    Checkpoint.IncludesTable consults cp.Levels when there is no URI index (1) or only the index (0)
//	c09DeployClosesFirst Operator.HandleDeploy closes the previous database before dkv.Open (1)
//	c09CloseWaits        DB.Close waits for every background task the instance enqueued (1)
//	c09WritersFenced     nothing can write to (and so enqueue a task of) an instance after its Close returned: a closed
//	                     flag read by Put/rotateMemtable/enqueue, or processEventBatch under the operator's mutex (1);
//	                     otherwise 0 - Close drains once, the late-write window stays open (D70)
//	c09NextWalIsMax      Checkpoint.NextWALID is the maximum WAL id over all handles plus one (1), or taken from one
//	                     handle by position (0)
//	c09LoadedGuarded     the cleanup of sst.NewTableFromDocument calls p.deleteFunc only inside `if canDelete {…}` (1)
//	c09CreatedDeletes    the cleanup of sst.NewTable calls the delete function (1)
//
// Model/Files.lean interprets them (`decision`, `needsTable`), so Props/C09.lean is re-checked against the rules
// the code has now.

import (
	"go/ast"
	"go/token"
)

func init() { extraFactFns = append(extraFactFns, c09Facts) }

func c09IsErrNotNil(e ast.Expr) bool {
	b, ok := e.(*ast.BinaryExpr)
	if !ok || b.Op != token.NEQ {
		return false
	}
	x, y := selName(b.X), selName(b.Y)
	return (x == "err" && y == "nil") || (x == "nil" && y == "err")
}

func c09CallsIn(n ast.Node, name string) int {
	cnt := 0
	if n == nil {
		return 0
	}
	ast.Inspect(n, func(x ast.Node) bool {
		if c, ok := x.(*ast.CallExpr); ok && selName(c.Fun) == name {
			cnt++
		}
		return true
	})
	return cnt
}

func c09Facts(fc *facts) {
	// --- ExclusivelyOwnsTable ---
	pf := parseFile("workers/operator/operator_partition.go")
	own := findFunc(pf, "OperatorPartition", "ExclusivelyOwnsTable")
	if own == nil || own.Body == nil {
		problem("OperatorPartition.ExclusivelyOwnsTable not found")
	} else {
		// error ⇒ keep, recognised by structure (names of locals do not matter):
		//   1  a top-level `if X != nil { return false, X }` before the last statement, and the last statement returns
		//      `(<anything>, nil)` — or the defect-free early-return form ending in `return true, nil`
		//   0  the last statement returns `(!N, X)` with an error variable X and no such guard (the original defect)
		//   anything else: shape not recognised (the value is kept; the C09 correspondence observes the rule directly)
		guard := false
		stmts := own.Body.List
		for _, st := range stmts {
			is, ok := st.(*ast.IfStmt)
			if !ok || is.Init != nil || len(is.Body.List) != 1 {
				continue
			}
			cond, ok := is.Cond.(*ast.BinaryExpr)
			if !ok || cond.Op != token.NEQ {
				continue
			}
			x := selName(cond.X)
			if selName(cond.Y) != "nil" || x == "" {
				if selName(cond.X) == "nil" {
					x = selName(cond.Y)
				} else {
					continue
				}
			}
			if rs, ok := is.Body.List[0].(*ast.ReturnStmt); ok && len(rs.Results) == 2 && selName(rs.Results[0]) == "false" && selName(rs.Results[1]) == x {
				guard = true
			}
		}
		lastNil, lastNegErr := false, false
		if len(stmts) > 0 {
			if rs, ok := stmts[len(stmts)-1].(*ast.ReturnStmt); ok && len(rs.Results) == 2 {
				if selName(rs.Results[1]) == "nil" {
					lastNil = true
				} else if u, ok := rs.Results[0].(*ast.UnaryExpr); ok && u.Op == token.NOT && selName(rs.Results[1]) != "" {
					lastNegErr = true
				}
			}
		}
		switch {
		case guard && lastNil:
			fc.set("c09OwnsErrKeeps", 1, true, "")
		case !guard && lastNegErr:
			fc.set("c09OwnsErrKeeps", 0, true, "")
		default:
			fc.set("c09OwnsErrKeeps", 0, false, "ExclusivelyOwnsTable error guard `if X != nil { return false, X }` … `return _, nil`")
		}

		// the query context: `ctx, cancel := context.WithCancel(context.Background())` and nothing in the function
		// that gives it (or any derived context) a deadline
		noDeadline, ctxSeen := uint64(1), false
		ast.Inspect(own.Body, func(x ast.Node) bool {
			if c, ok := x.(*ast.CallExpr); ok {
				switch selName(c.Fun) {
				case "context.WithCancel":
					if len(c.Args) == 1 {
						if inner, ok := c.Args[0].(*ast.CallExpr); ok && selName(inner.Fun) == "context.Background" {
							ctxSeen = true
						}
					}
				case "context.WithTimeout", "context.WithDeadline", "context.WithTimeoutCause", "context.WithDeadlineCause", "time.After", "time.AfterFunc", "time.NewTimer":
					noDeadline = 0
				}
			}
			return true
		})
		fc.set("c09OwnsNoDeadline", noDeadline, ctxSeen || noDeadline == 0, "ExclusivelyOwnsTable `context.WithCancel(context.Background())`")

		// the query goroutine: the two results of `<neighbor>.NeedsTable(..)` are sent on as they are — neither is
		// assigned again inside the goroutine, and the only send carries exactly these two variables in this order
		// (names of the variables, of the channel and of the result type do not matter)
		errPassed, shapeOK := uint64(1), false
		ast.Inspect(own.Body, func(x ast.Node) bool {
			fl, ok := x.(*ast.FuncLit)
			if !ok {
				return true
			}
			var rNeeds, rErr string
			ast.Inspect(fl.Body, func(y ast.Node) bool {
				if as, ok := y.(*ast.AssignStmt); ok && as.Tok == token.DEFINE && len(as.Lhs) == 2 && len(as.Rhs) == 1 {
					if c, ok := as.Rhs[0].(*ast.CallExpr); ok {
						if sel, ok := c.Fun.(*ast.SelectorExpr); ok && sel.Sel.Name == "NeedsTable" {
							rNeeds, rErr = selName(as.Lhs[0]), selName(as.Lhs[1])
						}
					}
				}
				return true
			})
			if rNeeds == "" || rErr == "" {
				return false // not the query goroutine
			}
			sends := 0
			ast.Inspect(fl.Body, func(y ast.Node) bool {
				switch n := y.(type) {
				case *ast.AssignStmt:
					if n.Tok != token.DEFINE {
						for _, l := range n.Lhs {
							if name := selName(l); name == rNeeds || name == rErr {
								errPassed = 0
							}
						}
					}
				case *ast.SendStmt:
					sends++
					ok := false
					if cl, isLit := n.Value.(*ast.CompositeLit); isLit && len(cl.Elts) == 2 {
						e0, e1 := cl.Elts[0], cl.Elts[1]
						if kv, isKV := e0.(*ast.KeyValueExpr); isKV {
							e0 = kv.Value
						}
						if kv, isKV := e1.(*ast.KeyValueExpr); isKV {
							e1 = kv.Value
						}
						a, b := selName(e0), selName(e1)
						ok = (a == rNeeds && b == rErr) || (a == rErr && b == rNeeds)
					}
					if !ok {
						errPassed = 0
					}
				}
				return true
			})
			if sends == 1 {
				shapeOK = true
			}
			return false
		})
		fc.set("c09OwnsErrPassed", errPassed, shapeOK || errPassed == 0, "ExclusivelyOwnsTable goroutine sending the results of NeedsTable on unchanged")
	}

	// --- DB.NeedsTable ---
	// accepted shapes: `return A || B`, or `if A { return true }; [hook]; return B`, where A and B are the reads
	// db.checkpoints.IncludesTable(..) and <live level list>.IncludesTable(..) in either order (or A alone)
	df := parseFile("dkv/db.go")
	nt := findFunc(df, "DB", "NeedsTable")
	if nt == nil || nt.Body == nil {
		problem("DB.NeedsTable not found")
	} else {
		recv := "db"
		if nt.Recv != nil && len(nt.Recv.List) == 1 && len(nt.Recv.List[0].Names) == 1 {
			recv = nt.Recv.List[0].Names[0].Name
		}
		var reads []ast.Expr
		okShape := true
		var flatten func(e ast.Expr)
		flatten = func(e ast.Expr) {
			if p, ok := e.(*ast.ParenExpr); ok {
				flatten(p.X)
				return
			}
			if b, ok := e.(*ast.BinaryExpr); ok && b.Op == token.LOR {
				flatten(b.X)
				flatten(b.Y)
				return
			}
			reads = append(reads, e)
		}
		for i, st := range nt.Body.List {
			last := i == len(nt.Body.List)-1
			switch x := st.(type) {
			case *ast.IfStmt:
				rs, isRet := (ast.Stmt)(nil), false
				if x.Init == nil && x.Else == nil && len(x.Body.List) == 1 {
					rs = x.Body.List[0]
					if r, ok := rs.(*ast.ReturnStmt); ok && len(r.Results) == 1 && selName(r.Results[0]) == "true" {
						isRet = true
					}
				}
				if !isRet || last {
					okShape = false
				} else {
					flatten(x.Cond)
				}
			case *ast.ExprStmt:
				if c, ok := x.X.(*ast.CallExpr); !ok || selName(c.Fun) != "verifhook.At" {
					okShape = false
				}
			case *ast.ReturnStmt:
				if !last || len(x.Results) != 1 {
					okShape = false
				} else {
					flatten(x.Results[0])
				}
			default:
				okShape = false
			}
		}
		var seq []string
		for _, e := range reads {
			kind := ""
			if c, ok := e.(*ast.CallExpr); ok {
				if selName(c.Fun) == recv+".checkpoints.IncludesTable" {
					kind = "ckpt"
				} else if sel, ok := c.Fun.(*ast.SelectorExpr); ok && sel.Sel.Name == "IncludesTable" {
					if inner, ok := sel.X.(*ast.CallExpr); ok && selName(inner.Fun) == recv+".currentSSTables" {
						kind = "live"
					} else if selName(sel.X) == recv+".sstables" {
						kind = "live"
					}
				}
			}
			if kind == "" {
				okShape = false
			}
			seq = append(seq, kind)
		}
		nCk, nLive := 0, 0
		for _, k := range seq {
			if k == "ckpt" {
				nCk++
			}
			if k == "live" {
				nLive++
			}
		}
		okShape = okShape && nCk == 1 && nLive <= 1 && len(seq) == nCk+nLive
		live, first := uint64(0), uint64(0)
		if nLive == 1 {
			live = 1
			if seq[0] == "live" {
				first = 1
			}
		}
		fc.set("c09NeedsChecksLive", live, okShape, "DB.NeedsTable as two reads (checkpoint list, live level list) joined by || or an early return")
		fc.set("c09NeedsLiveFirst", first, okShape, "DB.NeedsTable as two reads (checkpoint list, live level list) joined by || or an early return")
	}

	// --- Checkpoint.IncludesTable ---
	cf := parseFile("dkv/recovery/checkpoint.go")
	inc := findFunc(cf, "Checkpoint", "IncludesTable")
	if inc == nil || inc.Body == nil {
		problem("Checkpoint.IncludesTable not found")
	} else {
		// 1: some `<cp>.Levels.IncludesTable(..)` call; 0: only the URI index is consulted and the level list is not
		// touched at all; a body that walks the level list some other way is not recognised (value kept)
		levelsCall, levelsRef, usesIndex := false, false, false
		ast.Inspect(inc.Body, func(x ast.Node) bool {
			switch n := x.(type) {
			case *ast.CallExpr:
				if sel, ok := n.Fun.(*ast.SelectorExpr); ok && sel.Sel.Name == "IncludesTable" {
					if in, ok := sel.X.(*ast.SelectorExpr); ok && in.Sel.Name == "Levels" {
						levelsCall = true
					}
				}
			case *ast.SelectorExpr:
				if n.Sel.Name == "Levels" {
					levelsRef = true
				}
			case *ast.IndexExpr:
				if sel, ok := n.X.(*ast.SelectorExpr); ok && sel.Sel.Name == "tableURIset" {
					usesIndex = true
				}
			}
			return true
		})
		switch {
		case levelsCall:
			fc.set("c09CkptUsesLevels", 1, true, "")
		case usesIndex && !levelsRef:
			fc.set("c09CkptUsesLevels", 0, true, "")
		default:
			fc.set("c09CkptUsesLevels", 0, false, "Checkpoint.IncludesTable (URI index lookup and/or <cp>.Levels.IncludesTable)")
		}
	}

	// --- the previous instance of a directory is quiesced before the directory is reopened (D63, hard facts) ---
	// c09DeployClosesFirst: Operator.HandleDeploy calls `<o>.db.Close()` before it calls `dkv.Open(..)`.
	// c09CloseWaits: DB.Close calls `<db>.<wg>.Wait()`, a method `enqueue` of DB does `<db>.<wg>.Add(..)` and defers
	//   `<db>.<wg>.Done()` around the task, and no other function of dkv/db.go enqueues a task on the shared queues.
	of := parseFile("workers/operator/operator.go")
	hd := findFunc(of, "Operator", "HandleDeploy")
	if hd == nil || hd.Body == nil {
		problemFor([]string{"c09DeployClosesFirst"}, "Operator.HandleDeploy not found")
	} else {
		var closePos, openPos token.Pos
		ast.Inspect(hd.Body, func(x ast.Node) bool {
			c, ok := x.(*ast.CallExpr)
			if !ok {
				return true
			}
			if sel, ok := c.Fun.(*ast.SelectorExpr); ok {
				if sel.Sel.Name == "Close" {
					if in, ok := sel.X.(*ast.SelectorExpr); ok && in.Sel.Name == "db" && closePos == 0 {
						closePos = c.Pos()
					}
				}
				if n := selName(c.Fun); (n == "dkv.Open" || n == "dkv.New") && openPos == 0 {
					openPos = c.Pos()
				}
			}
			return true
		})
		v := uint64(0)
		if closePos != 0 && openPos != 0 && closePos < openPos {
			v = 1
		}
		fc.set("c09DeployClosesFirst", v, openPos != 0, "HandleDeploy `dkv.Open(..)` / `dkv.New(..)`")
	}
	closeFn := findFunc(df, "DB", "Close")
	enq := findFunc(df, "DB", "enqueue")
	{
		wg := ""
		if closeFn != nil && closeFn.Body != nil {
			ast.Inspect(closeFn.Body, func(x ast.Node) bool {
				if c, ok := x.(*ast.CallExpr); ok {
					if sel, ok := c.Fun.(*ast.SelectorExpr); ok && sel.Sel.Name == "Wait" {
						if in, ok := sel.X.(*ast.SelectorExpr); ok {
							wg = in.Sel.Name
						}
					}
				}
				return true
			})
		}
		adds, dones := false, false
		if enq != nil && enq.Body != nil && wg != "" {
			ast.Inspect(enq.Body, func(x ast.Node) bool {
				switch n := x.(type) {
				case *ast.CallExpr:
					if sel, ok := n.Fun.(*ast.SelectorExpr); ok && sel.Sel.Name == "Add" {
						if in, ok := sel.X.(*ast.SelectorExpr); ok && in.Sel.Name == wg {
							adds = true
						}
					}
				case *ast.DeferStmt:
					if sel, ok := n.Call.Fun.(*ast.SelectorExpr); ok && sel.Sel.Name == "Done" {
						if in, ok := sel.X.(*ast.SelectorExpr); ok && in.Sel.Name == wg {
							dones = true
						}
					}
				}
				return true
			})
		}
		// every use of the shared task queues goes through enqueue
		stray := false
		for _, d := range df.Decls {
			fd, ok := d.(*ast.FuncDecl)
			if !ok || fd.Body == nil || fd.Name.Name == "enqueue" {
				continue
			}
			ast.Inspect(fd.Body, func(x ast.Node) bool {
				if c, ok := x.(*ast.CallExpr); ok {
					if sel, ok := c.Fun.(*ast.SelectorExpr); ok && sel.Sel.Name == "Enqueue" {
						stray = true
					}
				}
				return true
			})
		}
		v := uint64(0)
		if wg != "" && adds && dones && !stray {
			v = 1
		}
		fc.set("c09CloseWaits", v, closeFn != nil, "DB.Close")
	}

	// c09WritersFenced (D70): 1 only if the source shows that nothing can write to the previous instance once Close has
	// returned - either DB.Close sets a field of DB that Put / rotateMemtable / enqueue read (a closed flag), or
	// Operator.processEventBatch takes the operator's mutex (HandleDeploy holds it across Close and dkv.Open).
	// Anything else is 0: Close drains the tasks enqueued so far and does not stop intake (conservative: the model then
	// keeps the late-write window open).
	{
		fenced := false
		flags := map[string]bool{}
		if closeFn != nil && closeFn.Body != nil {
			ast.Inspect(closeFn.Body, func(x ast.Node) bool {
				switch n := x.(type) {
				case *ast.AssignStmt:
					for _, l := range n.Lhs {
						if sel, ok := l.(*ast.SelectorExpr); ok {
							flags[sel.Sel.Name] = true
						}
					}
				case *ast.CallExpr:
					if sel, ok := n.Fun.(*ast.SelectorExpr); ok && (sel.Sel.Name == "Store" || sel.Sel.Name == "CompareAndSwap" || sel.Sel.Name == "Swap") {
						if in, ok := sel.X.(*ast.SelectorExpr); ok {
							flags[in.Sel.Name] = true
						}
					}
				}
				return true
			})
		}
		if len(flags) > 0 {
			for _, name := range []string{"Put", "rotateMemtable", "enqueue"} {
				fn := findFunc(df, "DB", name)
				if fn == nil || fn.Body == nil {
					continue
				}
				ast.Inspect(fn.Body, func(x ast.Node) bool {
					if iff, ok := x.(*ast.IfStmt); ok {
						ast.Inspect(iff.Cond, func(y ast.Node) bool {
							if sel, ok := y.(*ast.SelectorExpr); ok && flags[sel.Sel.Name] {
								fenced = true
							}
							return true
						})
					}
					return true
				})
			}
		}
		if peb := findFunc(of, "Operator", "processEventBatch"); peb != nil && peb.Body != nil {
			for _, st := range peb.Body.List {
				if es, ok := st.(*ast.ExprStmt); ok {
					if c, ok := es.X.(*ast.CallExpr); ok {
						if sel, ok := c.Fun.(*ast.SelectorExpr); ok && (sel.Sel.Name == "Lock" || sel.Sel.Name == "RLock") {
							if in, ok := sel.X.(*ast.SelectorExpr); ok && in.Sel.Name == "mu" {
								fenced = true
							}
						}
					}
				}
			}
		}
		v := uint64(0)
		if fenced {
			v = 1
		}
		fc.set("c09WritersFenced", v, closeFn != nil, "DB.Close")
	}

	// --- Checkpoint.NextWALID ---
	// 1: the result is one more than the maximum over ALL handles (a loop over <cp>.WALs folding max, or slices.MaxFunc);
	// 0: it is derived from one handle picked by position (first / last); anything else is not recognised.
	// Hard fact (numbering of files yet to be written): the recogniser looks at structure only.
	nw0 := findFunc(cf, "Checkpoint", "NextWALID")
	if nw0 == nil || nw0.Body == nil {
		problemFor([]string{"c09NextWalIsMax"}, "Checkpoint.NextWALID not found")
	} else {
		rangesWALs, usesMax, indexed := false, false, false
		ast.Inspect(nw0.Body, func(x ast.Node) bool {
			switch n := x.(type) {
			case *ast.RangeStmt:
				if sel, ok := n.X.(*ast.SelectorExpr); ok && sel.Sel.Name == "WALs" {
					rangesWALs = true
				}
			case *ast.CallExpr:
				switch selName(n.Fun) {
				case "max", "slices.MaxFunc", "slices.Max":
					usesMax = true
				}
			case *ast.BinaryExpr:
				if n.Op == token.GTR || n.Op == token.LSS || n.Op == token.GEQ || n.Op == token.LEQ {
					// a hand-written maximum: `if h.ID > maxID { maxID = h.ID }`
					usesMax = usesMax || rangesWALs
				}
			case *ast.IndexExpr:
				if sel, ok := n.X.(*ast.SelectorExpr); ok && sel.Sel.Name == "WALs" {
					indexed = true
				}
			}
			return true
		})
		switch {
		case usesMax && !indexed && (rangesWALs || c09CallsIn(nw0.Body, "slices.MaxFunc") > 0):
			fc.set("c09NextWalIsMax", 1, true, "")
		case indexed && !usesMax:
			fc.set("c09NextWalIsMax", 0, true, "")
		default:
			fc.set("c09NextWalIsMax", 0, false, "Checkpoint.NextWALID (maximum WAL id over all handles, plus one)")
		}
	}

	// --- table cleanups ---
	tf := parseFile("dkv/sst/table.go")
	nd := findFunc(tf, "", "NewTableFromDocument")
	if nd == nil || nd.Body == nil {
		problem("sst.NewTableFromDocument not found")
	} else {
		// inside the cleanup closure: `X, _ := <..>.ExclusivelyOwnsTable(..)`, and every call of the delete function
		// (a niladic call of a field of the closure's parameter) sits inside an `if X { … }`
		total, guarded, found := 0, 0, false
		ast.Inspect(nd.Body, func(x ast.Node) bool {
			c, ok := x.(*ast.CallExpr)
			if !ok || selName(c.Fun) != "runtime.AddCleanup" || len(c.Args) != 3 {
				return true
			}
			fl, ok := c.Args[1].(*ast.FuncLit)
			if !ok || fl.Type.Params == nil || len(fl.Type.Params.List) != 1 || len(fl.Type.Params.List[0].Names) != 1 {
				return true
			}
			param := fl.Type.Params.List[0].Names[0].Name
			can := ""
			ast.Inspect(fl.Body, func(y ast.Node) bool {
				if as, ok := y.(*ast.AssignStmt); ok && len(as.Lhs) == 2 && len(as.Rhs) == 1 {
					if cc, ok := as.Rhs[0].(*ast.CallExpr); ok {
						if sel, ok := cc.Fun.(*ast.SelectorExpr); ok && sel.Sel.Name == "ExclusivelyOwnsTable" {
							can = selName(as.Lhs[0])
						}
					}
				}
				return true
			})
			isDelete := func(cc *ast.CallExpr) bool {
				sel, ok := cc.Fun.(*ast.SelectorExpr)
				return ok && len(cc.Args) == 0 && selName(sel.X) == param
			}
			count := func(n ast.Node) int {
				k := 0
				ast.Inspect(n, func(y ast.Node) bool {
					if cc, ok := y.(*ast.CallExpr); ok && isDelete(cc) {
						k++
					}
					return true
				})
				return k
			}
			total = count(fl.Body)
			ast.Inspect(fl.Body, func(y ast.Node) bool {
				if is, ok := y.(*ast.IfStmt); ok && is.Init == nil && can != "" && selName(is.Cond) == can {
					guarded += count(is.Body)
				}
				return true
			})
			found = can != "" && total >= 1
			return false
		})
		v := uint64(0)
		if found && guarded == total {
			v = 1
		}
		fc.set("c09LoadedGuarded", v, found, "NewTableFromDocument cleanup: ExclusivelyOwnsTable result guarding the delete call")
	}
	nw := findFunc(tf, "", "NewTable")
	if nw == nil || nw.Body == nil {
		problem("sst.NewTable not found")
	} else {
		// the cleanup closure calls its parameter, which is `<file>.CreateDeleteFunc()` (1); it has that parameter and
		// does not call it (0); anything else is not recognised (value kept)
		seen, calls := false, false
		ast.Inspect(nw.Body, func(x ast.Node) bool {
			if c, ok := x.(*ast.CallExpr); ok && selName(c.Fun) == "runtime.AddCleanup" && len(c.Args) == 3 {
				fl, ok := c.Args[1].(*ast.FuncLit)
				inner, ok2 := c.Args[2].(*ast.CallExpr)
				if ok && ok2 && fl.Type.Params != nil && len(fl.Type.Params.List) == 1 && len(fl.Type.Params.List[0].Names) == 1 {
					if sel, ok := inner.Fun.(*ast.SelectorExpr); ok && sel.Sel.Name == "CreateDeleteFunc" {
						seen = true
						calls = c09CallsIn(fl.Body, fl.Type.Params.List[0].Names[0].Name) >= 1
					}
				}
			}
			return true
		})
		v := uint64(0)
		if calls {
			v = 1
		}
		fc.set("c09CreatedDeletes", v, seen, "NewTable cleanup `runtime.AddCleanup(t, func(f ..) { f() }, <file>.CreateDeleteFunc())`")
	}
}
