package main

// Facts for C09 (file lifetime). The decision rules of the table cleanups are small enough to be read off the AST:
//
//	c09OwnsErrKeeps      OperatorPartition.ExclusivelyOwnsTable has a top-level `if err != nil { return false, err }`
//	                     before its final `return !neighborNeedsTable, …` (1) or returns (!needs, err) unguarded (0)
//	c09OwnsNoDeadline    … its query context is context.WithCancel(context.Background()): no deadline, no timer (1)
//	c09OwnsErrPassed     … and the query goroutine sends (needsTable, err) on unchanged: an error is never dropped (1)
//	c09NeedsChecksLive   DB.NeedsTable reads the checkpoint list and the live level list (1), checkpoints only (0)
//	c09NeedsLiveFirst    … and reads the live level list before the checkpoint list (1) or after it (0)
//	c09CkptUsesLevels    Checkpoint.IncludesTable consults cp.Levels when there is no URI index (1) or only the index (0)
//	c09LoadedGuarded     the cleanup of sst.NewTableFromDocument calls p.deleteFunc only inside `if canDelete {…}` (1)
//	c09CreatedDeletes    the cleanup of sst.NewTable calls the delete function (1)
//
// Model/Files.lean interprets them (`decision`, `needsTable`), so Props/C09.lean is re-checked against the rules
// the code has now.

import (
	"go/ast"
	"go/token"
)

func init() { extraFactFns = append(extraFactFns, c09Facts) }

func c09IsErrNotNil(e ast.Expr) bool {
	b, ok := e.(*ast.BinaryExpr)
	if !ok || b.Op != token.NEQ {
		return false
	}
	x, y := selName(b.X), selName(b.Y)
	return (x == "err" && y == "nil") || (x == "nil" && y == "err")
}

func c09CallsIn(n ast.Node, name string) int {
	cnt := 0
	if n == nil {
		return 0
	}
	ast.Inspect(n, func(x ast.Node) bool {
		if c, ok := x.(*ast.CallExpr); ok && selName(c.Fun) == name {
			cnt++
		}
		return true
	})
	return cnt
}

func c09Facts(fc *facts) {
	// --- ExclusivelyOwnsTable ---
	pf := parseFile("workers/operator/operator_partition.go")
	own := findFunc(pf, "OperatorPartition", "ExclusivelyOwnsTable")
	if own == nil || own.Body == nil {
		problem("OperatorPartition.ExclusivelyOwnsTable not found")
	} else {
		guard, finalOK := false, false
		stmts := own.Body.List
		for i, st := range stmts {
			if is, ok := st.(*ast.IfStmt); ok && is.Init == nil && c09IsErrNotNil(is.Cond) && len(is.Body.List) == 1 {
				if rs, ok := is.Body.List[0].(*ast.ReturnStmt); ok && len(rs.Results) == 2 && selName(rs.Results[0]) == "false" {
					guard = true
				}
			}
			if i == len(stmts)-1 {
				if rs, ok := st.(*ast.ReturnStmt); ok && len(rs.Results) == 2 {
					if u, ok := rs.Results[0].(*ast.UnaryExpr); ok && u.Op == token.NOT && selName(u.X) == "neighborNeedsTable" {
						finalOK = true
					}
				}
			}
		}
		v := uint64(0)
		if guard {
			v = 1
		}
		fc.set("c09OwnsErrKeeps", v, finalOK, "ExclusivelyOwnsTable final `return !neighborNeedsTable, …`")

		// the query context: `ctx, cancel := context.WithCancel(context.Background())` and nothing in the function
		// that gives it (or any derived context) a deadline
		noDeadline, ctxSeen := uint64(1), false
		ast.Inspect(own.Body, func(x ast.Node) bool {
			if c, ok := x.(*ast.CallExpr); ok {
				switch selName(c.Fun) {
				case "context.WithCancel":
					if len(c.Args) == 1 {
						if inner, ok := c.Args[0].(*ast.CallExpr); ok && selName(inner.Fun) == "context.Background" {
							ctxSeen = true
						}
					}
				case "context.WithTimeout", "context.WithDeadline", "context.WithTimeoutCause", "context.WithDeadlineCause", "time.After", "time.AfterFunc", "time.NewTimer":
					noDeadline = 0
				}
			}
			return true
		})
		fc.set("c09OwnsNoDeadline", noDeadline, ctxSeen || noDeadline == 0, "ExclusivelyOwnsTable `context.WithCancel(context.Background())`")

		// the query goroutine: `needsTable, err := neighbor.NeedsTable(..)` is sent on as it is — `err` (and
		// `needsTable`) are never assigned again
		errPassed, sendSeen := uint64(1), false
		ast.Inspect(own.Body, func(x ast.Node) bool {
			fl, ok := x.(*ast.FuncLit)
			if !ok {
				return true
			}
			ast.Inspect(fl.Body, func(y ast.Node) bool {
				switch n := y.(type) {
				case *ast.AssignStmt:
					for _, l := range n.Lhs {
						if name := selName(l); (name == "err" || name == "needsTable") && n.Tok == token.ASSIGN {
							errPassed = 0
						}
					}
					if n.Tok == token.DEFINE {
						for _, l := range n.Lhs {
							if selName(l) == "err" {
								if c, ok := n.Rhs[0].(*ast.CallExpr); !ok || selName(c.Fun) != "neighbor.NeedsTable" {
									errPassed = 0
								}
							}
						}
					}
				case *ast.SendStmt:
					if cl, ok := n.Value.(*ast.CompositeLit); ok && len(cl.Elts) == 2 && selName(cl.Elts[0]) == "needsTable" && selName(cl.Elts[1]) == "err" {
						sendSeen = true
					} else {
						errPassed = 0
					}
				}
				return true
			})
			return false
		})
		fc.set("c09OwnsErrPassed", errPassed, sendSeen || errPassed == 0, "ExclusivelyOwnsTable goroutine `results <- result{needsTable, err}`")
	}

	// --- DB.NeedsTable ---
	// accepted shapes: `return A || B`, or `if A { return true }; [hook]; return B`, where A and B are the reads
	// db.checkpoints.IncludesTable(..) and <live level list>.IncludesTable(..) in either order (or A alone)
	df := parseFile("dkv/db.go")
	nt := findFunc(df, "DB", "NeedsTable")
	if nt == nil || nt.Body == nil {
		problem("DB.NeedsTable not found")
	} else {
		var reads []ast.Expr
		okShape := true
		var flatten func(e ast.Expr)
		flatten = func(e ast.Expr) {
			if p, ok := e.(*ast.ParenExpr); ok {
				flatten(p.X)
				return
			}
			if b, ok := e.(*ast.BinaryExpr); ok && b.Op == token.LOR {
				flatten(b.X)
				flatten(b.Y)
				return
			}
			reads = append(reads, e)
		}
		for i, st := range nt.Body.List {
			last := i == len(nt.Body.List)-1
			switch x := st.(type) {
			case *ast.IfStmt:
				rs, isRet := (ast.Stmt)(nil), false
				if x.Init == nil && x.Else == nil && len(x.Body.List) == 1 {
					rs = x.Body.List[0]
					if r, ok := rs.(*ast.ReturnStmt); ok && len(r.Results) == 1 && selName(r.Results[0]) == "true" {
						isRet = true
					}
				}
				if !isRet || last {
					okShape = false
				} else {
					flatten(x.Cond)
				}
			case *ast.ExprStmt:
				if c, ok := x.X.(*ast.CallExpr); !ok || selName(c.Fun) != "verifhook.At" {
					okShape = false
				}
			case *ast.ReturnStmt:
				if !last || len(x.Results) != 1 {
					okShape = false
				} else {
					flatten(x.Results[0])
				}
			default:
				okShape = false
			}
		}
		var seq []string
		for _, e := range reads {
			kind := ""
			if c, ok := e.(*ast.CallExpr); ok {
				if selName(c.Fun) == "db.checkpoints.IncludesTable" {
					kind = "ckpt"
				} else if sel, ok := c.Fun.(*ast.SelectorExpr); ok && sel.Sel.Name == "IncludesTable" {
					if inner, ok := sel.X.(*ast.CallExpr); ok && selName(inner.Fun) == "db.currentSSTables" {
						kind = "live"
					} else if selName(sel.X) == "db.sstables" {
						kind = "live"
					}
				}
			}
			if kind == "" {
				okShape = false
			}
			seq = append(seq, kind)
		}
		nCk, nLive := 0, 0
		for _, k := range seq {
			if k == "ckpt" {
				nCk++
			}
			if k == "live" {
				nLive++
			}
		}
		okShape = okShape && nCk == 1 && nLive <= 1 && len(seq) == nCk+nLive
		live, first := uint64(0), uint64(0)
		if nLive == 1 {
			live = 1
			if seq[0] == "live" {
				first = 1
			}
		}
		fc.set("c09NeedsChecksLive", live, okShape, "DB.NeedsTable as two reads (checkpoint list, live level list) joined by || or an early return")
		fc.set("c09NeedsLiveFirst", first, okShape, "DB.NeedsTable as two reads (checkpoint list, live level list) joined by || or an early return")
	}

	// --- Checkpoint.IncludesTable ---
	cf := parseFile("dkv/recovery/checkpoint.go")
	inc := findFunc(cf, "Checkpoint", "IncludesTable")
	if inc == nil || inc.Body == nil {
		problem("Checkpoint.IncludesTable not found")
	} else {
		v := uint64(0)
		if c09CallsIn(inc.Body, "cp.Levels.IncludesTable") >= 1 {
			v = 1
		}
		usesIndex := false
		ast.Inspect(inc.Body, func(x ast.Node) bool {
			if ix, ok := x.(*ast.IndexExpr); ok && selName(ix.X) == "cp.tableURIset" {
				usesIndex = true
			}
			return true
		})
		fc.set("c09CkptUsesLevels", v, usesIndex || v == 1, "Checkpoint.IncludesTable (index lookup and/or level list)")
	}

	// --- table cleanups ---
	tf := parseFile("dkv/sst/table.go")
	nd := findFunc(tf, "", "NewTableFromDocument")
	if nd == nil || nd.Body == nil {
		problem("sst.NewTableFromDocument not found")
	} else {
		total := c09CallsIn(nd.Body, "p.deleteFunc")
		guarded := 0
		ast.Inspect(nd.Body, func(x ast.Node) bool {
			if is, ok := x.(*ast.IfStmt); ok && is.Init == nil && selName(is.Cond) == "canDelete" {
				guarded += c09CallsIn(is.Body, "p.deleteFunc")
			}
			return true
		})
		v := uint64(0)
		if total >= 1 && guarded == total {
			v = 1
		}
		fc.set("c09LoadedGuarded", v, total >= 1, "NewTableFromDocument cleanup calling p.deleteFunc")
	}
	nw := findFunc(tf, "", "NewTable")
	if nw == nil || nw.Body == nil {
		problem("sst.NewTable not found")
	} else {
		v := uint64(0)
		ast.Inspect(nw.Body, func(x ast.Node) bool {
			if c, ok := x.(*ast.CallExpr); ok && selName(c.Fun) == "runtime.AddCleanup" && len(c.Args) == 3 {
				if fl, ok := c.Args[1].(*ast.FuncLit); ok && fl.Type.Params != nil && len(fl.Type.Params.List) == 1 && len(fl.Type.Params.List[0].Names) == 1 {
					if c09CallsIn(fl.Body, fl.Type.Params.List[0].Names[0].Name) >= 1 && selName(c.Args[2].(ast.Expr)) == "" {
						if inner, ok := c.Args[2].(*ast.CallExpr); ok && selName(inner.Fun) == "file.CreateDeleteFunc" {
							v = 1
						}
					}
				}
			}
			return true
		})
		fc.set("c09CreatedDeletes", v, true, "")
	}
}
