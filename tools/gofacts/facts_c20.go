package main

import (
	"go/ast"
	"go/token"
	"os"
	"path/filepath"
	"strings"
)

// C20: structural lock facts for package batching (HARD obligations, no fallback). The models treat every method of
// EventBatcher and ReorderBuffer.Add / the whole Drain loop as one atomic action, and batcher.Flush + buffer.Reserve of
// ReorderFetcher.flush as one critical section of flushMu. These facts are what that is read off from.
//
//	c20BatcherMethodsLocked  every exported method of EventBatcher, and every method that mentions b.batch / b.batchToken, in any
//	                         non-test file of the package — except unexported helpers whose every mention in the package is a
//	                         synchronous call from such a locked method (or from another such helper, depth <= 2) and which do not
//	                         touch the mutex themselves: (after verifhook.At hook points) its first two
//	                         statements are `b.mu.Lock()` and `defer b.mu.Unlock()`, and these are the only operations
//	                         on b.mu in the method (function literals, which run later, excluded)
//	c20BufferAddDrainLocked  ReorderBuffer.Add has that shape; ReorderBuffer.Drain returns exactly one function literal
//	                         that has that shape (the mutex is held for the whole loop, including the yields)
//	c20ReserveUnderFlushMu   ReorderFetcher.flush (or the one helper method of the same receiver it calls directly that takes
//	                         flushMu): flushMu.Lock() comes before batcher.Flush, buffer.Reserve() after it,
//	                         flushMu is not released in between except on a path that returns, it is released after
//	                         Reserve, and neither Reserve nor `.batcher.Flush` is called anywhere else in the package
func init() { extraFactFns = append(extraFactFns, c20Facts) }

func c20MuOps(n ast.Node, mu string) int {
	k := 0
	ast.Inspect(n, func(x ast.Node) bool {
		switch c := x.(type) {
		case *ast.FuncLit:
			return false
		case *ast.CallExpr:
			switch selName(c.Fun) {
			case mu + ".Lock", mu + ".Unlock", mu + ".TryLock", mu + ".RLock", mu + ".RUnlock":
				k++
			}
		}
		return true
	})
	return k
}

// c20LockedBody: body = [verifhook.At(...)]* ; mu.Lock() ; defer mu.Unlock() ; rest, with no other operation on mu
func c20LockedBody(body *ast.BlockStmt, mu string) bool {
	if body == nil {
		return false
	}
	i := 0
	for i < len(body.List) {
		es, ok := body.List[i].(*ast.ExprStmt)
		if !ok || selCall(es.X) != "verifhook.At" {
			break
		}
		i++
	}
	if i+1 >= len(body.List) {
		return false
	}
	first, ok1 := body.List[i].(*ast.ExprStmt)
	second, ok2 := body.List[i+1].(*ast.DeferStmt)
	return ok1 && ok2 && selCall(first.X) == mu+".Lock" && selCall(second.Call) == mu+".Unlock" && c20MuOps(body, mu) == 2
}

func asExpr(n ast.Node) ast.Expr {
	if e, ok := n.(ast.Expr); ok {
		return e
	}
	return nil
}

// c20FindMethod also handles receivers with several type parameters (ReorderFetcher[T, R])
func c20FindMethod(f *ast.File, recv, name string) *ast.FuncDecl {
	for _, d := range f.Decls {
		fd, ok := d.(*ast.FuncDecl)
		if !ok || fd.Name.Name != name || fd.Recv == nil || len(fd.Recv.List) != 1 {
			continue
		}
		t := fd.Recv.List[0].Type
		if s, ok := t.(*ast.StarExpr); ok {
			t = s.X
		}
		switch ix := t.(type) {
		case *ast.IndexExpr:
			t = ix.X
		case *ast.IndexListExpr:
			t = ix.X
		}
		if id, ok := t.(*ast.Ident); ok && id.Name == recv {
			return fd
		}
	}
	return nil
}

func c20Facts(fc *facts) {
	b2u := func(b bool) uint64 {
		if b {
			return 1
		}
		return 0
	}
	// every non-test file of package batching (also verif-tagged accessor files)
	pkgFiles := []*ast.File{}
	if ents, err := os.ReadDir(filepath.Join(repo, "batching")); err == nil {
		for _, e := range ents {
			if strings.HasSuffix(e.Name(), ".go") && !strings.HasSuffix(e.Name(), "_test.go") {
				pkgFiles = append(pkgFiles, parseFile("batching/"+e.Name()))
			}
		}
	}
	touchesBatch := func(fd *ast.FuncDecl) bool {
		r, hit := recvName(fd), false
		ast.Inspect(fd.Body, func(x ast.Node) bool {
			if n := selName(asExpr(x)); n == r+".batch" || n == r+".batchToken" {
				hit = true
			}
			return true
		})
		return hit
	}
	// all methods of EventBatcher in the package
	methods := map[string]*ast.FuncDecl{}
	for _, file := range pkgFiles {
		for _, d := range file.Decls {
			if fd, ok := d.(*ast.FuncDecl); ok && fd.Recv != nil && fd.Body != nil && c20FindMethod(file, "EventBatcher", fd.Name.Name) == fd {
				methods[fd.Name.Name] = fd
			}
		}
	}
	locked := func(fd *ast.FuncDecl) bool { return c20LockedBody(fd.Body, recvName(fd)+".mu") }
	// heldHelper: an unexported method that relies on its caller holding b.mu. It must not touch the mutex itself, and every
	// mention of it anywhere in the package must be a plain call `x.m(...)` made synchronously (not in a function literal,
	// not under `go` or `defer`) from an EventBatcher method that is itself a locked method or such a helper (depth <= 2).
	var heldHelper func(name string, depth int) bool
	heldHelper = func(name string, depth int) bool {
		fd := methods[name]
		if fd == nil || fd.Name.IsExported() || depth > 2 || c20MuOps(fd.Body, recvName(fd)+".mu") != 0 {
			return false
		}
		ok, mentions := true, 0
		for _, file := range pkgFiles {
			for _, d := range file.Decls {
				encl, isFn := d.(*ast.FuncDecl)
				if !isFn || encl.Body == nil {
					continue
				}
				var stack []ast.Node
				ast.Inspect(encl.Body, func(x ast.Node) bool {
					if x == nil {
						stack = stack[:len(stack)-1]
						return true
					}
					stack = append(stack, x)
					se, isSel := x.(*ast.SelectorExpr)
					if !isSel || se.Sel.Name != name {
						return true
					}
					mentions++
					// must be the function of a call expression
					if len(stack) < 2 {
						ok = false
						return true
					}
					call, isCall := stack[len(stack)-2].(*ast.CallExpr)
					if !isCall || call.Fun != ast.Expr(se) {
						ok = false // method value / passed as a callback
						return true
					}
					for _, anc := range stack[:len(stack)-2] {
						switch anc.(type) {
						case *ast.FuncLit, *ast.GoStmt, *ast.DeferStmt:
							ok = false
						}
					}
					// the caller: an EventBatcher method holding the lock
					if methods[encl.Name.Name] != encl {
						ok = false
					} else if !locked(encl) && !heldHelper(encl.Name.Name, depth+1) {
						ok = false
					}
					return true
				})
			}
		}
		return ok && mentions > 0
	}
	okBatcher, nMethods := true, 0
	for name, fd := range methods {
		// exported methods, and any method that reads or writes the batch or its token
		if !fd.Name.IsExported() && !touchesBatch(fd) {
			continue
		}
		if fd.Name.IsExported() {
			nMethods++
		}
		if !locked(fd) && !heldHelper(name, 1) {
			okBatcher = false
		}
	}
	// Add, IsFull and Flush are the methods the model has; fewer means the file no longer has the expected shape
	fc.set("c20BatcherMethodsLocked", b2u(okBatcher), nMethods >= 3, "exported methods of batching.EventBatcher")

	rb := parseFile("batching/reorder_buffer.go")
	add, drain := findFunc(rb, "ReorderBuffer", "Add"), findFunc(rb, "ReorderBuffer", "Drain")
	okBuf := add != nil && drain != nil
	if okBuf {
		okBuf = c20LockedBody(add.Body, recvName(add)+".mu")
		var lits []*ast.FuncLit
		ast.Inspect(drain.Body, func(x ast.Node) bool {
			if l, ok := x.(*ast.FuncLit); ok {
				lits = append(lits, l)
				return false
			}
			return true
		})
		okBuf = okBuf && len(lits) == 1 && c20LockedBody(lits[0].Body, recvName(drain)+".mu") && c20MuOps(drain.Body, recvName(drain)+".mu") == 0
	}
	fc.set("c20BufferAddDrainLocked", b2u(okBuf), add != nil && drain != nil, "batching.ReorderBuffer.Add / Drain")

	rf := parseFile("batching/reorder_fetcher.go")
	entry := c20FindMethod(rf, "ReorderFetcher", "flush")
	// the critical section may live in `flush` itself or in a helper method of the same receiver that `flush` calls
	// directly (one level): the function analysed is the one that takes flushMu
	fl := entry
	if entry != nil {
		d0 := recvName(entry)
		locksHere := func(fn *ast.FuncDecl) bool {
			found := false
			ast.Inspect(fn.Body, func(x ast.Node) bool {
				switch c := x.(type) {
				case *ast.FuncLit:
					return false
				case *ast.CallExpr:
					if selName(c.Fun) == recvName(fn)+".flushMu.Lock" {
						found = true
					}
				}
				return true
			})
			return found
		}
		if !locksHere(entry) {
			var helpers []*ast.FuncDecl
			for _, st := range entry.Body.List {
				ast.Inspect(st, func(x ast.Node) bool {
					switch c := x.(type) {
					case *ast.FuncLit, *ast.GoStmt:
						return false
					case *ast.CallExpr:
						if se, ok := c.Fun.(*ast.SelectorExpr); ok && selName(se.X) == d0 {
							if h := c20FindMethod(rf, "ReorderFetcher", se.Sel.Name); h != nil && locksHere(h) {
								helpers = append(helpers, h)
							}
						}
					}
					return true
				})
			}
			if len(helpers) == 1 {
				fl = helpers[0]
			} else {
				fl = nil
			}
		}
	}
	okFlush := fl != nil
	if okFlush {
		d := recvName(fl)
		var lockPos, flushPos, reservePos token.Pos
		var unlocks []token.Pos
		ast.Inspect(fl.Body, func(x ast.Node) bool {
			switch c := x.(type) {
			case *ast.FuncLit:
				return false
			case *ast.CallExpr:
				switch selName(c.Fun) {
				case d + ".flushMu.Lock":
					if lockPos == 0 {
						lockPos = c.Pos()
					} else {
						okFlush = false
					}
				case d + ".flushMu.Unlock":
					unlocks = append(unlocks, c.Pos())
				case d + ".batcher.Flush":
					if flushPos == 0 {
						flushPos = c.Pos()
					} else {
						okFlush = false
					}
				case d + ".buffer.Reserve":
					if reservePos == 0 {
						reservePos = c.Pos()
					} else {
						okFlush = false
					}
				}
			}
			return true
		})
		okFlush = okFlush && lockPos != 0 && flushPos != 0 && reservePos != 0 && lockPos < flushPos && flushPos < reservePos
		// Lock, Flush and Reserve are statements of the function body itself (not of a branch)
		top := func(p token.Pos) bool {
			for _, st := range fl.Body.List {
				if st.Pos() <= p && p < st.End() {
					switch st.(type) {
					case *ast.ExprStmt, *ast.AssignStmt:
						return true
					}
				}
			}
			return false
		}
		okFlush = okFlush && top(lockPos) && top(flushPos) && top(reservePos)
		after := false
		for _, u := range unlocks {
			if u > reservePos {
				if top(u) {
					after = true
				}
				continue
			}
			if u < lockPos {
				okFlush = false
				continue
			}
			// an Unlock between Lock and Reserve must sit in a branch that ends with return
			inReturning := false
			for _, st := range fl.Body.List {
				ifs, ok := st.(*ast.IfStmt)
				if !ok || !(ifs.Body.Pos() <= u && u < ifs.Body.End()) || len(ifs.Body.List) == 0 {
					continue
				}
				if _, isRet := ifs.Body.List[len(ifs.Body.List)-1].(*ast.ReturnStmt); isRet {
					inReturning = true
				}
			}
			if !inReturning {
				okFlush = false
			}
		}
		okFlush = okFlush && after
		// Reserve is called nowhere else in the package, and the fetcher takes batches from its batcher nowhere else
		// (`flushA` is the model's only batch-taking action)
		reserveCalls, flushCalls := 0, 0
		for _, file := range pkgFiles {
			ast.Inspect(file, func(x ast.Node) bool {
				if c, ok := x.(*ast.CallExpr); ok {
					if se, ok := c.Fun.(*ast.SelectorExpr); ok && se.Sel.Name == "Reserve" {
						reserveCalls++
					}
					if strings.HasSuffix(selName(c.Fun), ".batcher.Flush") {
						flushCalls++
					}
				}
				return true
			})
		}
		okFlush = okFlush && reserveCalls == 1 && flushCalls == 1
	}
	fc.set("c20ReserveUnderFlushMu", b2u(okFlush), entry != nil, "batching.ReorderFetcher.flush")
}
