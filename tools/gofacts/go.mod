module verif/tools/gofacts

go 1.23
