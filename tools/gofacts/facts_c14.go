package main

// C14: three structural facts about storage/snapshots that choose the modelled variant (Model/Savepoint.lean).
//
//	savepointDocFromRead   1: in CreateSavepointArtifact (or a helper it calls) the bytes obtained from the `.Read(...)` of an
//	                          operator's document are passed to a `.Write(...)` (D53 repair, `DocMode.writeRead`);
//	                       0: they are only parsed and the document FILE is copied (`.Copy(` present, no such Write).
//	savepointJobFromBytes  1: CreateSavepointArtifact has a []byte parameter that reaches a `.Write(...)` (D65 repair,
//	                          `JobMode.fromBytes`);  0: it has a string parameter that is the source of a `.Copy(...)`.
//	savepointIdsCounted    1: Store.LoadCheckpoint, or a function it calls, scans the file store (`range <x>.List()`) and the
//	                          scan or a function it calls mentions the "job.savepoint" file name (D66 repair: ids of existing
//	                          savepoints are counted);  0: a scan is there and none of the reachable code mentions it.
//
// The recognisers follow calls to functions and methods declared in the package's files (store.go,
// savepoint_artifact.go, snapshot.go), so moving a loop or a copy into a helper does not change a fact. When neither the
// 1-shape nor the 0-shape is recognised the fact is reported as a PROBLEM (no value is invented: the last good value is
// kept and tools/gofacts/fallbacks.json hands the decision to the C14 correspondence, which observes all three:
// held creations, held creation + next publication, ids after `load`).

import "go/ast"

func init() { extraFactFns = append(extraFactFns, c14Facts) }

type c14Pkg struct {
	decls map[string]*ast.FuncDecl
}

func c14LoadPkg() *c14Pkg {
	p := &c14Pkg{decls: map[string]*ast.FuncDecl{}}
	for _, rel := range []string{"storage/snapshots/store.go", "storage/snapshots/savepoint_artifact.go", "storage/snapshots/snapshot.go"} {
		f := parseFile(rel)
		for _, d := range f.Decls {
			if fd, ok := d.(*ast.FuncDecl); ok && fd.Body != nil {
				if _, dup := p.decls[fd.Name.Name]; !dup {
					p.decls[fd.Name.Name] = fd
				}
			}
		}
	}
	return p
}

// closure: root and every package function reachable from it through calls (by name; methods by selector name)
func (p *c14Pkg) closure(root *ast.FuncDecl) []*ast.FuncDecl {
	seen := map[string]bool{root.Name.Name: true}
	out := []*ast.FuncDecl{root}
	for i := 0; i < len(out) && len(out) < 40; i++ {
		ast.Inspect(out[i].Body, func(x ast.Node) bool {
			call, ok := x.(*ast.CallExpr)
			if !ok {
				return true
			}
			name := ""
			switch f := call.Fun.(type) {
			case *ast.Ident:
				name = f.Name
			case *ast.SelectorExpr:
				name = f.Sel.Name
			}
			if fd := p.decls[name]; fd != nil && !seen[name] {
				seen[name] = true
				out = append(out, fd)
			}
			return true
		})
	}
	return out
}

func c14SelCalls(fn *ast.FuncDecl, sel string) []*ast.CallExpr {
	var out []*ast.CallExpr
	ast.Inspect(fn.Body, func(x ast.Node) bool {
		if call, ok := x.(*ast.CallExpr); ok {
			if s, ok := call.Fun.(*ast.SelectorExpr); ok && s.Sel.Name == sel {
				out = append(out, call)
			}
		}
		return true
	})
	return out
}

func c14Mentions(n ast.Node, names map[string]bool) bool {
	found := false
	ast.Inspect(n, func(y ast.Node) bool {
		if id, ok := y.(*ast.Ident); ok && names[id.Name] {
			found = true
		}
		return true
	})
	return found
}

func c14HasLit(fn *ast.FuncDecl, lit string) bool {
	found := false
	ast.Inspect(fn.Body, func(y ast.Node) bool {
		if l, ok := y.(*ast.BasicLit); ok && l.Value == lit {
			found = true
		}
		return true
	})
	return found
}

func c14Bool(b bool) uint64 {
	if b {
		return 1
	}
	return 0
}

func c14Facts(fc *facts) {
	p := c14LoadPkg()

	// ---- savepointDocFromRead / savepointJobFromBytes
	if root := p.decls["CreateSavepointArtifact"]; root == nil {
		problemFor([]string{"savepointDocFromRead", "savepointJobFromBytes"}, "snapshots.CreateSavepointArtifact not found")
	} else {
		cl := p.closure(root)
		// the function (root or helper) that reads an operator document: `x, err := <loc>.Read(...)`
		docWritten, readFound, copyFound := false, false, false
		for _, fn := range cl {
			if len(c14SelCalls(fn, "Copy")) > 0 {
				copyFound = true
			}
			readVars := map[string]bool{}
			ast.Inspect(fn.Body, func(x ast.Node) bool {
				as, ok := x.(*ast.AssignStmt)
				if !ok || len(as.Rhs) != 1 || len(as.Lhs) == 0 {
					return true
				}
				if call, ok := as.Rhs[0].(*ast.CallExpr); ok {
					if sel, ok := call.Fun.(*ast.SelectorExpr); ok && sel.Sel.Name == "Read" {
						if id, ok := as.Lhs[0].(*ast.Ident); ok && id.Name != "_" {
							readVars[id.Name] = true
						}
					}
				}
				return true
			})
			if len(readVars) == 0 {
				continue
			}
			readFound = true
			for _, w := range c14SelCalls(fn, "Write") {
				for _, a := range w.Args {
					if c14Mentions(a, readVars) {
						docWritten = true
					}
				}
			}
		}
		switch {
		case readFound && docWritten:
			fc.set("savepointDocFromRead", 1, true, "")
		case readFound && copyFound:
			fc.set("savepointDocFromRead", 0, true, "")
		default:
			problemFor([]string{"savepointDocFromRead"}, "snapshots.CreateSavepointArtifact: neither `x := <loc>.Read(..) … <loc>.Write(.., x)` nor a document copy recognised")
		}

		// job.savepoint: from a []byte parameter through Write, or from a string parameter through Copy
		byteParams, strParams := map[string]bool{}, map[string]bool{}
		if root.Type.Params != nil {
			for _, prm := range root.Type.Params.List {
				if at, ok := prm.Type.(*ast.ArrayType); ok && at.Len == nil {
					if id, ok := at.Elt.(*ast.Ident); ok && id.Name == "byte" {
						for _, n := range prm.Names {
							byteParams[n.Name] = true
						}
					}
				}
				if id, ok := prm.Type.(*ast.Ident); ok && id.Name == "string" {
					for _, n := range prm.Names {
						strParams[n.Name] = true
					}
				}
			}
		}
		fromBytes, fromFile := false, false
		for _, w := range c14SelCalls(root, "Write") {
			for _, a := range w.Args {
				if c14Mentions(a, byteParams) {
					fromBytes = true
				}
			}
		}
		for _, c := range c14SelCalls(root, "Copy") {
			if len(c.Args) > 0 && c14Mentions(c.Args[0], strParams) {
				fromFile = true
			}
		}
		switch {
		case fromBytes && !fromFile:
			fc.set("savepointJobFromBytes", 1, true, "")
		case fromFile && !fromBytes:
			fc.set("savepointJobFromBytes", 0, true, "")
		default:
			problemFor([]string{"savepointJobFromBytes"}, "snapshots.CreateSavepointArtifact: job.savepoint neither written from a []byte parameter nor copied from a string parameter")
		}
	}

	// ---- savepointIdsCounted
	if root := p.decls["LoadCheckpoint"]; root == nil {
		problemFor([]string{"savepointIdsCounted"}, "snapshots.Store.LoadCheckpoint not found")
	} else {
		scans, mention := 0, false
		for _, fn := range p.closure(root) {
			ast.Inspect(fn.Body, func(x ast.Node) bool {
				if rs, ok := x.(*ast.RangeStmt); ok {
					if call, ok := rs.X.(*ast.CallExpr); ok {
						if sel, ok := call.Fun.(*ast.SelectorExpr); ok && sel.Sel.Name == "List" {
							scans++
						}
					}
				}
				return true
			})
			if c14HasLit(fn, `"job.savepoint"`) {
				mention = true
			}
		}
		if scans == 0 {
			problemFor([]string{"savepointIdsCounted"}, "snapshots.Store.LoadCheckpoint: no scan of the file store (`range <x>.List()`) found in it or in the functions it calls")
		} else {
			fc.set("savepointIdsCounted", c14Bool(mention), true, "")
		}
	}
}
