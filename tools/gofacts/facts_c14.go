package main

// C14: HOW the operator's `checkpoints` document reaches a savepoint artifact in
// snapshots.CreateSavepointArtifact (storage/snapshots/savepoint_artifact.go).
//
//	savepointDocFromRead  1: the bytes obtained from the `.Read(...)` call at the start of the per-operator loop (the
//	                         content the file list was taken from) are passed to a `.Write(...)` call in the function
//	                         (proposed D53 repair, Model/Savepoint.lean `DocMode.writeRead`);
//	                      0: they are only parsed, and the document file is copied again later (`DocMode.copyFile`).
//
// The recogniser is structural: it finds the variable assigned from a call whose selector is `Read`, and looks for a
// call whose selector is `Write` with that variable anywhere in its arguments. Either way the behaviour is also
// observed by the C14 correspondence (held creations: `release k hold=n` … `resume`, then `load`).

import "go/ast"

func init() { extraFactFns = append(extraFactFns, c14Facts) }

func c14Facts(fc *facts) {
	f := parseFile("storage/snapshots/savepoint_artifact.go")
	fn := findFunc(f, "", "CreateSavepointArtifact")
	if fn == nil || fn.Body == nil {
		problemFor([]string{"savepointDocFromRead"}, "snapshots.CreateSavepointArtifact not found")
		return
	}
	readVars := map[string]bool{}
	ast.Inspect(fn.Body, func(x ast.Node) bool {
		as, ok := x.(*ast.AssignStmt)
		if !ok || len(as.Rhs) != 1 || len(as.Lhs) == 0 {
			return true
		}
		call, ok := as.Rhs[0].(*ast.CallExpr)
		if !ok {
			return true
		}
		if sel, ok := call.Fun.(*ast.SelectorExpr); ok && sel.Sel.Name == "Read" {
			if id, ok := as.Lhs[0].(*ast.Ident); ok && id.Name != "_" {
				readVars[id.Name] = true
			}
		}
		return true
	})
	if len(readVars) == 0 {
		problemFor([]string{"savepointDocFromRead"}, "snapshots.CreateSavepointArtifact: no `x, err := <loc>.Read(...)` found")
		return
	}
	written := false
	ast.Inspect(fn.Body, func(x ast.Node) bool {
		call, ok := x.(*ast.CallExpr)
		if !ok {
			return true
		}
		if sel, ok := call.Fun.(*ast.SelectorExpr); ok && sel.Sel.Name == "Write" {
			for _, a := range call.Args {
				ast.Inspect(a, func(y ast.Node) bool {
					if id, ok := y.(*ast.Ident); ok && readVars[id.Name] {
						written = true
					}
					return true
				})
			}
		}
		return true
	})
	v := uint64(0)
	if written {
		v = 1
	}
	fc.set("savepointDocFromRead", v, true, "")
}

// savepointIdsCounted  1: Store.LoadCheckpoint also keeps the id counter above the ids of EXISTING SAVEPOINTS: it calls,
//                         on the paths it lists, a function of the same file whose body mentions the "job.savepoint"
//                         file name (proposed repair of the savepoint-id reuse);
//                      0: only the loaded checkpoint's id and the job-*.snapshot files count (the code as it is).
// Observed by the C14 correspondence either way: ids handed out after `load` when a savepoint with a higher id exists.
func init() { extraFactFns = append(extraFactFns, c14CounterFacts) }

func c14CounterFacts(fc *facts) {
	f := parseFile("storage/snapshots/store.go")
	fn := findFunc(f, "Store", "LoadCheckpoint")
	if fn == nil {
		fn = findFunc(f, "*Store", "LoadCheckpoint")
	}
	if fn == nil || fn.Body == nil {
		problemFor([]string{"savepointIdsCounted"}, "snapshots.Store.LoadCheckpoint not found")
		return
	}
	mentions := map[string]bool{} // functions of the file whose body mentions "job.savepoint"
	for _, d := range f.Decls {
		fd, ok := d.(*ast.FuncDecl)
		if !ok || fd.Body == nil || fd.Name.Name == "LoadCheckpoint" {
			continue
		}
		ast.Inspect(fd.Body, func(x ast.Node) bool {
			if l, ok := x.(*ast.BasicLit); ok && l.Value == `"job.savepoint"` {
				mentions[fd.Name.Name] = true
			}
			return true
		})
	}
	counted := false
	ast.Inspect(fn.Body, func(x ast.Node) bool {
		switch n := x.(type) {
		case *ast.CallExpr:
			if id, ok := n.Fun.(*ast.Ident); ok && mentions[id.Name] {
				counted = true
			}
		case *ast.BasicLit:
			if n.Value == `"job.savepoint"` {
				counted = true
			}
		}
		return true
	})
	v := uint64(0)
	if counted {
		v = 1
	}
	fc.set("savepointIdsCounted", v, true, "")
}

// savepointJobFromBytes  1: CreateSavepointArtifact receives the job checkpoint's CONTENT (a []byte parameter) and
//                           passes it to a `.Write(...)` call: job.savepoint is written from memory (proposed D65 repair);
//                        0: it copies the job checkpoint FILE last (which the next publication's cleanup may have removed).
// Observed by the C14 correspondence either way (held creation + release of the next publication, then `resume`).
func init() { extraFactFns = append(extraFactFns, c14JobFacts) }

func c14JobFacts(fc *facts) {
	f := parseFile("storage/snapshots/savepoint_artifact.go")
	fn := findFunc(f, "", "CreateSavepointArtifact")
	if fn == nil || fn.Body == nil || fn.Type.Params == nil {
		problemFor([]string{"savepointJobFromBytes"}, "snapshots.CreateSavepointArtifact not found")
		return
	}
	byteParams := map[string]bool{}
	for _, p := range fn.Type.Params.List {
		if at, ok := p.Type.(*ast.ArrayType); ok && at.Len == nil {
			if id, ok := at.Elt.(*ast.Ident); ok && id.Name == "byte" {
				for _, n := range p.Names {
					byteParams[n.Name] = true
				}
			}
		}
	}
	written := false
	ast.Inspect(fn.Body, func(x ast.Node) bool {
		call, ok := x.(*ast.CallExpr)
		if !ok {
			return true
		}
		if sel, ok := call.Fun.(*ast.SelectorExpr); ok && sel.Sel.Name == "Write" {
			for _, a := range call.Args {
				ast.Inspect(a, func(y ast.Node) bool {
					if id, ok := y.(*ast.Ident); ok && byteParams[id.Name] {
						written = true
					}
					return true
				})
			}
		}
		return true
	})
	v := uint64(0)
	if written {
		v = 1
	}
	fc.set("savepointJobFromBytes", v, true, "")
}
