package main

// C17 facts: SST / WAL / bloom / fields constants (dkv/sst, dkv/bloom, dkv/fields).

import (
	"fmt"
	"go/ast"
	"go/token"
	"sort"
	"strings"
)

func init() { extraFactFns = append(extraFactFns, c17Facts) }

// evalConst evaluates literals, known identifiers and + * of them.
func evalConst(e ast.Expr, env map[string]uint64) (uint64, bool) {
	switch n := e.(type) {
	case *ast.ParenExpr:
		return evalConst(n.X, env)
	case *ast.BasicLit:
		return litVal(n)
	case *ast.Ident, *ast.SelectorExpr:
		if v, ok := env[selName(e)]; ok {
			return v, true
		}
		return litVal(e)
	case *ast.BinaryExpr:
		a, ok1 := evalConst(n.X, env)
		b, ok2 := evalConst(n.Y, env)
		if !ok1 || !ok2 {
			return 0, false
		}
		switch n.Op {
		case token.MUL:
			return a * b, true
		case token.ADD:
			return a + b, true
		}
	}
	return 0, false
}

// makeByteSizes lists N of every `make([]byte, N)` (or `[N]byte` buffer) in fn, in source order.
func makeByteSizes(fn *ast.FuncDecl) []uint64 {
	var out []uint64
	ast.Inspect(fn, func(x ast.Node) bool {
		if at, ok := x.(*ast.ArrayType); ok && at.Len != nil && selName(at.Elt) == "byte" {
			if v, ok := litVal(at.Len); ok {
				out = append(out, v)
			}
			return true
		}
		c, ok := x.(*ast.CallExpr)
		if !ok || selName(c.Fun) != "make" || len(c.Args) != 2 {
			return true
		}
		if at, ok := c.Args[0].(*ast.ArrayType); !ok || at.Len != nil || selName(at.Elt) != "byte" {
			return true
		}
		if v, ok := litVal(c.Args[1]); ok {
			out = append(out, v)
		}
		return true
	})
	return out
}

// copyNSizes lists N of every `io.CopyN(_, _, N)` with literal N.
func copyNSizes(fn *ast.FuncDecl) []uint64 {
	var out []uint64
	ast.Inspect(fn, func(x ast.Node) bool {
		c, ok := x.(*ast.CallExpr)
		if !ok || selName(c.Fun) != "io.CopyN" || len(c.Args) != 3 {
			return true
		}
		if v, ok := litVal(c.Args[2]); ok {
			out = append(out, v)
		}
		return true
	})
	return out
}

func allEqual(xs []uint64) (uint64, bool) {
	if len(xs) == 0 {
		return 0, false
	}
	for _, x := range xs {
		if x != xs[0] {
			return 0, false
		}
	}
	return xs[0], true
}

// divisorOf finds `<ident> / N` or `<ident> % N` literals in fn.
func divisors(fn *ast.FuncDecl) []uint64 {
	var out []uint64
	ast.Inspect(fn, func(x ast.Node) bool {
		b, ok := x.(*ast.BinaryExpr)
		if !ok || (b.Op != token.QUO && b.Op != token.REM) {
			return true
		}
		if v, ok := litVal(b.Y); ok {
			out = append(out, v)
		}
		return true
	})
	return out
}

// c17Recv is the receiver name of a method declaration ("" if none).
func c17Recv(fn *ast.FuncDecl) string {
	if fn.Recv != nil && len(fn.Recv.List) == 1 && len(fn.Recv.List[0].Names) == 1 {
		return fn.Recv.List[0].Names[0].Name
	}
	return ""
}

// c17CallName is the selector text of a call statement / deferred call ("" otherwise).
func c17CallName(e ast.Expr) string {
	if c, ok := e.(*ast.CallExpr); ok {
		return selName(c.Fun)
	}
	return ""
}

// c17Mentions reports whether any selector `<x>.<field>` occurs under n.
func c17Mentions(n ast.Node, field string) bool {
	found := false
	ast.Inspect(n, func(x ast.Node) bool {
		if s, ok := x.(*ast.SelectorExpr); ok && s.Sel.Name == field {
			found = true
		}
		return !found
	})
	return found
}

// c17LockIndex: index i of the top-level statement `<recv>.<mu>.Lock()` that is directly followed by
// `defer <recv>.<mu>.Unlock()`, provided the mutex is not touched anywhere else in the body; -1 otherwise.
func c17LockIndex(fn *ast.FuncDecl, mu string) int {
	if fn.Body == nil {
		return -1
	}
	recv := c17Recv(fn)
	idx := -1
	for i, st := range fn.Body.List {
		es, ok := st.(*ast.ExprStmt)
		if !ok || c17CallName(es.X) != recv+"."+mu+".Lock" || i+1 >= len(fn.Body.List) {
			continue
		}
		if d, ok := fn.Body.List[i+1].(*ast.DeferStmt); ok && selName(d.Call.Fun) == recv+"."+mu+".Unlock" {
			idx = i
			break
		}
	}
	if idx < 0 {
		return -1
	}
	ops := 0
	ast.Inspect(fn.Body, func(x ast.Node) bool {
		if c, ok := x.(*ast.CallExpr); ok && strings.HasPrefix(selName(c.Fun), recv+"."+mu+".") {
			ops++
		}
		return true
	})
	if ops != 2 {
		return -1 // an early Unlock / second Lock somewhere: the critical section is not the rest of the body
	}
	return idx
}

// c17LockFacts: structural (hard) facts behind the atomic steps of the models.
func c17LockFacts(fc *facts) {
	// wal.Writer. What the recogniser establishes (and nothing more):
	//  (1) Cut, Truncate, Rotate: `mu.Lock(); defer mu.Unlock()` covers the rest of the body, the mutex is not touched
	//      elsewhere in the body, and no segment state is accessed before the Lock;
	//  (2) field separation of the unlocked foreground writes from the concurrent Truncate: Put/Delete never mention
	//      `sealedBuffers`; Truncate never mentions `<recv>.activeBuffer` nor `<recv>.latestSeqNum`;
	//  (3) every mutating method (Put, Delete, Cut, Truncate, Rotate) starts with an `if` on `<recv>.sealed` whose body
	//      panics; Save starts with such a guard too; `sealed` is written only by one CompareAndSwap(false, true), in Rotate.
	// Not established here: that no Truncate is between its guard and its Lock while a Rotate runs (the guard precedes the
	// Lock). In dkv both calls sit inside db.mu sections: C08's facts c08CaptureUnderLock / c08FlushTruncates.
	wr := parseFile("dkv/wal/writer.go")
	walOK := true
	var why []string
	bad := func(format string, a ...any) {
		walOK = false
		why = append(why, fmt.Sprintf(format, a...))
	}
	recvField := func(n ast.Node, recv, field string) bool {
		found := false
		ast.Inspect(n, func(x ast.Node) bool {
			if s, ok := x.(*ast.SelectorExpr); ok && s.Sel.Name == field {
				if id, ok := s.X.(*ast.Ident); ok && id.Name == recv {
					found = true
				}
			}
			return !found
		})
		return found
	}
	sealedGuardFirst := func(fn *ast.FuncDecl) bool {
		if fn.Body == nil || len(fn.Body.List) == 0 {
			return false
		}
		is, ok := fn.Body.List[0].(*ast.IfStmt)
		if !ok || !recvField(is.Cond, c17Recv(fn), "sealed") || len(is.Body.List) == 0 {
			return false
		}
		es, ok := is.Body.List[len(is.Body.List)-1].(*ast.ExprStmt)
		return ok && c17CallName(es.X) == "panic"
	}
	for _, name := range []string{"Cut", "Truncate", "Rotate"} {
		fn := findFuncOr(wr, "Writer", name)
		i := c17LockIndex(fn, "mu")
		if i < 0 {
			bad("%s: no `mu.Lock(); defer mu.Unlock()` covering the rest of the body", name)
			continue
		}
		for _, st := range fn.Body.List[:i] {
			if c17Mentions(st, "sealedBuffers") || c17Mentions(st, "activeBuffer") {
				bad("%s: segment state touched before the lock", name)
			}
		}
	}
	for _, name := range []string{"Put", "Delete"} {
		if fn := findFuncOr(wr, "Writer", name); fn.Body == nil || c17Mentions(fn.Body, "sealedBuffers") {
			bad("%s: touches sealedBuffers", name)
		}
	}
	if fn := findFuncOr(wr, "Writer", "Truncate"); fn.Body != nil {
		recv := c17Recv(fn)
		if recvField(fn.Body, recv, "activeBuffer") || recvField(fn.Body, recv, "latestSeqNum") {
			bad("Truncate: touches the fields Put/Delete write without the lock")
		}
	}
	for _, name := range []string{"Put", "Delete", "Cut", "Truncate", "Rotate", "Save"} {
		if !sealedGuardFirst(findFuncOr(wr, "Writer", name)) {
			bad("%s: does not start with the sealed guard", name)
		}
	}
	sealedWrites := 0
	ast.Inspect(wr, func(x ast.Node) bool {
		fd, ok := x.(*ast.FuncDecl)
		if !ok || fd.Body == nil {
			return true
		}
		ast.Inspect(fd.Body, func(y ast.Node) bool {
			c, ok := y.(*ast.CallExpr)
			if !ok {
				return true
			}
			switch n := selName(c.Fun); {
			case strings.HasSuffix(n, ".sealed.Store"), strings.HasSuffix(n, ".sealed.Swap"):
				bad("%s: writes the sealed flag", fd.Name.Name)
			case strings.HasSuffix(n, ".sealed.CompareAndSwap"):
				sealedWrites++
				if fd.Name.Name != "Rotate" || len(c.Args) != 2 || selName(c.Args[0]) != "false" || selName(c.Args[1]) != "true" {
					bad("%s: unexpected CompareAndSwap on the sealed flag", fd.Name.Name)
				}
			}
			return true
		})
		return false
	})
	if sealedWrites != 1 {
		bad("sealed flag: %d CompareAndSwap sites", sealedWrites)
	}
	fc.set("walMuCoversSegments", 1, walOK, "wal.Writer lock / field-separation / sealed-guard shape ("+strings.Join(why, "; ")+")")

	// Table.ensureMetadataLoaded: check, loadFooter() and `metadataLoaded = true` in this order inside one
	// metadataMu critical section that lasts to the end of the body.
	tb := parseFile("dkv/sst/table.go")
	fn := findFuncOr(tb, "Table", "ensureMetadataLoaded")
	metaOK := false
	if i := c17LockIndex(fn, "metadataMu"); i >= 0 {
		recv := c17Recv(fn)
		// Linearise the body after `Lock; defer Unlock` along every path on which the flag is false on entry:
		// conditions that test the flag are decided, any other branch is followed both ways. Events: "load" = the
		// call statement <recv>.loadFooter(), "set" = the assignment <recv>.metadataLoaded = true. Every such path
		// must be exactly load, set (so the flag is raised only after the footer was loaded, still under the lock).
		type path struct {
			ev   []string
			done bool // ended by return
		}
		known := true
		flagCond := func(e ast.Expr) (val, isFlag bool) { // value of e when the flag is false
			if p, ok := e.(*ast.ParenExpr); ok {
				e = p.X
			}
			if selName(e) == recv+".metadataLoaded" {
				return false, true
			}
			if u, ok := e.(*ast.UnaryExpr); ok && u.Op == token.NOT {
				x := u.X
				if p, ok := x.(*ast.ParenExpr); ok {
					x = p.X
				}
				if selName(x) == recv+".metadataLoaded" {
					return true, true
				}
			}
			return false, false
		}
		var walk func(stmts []ast.Stmt, in []path) []path
		walk = func(stmts []ast.Stmt, in []path) []path {
			cur := in
			for _, st := range stmts {
				var live, dead []path
				for _, p := range cur {
					if p.done {
						dead = append(dead, p)
					} else {
						live = append(live, p)
					}
				}
				if len(live) == 0 {
					return cur
				}
				add := func(ev string) {
					for k := range live {
						live[k].ev = append(append([]string(nil), live[k].ev...), ev)
					}
				}
				switch n := st.(type) {
				case *ast.ExprStmt:
					if c17CallName(n.X) == recv+".loadFooter" {
						add("load")
					} else if c17Mentions(n, "loadFooter") || c17Mentions(n, "metadataLoaded") {
						known = false
					}
				case *ast.AssignStmt:
					if len(n.Lhs) == 1 && len(n.Rhs) == 1 && selName(n.Lhs[0]) == recv+".metadataLoaded" {
						if selName(n.Rhs[0]) == "true" {
							add("set")
						} else {
							known = false
						}
					} else if c17Mentions(n, "loadFooter") || c17Mentions(n, "metadataLoaded") {
						known = false
					}
				case *ast.ReturnStmt:
					for k := range live {
						live[k].done = true
					}
				case *ast.BlockStmt:
					live = walk(n.List, live)
				case *ast.IfStmt:
					if n.Init != nil {
						known = false
					}
					var els []ast.Stmt
					switch e := n.Else.(type) {
					case *ast.BlockStmt:
						els = e.List
					case *ast.IfStmt:
						els = []ast.Stmt{e}
					}
					if v, isFlag := flagCond(n.Cond); isFlag {
						if v {
							live = walk(n.Body.List, live)
						} else {
							live = walk(els, live)
						}
					} else {
						if c17Mentions(n.Cond, "metadataLoaded") || c17Mentions(n.Cond, "loadFooter") {
							known = false
						}
						a := walk(n.Body.List, append([]path(nil), live...))
						b := walk(els, append([]path(nil), live...))
						live = append(a, b...)
					}
				default:
					if c17Mentions(st, "loadFooter") || c17Mentions(st, "metadataLoaded") {
						known = false // loops, switches, go/defer statements around the events: not linearised
					}
				}
				cur = append(dead, live...)
			}
			return cur
		}
		paths := walk(fn.Body.List[i+2:], []path{{}})
		metaOK = known && len(paths) > 0
		for _, p := range paths {
			if strings.Join(p.ev, ",") != "load,set" {
				metaOK = false
			}
		}
		for _, st := range fn.Body.List[:i] {
			if c17Mentions(st, "loadFooter") || c17Mentions(st, "metadataLoaded") {
				metaOK = false
			}
		}
	}
	fc.set("sstMetaLoadUnderLock", 1, metaOK, "ensureMetadataLoaded: under `Lock; defer Unlock`, every path entered with the flag false is loadFooter() then metadataLoaded = true")

	// wal.Reader: the Go type of the start marker (its arithmetic wraps at 2^bits)
	rd := parseFile("dkv/wal/reader.go")
	bits := uint64(0)
	ast.Inspect(rd, func(x ast.Node) bool {
		ts, ok := x.(*ast.TypeSpec)
		if !ok || ts.Name.Name != "Reader" {
			return true
		}
		if st, ok := ts.Type.(*ast.StructType); ok {
			for _, f := range st.Fields.List {
				for _, n := range f.Names {
					if n.Name == "startAfter" {
						bits = map[string]uint64{"uint32": 32, "uint64": 64}[selName(f.Type)]
					}
				}
			}
		}
		return false
	})
	fc.set("walSeqBits", bits, bits != 0, "Reader.startAfter of an unsigned integer type")
}

func c17Facts(fc *facts) {
	c17LockFacts(fc)
	// --- dkv/sst
	si := parseFile("dkv/sst/search_index.go")
	v, ok := constValue(si, "searchIndexSpacing")
	fc.set("sstIndexSpacing", v, ok, "const searchIndexSpacing")

	en := parseFile("dkv/sst/entry.go")
	v, ok = constValue(en, "EntryOverheadSize")
	fc.set("sstEntryOverhead", v, ok, "const EntryOverheadSize")

	ft := parseFile("dkv/sst/footer.go")
	// loadFooter: cur.Move(t.Size() - 12)
	var footerLens []uint64
	ast.Inspect(findFuncOr(ft, "Table", "loadFooter"), func(x ast.Node) bool {
		c, ok := x.(*ast.CallExpr)
		if !ok || !strings.HasSuffix(selName(c.Fun), ".Move") || len(c.Args) != 1 {
			return true
		}
		if b, ok := c.Args[0].(*ast.BinaryExpr); ok && b.Op == token.SUB {
			if v, ok := litVal(b.Y); ok {
				footerLens = append(footerLens, v)
			}
		}
		return true
	})
	if len(footerLens) == 1 {
		fc.set("sstFooterLen", footerLens[0], true, "")
	} else {
		problemFor([]string{"sstFooterLen"}, "loadFooter: expected one cur.Move(t.Size() - N), got %v", footerLens)
	}
	// writeFooter: fields.MustWriteUint32(t.file, 1)
	var versions []uint64
	ast.Inspect(findFuncOr(ft, "Table", "writeFooter"), func(x ast.Node) bool {
		c, ok := x.(*ast.CallExpr)
		if !ok || selName(c.Fun) != "fields.MustWriteUint32" || len(c.Args) != 2 {
			return true
		}
		if v, ok := litVal(c.Args[1]); ok {
			versions = append(versions, v)
		}
		return true
	})
	if len(versions) == 1 {
		fc.set("sstVersion", versions[0], true, "")
	} else {
		problemFor([]string{"sstVersion"}, "writeFooter: expected one literal version, got %v", versions)
	}

	// NewTable: bloom.NewFilter(32*size.KB, 5)
	sz := parseFile("util/size/size.go")
	kb, okKB := constValue(sz, "KB")
	tb := parseFile("dkv/sst/table.go")
	foundBloom := false
	ast.Inspect(findFuncOr(tb, "", "NewTable"), func(x ast.Node) bool {
		c, ok := x.(*ast.CallExpr)
		if !ok || selName(c.Fun) != "bloom.NewFilter" || len(c.Args) != 2 {
			return true
		}
		bits, ok1 := evalConst(c.Args[0], map[string]uint64{"size.KB": kb})
		hashes, ok2 := evalConst(c.Args[1], nil)
		if ok1 && ok2 && okKB {
			fc.set("bloomBits", bits, true, "")
			fc.set("bloomHashes", hashes, true, "")
			foundBloom = true
		}
		return true
	})
	if !foundBloom {
		problemFor([]string{"bloomBits", "bloomHashes"}, "NewTable: bloom.NewFilter(<const>, <const>) not found")
	}

	// TableDocument: the fields encoding/json writes, in order, with the types the JSON model assumes
	// (keys as []byte => base64; no struct tags => Go field names)
	var docFields []string
	docTagged := false
	ast.Inspect(tb, func(x ast.Node) bool {
		ts, ok := x.(*ast.TypeSpec)
		if !ok || ts.Name.Name != "TableDocument" {
			return true
		}
		if st, ok := ts.Type.(*ast.StructType); ok {
			for _, f := range st.Fields.List {
				typ := selName(f.Type)
				if at, ok := f.Type.(*ast.ArrayType); ok && at.Len == nil {
					typ = "[]" + selName(at.Elt)
				}
				if f.Tag != nil {
					docTagged = true
				}
				for _, n := range f.Names {
					docFields = append(docFields, n.Name+":"+typ)
				}
			}
		}
		return false
	})
	fc.set("sstDocShape", 1, !docTagged && strings.Join(docFields, ",") == "StartKey:[]byte,EndKey:[]byte,Size:uint64,EntriesSize:uint64,URI:string,StartSeqNum:uint64,EndSeqNum:uint64",
		"TableDocument{StartKey, EndKey []byte; Size, EntriesSize uint64; URI string; StartSeqNum, EndSeqNum uint64} without tags")

	// WriteRun: math.Floor(float64(targetSize) * 1.5)
	tw := parseFile("dkv/sst/table_writer.go")
	var floats []string
	ast.Inspect(findFuncOr(tw, "TableWriter", "WriteRun"), func(x ast.Node) bool {
		if bl, ok := x.(*ast.BasicLit); ok && bl.Kind == token.FLOAT {
			floats = append(floats, bl.Value)
		}
		return true
	})
	if len(floats) == 0 {
		// the factor as a named float constant of the file
		used := map[string]bool{}
		ast.Inspect(findFuncOr(tw, "TableWriter", "WriteRun"), func(x ast.Node) bool {
			if id, ok := x.(*ast.Ident); ok {
				used[id.Name] = true
			}
			return true
		})
		ast.Inspect(tw, func(x ast.Node) bool {
			if vs, ok := x.(*ast.ValueSpec); ok {
				for i, id := range vs.Names {
					if used[id.Name] && i < len(vs.Values) {
						if bl, ok := vs.Values[i].(*ast.BasicLit); ok && bl.Kind == token.FLOAT {
							floats = append(floats, bl.Value)
						}
					}
				}
			}
			return true
		})
	}
	if len(floats) == 1 && strings.Count(floats[0], ".") == 1 && !strings.ContainsAny(floats[0], "eExXpP_") {
		parts := strings.Split(floats[0], ".")
		num, ok1 := litVal(&ast.BasicLit{Kind: token.INT, Value: strings.TrimLeft(parts[0]+parts[1], "0") + ""})
		den := uint64(1)
		for range parts[1] {
			den *= 10
		}
		if parts[0]+parts[1] == strings.Repeat("0", len(parts[0]+parts[1])) {
			num, ok1 = 0, true
		}
		fc.set("sstMaxFactorNum", num, ok1, "look-ahead factor")
		fc.set("sstMaxFactorDen", den, ok1, "look-ahead factor")
	} else {
		problemFor([]string{"sstMaxFactorNum", "sstMaxFactorDen"}, "WriteRun: expected one decimal float factor, got %v", floats)
	}

	// --- dkv/bloom: word size
	bl := parseFile("dkv/bloom/bloom.go")
	ds := append(append(divisors(findFuncOr(bl, "Filter", "setBit")), divisors(findFuncOr(bl, "Filter", "getBit"))...), divisors(findFuncOr(bl, "", "NewFilter"))...)
	if w, ok := allEqual(ds); ok && len(ds) >= 3 {
		fc.set("bloomWordBits", w, true, "")
	} else {
		problemFor([]string{"bloomWordBits"}, "bloom word size: divisors in setBit/getBit/NewFilter are %v", ds)
	}

	// --- dkv/fields: widths and byte order
	fl := parseFile("dkv/fields/fields.go")
	lenW := append(makeByteSizes(findFuncOr(fl, "", "writeVarBytes")), makeByteSizes(findFuncOr(fl, "", "ReadVarBytes"))...)
	lenW = append(lenW, makeByteSizes(findFuncOr(fl, "", "SkipVarBytes"))...)
	if w, ok := allEqual(lenW); ok && len(lenW) == 3 {
		fc.set("fieldLenWidth", w, true, "")
	} else {
		problemFor([]string{"fieldLenWidth"}, "fields: var-bytes length prefix widths %v", lenW)
	}
	u64W := append(append(makeByteSizes(findFuncOr(fl, "", "writeUint64")), makeByteSizes(findFuncOr(fl, "", "ReadUint64"))...), copyNSizes(findFuncOr(fl, "", "SkipUint64"))...)
	if w, ok := allEqual(u64W); ok && len(u64W) == 3 {
		fc.set("fieldU64Width", w, true, "")
	} else {
		problemFor([]string{"fieldU64Width"}, "fields: uint64 widths %v", u64W)
	}
	u32W := append(makeByteSizes(findFuncOr(fl, "", "writeUint32")), makeByteSizes(findFuncOr(fl, "", "ReadUint32"))...)
	if w, ok := allEqual(u32W); ok && len(u32W) == 2 {
		fc.set("fieldU32Width", w, true, "")
	} else {
		problemFor([]string{"fieldU32Width"}, "fields: uint32 widths %v", u32W)
	}
	tW := append(makeByteSizes(findFuncOr(fl, "", "writeTombstone")), makeByteSizes(findFuncOr(fl, "", "ReadTombstone"))...)
	if w, ok := allEqual(tW); ok && len(tW) == 2 {
		fc.set("fieldTombWidth", w, true, "")
	} else {
		problemFor([]string{"fieldTombWidth"}, "fields: tombstone widths %v", tW)
	}
	// tombstone marker: `b[0] = 1` in writeTombstone and `marker[0] == byte(1)` in ReadTombstone
	wm := indexAssignLits(findFuncOr(fl, "", "writeTombstone"))
	var rm []uint64
	ast.Inspect(findFuncOr(fl, "", "ReadTombstone"), func(x ast.Node) bool {
		b, ok := x.(*ast.BinaryExpr)
		if !ok || b.Op != token.EQL {
			return true
		}
		if c, ok := b.Y.(*ast.CallExpr); ok && selName(c.Fun) == "byte" && len(c.Args) == 1 {
			if v, ok := litVal(c.Args[0]); ok {
				rm = append(rm, v)
			}
		}
		return true
	})
	if len(wm) == 1 && len(rm) == 1 && wm[0] == rm[0] {
		fc.set("fieldTombMark", wm[0], true, "")
	} else {
		problemFor([]string{"fieldTombMark"}, "fields: tombstone marker written %v, read %v", wm, rm)
	}
	// integer conversions that truncate: uint32(offset) in IndexOffset, uint32(...) around the FlushSize sum
	bitsOf := map[string]uint64{"uint8": 8, "uint16": 16, "uint32": 32, "uint64": 64}
	var offConv []uint64
	ioFn := findFuncOr(si, "SearchIndex", "IndexOffset")
	offParam := "offset"
	if ioFn.Type != nil && ioFn.Type.Params != nil && len(ioFn.Type.Params.List) == 1 && len(ioFn.Type.Params.List[0].Names) == 1 {
		offParam = ioFn.Type.Params.List[0].Names[0].Name
	}
	ast.Inspect(ioFn, func(x ast.Node) bool {
		if c, ok := x.(*ast.CallExpr); ok && len(c.Args) == 1 && selName(c.Args[0]) == offParam {
			if b, ok := bitsOf[selName(c.Fun)]; ok {
				offConv = append(offConv, b)
			}
		}
		return true
	})
	if len(offConv) == 1 {
		fc.set("sstOffsetBits", offConv[0], true, "")
	} else {
		problemFor([]string{"sstOffsetBits"}, "IndexOffset: expected one uintNN(<offset parameter>) conversion, got %v", offConv)
	}
	// FlushSize: return uint32(EntryOverheadSize + len(e.Key()) + len(e.Value()))
	//  (a) which terms are summed decides where WriteRun cuts: observed by the chunking ops, reported against
	//      sstEntryOverhead; (b) the width of the conversion only matters beyond 4 GB: a hard fact, read from any
	//      uintNN(...) conversion in the function whatever statement form it is in.
	fsFn := findFuncOr(en, "", "FlushSize")
	recv := "e"
	if fsFn.Type != nil && fsFn.Type.Params != nil && len(fsFn.Type.Params.List) == 1 && len(fsFn.Type.Params.List[0].Names) == 1 {
		recv = fsFn.Type.Params.List[0].Names[0].Name
	}
	var convBits []uint64
	var sums [][]string
	ast.Inspect(fsFn, func(x ast.Node) bool {
		c, ok := x.(*ast.CallExpr)
		if !ok || len(c.Args) != 1 {
			return true
		}
		if b, ok := bitsOf[selName(c.Fun)]; ok {
			convBits = append(convBits, b)
		}
		return true
	})
	var flat func(e ast.Expr, terms *[]string)
	flat = func(e ast.Expr, terms *[]string) {
		switch n := e.(type) {
		case *ast.ParenExpr:
			flat(n.X, terms)
			return
		case *ast.BinaryExpr:
			if n.Op == token.ADD {
				flat(n.X, terms)
				flat(n.Y, terms)
				return
			}
		case *ast.CallExpr:
			if _, conv := bitsOf[selName(n.Fun)]; (conv || selName(n.Fun) == "int") && len(n.Args) == 1 {
				flat(n.Args[0], terms)
				return
			}
			if selName(n.Fun) == "len" && len(n.Args) == 1 {
				if inner, ok := n.Args[0].(*ast.CallExpr); ok {
					*terms = append(*terms, "len("+strings.TrimPrefix(selName(inner.Fun), recv+".")+"())")
					return
				}
			}
		}
		*terms = append(*terms, selName(e))
	}
	ast.Inspect(fsFn, func(x ast.Node) bool {
		if r, ok := x.(*ast.ReturnStmt); ok && len(r.Results) == 1 {
			var terms []string
			flat(r.Results[0], &terms)
			sort.Strings(terms)
			sums = append(sums, terms)
		}
		return true
	})
	if len(sums) != 1 || strings.Join(sums[0], "+") != "EntryOverheadSize+len(Key())+len(Value())" {
		problemFor([]string{"sstEntryOverhead"}, "FlushSize no longer returns EntryOverheadSize + len(Key()) + len(Value()) as one sum (got %v)", sums)
	}
	if b, ok := allEqual(convBits); ok {
		fc.set("sstFlushSizeBits", b, true, "")
	} else {
		problemFor([]string{"sstFlushSizeBits"}, "FlushSize: expected uintNN(...) conversions of one width, got %v", convBits)
	}
	// byte order: every binary.<Order> selector in fields.go and bloom.go
	le, other := 0, 0
	for _, f := range []*ast.File{fl, bl} {
		ast.Inspect(f, func(x ast.Node) bool {
			if s, ok := x.(*ast.SelectorExpr); ok && selName(s.X) == "binary" {
				switch s.Sel.Name {
				case "LittleEndian":
					le++
				case "BigEndian", "NativeEndian":
					other++
				}
			}
			return true
		})
	}
	// a different or mixed byte order is not written down as 0 (that would only break `fields_little_endian`):
	// it is a problem of this fact, and the byte-level lockstep then decides with concrete files
	fc.set("fieldsLittleEndian", 1, le > 0 && other == 0, "binary.LittleEndian as the only byte order of fields.go/bloom.go")
}
