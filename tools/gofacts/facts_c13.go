package main

import (
	"go/ast"
	"go/token"
)

// C13: the shape of snapshots.pathSegment (storage/snapshots/savepoint_artifact.go):
//
//	reversed := math.MaxUint64 - id
//	buf := make([]byte, 8)
//	binary.BigEndian.PutUint64(buf, reversed)
//	return base64.RawURLEncoding.EncodeToString(buf)
//
// Facts: segComplementOf (the constant the id is subtracted from), segWidth (buffer bytes),
// segBigEndian (1/0), segURLAlphabet (1 = URL alphabet), segPadded (1 = '=' padding).
func init() { extraFactFns = append(extraFactFns, c13Facts) }

func c13Facts(fc *facts) {
	f := parseFile("storage/snapshots/savepoint_artifact.go")
	fn := findFunc(f, "", "pathSegment")
	segNames := []string{"segComplementOf", "segWidth", "segBigEndian", "segURLAlphabet", "segPadded"}
	if fn == nil || fn.Body == nil {
		// the whole encoding is observed by C13 (ops `seg`, `init`, `files`): keep the last good values and let
		// the correspondence decide (tools/gofacts/fallbacks.json)
		problemFor(segNames, "snapshots.pathSegment not found")
		return
	}
	param := ""
	if fn.Type.Params != nil && len(fn.Type.Params.List) == 1 && len(fn.Type.Params.List[0].Names) == 1 {
		param = fn.Type.Params.List[0].Names[0].Name
	}
	var compl, width uint64
	haveCompl, haveWidth := false, false
	endian, enc := "", ""
	nSub, nMake, nPut, nEnc := 0, 0, 0, 0
	ast.Inspect(fn.Body, func(x ast.Node) bool {
		switch n := x.(type) {
		case *ast.BinaryExpr:
			if n.Op == token.SUB {
				nSub++
				if id, ok := n.Y.(*ast.Ident); ok && id.Name == param && param != "" {
					switch selName(n.X) {
					case "math.MaxUint64":
						compl, haveCompl = 0xffffffffffffffff, true
					case "math.MaxInt64":
						compl, haveCompl = 0x7fffffffffffffff, true
					case "math.MaxUint32":
						compl, haveCompl = 0xffffffff, true
					default:
						if v, ok := litVal(n.X); ok {
							compl, haveCompl = v, true
						}
					}
				}
			} else {
				nSub += 100 // any other arithmetic is outside the translated shape
			}
		case *ast.CallExpr:
			switch name := selName(n.Fun); name {
			case "make":
				nMake++
				if len(n.Args) == 2 {
					if v, ok := litVal(n.Args[1]); ok {
						width, haveWidth = v, true
					}
				}
			case "binary.BigEndian.PutUint64", "binary.LittleEndian.PutUint64":
				nPut++
				endian = name
			case "base64.RawURLEncoding.EncodeToString", "base64.URLEncoding.EncodeToString",
				"base64.RawStdEncoding.EncodeToString", "base64.StdEncoding.EncodeToString":
				nEnc++
				enc = name
			default:
				nSub += 100 // unexpected call
			}
		}
		return true
	})
	if nSub != 1 || nMake != 1 || nPut != 1 || nEnc != 1 || len(fn.Body.List) != 4 {
		problemFor(segNames, "snapshots.pathSegment no longer has the translated shape (sub=%d make=%d put=%d enc=%d stmts=%d)", nSub, nMake, nPut, nEnc, len(fn.Body.List))
		return
	}
	if !haveCompl || !haveWidth {
		problemFor(segNames, "snapshots.pathSegment: complement constant or buffer width not in the expected shape")
		return
	}
	fc.set("segComplementOf", compl, haveCompl, "<const> - id")
	fc.set("segWidth", width, haveWidth, "make([]byte, n)")
	b2u := func(b bool) uint64 {
		if b {
			return 1
		}
		return 0
	}
	fc.set("segBigEndian", b2u(endian == "binary.BigEndian.PutUint64"), true, "")
	fc.set("segURLAlphabet", b2u(enc == "base64.RawURLEncoding.EncodeToString" || enc == "base64.URLEncoding.EncodeToString"), true, "")
	fc.set("segPadded", b2u(enc == "base64.URLEncoding.EncodeToString" || enc == "base64.StdEncoding.EncodeToString"), true, "")
}
