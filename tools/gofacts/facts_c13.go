package main

import (
	"go/ast"
	"go/token"
)

// C13: the shape of snapshots.pathSegment (storage/snapshots/savepoint_artifact.go):
//
//	reversed := math.MaxUint64 - id
//	buf := make([]byte, 8)
//	binary.BigEndian.PutUint64(buf, reversed)
//	return base64.RawURLEncoding.EncodeToString(buf)
//
// Facts: segComplementOf (the constant the id is subtracted from), segWidth (buffer bytes),
// segBigEndian (1/0), segURLAlphabet (1 = URL alphabet), segPadded (1 = '=' padding).
func init() { extraFactFns = append(extraFactFns, c13Facts) }

func c13Facts(fc *facts) {
	f := parseFile("storage/snapshots/savepoint_artifact.go")
	fn := findFunc(f, "", "pathSegment")
	segNames := []string{"segComplementOf", "segWidth", "segBigEndian", "segURLAlphabet", "segPadded"}
	if fn == nil || fn.Body == nil {
		// the whole encoding is observed by C13 (ops `seg`, `init`, `files`): keep the last good values and let
		// the correspondence decide (tools/gofacts/fallbacks.json)
		problemFor(segNames, "snapshots.pathSegment not found")
		return
	}
	param := ""
	if fn.Type.Params != nil && len(fn.Type.Params.List) == 1 && len(fn.Type.Params.List[0].Names) == 1 {
		param = fn.Type.Params.List[0].Names[0].Name
	}
	var compl, width uint64
	haveCompl, haveWidth := false, false
	endian, enc := "", ""
	nSub, nMake, nPut, nEnc := 0, 0, 0, 0
	ast.Inspect(fn.Body, func(x ast.Node) bool {
		switch n := x.(type) {
		case *ast.BinaryExpr:
			if n.Op == token.SUB {
				nSub++
				if id, ok := n.Y.(*ast.Ident); ok && id.Name == param && param != "" {
					switch selName(n.X) {
					case "math.MaxUint64":
						compl, haveCompl = 0xffffffffffffffff, true
					case "math.MaxInt64":
						compl, haveCompl = 0x7fffffffffffffff, true
					case "math.MaxUint32":
						compl, haveCompl = 0xffffffff, true
					default:
						if v, ok := litVal(n.X); ok {
							compl, haveCompl = v, true
						}
					}
				}
			} else {
				nSub += 100 // any other arithmetic is outside the translated shape
			}
		case *ast.CallExpr:
			switch name := selName(n.Fun); name {
			case "make":
				nMake++
				if len(n.Args) == 2 {
					if v, ok := litVal(n.Args[1]); ok {
						width, haveWidth = v, true
					}
				}
			case "binary.BigEndian.PutUint64", "binary.LittleEndian.PutUint64":
				nPut++
				endian = name
			case "base64.RawURLEncoding.EncodeToString", "base64.URLEncoding.EncodeToString",
				"base64.RawStdEncoding.EncodeToString", "base64.StdEncoding.EncodeToString":
				nEnc++
				enc = name
			default:
				nSub += 100 // unexpected call
			}
		}
		return true
	})
	if nSub != 1 || nMake != 1 || nPut != 1 || nEnc != 1 || len(fn.Body.List) != 4 {
		problemFor(segNames, "snapshots.pathSegment no longer has the translated shape (sub=%d make=%d put=%d enc=%d stmts=%d)", nSub, nMake, nPut, nEnc, len(fn.Body.List))
		return
	}
	if !haveCompl || !haveWidth {
		problemFor(segNames, "snapshots.pathSegment: complement constant or buffer width not in the expected shape")
		return
	}
	fc.set("segComplementOf", compl, haveCompl, "<const> - id")
	fc.set("segWidth", width, haveWidth, "make([]byte, n)")
	b2u := func(b bool) uint64 {
		if b {
			return 1
		}
		return 0
	}
	fc.set("segBigEndian", b2u(endian == "binary.BigEndian.PutUint64"), true, "")
	fc.set("segURLAlphabet", b2u(enc == "base64.RawURLEncoding.EncodeToString" || enc == "base64.URLEncoding.EncodeToString"), true, "")
	fc.set("segPadded", b2u(enc == "base64.URLEncoding.EncodeToString" || enc == "base64.StdEncoding.EncodeToString"), true, "")
}

// c13SingleAnnouncer — HARD, structural (a fact about locking and goroutines; no correspondence fallback):
//
//	(i)   every send on <recv>.retainedCheckpointsUpdated in store.go is in Store.announceRetained;
//	(ii)  every append to <recv>.state.retainedToAnnounce, and every `go <recv>.announceRetained()`, is in
//	      finishSnapshotAsync inside its stateMu section (after a top-level `stateMu.Lock()` statement and before the
//	      next top-level `stateMu.Unlock()`), the go statement additionally inside an `if !<recv>.state.announcing`
//	      whose body sets the flag;
//	(iv)  FIFO: one `q = append(q, x)` (append at the end), one `x := q[0]`, one `q = q[1:]`, no other use of the queue as
//	      an assignment target or indexed source;
//	(iii) announceRetained takes its items from the queue, and clears `announcing`, only between
//	      stateMu.Lock() and stateMu.Unlock(), and sends outside the lock, one item per loop iteration.
func init() { extraFactFns = append(extraFactFns, c13AnnouncerFact) }

func c13AnnouncerFact(fc *facts) {
	f := parseFile("storage/snapshots/store.go")
	ok := true
	fail := func() { ok = false }
	var announce, finish *ast.FuncDecl
	for _, d := range f.Decls {
		fd, isFn := d.(*ast.FuncDecl)
		if !isFn || fd.Body == nil {
			continue
		}
		recv := recvName(fd)
		inAnnounce := fd.Name.Name == "announceRetained" && findFunc(f, "Store", "announceRetained") == fd
		inFinish := fd.Name.Name == "finishSnapshotAsync" && findFunc(f, "Store", "finishSnapshotAsync") == fd
		if inAnnounce {
			announce = fd
		}
		if inFinish {
			finish = fd
		}
		ast.Inspect(fd.Body, func(x ast.Node) bool {
			switch n := x.(type) {
			case *ast.SendStmt:
				if s, isSel := n.Chan.(*ast.SelectorExpr); isSel && s.Sel.Name == "retainedCheckpointsUpdated" && !inAnnounce {
					fail() // (i)
				}
			case *ast.GoStmt:
				if s, isSel := n.Call.Fun.(*ast.SelectorExpr); isSel && s.Sel.Name == "announceRetained" && !inFinish {
					fail() // (ii)
				}
			case *ast.AssignStmt:
				for _, l := range n.Lhs {
					if s, isSel := l.(*ast.SelectorExpr); isSel && (s.Sel.Name == "retainedToAnnounce" || s.Sel.Name == "announcing") && !inFinish && !inAnnounce {
						fail() // the queue and the flag are touched nowhere else
					}
				}
			}
			_ = recv
			return true
		})
	}
	if announce == nil || finish == nil {
		fc.set("c13SingleAnnouncer", 0, true, "")
		return
	}
	// lockedRegions: for a statement list, which top-level statements lie between Lock() and Unlock() statements
	locked := func(list []ast.Stmt, recv string) map[ast.Stmt]bool {
		in := false
		res := map[ast.Stmt]bool{}
		for _, st := range list {
			if es, isExpr := st.(*ast.ExprStmt); isExpr {
				switch selCall(es.X) {
				case recv + ".stateMu.Lock":
					in = true
					continue
				case recv + ".stateMu.Unlock":
					in = false
					continue
				}
			}
			res[st] = in
		}
		return res
	}
	touches := func(n ast.Node, what func(ast.Node) bool) bool {
		found := false
		ast.Inspect(n, func(x ast.Node) bool {
			if x != nil && what(x) {
				found = true
			}
			return !found
		})
		return found
	}
	isQueueAppend := func(x ast.Node) bool {
		a, isAssign := x.(*ast.AssignStmt)
		if !isAssign {
			return false
		}
		for _, l := range a.Lhs {
			if s, isSel := l.(*ast.SelectorExpr); isSel && s.Sel.Name == "retainedToAnnounce" {
				return true
			}
		}
		return false
	}
	isGoAnnounce := func(x ast.Node) bool {
		g, isGo := x.(*ast.GoStmt)
		if !isGo {
			return false
		}
		s, isSel := g.Call.Fun.(*ast.SelectorExpr)
		return isSel && s.Sel.Name == "announceRetained"
	}
	// (ii) in finishSnapshotAsync
	frecv := recvName(finish)
	sawAppend, sawGo := false, false
	for st, in := range locked(finish.Body.List, frecv) {
		if touches(st, isQueueAppend) {
			sawAppend = true
			if !in {
				fail()
			}
		}
		if touches(st, isGoAnnounce) {
			sawGo = true
			if !in {
				fail()
			}
		}
	}
	// the go statement is guarded by `if !<recv>.state.announcing { <recv>.state.announcing = true; go … }`
	guarded := false
	ast.Inspect(finish.Body, func(x ast.Node) bool {
		ifs, isIf := x.(*ast.IfStmt)
		if !isIf {
			return true
		}
		if u, isNot := ifs.Cond.(*ast.UnaryExpr); isNot && u.Op == token.NOT && selName(u.X) == frecv+".state.announcing" {
			setsFlag := touches(ifs.Body, func(y ast.Node) bool {
				a, isAssign := y.(*ast.AssignStmt)
				return isAssign && len(a.Lhs) == 1 && selName(a.Lhs[0]) == frecv+".state.announcing" && selName(a.Rhs[0]) == "true"
			})
			if setsFlag && touches(ifs.Body, isGoAnnounce) {
				guarded = true
			}
		}
		return true
	})
	if !sawAppend || !sawGo || !guarded {
		fail()
	}
	// (iii) announceRetained: a single for loop; queue/flag assignments under the lock, the send outside it
	arecv := recvName(announce)
	if len(announce.Body.List) != 1 {
		fail()
	} else if loop, isFor := announce.Body.List[0].(*ast.ForStmt); !isFor || loop.Cond != nil {
		fail()
	} else {
		sends := 0
		for st, in := range locked(loop.Body.List, arecv) {
			touchesState := touches(st, func(y ast.Node) bool {
				s, isSel := y.(*ast.SelectorExpr)
				return isSel && (s.Sel.Name == "retainedToAnnounce" || s.Sel.Name == "announcing")
			})
			hasSend := touches(st, func(y ast.Node) bool { _, isSend := y.(*ast.SendStmt); return isSend })
			if touchesState && !in {
				// the early-return branch unlocks itself: `if len(queue) == 0 { announcing = false; Unlock(); return }`
				// is a top-level statement inside the locked region, so it is covered by `in`
				fail()
			}
			if hasSend {
				sends++
				if in {
					fail()
				}
			}
		}
		if sends != 1 {
			fail()
		}
	}
	// (iv) FIFO: the queue is appended to at the END (`q = append(q, x)` with q on both sides) and the announcer takes
	// the FRONT (`x := q[0]` and `q = q[1:]`); nothing else is assigned to the queue
	isQueue := func(e ast.Expr) bool {
		s, isSel := e.(*ast.SelectorExpr)
		return isSel && s.Sel.Name == "retainedToAnnounce"
	}
	appendsAtEnd, takesFront, dropsFront, otherQueueAssign := 0, 0, 0, 0
	for _, fd := range []*ast.FuncDecl{finish, announce} {
		ast.Inspect(fd.Body, func(x ast.Node) bool {
			a, isAssign := x.(*ast.AssignStmt)
			if !isAssign || len(a.Lhs) != 1 || len(a.Rhs) != 1 {
				return true
			}
			switch {
			case isQueue(a.Lhs[0]):
				if c, isCall := a.Rhs[0].(*ast.CallExpr); isCall && selName(c.Fun) == "append" && len(c.Args) == 2 && isQueue(c.Args[0]) && c.Ellipsis == token.NoPos {
					appendsAtEnd++
				} else if sl, isSlice := a.Rhs[0].(*ast.SliceExpr); isSlice && isQueue(sl.X) && sl.High == nil && sl.Max == nil {
					if v, isLit := litVal(sl.Low); isLit && v == 1 {
						dropsFront++
					} else {
						otherQueueAssign++
					}
				} else {
					otherQueueAssign++
				}
			default:
				if ix, isIndex := a.Rhs[0].(*ast.IndexExpr); isIndex && isQueue(ix.X) {
					if v, isLit := litVal(ix.Index); isLit && v == 0 {
						takesFront++
					} else {
						otherQueueAssign++
					}
				}
			}
			return true
		})
	}
	if appendsAtEnd != 1 || takesFront != 1 || dropsFront != 1 || otherQueueAssign != 0 {
		fail()
	}
	b := uint64(0)
	if ok {
		b = 1
	}
	fc.set("c13SingleAnnouncer", b, true, "")
}
