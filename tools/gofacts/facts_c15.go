package main

// Facts for C15 (job FSM): WHEN LivenessTracker.Purge considers a heartbeat expired.
//
// The recogniser is structural, not textual. It finds, in Purge, the loop over the tracker's map, the statement that
// deletes the current entry, and the guard under which that statement runs (an enclosing `if`, its else branch, or
// preceding `if ... { continue }` statements). The guard is evaluated symbolically to a linear comparison
//     heartbeat - now + c*deadline  REL  0
// over the three symbols heartbeat (the map value), now (the tracker's clock) and deadline (the tracker's Duration
// field). It understands Before/After/Equal/Compare, Add/Sub, unary minus, comparisons of durations, !, ||, &&,
// hoisted locals (`cutoff := now.Add(-d)`), renamed variables, receivers and fields (fields are found by their type),
// and one-line helper functions/methods of the same file. Equivalent rewrites therefore give the same two facts:
//     livenessCond          0: hb after limit, 1: hb before limit, 2: not after, 3: not before
//     livenessMinusDeadline 1: limit = now - deadline, 0: limit = now + deadline
// (the encoding Model/JobFsm.lean `expired` interprets; Props/C15.lean `heartbeat_expiry_exact` is re-checked against
// it on every run). A guard outside this family is reported as a problem attributed to the two facts (the last good
// values are kept and ./check falls back to the correspondence: C15 ops `hbx`/`hbxn` evaluate the expiry test of the
// real LivenessTracker at, one nanosecond before and one nanosecond after the deadline).

import (
	"go/ast"
	"go/token"
)

func init() { extraFactFns = append(extraFactFns, c15Facts) }

// linear term over (heartbeat, now, deadline)
type c15Vec [3]int

func (a c15Vec) add(b c15Vec, s int) c15Vec { return c15Vec{a[0] + s*b[0], a[1] + s*b[1], a[2] + s*b[2]} }

// a comparison `vec REL 0`; rel is a subset of {<,=,>} as bits 1,2,4
type c15Rel struct {
	vec c15Vec
	rel int
}

func c15FlipRel(r int) int { return (r & 2) | ((r & 1) << 2) | ((r & 4) >> 2) }

type c15Env struct {
	file   *ast.File
	recv   string // receiver name of the function being evaluated
	fMap   string // field names of the tracker, found by type
	fClock string
	fDur   string
	terms  map[string]c15Vec
	bools  map[string]c15Rel
	depth  int
}

func (e *c15Env) child() *c15Env {
	c := *e
	c.terms = map[string]c15Vec{}
	c.bools = map[string]c15Rel{}
	c.depth = e.depth + 1
	return &c
}

func c15Unparen(x ast.Expr) ast.Expr {
	for {
		p, ok := x.(*ast.ParenExpr)
		if !ok {
			return x
		}
		x = p.X
	}
}

func (e *c15Env) isRecvField(x ast.Expr, field string) bool {
	s, ok := c15Unparen(x).(*ast.SelectorExpr)
	if !ok || field == "" || s.Sel.Name != field {
		return false
	}
	id, ok := c15Unparen(s.X).(*ast.Ident)
	return ok && id.Name == e.recv
}

// helper: a function or method of the same file whose body is `[x := e;]* return expr`
func (e *c15Env) inline(call *ast.CallExpr) (*c15Env, ast.Expr, bool) {
	if e.depth > 4 {
		return nil, nil, false
	}
	var name, wantRecv string
	switch f := c15Unparen(call.Fun).(type) {
	case *ast.Ident:
		name = f.Name
	case *ast.SelectorExpr:
		id, ok := c15Unparen(f.X).(*ast.Ident)
		if !ok || id.Name != e.recv {
			return nil, nil, false
		}
		name, wantRecv = f.Sel.Name, "x"
	default:
		return nil, nil, false
	}
	for _, d := range e.file.Decls {
		fd, ok := d.(*ast.FuncDecl)
		if !ok || fd.Name.Name != name || fd.Body == nil || (fd.Recv != nil) != (wantRecv != "") {
			continue
		}
		c := e.child()
		if fd.Recv != nil {
			if len(fd.Recv.List) != 1 || len(fd.Recv.List[0].Names) != 1 {
				return nil, nil, false
			}
			c.recv = fd.Recv.List[0].Names[0].Name
		} else {
			c.recv = ""
		}
		var params []string
		for _, p := range fd.Type.Params.List {
			for _, n := range p.Names {
				params = append(params, n.Name)
			}
		}
		if len(params) != len(call.Args) {
			return nil, nil, false
		}
		for i, a := range call.Args {
			if v, ok := e.term(a); ok {
				c.terms[params[i]] = v
			} else if r, ok := e.cond(a); ok {
				c.bools[params[i]] = r
			} else {
				return nil, nil, false
			}
		}
		for i, st := range fd.Body.List {
			if i == len(fd.Body.List)-1 {
				rs, ok := st.(*ast.ReturnStmt)
				if !ok || len(rs.Results) != 1 {
					return nil, nil, false
				}
				return c, rs.Results[0], true
			}
			if !c.bind(st) {
				return nil, nil, false
			}
		}
	}
	return nil, nil, false
}

// bind records `x := expr` / `var x = expr` when expr is a time, a duration or a condition; other statements that
// cannot influence the guard (none are expected in these helpers) make the shape unknown
func (e *c15Env) bind(st ast.Stmt) bool {
	var names []*ast.Ident
	var vals []ast.Expr
	switch s := st.(type) {
	case *ast.AssignStmt:
		if s.Tok != token.DEFINE && s.Tok != token.ASSIGN {
			return false
		}
		for _, l := range s.Lhs {
			id, ok := l.(*ast.Ident)
			if !ok {
				return false
			}
			names = append(names, id)
		}
		vals = s.Rhs
	case *ast.DeclStmt:
		gd, ok := s.Decl.(*ast.GenDecl)
		if !ok || gd.Tok != token.VAR {
			return false
		}
		for _, sp := range gd.Specs {
			vs := sp.(*ast.ValueSpec)
			if len(vs.Values) == 0 {
				continue // `var missing []string`
			}
			names = append(names, vs.Names...)
			vals = append(vals, vs.Values...)
		}
	default:
		return false
	}
	if len(names) != len(vals) {
		return false
	}
	for i, n := range names {
		if v, ok := e.term(vals[i]); ok {
			e.terms[n.Name] = v
			delete(e.bools, n.Name)
		} else if r, ok := e.cond(vals[i]); ok {
			e.bools[n.Name] = r
			delete(e.terms, n.Name)
		} else {
			delete(e.terms, n.Name) // some other local (the list of purged ids, ...): irrelevant unless used in the guard
			delete(e.bools, n.Name)
		}
	}
	return true
}

// term evaluates a time.Time or time.Duration expression
func (e *c15Env) term(x ast.Expr) (c15Vec, bool) {
	switch t := c15Unparen(x).(type) {
	case *ast.Ident:
		v, ok := e.terms[t.Name]
		return v, ok
	case *ast.SelectorExpr:
		if e.isRecvField(t, e.fDur) {
			return c15Vec{0, 0, 1}, true
		}
	case *ast.IndexExpr:
		if e.isRecvField(t.X, e.fMap) {
			return c15Vec{1, 0, 0}, true // the entry looked up by the loop key
		}
	case *ast.UnaryExpr:
		if v, ok := e.term(t.X); ok {
			switch t.Op {
			case token.SUB:
				return c15Vec{}.add(v, -1), true
			case token.ADD:
				return v, true
			}
		}
	case *ast.BinaryExpr:
		a, ok1 := e.term(t.X)
		b, ok2 := e.term(t.Y)
		if ok1 && ok2 {
			switch t.Op {
			case token.ADD:
				return a.add(b, 1), true
			case token.SUB:
				return a.add(b, -1), true
			}
		}
	case *ast.CallExpr:
		if s, ok := c15Unparen(t.Fun).(*ast.SelectorExpr); ok {
			switch {
			case s.Sel.Name == "Now" && len(t.Args) == 0 && e.isRecvField(s.X, e.fClock):
				return c15Vec{0, 1, 0}, true
			case (s.Sel.Name == "Add" || s.Sel.Name == "Sub") && len(t.Args) == 1:
				a, ok1 := e.term(s.X)
				b, ok2 := e.term(t.Args[0])
				if ok1 && ok2 {
					if s.Sel.Name == "Add" {
						return a.add(b, 1), true
					}
					return a.add(b, -1), true
				}
			}
		}
		if c, body, ok := e.inline(t); ok {
			return c.term(body)
		}
	}
	return c15Vec{}, false
}

func c15IsZero(x ast.Expr) bool {
	l, ok := c15Unparen(x).(*ast.BasicLit)
	return ok && l.Kind == token.INT && l.Value == "0"
}

var c15RelOf = map[token.Token]int{token.LSS: 1, token.EQL: 2, token.GTR: 4, token.LEQ: 3, token.GEQ: 6, token.NEQ: 5}

// cond evaluates a boolean expression to one comparison
func (e *c15Env) cond(x ast.Expr) (c15Rel, bool) {
	switch t := c15Unparen(x).(type) {
	case *ast.Ident:
		r, ok := e.bools[t.Name]
		return r, ok
	case *ast.UnaryExpr:
		if t.Op == token.NOT {
			if r, ok := e.cond(t.X); ok {
				return c15Rel{r.vec, 7 &^ r.rel}, true
			}
		}
	case *ast.BinaryExpr:
		if t.Op == token.LOR || t.Op == token.LAND {
			a, ok1 := e.cond(t.X)
			b, ok2 := e.cond(t.Y)
			if !ok1 || !ok2 {
				return c15Rel{}, false
			}
			if b.vec == (c15Vec{}).add(a.vec, -1) {
				b = c15Rel{a.vec, c15FlipRel(b.rel)}
			}
			if a.vec != b.vec {
				return c15Rel{}, false
			}
			if t.Op == token.LOR {
				return c15Rel{a.vec, a.rel | b.rel}, true
			}
			return c15Rel{a.vec, a.rel & b.rel}, true
		}
		if rel, ok := c15RelOf[t.Op]; ok {
			// a.Compare(b) REL 0
			if c, ok := c15Unparen(t.X).(*ast.CallExpr); ok && c15IsZero(t.Y) {
				if s, ok := c15Unparen(c.Fun).(*ast.SelectorExpr); ok && s.Sel.Name == "Compare" && len(c.Args) == 1 {
					a, ok1 := e.term(s.X)
					b, ok2 := e.term(c.Args[0])
					if ok1 && ok2 {
						return c15Rel{a.add(b, -1), rel}, true
					}
				}
			}
			a, ok1 := e.term(t.X)
			b, ok2 := e.term(t.Y)
			if ok1 && ok2 {
				return c15Rel{a.add(b, -1), rel}, true
			}
		}
	case *ast.CallExpr:
		if s, ok := c15Unparen(t.Fun).(*ast.SelectorExpr); ok && len(t.Args) == 1 {
			rel := map[string]int{"Before": 1, "Equal": 2, "After": 4}[s.Sel.Name]
			if rel != 0 {
				a, ok1 := e.term(s.X)
				b, ok2 := e.term(t.Args[0])
				if ok1 && ok2 {
					return c15Rel{a.add(b, -1), rel}, true
				}
			}
		}
		if c, body, ok := e.inline(t); ok {
			return c.cond(body)
		}
	}
	return c15Rel{}, false
}

func c15EndsWithContinue(b *ast.BlockStmt) bool {
	if len(b.List) == 0 {
		return false
	}
	br, ok := b.List[len(b.List)-1].(*ast.BranchStmt)
	return ok && br.Tok == token.CONTINUE && br.Label == nil
}

func (e *c15Env) deletesEntry(n ast.Node) bool {
	found := false
	ast.Inspect(n, func(n ast.Node) bool {
		if c, ok := n.(*ast.CallExpr); ok {
			if id, ok := c.Fun.(*ast.Ident); ok && id.Name == "delete" && len(c.Args) == 2 && e.isRecvField(c.Args[0], e.fMap) {
				found = true
			}
		}
		return !found
	})
	return found
}

// guard of the statement that deletes the current entry, walking a block; conds = guards collected so far
func (e *c15Env) guardIn(list []ast.Stmt, conds []c15Rel) ([]c15Rel, bool) {
	for _, st := range list {
		switch s := st.(type) {
		case *ast.IfStmt:
			if s.Init != nil && !e.bind(s.Init) {
				return nil, false
			}
			inBody := e.deletesEntry(s.Body)
			inElse := s.Else != nil && e.deletesEntry(s.Else)
			if !inBody && !inElse {
				if c15EndsWithContinue(s.Body) && s.Else == nil {
					r, ok := e.cond(s.Cond)
					if !ok {
						return nil, false
					}
					conds = append(conds, c15Rel{r.vec, 7 &^ r.rel})
				}
				continue
			}
			r, ok := e.cond(s.Cond)
			if !ok || (inBody && inElse) {
				return nil, false
			}
			if inBody {
				return e.guardIn(s.Body.List, append(conds, r))
			}
			eb, ok := s.Else.(*ast.BlockStmt)
			if !ok {
				return nil, false
			}
			return e.guardIn(eb.List, append(conds, c15Rel{r.vec, 7 &^ r.rel}))
		case *ast.AssignStmt, *ast.DeclStmt:
			if e.deletesEntry(st) {
				return nil, false
			}
			e.bind(st)
		default:
			if e.deletesEntry(st) {
				return conds, true
			}
		}
	}
	return nil, false
}

func c15Facts(fc *facts) {
	names := []string{"livenessCond", "livenessMinusDeadline"}
	bad := func(format string, a ...any) { problemFor(names, "LivenessTracker.Purge: "+format, a...) }
	lf := parseFile("jobs/liveness.go")
	if lf == nil {
		return
	}
	env := &c15Env{file: lf, terms: map[string]c15Vec{}, bools: map[string]c15Rel{}}
	// the tracker's fields, by type
	ast.Inspect(lf, func(n ast.Node) bool {
		ts, ok := n.(*ast.TypeSpec)
		if !ok || ts.Name.Name != "LivenessTracker" {
			return true
		}
		if st, ok := ts.Type.(*ast.StructType); ok {
			for _, f := range st.Fields.List {
				for _, n := range f.Names {
					switch t := f.Type.(type) {
					case *ast.MapType:
						env.fMap = n.Name
					case *ast.SelectorExpr:
						switch selName(t) {
						case "time.Duration":
							env.fDur = n.Name
						case "clocks.Clock":
							env.fClock = n.Name
						}
					}
				}
			}
		}
		return false
	})
	if env.fMap == "" || env.fDur == "" || env.fClock == "" {
		bad("the struct no longer has one map, one time.Duration and one clocks.Clock field")
		return
	}
	purge := findFunc(lf, "LivenessTracker", "Purge")
	if purge == nil || purge.Recv == nil || len(purge.Recv.List) != 1 || len(purge.Recv.List[0].Names) != 1 {
		bad("method not found")
		return
	}
	env.recv = purge.Recv.List[0].Names[0].Name
	var guards []c15Rel
	found := 0
	for _, st := range purge.Body.List {
		rs, ok := st.(*ast.RangeStmt)
		if !ok || !env.isRecvField(rs.X, env.fMap) {
			if !env.deletesEntry(st) {
				env.bind(st) // hoisted `now := ...`, `cutoff := ...`
			}
			continue
		}
		found++
		loop := env.child()
		loop.depth = env.depth
		for k, v := range env.terms {
			loop.terms[k] = v
		}
		if id, ok := rs.Value.(*ast.Ident); ok && rs.Value != nil && id.Name != "_" {
			loop.terms[id.Name] = c15Vec{1, 0, 0}
		}
		g, ok := loop.guardIn(rs.Body.List, nil)
		if !ok {
			bad("the guard of the statement deleting an entry is outside the recognised family (comparisons of the entry's time with the clock and the deadline)")
			return
		}
		guards = g
	}
	if found != 1 {
		bad("expected exactly one loop over the tracker's map, found %d", found)
		return
	}
	// conjunction of the collected guards: all about the same linear term
	if len(guards) == 0 {
		bad("entries are deleted unconditionally")
		return
	}
	res := guards[0]
	for _, g := range guards[1:] {
		if g.vec == (c15Vec{}).add(res.vec, -1) {
			g = c15Rel{res.vec, c15FlipRel(g.rel)}
		}
		if g.vec != res.vec {
			bad("several unrelated guards")
			return
		}
		res.rel &= g.rel
	}
	if res.vec[0] < 0 {
		res = c15Rel{(c15Vec{}).add(res.vec, -1), c15FlipRel(res.rel)}
	}
	if res.vec[0] != 1 || res.vec[1] != -1 || (res.vec[2] != 1 && res.vec[2] != -1) {
		bad("the guard compares %d*heartbeat %+d*now %+d*deadline with 0, not heartbeat with now -/+ deadline", res.vec[0], res.vec[1], res.vec[2])
		return
	}
	code, ok := map[int]uint64{4: 0, 1: 1, 3: 2, 6: 3}[res.rel]
	if !ok {
		bad("the guard's relation (bits %d of <,=,>) is not one of <, >, <=, >=", res.rel)
		return
	}
	minus := uint64(0)
	if res.vec[2] == 1 {
		minus = 1
	}
	fc.set("livenessCond", code, true, "")
	fc.set("livenessMinusDeadline", minus, true, "")
}
