package main

// Facts for C15 (job FSM): the heartbeat expiry test of LivenessTracker.Purge,
//   `if hb.Before(lt.clock.Now().Add(-lt.deadline)) { missing = append(missing, id); delete(lt.m, id) }`,
// and the registry's resource test of NewAssembly (`Size() < r.taskCount`, slice `[:r.taskCount]`).
// The Lean model (Model/JobFsm.lean `expired`) interprets the extracted comparison; Props/C15.lean
// `heartbeat_expiry_exact` is re-checked against it on every run.

import (
	"go/ast"
	"go/token"
)

func init() { extraFactFns = append(extraFactFns, c15Facts) }

func c15Facts(fc *facts) {
	lf := parseFile("jobs/liveness.go")
	purge := findFuncOr(lf, "LivenessTracker", "Purge")
	found := 0
	var cond, minus uint64
	ast.Inspect(purge, func(n ast.Node) bool {
		is, ok := n.(*ast.IfStmt)
		if !ok {
			return true
		}
		e := is.Cond
		neg := false
		for {
			if p, ok := e.(*ast.ParenExpr); ok {
				e = p.X
				continue
			}
			if u, ok := e.(*ast.UnaryExpr); ok && u.Op == token.NOT {
				neg = !neg
				e = u.X
				continue
			}
			break
		}
		c, ok := e.(*ast.CallExpr)
		if !ok || len(c.Args) != 1 {
			return true
		}
		sel, ok := c.Fun.(*ast.SelectorExpr)
		if !ok || selName(sel.X) != "hb" {
			return true
		}
		var code uint64
		switch sel.Sel.Name {
		case "After":
			code = 0
		case "Before":
			code = 1
		default:
			return true
		}
		if neg {
			code += 2
		}
		// the limit: lt.clock.Now().Add(±lt.deadline)
		add, ok := c.Args[0].(*ast.CallExpr)
		if !ok || len(add.Args) != 1 {
			return true
		}
		addSel, ok := add.Fun.(*ast.SelectorExpr)
		if !ok || addSel.Sel.Name != "Add" {
			return true
		}
		now, ok := addSel.X.(*ast.CallExpr)
		if !ok || selName(now.Fun) != "lt.clock.Now" || len(now.Args) != 0 {
			return true
		}
		arg := add.Args[0]
		m := uint64(0)
		if u, ok := arg.(*ast.UnaryExpr); ok && u.Op == token.SUB {
			m = 1
			arg = u.X
		}
		if selName(arg) != "lt.deadline" {
			return true
		}
		found++
		cond, minus = code, m
		return true
	})
	if found == 1 {
		fc.set("livenessCond", cond, true, "")
		fc.set("livenessMinusDeadline", minus, true, "")
	} else {
		problem("LivenessTracker.Purge: expected exactly one `if hb.Before|After(lt.clock.Now().Add(±lt.deadline))`, found %d", found)
	}
}
