package main

import (
	"path/filepath"
	"reflect"
	"runtime"
	"strings"
)

// extraFactFns: per-property constant extractors register themselves here from facts_cxx.go files (init()).
var extraFactFns []func(fc *facts)

func extraFacts(fc *facts) {
	for _, f := range extraFactFns {
		// group = the source file of the extractor (facts_c17.go -> "facts_c17")
		curGroup = "extra"
		if fn := runtime.FuncForPC(reflect.ValueOf(f).Pointer()); fn != nil {
			file, _ := fn.FileLine(fn.Entry())
			curGroup = strings.TrimSuffix(filepath.Base(file), ".go")
		}
		f(fc)
	}
	curGroup = "core"
}
