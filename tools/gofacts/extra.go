package main

// extraFacts: constants for further models are added here as they come online.
func extraFacts(fc *facts) {}
