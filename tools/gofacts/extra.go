package main

// extraFactFns: per-property constant extractors register themselves here from facts_cxx.go files (init()).
var extraFactFns []func(fc *facts)

func extraFacts(fc *facts) {
	for _, f := range extraFactFns {
		f(fc)
	}
}
