package main

// C18 facts: what the compaction model takes from the source as constants
// (dkv/db.go New: number of levels, default level-0 trigger, size amplification limit;
// dkv/sst/table.go: Age() is the sequence number of the first key, OrderOldToNew sorts ascending by Age).
//
// Every one of these is observed completely by an operation of the C18 correspondence on the real code
// (`cfg`: the values dkv.New builds with default options; `ages`: Table.Age() of every real table against the model's
// `age`; `agesort`: slices.SortedFunc(level.AllTables(), OrderOldToNew) against `sortByAge`), so an unrecognised source
// shape is reported with ok=false (last good value kept, tools/gofacts/fallbacks.json names the correspondence) and
// never by flipping a flag to 0. A flag is set to 0 only when the source is recognised and says the opposite
// (Age returns another field, the comparison arguments are swapped).
//
// The recognisers do not depend on receiver, parameter or local variable names.

import (
	"go/ast"
	"go/token"
)

func init() { extraFactFns = append(extraFactFns, c18Facts) }

// paramNames lists the parameter names of a function in order.
func paramNames(fn *ast.FuncDecl) []string {
	var out []string
	if fn.Type == nil || fn.Type.Params == nil {
		return out
	}
	for _, p := range fn.Type.Params.List {
		for _, n := range p.Names {
			out = append(out, n.Name)
		}
	}
	return out
}

func c18RecvName(fn *ast.FuncDecl) string {
	if fn.Recv != nil && len(fn.Recv.List) == 1 && len(fn.Recv.List[0].Names) == 1 {
		return fn.Recv.List[0].Names[0].Name
	}
	return ""
}

// lastSel returns the final selector of x.y.z ("z") and the printed prefix ("x.y").
func lastSel(e ast.Expr) (prefix, sel string) {
	if s, ok := e.(*ast.SelectorExpr); ok {
		return selName(s.X), s.Sel.Name
	}
	return "", selName(e)
}

func c18Facts(fc *facts) {
	db := parseFile("dkv/db.go")
	nw := findFuncOr(db, "", "New")

	// sstables: <pkg>.NewEmptyLevelList(N)
	var levelCounts []uint64
	// compactor literal: MaxSizeAmplificationPercent: N
	var amps []uint64
	// if <x>.L0TableNumCompactionTrigger == 0 { <x>.L0TableNumCompactionTrigger = N }
	var triggers []uint64
	ast.Inspect(nw, func(x ast.Node) bool {
		switch n := x.(type) {
		case *ast.CallExpr:
			if _, sel := lastSel(n.Fun); sel == "NewEmptyLevelList" && len(n.Args) == 1 {
				if v, ok := litVal(n.Args[0]); ok {
					levelCounts = append(levelCounts, v)
				}
			}
		case *ast.KeyValueExpr:
			if selName(n.Key) == "MaxSizeAmplificationPercent" {
				if v, ok := litVal(n.Value); ok {
					amps = append(amps, v)
				}
			}
		case *ast.IfStmt:
			c, ok := n.Cond.(*ast.BinaryExpr)
			if !ok || c.Op != token.EQL {
				return true
			}
			lhs, rhs := c.X, c.Y
			if _, ok := litVal(lhs); ok { // 0 == x.Field
				lhs, rhs = rhs, lhs
			}
			pfx, sel := lastSel(lhs)
			if sel != "L0TableNumCompactionTrigger" {
				return true
			}
			if z, ok := litVal(rhs); !ok || z != 0 {
				return true
			}
			for _, st := range n.Body.List {
				if as, ok := st.(*ast.AssignStmt); ok && as.Tok == token.ASSIGN && len(as.Lhs) == 1 && len(as.Rhs) == 1 {
					p2, s2 := lastSel(as.Lhs[0])
					if p2 == pfx && s2 == sel {
						if v, ok := litVal(as.Rhs[0]); ok {
							triggers = append(triggers, v)
						}
					}
				}
			}
		}
		return true
	})
	one := func(name string, xs []uint64, what string) {
		if len(xs) == 1 {
			fc.set(name, xs[0], true, what)
		} else {
			fc.set(name, 0, false, what)
		}
	}
	one("dkvLevelCount", levelCounts, "dkv.New: exactly one NewEmptyLevelList(<int constant>)")
	one("dkvMaxSizeAmpPercent", amps, "dkv.New: exactly one `MaxSizeAmplificationPercent: <int constant>`")
	one("dkvDefaultL0Trigger", triggers, "dkv.New: exactly one `if x.L0TableNumCompactionTrigger == 0 { x.L0TableNumCompactionTrigger = <int constant> }`")

	// Age(): `return <recv>.startSeqNum` (1) / `return <recv>.<other field>` (0) / anything else: not recognised
	tb := parseFile("dkv/sst/table.go")
	{
		fn := findFuncOr(tb, "Table", "Age")
		v, ok := uint64(0), false
		if len(fn.Body.List) == 1 {
			if r, isRet := fn.Body.List[0].(*ast.ReturnStmt); isRet && len(r.Results) == 1 {
				if pfx, sel := lastSel(r.Results[0]); pfx != "" && pfx == c18RecvName(fn) {
					ok = true
					if sel == "startSeqNum" {
						v = 1
					}
				}
			}
		}
		fc.set("c18AgeIsStartSeqNum", v, ok, "Table.Age: a single `return <receiver>.<field>`")
	}
	// OrderOldToNew(a, b): `return cmp.Compare(a.Age(), b.Age())` (1) / arguments swapped (0) / anything else: not recognised
	{
		fn := findFuncOr(tb, "", "OrderOldToNew")
		v, ok := uint64(0), false
		ps := paramNames(fn)
		if len(fn.Body.List) == 1 && len(ps) == 2 {
			if r, isRet := fn.Body.List[0].(*ast.ReturnStmt); isRet && len(r.Results) == 1 {
				if c, isCall := r.Results[0].(*ast.CallExpr); isCall && selName(c.Fun) == "cmp.Compare" && len(c.Args) == 2 {
					a0, ok0 := c.Args[0].(*ast.CallExpr)
					a1, ok1 := c.Args[1].(*ast.CallExpr)
					if ok0 && ok1 && len(a0.Args) == 0 && len(a1.Args) == 0 {
						p0, s0 := lastSel(a0.Fun)
						p1, s1 := lastSel(a1.Fun)
						if s0 == "Age" && s1 == "Age" {
							switch {
							case p0 == ps[0] && p1 == ps[1]:
								v, ok = 1, true
							case p0 == ps[1] && p1 == ps[0]:
								v, ok = 0, true
							}
						}
					}
				}
			}
		}
		fc.set("c18OrderOldToNewAscending", v, ok, "OrderOldToNew(a, b): a single `return cmp.Compare(a.Age(), b.Age())`")
	}

	// writeEntry(t, entry): `if <t>.size == 0 { ... <t>.startSeqNum = <entry>.SeqNum() ... }`
	tw := parseFile("dkv/sst/table_writer.go")
	{
		fn := findFuncOr(tw, "", "writeEntry")
		ps := paramNames(fn)
		found := false
		if len(ps) == 2 {
			ast.Inspect(fn, func(x ast.Node) bool {
				ifs, isIf := x.(*ast.IfStmt)
				if !isIf {
					return true
				}
				c, isBin := ifs.Cond.(*ast.BinaryExpr)
				if !isBin || c.Op != token.EQL {
					return true
				}
				lhs, rhs := c.X, c.Y
				if _, isLit := litVal(lhs); isLit {
					lhs, rhs = rhs, lhs
				}
				if pfx, sel := lastSel(lhs); pfx != ps[0] || sel != "size" {
					return true
				}
				if z, isLit := litVal(rhs); !isLit || z != 0 {
					return true
				}
				for _, st := range ifs.Body.List {
					if as, isAs := st.(*ast.AssignStmt); isAs && len(as.Lhs) == 1 && len(as.Rhs) == 1 {
						if pfx, sel := lastSel(as.Lhs[0]); pfx == ps[0] && sel == "startSeqNum" {
							if call, isCall := as.Rhs[0].(*ast.CallExpr); isCall && len(call.Args) == 0 {
								if p2, s2 := lastSel(call.Fun); p2 == ps[1] && s2 == "SeqNum" {
									found = true
								}
							}
						}
					}
				}
				return true
			})
		}
		fc.set("c18StartSeqNumIsFirstEntry", 1, found, "writeEntry(t, e): `if t.size == 0 { t.startSeqNum = e.SeqNum() }`")
	}
}
