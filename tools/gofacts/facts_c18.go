package main

// C18 facts: what the compaction model takes from the source as constants
// (dkv/db.go New: number of levels, default level-0 trigger, size amplification limit;
// dkv/sst/table.go: Age() is the sequence number of the first key, OrderOldToNew sorts ascending by Age).
//
// Every one of these is observed completely by an operation of the C18 correspondence on the real code
// (`cfg`: the values dkv.New builds with default options; `ages`: Table.Age() of every real table against the model's
// `age`; `agesort`: slices.SortedFunc(level.AllTables(), OrderOldToNew) against `sortByAge`), so an unrecognised source
// shape is reported with ok=false (last good value kept, tools/gofacts/fallbacks.json names the correspondence) and
// never by flipping a flag to 0. A flag is set to 0 only when the source is recognised and says the opposite
// (Age returns another field, the comparison arguments are swapped).
//
// The recognisers do not depend on receiver, parameter or local variable names.

import (
	"go/ast"
	"go/token"
	"strings"
)

func init() { extraFactFns = append(extraFactFns, c18Facts) }

// paramNames lists the parameter names of a function in order.
func paramNames(fn *ast.FuncDecl) []string {
	var out []string
	if fn.Type == nil || fn.Type.Params == nil {
		return out
	}
	for _, p := range fn.Type.Params.List {
		for _, n := range p.Names {
			out = append(out, n.Name)
		}
	}
	return out
}

func c18RecvName(fn *ast.FuncDecl) string {
	if fn.Recv != nil && len(fn.Recv.List) == 1 && len(fn.Recv.List[0].Names) == 1 {
		return fn.Recv.List[0].Names[0].Name
	}
	return ""
}

// lastSel returns the final selector of x.y.z ("z") and the printed prefix ("x.y").
func lastSel(e ast.Expr) (prefix, sel string) {
	if s, ok := e.(*ast.SelectorExpr); ok {
		return selName(s.X), s.Sel.Name
	}
	return "", selName(e)
}

func c18Facts(fc *facts) {
	db := parseFile("dkv/db.go")
	nw := findFuncOr(db, "", "New")

	// sstables: <pkg>.NewEmptyLevelList(N)
	var levelCounts []uint64
	// compactor literal: MaxSizeAmplificationPercent: N
	var amps []uint64
	// if <x>.L0TableNumCompactionTrigger == 0 { <x>.L0TableNumCompactionTrigger = N }
	var triggers []uint64
	ast.Inspect(nw, func(x ast.Node) bool {
		switch n := x.(type) {
		case *ast.CallExpr:
			if _, sel := lastSel(n.Fun); sel == "NewEmptyLevelList" && len(n.Args) == 1 {
				if v, ok := litVal(n.Args[0]); ok {
					levelCounts = append(levelCounts, v)
				}
			}
		case *ast.KeyValueExpr:
			if selName(n.Key) == "MaxSizeAmplificationPercent" {
				if v, ok := litVal(n.Value); ok {
					amps = append(amps, v)
				}
			}
		case *ast.IfStmt:
			c, ok := n.Cond.(*ast.BinaryExpr)
			if !ok || c.Op != token.EQL {
				return true
			}
			lhs, rhs := c.X, c.Y
			if _, ok := litVal(lhs); ok { // 0 == x.Field
				lhs, rhs = rhs, lhs
			}
			pfx, sel := lastSel(lhs)
			if sel != "L0TableNumCompactionTrigger" {
				return true
			}
			if z, ok := litVal(rhs); !ok || z != 0 {
				return true
			}
			for _, st := range n.Body.List {
				if as, ok := st.(*ast.AssignStmt); ok && as.Tok == token.ASSIGN && len(as.Lhs) == 1 && len(as.Rhs) == 1 {
					p2, s2 := lastSel(as.Lhs[0])
					if p2 == pfx && s2 == sel {
						if v, ok := litVal(as.Rhs[0]); ok {
							triggers = append(triggers, v)
						}
					}
				}
			}
		}
		return true
	})
	one := func(name string, xs []uint64, what string) {
		if len(xs) == 1 {
			fc.set(name, xs[0], true, what)
		} else {
			fc.set(name, 0, false, what)
		}
	}
	one("dkvLevelCount", levelCounts, "dkv.New: exactly one NewEmptyLevelList(<int constant>)")
	one("dkvMaxSizeAmpPercent", amps, "dkv.New: exactly one `MaxSizeAmplificationPercent: <int constant>`")
	one("dkvDefaultL0Trigger", triggers, "dkv.New: exactly one `if x.L0TableNumCompactionTrigger == 0 { x.L0TableNumCompactionTrigger = <int constant> }`")

	// Age(): `return <recv>.startSeqNum` (1) / `return <recv>.<other field>` (0) / anything else: not recognised
	tb := parseFile("dkv/sst/table.go")
	{
		fn := findFuncOr(tb, "Table", "Age")
		v, ok := uint64(0), false
		if len(fn.Body.List) == 1 {
			if r, isRet := fn.Body.List[0].(*ast.ReturnStmt); isRet && len(r.Results) == 1 {
				if pfx, sel := lastSel(r.Results[0]); pfx != "" && pfx == c18RecvName(fn) {
					ok = true
					if sel == "startSeqNum" {
						v = 1
					}
				}
			}
		}
		fc.set("c18AgeIsStartSeqNum", v, ok, "Table.Age: a single `return <receiver>.<field>`")
	}
	// OrderOldToNew(a, b): `return cmp.Compare(a.Age(), b.Age())` (1) / arguments swapped (0) / anything else: not recognised
	{
		fn := findFuncOr(tb, "", "OrderOldToNew")
		v, ok := uint64(0), false
		ps := paramNames(fn)
		if len(fn.Body.List) == 1 && len(ps) == 2 {
			if r, isRet := fn.Body.List[0].(*ast.ReturnStmt); isRet && len(r.Results) == 1 {
				if c, isCall := r.Results[0].(*ast.CallExpr); isCall && selName(c.Fun) == "cmp.Compare" && len(c.Args) == 2 {
					a0, ok0 := c.Args[0].(*ast.CallExpr)
					a1, ok1 := c.Args[1].(*ast.CallExpr)
					if ok0 && ok1 && len(a0.Args) == 0 && len(a1.Args) == 0 {
						p0, s0 := lastSel(a0.Fun)
						p1, s1 := lastSel(a1.Fun)
						if s0 == "Age" && s1 == "Age" {
							switch {
							case p0 == ps[0] && p1 == ps[1]:
								v, ok = 1, true
							case p0 == ps[1] && p1 == ps[0]:
								v, ok = 0, true
							}
						}
					}
				}
			}
		}
		fc.set("c18OrderOldToNewAscending", v, ok, "OrderOldToNew(a, b): a single `return cmp.Compare(a.Age(), b.Age())`")
	}

	// writeEntry(t, entry): `if <t>.size == 0 { ... <t>.startSeqNum = <entry>.SeqNum() ... }`
	tw := parseFile("dkv/sst/table_writer.go")
	{
		fn := findFuncOr(tw, "", "writeEntry")
		ps := paramNames(fn)
		found := false
		if len(ps) == 2 {
			ast.Inspect(fn, func(x ast.Node) bool {
				ifs, isIf := x.(*ast.IfStmt)
				if !isIf {
					return true
				}
				c, isBin := ifs.Cond.(*ast.BinaryExpr)
				if !isBin || c.Op != token.EQL {
					return true
				}
				lhs, rhs := c.X, c.Y
				if _, isLit := litVal(lhs); isLit {
					lhs, rhs = rhs, lhs
				}
				if pfx, sel := lastSel(lhs); pfx != ps[0] || sel != "size" {
					return true
				}
				if z, isLit := litVal(rhs); !isLit || z != 0 {
					return true
				}
				for _, st := range ifs.Body.List {
					if as, isAs := st.(*ast.AssignStmt); isAs && len(as.Lhs) == 1 && len(as.Rhs) == 1 {
						if pfx, sel := lastSel(as.Lhs[0]); pfx == ps[0] && sel == "startSeqNum" {
							if call, isCall := as.Rhs[0].(*ast.CallExpr); isCall && len(call.Args) == 0 {
								if p2, s2 := lastSel(call.Fun); p2 == ps[1] && s2 == "SeqNum" {
									found = true
								}
							}
						}
					}
				}
				return true
			})
		}
		fc.set("c18StartSeqNumIsFirstEntry", 1, found, "writeEntry(t, e): `if t.size == 0 { t.startSeqNum = e.SeqNum() }`")
	}
}

// ---- structural facts (hard obligations: no correspondence can observe them) ----
//
// c18QueueSerial           bg.AsyncGroup.Enqueue runs the functions of one TaskQueue one at a time: the goroutine
//                          it starts takes the queue's mutex before it calls the function taken from the queue's
//                          channel and releases it only when that function has returned (deferred Unlock).
// c18CompactOneQueue       every call of the compactor's Compact in dkv/db.go sits in a function handed to Enqueue
//                          (directly, or through a helper of the file that forwards its queue and its function, wrapped
//                          in a closure that calls it, to Enqueue) with one and the same package-level bg.NewQueue queue;
//                          the function may be a closure or an unexported method/function handed over by name (method
//                          value) or called directly from such a function — every use of it must lead to that queue.
// c18LevelListPersistent   LevelList.NewWithChangeSet clones the receiver's level slice, applies additions and
//                          removals to the clone only and never assigns through the receiver; Level.tablesAdded /
//                          tablesRemoved have value receivers and build their table set with Set.Added / Set.Diff,
//                          which never write to the receiver (Added works on receiver.clone()).
// c18DbLevelsReplacedOnly  package dkv never calls AddTables/RemoveTables on db.sstables: the field is only replaced
//                          (NewWithChangeSet result, the empty list of New, the checkpoint's list in Start).
//
// c18CommitsUnderDbMu      every `<db>.sstables = <db>.sstables.NewWithChangeSet(..)` of dkv/db.go (the flush commit and the
//                          compaction commit; at least two) is preceded in its own statement list by `<db>.mu.Lock()` with no
//                          Unlock in between and followed by `<db>.mu.Unlock()` with no Lock in between: the read-modify-write
//                          of the level list is one critical section; currentSSTables reads the field under RLock with a
//                          deferred RUnlock.
//
// Together: a LevelList value read by currentSSTables() is never changed afterwards (what `compactBegin` computing on
// a snapshot needs) and at most one Compact call runs at a time (one pending change set).

func init() { extraFactFns = append(extraFactFns, c18StructFacts) }

func rootIdent(e ast.Expr) string {
	for {
		switch x := e.(type) {
		case *ast.SelectorExpr:
			e = x.X
		case *ast.IndexExpr:
			e = x.X
		case *ast.StarExpr:
			e = x.X
		case *ast.ParenExpr:
			e = x.X
		case *ast.Ident:
			return x.Name
		default:
			return ""
		}
	}
}

// writesThrough reports whether fn assigns to, increments, or deletes from something rooted at the identifier.
func writesThrough(fn ast.Node, root string) bool {
	bad := false
	ast.Inspect(fn, func(x ast.Node) bool {
		switch n := x.(type) {
		case *ast.AssignStmt:
			for _, l := range n.Lhs {
				if _, plain := l.(*ast.Ident); !plain && rootIdent(l) == root {
					bad = true
				}
			}
		case *ast.IncDecStmt:
			if _, plain := n.X.(*ast.Ident); !plain && rootIdent(n.X) == root {
				bad = true
			}
		case *ast.CallExpr:
			if selName(n.Fun) == "delete" && len(n.Args) > 0 && rootIdent(n.Args[0]) == root {
				bad = true
			}
		}
		return true
	})
	return bad
}

func c18StructFacts(fc *facts) {
	// --- c18QueueSerial
	{
		f := parseFile("dkv/bg/async_group.go")
		fn := findFuncOr(f, "AsyncGroup", "Enqueue")
		ps := paramNames(fn)
		ok := false
		if len(ps) == 2 {
			q := ps[0]
			ast.Inspect(fn, func(x ast.Node) bool {
				call, isCall := x.(*ast.CallExpr)
				if !isCall || len(call.Args) != 1 {
					return true
				}
				if _, sel := lastSel(call.Fun); sel != "Go" {
					return true
				}
				lit, isLit := call.Args[0].(*ast.FuncLit)
				if !isLit {
					return true
				}
				lockAt, deferUnlock, recvAt, callAt, goStmt := -1, false, -1, -1, false
				var taken string
				for i, st := range lit.Body.List {
					switch s := st.(type) {
					case *ast.ExprStmt:
						if c, isC := s.X.(*ast.CallExpr); isC {
							if p, sel := lastSel(c.Fun); sel == "Lock" && rootIdent(c.Fun) == q && p != q && lockAt < 0 {
								lockAt = i
							}
						}
					case *ast.DeferStmt:
						if _, sel := lastSel(s.Call.Fun); sel == "Unlock" && rootIdent(s.Call.Fun) == q {
							deferUnlock = true
						}
					case *ast.AssignStmt:
						if len(s.Lhs) == 1 && len(s.Rhs) == 1 {
							if u, isU := s.Rhs[0].(*ast.UnaryExpr); isU && u.Op == token.ARROW && rootIdent(u.X) == q {
								if id, isId := s.Lhs[0].(*ast.Ident); isId {
									taken, recvAt = id.Name, i
								}
							}
						}
					case *ast.ReturnStmt:
						for _, r := range s.Results {
							if c, isC := r.(*ast.CallExpr); isC && selName(c.Fun) == taken && taken != "" {
								callAt = i
							}
						}
					case *ast.GoStmt:
						goStmt = true
					}
					if es, isE := st.(*ast.ExprStmt); isE {
						if c, isC := es.X.(*ast.CallExpr); isC && selName(c.Fun) == taken && taken != "" {
							callAt = i
						}
					}
				}
				if lockAt >= 0 && deferUnlock && recvAt > lockAt && callAt > recvAt && !goStmt {
					ok = true
				}
				return true
			})
		}
		fc.set("c18QueueSerial", 1, ok, "bg.AsyncGroup.Enqueue: the started goroutine locks the queue's mutex, defers the unlock, then takes a function from the queue's channel and calls it")
	}

	// --- c18CompactOneQueue
	{
		f := parseFile("dkv/db.go")
		queues := map[string]bool{}
		for _, d := range f.Decls {
			gd, isG := d.(*ast.GenDecl)
			if !isG || gd.Tok != token.VAR {
				continue
			}
			for _, sp := range gd.Specs {
				vs := sp.(*ast.ValueSpec)
				for i, n := range vs.Names {
					if i < len(vs.Values) {
						if c, isC := vs.Values[i].(*ast.CallExpr); isC {
							if _, sel := lastSel(c.Fun); sel == "NewQueue" {
								queues[n.Name] = true
							}
						}
					}
				}
			}
		}
		// helpers of the same file that forward their queue parameter and their function parameter (wrapped in a closure
		// that calls it, nothing started with `go`) to <x>.Enqueue count like Enqueue itself (one level)
		forwarders := map[string]bool{}
		for _, d := range f.Decls {
			fd, isF := d.(*ast.FuncDecl)
			if !isF || fd.Body == nil {
				continue
			}
			ps := paramNames(fd)
			if len(ps) != 2 {
				continue
			}
			qp, fp := ps[0], ps[1]
			enq, fnUses, fnCalledInLit, bad := 0, 0, 0, false
			ast.Inspect(fd.Body, func(x ast.Node) bool {
				switch n := x.(type) {
				case *ast.GoStmt:
					bad = true
				case *ast.Ident:
					if n.Name == fp {
						fnUses++
					}
				case *ast.CallExpr:
					if _, sel := lastSel(n.Fun); sel == "Enqueue" && len(n.Args) == 2 && selName(n.Args[0]) == qp {
						if lit, isLit := n.Args[1].(*ast.FuncLit); isLit {
							enq++
							ast.Inspect(lit.Body, func(y ast.Node) bool {
								if c, isC := y.(*ast.CallExpr); isC && selName(c.Fun) == fp && len(c.Args) == 0 {
									fnCalledInLit++
								}
								return true
							})
						}
					}
				}
				return true
			})
			if enq == 1 && fnCalledInLit == 1 && fnUses == 1 && !bad {
				forwarders[fd.Name.Name] = true
			}
		}
		// Where does every compactor.Compact call run? A call site runs
		//   - in queue Q when its innermost enclosing closure is the function handed to Enqueue / a forwarder with Q;
		//   - nowhere known ("free") when its innermost enclosing closure is anything else;
		//   - at the top level of a named function F otherwise: then wherever F runs. F (unexported) runs in Q when it is
		//     handed as a method value / function name to Enqueue / a forwarder with Q, in the context of the site of every
		//     direct call F(..), and "free" for any other use (go statement, stored, passed elsewhere) or when exported.
		funcs := map[string]*ast.FuncDecl{}
		for _, d := range f.Decls {
			if fd, isF := d.(*ast.FuncDecl); isF && fd.Body != nil {
				funcs[fd.Name.Name] = fd
			}
		}
		const free = "!"
		isQueueCall := func(c *ast.CallExpr) (string, bool) {
			if _, sel := lastSel(c.Fun); (sel == "Enqueue" || forwarders[sel]) && len(c.Args) == 2 {
				if id, isId := c.Args[0].(*ast.Ident); isId && queues[id.Name] {
					return id.Name, true
				}
			}
			return "", false
		}
		// ctxAt computes, for every node of a function body, the context it runs in: "top" (top level of the function),
		// a queue name, or free. visit is called for every node with that context and the stack of ancestors.
		var scan func(fd *ast.FuncDecl, visit func(n ast.Node, ctx string, parents []ast.Node))
		scan = func(fd *ast.FuncDecl, visit func(n ast.Node, ctx string, parents []ast.Node)) {
			var stack []ast.Node
			var ctxs []string
			cur := "top"
			ast.Inspect(fd.Body, func(n ast.Node) bool {
				if n == nil {
					top := stack[len(stack)-1]
					stack = stack[:len(stack)-1]
					if _, isLit := top.(*ast.FuncLit); isLit {
						cur = ctxs[len(ctxs)-1]
						ctxs = ctxs[:len(ctxs)-1]
					}
					return true
				}
				if lit, isLit := n.(*ast.FuncLit); isLit {
					ctxs = append(ctxs, cur)
					cur = free
					if len(stack) > 0 {
						if c, isC := stack[len(stack)-1].(*ast.CallExpr); isC && len(c.Args) == 2 && c.Args[1] == ast.Expr(lit) {
							if q, okq := isQueueCall(c); okq {
								cur = q
							}
						}
					}
				}
				visit(n, cur, stack)
				stack = append(stack, n)
				return true
			})
		}
		var funcCtx func(name string, depth int) map[string]bool
		resolve := func(ctx string, owner string, depth int) map[string]bool {
			if ctx == "top" {
				return funcCtx(owner, depth+1)
			}
			return map[string]bool{ctx: true}
		}
		funcCtx = func(name string, depth int) map[string]bool {
			out := map[string]bool{}
			fd := funcs[name]
			if fd == nil || depth > 3 || ast.IsExported(name) {
				out[free] = true
				return out
			}
			refs := 0
			for owner, g := range funcs {
				scan(g, func(n ast.Node, ctx string, parents []ast.Node) {
					var refName string
					switch x := n.(type) {
					case *ast.SelectorExpr:
						refName = x.Sel.Name
					case *ast.Ident:
						if len(parents) > 0 {
							if se, isSel := parents[len(parents)-1].(*ast.SelectorExpr); isSel && se.Sel == x {
								return // counted at the selector
							}
						}
						refName = x.Name
					default:
						return
					}
					if refName != name || len(parents) == 0 {
						return
					}
					refs++
					parent := parents[len(parents)-1]
					if c, isC := parent.(*ast.CallExpr); isC {
						if c.Fun == n.(ast.Expr) {
							// a direct call: runs where the call site runs, unless started with `go`
							if len(parents) > 1 {
								if _, isGo := parents[len(parents)-2].(*ast.GoStmt); isGo {
									out[free] = true
									return
								}
							}
							for k := range resolve(ctx, owner, depth) {
								out[k] = true
							}
							return
						}
						if q, okq := isQueueCall(c); okq && len(c.Args) == 2 && c.Args[1] == n.(ast.Expr) {
							out[q] = true
							return
						}
					}
					out[free] = true
				})
			}
			if refs == 0 {
				out[free] = true
			}
			return out
		}
		used := map[string]bool{}
		compactCalls := 0
		for owner, g := range funcs {
			scan(g, func(n ast.Node, ctx string, parents []ast.Node) {
				c, isC := n.(*ast.CallExpr)
				if !isC {
					return
				}
				if p, sel := lastSel(c.Fun); sel == "Compact" && strings.HasSuffix(p, "compactor") {
					compactCalls++
					for k := range resolve(ctx, owner, 0) {
						used[k] = true
					}
				}
			})
		}
		ok := compactCalls >= 1 && len(used) == 1 && !used[free]
		fc.set("c18CompactOneQueue", 1, ok, "dkv/db.go: every compactor.Compact call inside a function given to Enqueue (directly or through a helper that forwards queue and function to Enqueue) with one package-level bg.NewQueue queue")
	}

	// --- c18LevelListPersistent
	{
		ok := true
		ll := parseFile("dkv/sst/level_list.go")
		fn := findFuncOr(ll, "LevelList", "NewWithChangeSet")
		recv := c18RecvName(fn)
		clone, fresh := "", ""
		for _, st := range fn.Body.List {
			as, isAs := st.(*ast.AssignStmt)
			if !isAs || len(as.Lhs) != 1 || len(as.Rhs) != 1 {
				continue
			}
			id, isId := as.Lhs[0].(*ast.Ident)
			if !isId {
				continue
			}
			if c, isC := as.Rhs[0].(*ast.CallExpr); isC && selName(c.Fun) == "slices.Clone" && len(c.Args) == 1 {
				if p, sel := lastSel(c.Args[0]); p == recv && sel == "levels" {
					clone = id.Name
				}
			}
			var lit *ast.CompositeLit
			switch r := as.Rhs[0].(type) {
			case *ast.UnaryExpr:
				lit, _ = r.X.(*ast.CompositeLit)
			case *ast.CompositeLit:
				lit = r
			}
			if lit != nil && clone != "" {
				for _, el := range lit.Elts {
					if kvx, isKV := el.(*ast.KeyValueExpr); isKV && selName(kvx.Key) == "levels" && selName(kvx.Value) == clone {
						fresh = id.Name
					}
				}
			}
		}
		if recv == "" || clone == "" || fresh == "" || writesThrough(fn, recv) {
			ok = false
		}
		mutators := 0
		ast.Inspect(fn, func(x ast.Node) bool {
			if c, isC := x.(*ast.CallExpr); isC {
				if p, sel := lastSel(c.Fun); sel == "AddTables" || sel == "RemoveTables" {
					mutators++
					if p != fresh {
						ok = false
					}
				}
			}
			return true
		})
		if mutators == 0 {
			ok = false
		}
		// Level.tablesAdded / tablesRemoved: value receivers, new set from Added / Diff
		lv := parseFile("dkv/sst/level.go")
		for _, spec := range []struct{ name, setOp string }{{"tablesAdded", "Added"}, {"tablesRemoved", "Diff"}} {
			m := findFuncOr(lv, "Level", spec.name)
			if m.Recv == nil || len(m.Recv.List) != 1 {
				ok = false
				continue
			}
			if _, ptr := m.Recv.List[0].Type.(*ast.StarExpr); ptr {
				ok = false
			}
			r := c18RecvName(m)
			found := false
			ast.Inspect(m, func(x ast.Node) bool {
				if kvx, isKV := x.(*ast.KeyValueExpr); isKV && selName(kvx.Key) == "tables" {
					if c, isC := kvx.Value.(*ast.CallExpr); isC {
						if p, sel := lastSel(c.Fun); sel == spec.setOp && p == r+".tables" {
							found = true
						}
					}
				}
				return true
			})
			if !found || writesThrough(m, r) {
				ok = false
			}
		}
		// ds.Set.Added works on a clone, Diff and clone never write to the receiver
		set := parseFile("util/ds/set.go")
		added := findFuncOr(set, "Set", "Added")
		ar := c18RecvName(added)
		cl := ""
		for _, st := range added.Body.List {
			if as, isAs := st.(*ast.AssignStmt); isAs && len(as.Lhs) == 1 && len(as.Rhs) == 1 {
				if c, isC := as.Rhs[0].(*ast.CallExpr); isC {
					if p, sel := lastSel(c.Fun); p == ar && sel == "clone" {
						cl = selName(as.Lhs[0])
					}
				}
			}
		}
		if cl == "" || writesThrough(added, ar) {
			ok = false
		}
		ast.Inspect(added, func(x ast.Node) bool {
			if c, isC := x.(*ast.CallExpr); isC {
				if p, sel := lastSel(c.Fun); sel == "Add" && p != cl {
					ok = false
				}
			}
			return true
		})
		for _, name := range []string{"Diff", "clone"} {
			m := findFuncOr(set, "Set", name)
			r := c18RecvName(m)
			if writesThrough(m, r) {
				ok = false
			}
			ast.Inspect(m, func(x ast.Node) bool {
				if c, isC := x.(*ast.CallExpr); isC {
					if p, sel := lastSel(c.Fun); p == r && (sel == "Add" || sel == "Without") {
						ok = false
					}
				}
				return true
			})
		}
		cloneFn := findFuncOr(set, "Set", "clone")
		clones := 0
		ast.Inspect(cloneFn, func(x ast.Node) bool {
			if c, isC := x.(*ast.CallExpr); isC {
				if n := selName(c.Fun); n == "maps.Clone" || n == "slices.Clone" {
					clones++
				}
			}
			return true
		})
		if clones < 2 {
			ok = false
		}
		fc.set("c18LevelListPersistent", 1, ok, "NewWithChangeSet works on slices.Clone(receiver.levels) only; Level.tablesAdded/tablesRemoved (value receivers) use Set.Added/Diff; Set.Added adds to receiver.clone(); Diff/clone never write to the receiver")
	}

	// --- c18CommitsUnderDbMu
	{
		f := parseFile("dkv/db.go")
		commits, guarded := 0, 0
		isMuCall := func(st ast.Stmt, root, method string) bool {
			es, isE := st.(*ast.ExprStmt)
			if !isE {
				return false
			}
			c, isC := es.X.(*ast.CallExpr)
			if !isC {
				return false
			}
			p, sel := lastSel(c.Fun)
			return sel == method && p == root+".mu"
		}
		ast.Inspect(f, func(x ast.Node) bool {
			blk, isB := x.(*ast.BlockStmt)
			if !isB {
				return true
			}
			for i, st := range blk.List {
				as, isAs := st.(*ast.AssignStmt)
				if !isAs || len(as.Lhs) != 1 || len(as.Rhs) != 1 {
					continue
				}
				lp, lsel := lastSel(as.Lhs[0])
				if lsel != "sstables" || lp == "" {
					continue
				}
				c, isC := as.Rhs[0].(*ast.CallExpr)
				if !isC {
					continue
				}
				rp, rsel := lastSel(c.Fun)
				if rsel != "NewWithChangeSet" || rp != lp+".sstables" {
					continue
				}
				commits++
				locked := false
				for j := i - 1; j >= 0; j-- {
					if isMuCall(blk.List[j], lp, "Unlock") {
						break
					}
					if isMuCall(blk.List[j], lp, "Lock") {
						locked = true
						break
					}
				}
				unlocked := false
				for k := i + 1; k < len(blk.List); k++ {
					if isMuCall(blk.List[k], lp, "Lock") {
						break
					}
					if isMuCall(blk.List[k], lp, "Unlock") {
						unlocked = true
						break
					}
				}
				if locked && unlocked {
					guarded++
				}
			}
			return true
		})
		readOK := false
		cur := findFuncOr(f, "DB", "currentSSTables")
		if r := c18RecvName(cur); r != "" && len(cur.Body.List) == 3 {
			first := isMuCall(cur.Body.List[0], r, "RLock")
			second := false
			if d, isD := cur.Body.List[1].(*ast.DeferStmt); isD {
				p, sel := lastSel(d.Call.Fun)
				second = sel == "RUnlock" && p == r+".mu"
			}
			third := false
			if ret, isR := cur.Body.List[2].(*ast.ReturnStmt); isR && len(ret.Results) == 1 {
				p, sel := lastSel(ret.Results[0])
				third = p == r && sel == "sstables"
			}
			readOK = first && second && third
		}
		fc.set("c18CommitsUnderDbMu", 1, commits >= 2 && guarded == commits && readOK,
			"dkv/db.go: every `db.sstables = db.sstables.NewWithChangeSet(..)` lies between db.mu.Lock() and db.mu.Unlock() of its own statement list (flush and compaction commit), currentSSTables reads under RLock")
	}

	// --- c18DbLevelsReplacedOnly
	{
		ok := true
		for _, file := range []string{"dkv/db.go"} {
			f := parseFile(file)
			ast.Inspect(f, func(x ast.Node) bool {
				switch n := x.(type) {
				case *ast.CallExpr:
					if p, sel := lastSel(n.Fun); (sel == "AddTables" || sel == "RemoveTables") && strings.HasSuffix(p, ".sstables") {
						ok = false
					}
				case *ast.AssignStmt:
					for i, l := range n.Lhs {
						if _, sel := lastSel(l); sel != "sstables" {
							continue
						}
						if _, plain := l.(*ast.Ident); plain {
							continue
						}
						if i >= len(n.Rhs) {
							ok = false
							continue
						}
						switch r := n.Rhs[i].(type) {
						case *ast.CallExpr:
							if _, s2 := lastSel(r.Fun); s2 != "NewWithChangeSet" && s2 != "NewEmptyLevelList" {
								ok = false
							}
						case *ast.SelectorExpr:
							if r.Sel.Name != "Levels" {
								ok = false
							}
						default:
							ok = false
						}
					}
				}
				return true
			})
		}
		fc.set("c18DbLevelsReplacedOnly", 1, ok, "dkv/db.go: db.sstables is only replaced (NewWithChangeSet / NewEmptyLevelList / checkpoint Levels), never changed through AddTables/RemoveTables")
	}
}
