package main

// C18 facts: what the compaction model takes from the source as constants
// (dkv/db.go New: number of levels, default level-0 trigger, size amplification limit;
// dkv/sst/table.go: Age() is the sequence number of the first key, OrderOldToNew sorts ascending by Age).

import (
	"go/ast"
	"go/token"
)

func init() { extraFactFns = append(extraFactFns, c18Facts) }

func c18Facts(fc *facts) {
	db := parseFile("dkv/db.go")
	nw := findFuncOr(db, "", "New")

	// sstables: sst.NewEmptyLevelList(N)
	var levelCounts []uint64
	// compactor literal: MaxSizeAmplificationPercent: N
	var amps []uint64
	// if options.L0TableNumCompactionTrigger == 0 { options.L0TableNumCompactionTrigger = N }
	var triggers []uint64
	ast.Inspect(nw, func(x ast.Node) bool {
		switch n := x.(type) {
		case *ast.CallExpr:
			if selName(n.Fun) == "sst.NewEmptyLevelList" && len(n.Args) == 1 {
				if v, ok := litVal(n.Args[0]); ok {
					levelCounts = append(levelCounts, v)
				}
			}
		case *ast.KeyValueExpr:
			if selName(n.Key) == "MaxSizeAmplificationPercent" {
				if v, ok := litVal(n.Value); ok {
					amps = append(amps, v)
				}
			}
		case *ast.IfStmt:
			c, ok := n.Cond.(*ast.BinaryExpr)
			if !ok || c.Op != token.EQL || selName(c.X) != "options.L0TableNumCompactionTrigger" {
				return true
			}
			if z, ok := litVal(c.Y); !ok || z != 0 || len(n.Body.List) != 1 {
				return true
			}
			if as, ok := n.Body.List[0].(*ast.AssignStmt); ok && len(as.Lhs) == 1 && len(as.Rhs) == 1 &&
				selName(as.Lhs[0]) == "options.L0TableNumCompactionTrigger" {
				if v, ok := litVal(as.Rhs[0]); ok {
					triggers = append(triggers, v)
				}
			}
		}
		return true
	})
	one := func(name string, xs []uint64, what string) {
		if len(xs) == 1 {
			fc.set(name, xs[0], true, what)
		} else {
			problem("dkv.New: expected exactly one %s, got %v", what, xs)
		}
	}
	one("dkvLevelCount", levelCounts, "sst.NewEmptyLevelList(<int>)")
	one("dkvMaxSizeAmpPercent", amps, "MaxSizeAmplificationPercent: <int>")
	one("dkvDefaultL0Trigger", triggers, "default for L0TableNumCompactionTrigger")

	// Age(): return t.startSeqNum ; OrderOldToNew: return cmp.Compare(a.Age(), b.Age())
	tb := parseFile("dkv/sst/table.go")
	ageOK := uint64(0)
	if fn := findFuncOr(tb, "Table", "Age"); len(fn.Body.List) == 1 {
		if r, ok := fn.Body.List[0].(*ast.ReturnStmt); ok && len(r.Results) == 1 && selName(r.Results[0]) == "t.startSeqNum" {
			ageOK = 1
		}
	}
	fc.set("c18AgeIsStartSeqNum", ageOK, true, "")
	asc := uint64(0)
	if fn := findFuncOr(tb, "", "OrderOldToNew"); len(fn.Body.List) == 1 && fn.Type.Params != nil {
		var params []string
		for _, p := range fn.Type.Params.List {
			for _, n := range p.Names {
				params = append(params, n.Name)
			}
		}
		if r, ok := fn.Body.List[0].(*ast.ReturnStmt); ok && len(r.Results) == 1 && len(params) == 2 {
			if c, ok := r.Results[0].(*ast.CallExpr); ok && selName(c.Fun) == "cmp.Compare" && len(c.Args) == 2 {
				a0, ok0 := c.Args[0].(*ast.CallExpr)
				a1, ok1 := c.Args[1].(*ast.CallExpr)
				if ok0 && ok1 && selName(a0.Fun) == params[0]+".Age" && selName(a1.Fun) == params[1]+".Age" {
					asc = 1
				}
			}
		}
	}
	fc.set("c18OrderOldToNewAscending", asc, true, "")

	// writeEntry: the first entry written sets startSeqNum (`if t.size == 0 { ... t.startSeqNum = entry.SeqNum() }`)
	tw := parseFile("dkv/sst/table_writer.go")
	first := uint64(0)
	ast.Inspect(findFuncOr(tw, "", "writeEntry"), func(x ast.Node) bool {
		ifs, ok := x.(*ast.IfStmt)
		if !ok {
			return true
		}
		c, ok := ifs.Cond.(*ast.BinaryExpr)
		if !ok || c.Op != token.EQL || selName(c.X) != "t.size" {
			return true
		}
		if z, ok := litVal(c.Y); !ok || z != 0 {
			return true
		}
		for _, st := range ifs.Body.List {
			if as, ok := st.(*ast.AssignStmt); ok && len(as.Lhs) == 1 && len(as.Rhs) == 1 && selName(as.Lhs[0]) == "t.startSeqNum" {
				if call, ok := as.Rhs[0].(*ast.CallExpr); ok && selName(call.Fun) == "entry.SeqNum" {
					first = 1
				}
			}
		}
		return true
	})
	fc.set("c18StartSeqNumIsFirstEntry", first, true, "")
}
