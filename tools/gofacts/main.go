// gofacts regenerates lean/RxnModel/Generated/{Facts,Fns}.lean from /repo sources (go/ast only).
//
// Facts: integer constants the models are parameterised by.
// Fns:   whitelisted straight-line functions translated expression by expression.
// Anything that no longer has the expected shape is reported on stderr and exit status 3
// (the check treats that as a broken correspondence and searches for a failing input).
package main

import (
	"encoding/json"
	"flag"
	"fmt"
	"go/ast"
	"go/parser"
	"go/token"
	"os"
	"path/filepath"
	"sort"
	"strconv"
	"strings"
)

var repo string
var fset = token.NewFileSet()
var problems []string

// Every fact, translated function and problem is attributed to a group (the extractor that produced it), so that
// `./check Cxx` can ignore a source shape problem that only concerns definitions Cxx's theorems do not depend on.
var curGroup = "core"

type groupedProblem struct {
	Group string   `json:"group"`
	Msg   string   `json:"msg"`
	Names []string `json:"names,omitempty"` // the Lean names that could not be refreshed, when known
}

var groupedProblems []groupedProblem
var groupNames = map[string][]string{} // group -> Lean names (Facts.x / Gen.x) it defines

func problem(format string, a ...any) {
	msg := fmt.Sprintf(format, a...)
	problems = append(problems, msg)
	groupedProblems = append(groupedProblems, groupedProblem{Group: curGroup, Msg: msg})
}

// problemFor is problem() for a failure that concerns only the given facts.
func problemFor(names []string, format string, a ...any) {
	msg := fmt.Sprintf(format, a...)
	problems = append(problems, msg)
	full := make([]string, len(names))
	for i, n := range names {
		full[i] = "Facts." + n
	}
	groupedProblems = append(groupedProblems, groupedProblem{Group: curGroup, Msg: msg, Names: full})
}

func parseFile(rel string) *ast.File {
	scanConsts(filepath.Dir(filepath.Join(repo, rel)))
	f, err := parser.ParseFile(fset, filepath.Join(repo, rel), nil, parser.SkipObjectResolution)
	if err != nil {
		problem("%s: %v", rel, err)
		return &ast.File{Name: ast.NewIdent("x")}
	}
	return f
}

func findFunc(f *ast.File, recv, name string) *ast.FuncDecl {
	for _, d := range f.Decls {
		fd, ok := d.(*ast.FuncDecl)
		if !ok || fd.Name.Name != name {
			continue
		}
		r := ""
		if fd.Recv != nil && len(fd.Recv.List) == 1 {
			t := fd.Recv.List[0].Type
			if s, ok := t.(*ast.StarExpr); ok {
				t = s.X
			}
			if ix, ok := t.(*ast.IndexExpr); ok {
				t = ix.X
			}
			if id, ok := t.(*ast.Ident); ok {
				r = id.Name
			}
		}
		if r == recv {
			return fd
		}
	}
	return nil
}

// constDefs: every `const name = expr` of the packages gofacts has looked at (name -> defining expressions).
// A named constant is folded only when all its definitions (there can be several across packages) agree.
var constDefs = map[string][]ast.Expr{}
var constDirs = map[string]bool{}

func scanConsts(dir string) {
	if constDirs[dir] {
		return
	}
	constDirs[dir] = true
	ents, err := os.ReadDir(dir)
	if err != nil {
		return
	}
	for _, e := range ents {
		n := e.Name()
		if e.IsDir() || !strings.HasSuffix(n, ".go") || strings.HasSuffix(n, "_test.go") {
			continue
		}
		f, err := parser.ParseFile(fset, filepath.Join(dir, n), nil, parser.SkipObjectResolution)
		if err != nil {
			continue
		}
		ast.Inspect(f, func(x ast.Node) bool {
			gd, ok := x.(*ast.GenDecl)
			if !ok || gd.Tok != token.CONST {
				return true
			}
			for _, sp := range gd.Specs {
				vs, ok := sp.(*ast.ValueSpec)
				if !ok {
					continue
				}
				for i, id := range vs.Names {
					if i < len(vs.Values) {
						constDefs[id.Name] = append(constDefs[id.Name], vs.Values[i])
					}
				}
			}
			return true
		})
	}
}

// litVal evaluates an integer constant expression: literals, named constants of the scanned packages,
// parentheses, integer conversions and + - * << | over those.
func litVal(e ast.Expr) (uint64, bool) { return litValD(e, 0) }

func litValD(e ast.Expr, depth int) (uint64, bool) {
	if depth > 16 {
		return 0, false
	}
	switch n := e.(type) {
	case *ast.ParenExpr:
		return litValD(n.X, depth+1)
	case *ast.BasicLit:
		if n.Kind != token.INT {
			return 0, false
		}
		v, err := strconv.ParseUint(strings.ReplaceAll(n.Value, "_", ""), 0, 64)
		return v, err == nil
	case *ast.Ident:
		defs := constDefs[n.Name]
		if len(defs) == 0 {
			return 0, false
		}
		var val uint64
		for i, d := range defs {
			v, ok := litValD(d, depth+1)
			if !ok || (i > 0 && v != val) {
				return 0, false
			}
			val = v
		}
		return val, true
	case *ast.CallExpr:
		switch selName(n.Fun) {
		case "int", "uint", "uint64", "int64", "uint32", "int32", "uint16", "uint8", "byte":
			if len(n.Args) == 1 {
				return litValD(n.Args[0], depth+1)
			}
		}
		return 0, false
	case *ast.BinaryExpr:
		a, ok1 := litValD(n.X, depth+1)
		b, ok2 := litValD(n.Y, depth+1)
		if !ok1 || !ok2 {
			return 0, false
		}
		switch n.Op {
		case token.ADD:
			return a + b, true
		case token.SUB:
			if b > a {
				return 0, false
			}
			return a - b, true
		case token.MUL:
			return a * b, true
		case token.SHL:
			if b >= 64 {
				return 0, false
			}
			return a << b, true
		case token.OR:
			return a | b, true
		}
	}
	return 0, false
}

// constValue finds `const name [type] = <int literal>` anywhere under n.
func constValue(n ast.Node, name string) (uint64, bool) {
	var val uint64
	found := false
	ast.Inspect(n, func(x ast.Node) bool {
		vs, ok := x.(*ast.ValueSpec)
		if !ok {
			return true
		}
		for i, id := range vs.Names {
			if id.Name == name && i < len(vs.Values) {
				if v, ok := litVal(vs.Values[i]); ok {
					val, found = v, true
				}
			}
		}
		return true
	})
	return val, found
}

func selName(e ast.Expr) string {
	switch x := e.(type) {
	case *ast.Ident:
		return x.Name
	case *ast.SelectorExpr:
		return selName(x.X) + "." + x.Sel.Name
	}
	return ""
}

type facts struct {
	names []string
	vals  map[string]string
}

func (f *facts) set(name string, v uint64, ok bool, what string) {
	if !ok {
		problemFor([]string{name}, "fact %s: %s not found in the expected shape", name, what)
		return
	}
	f.names = append(f.names, name)
	f.vals[name] = fmt.Sprintf("0x%x", v)
	groupNames[curGroup] = append(groupNames[curGroup], "Facts."+name)
}

func murmurFacts(fc *facts) {
	f := parseFile("util/murmur/murmur.go")
	fn := findFunc(f, "", "Hash")
	if fn == nil {
		problem("murmur.Hash not found")
		return
	}
	c1, ok1 := constValue(fn, "c1")
	c2, ok2 := constValue(fn, "c2")
	fc.set("murmurC1", c1, ok1, "const c1")
	fc.set("murmurC2", c2, ok2, "const c2")
	var rots, shifts, muls []uint64
	var mulM, addN uint64
	haveMA := false
	ast.Inspect(fn, func(x ast.Node) bool {
		switch n := x.(type) {
		case *ast.CallExpr:
			if selName(n.Fun) == "bits.RotateLeft32" && len(n.Args) == 2 {
				if v, ok := litVal(n.Args[1]); ok {
					rots = append(rots, v)
				}
			}
		case *ast.AssignStmt:
			if len(n.Rhs) != 1 {
				return true
			}
			switch n.Tok {
			case token.XOR_ASSIGN:
				if b, ok := n.Rhs[0].(*ast.BinaryExpr); ok && b.Op == token.SHR {
					if id, ok := b.X.(*ast.Ident); ok && id.Name == selName(n.Lhs[0]) {
						if v, ok := litVal(b.Y); ok {
							shifts = append(shifts, v)
						}
					}
				}
			case token.MUL_ASSIGN:
				if v, ok := litVal(n.Rhs[0]); ok {
					muls = append(muls, v)
				}
			case token.ASSIGN:
				if b, ok := n.Rhs[0].(*ast.BinaryExpr); ok && b.Op == token.ADD {
					if m, ok := b.X.(*ast.BinaryExpr); ok && m.Op == token.MUL {
						mv, ok1 := litVal(m.Y)
						av, ok2 := litVal(b.Y)
						if ok1 && ok2 {
							mulM, addN, haveMA = mv, av, true
						}
					}
				}
			}
		}
		return true
	})
	if len(rots) == 4 && rots[0] == rots[2] && rots[0] == rots[3] {
		// body k1, body h1, tail k1 (the tail mixes k1 once)
		fc.set("murmurR1", rots[0], true, "")
		fc.set("murmurR2", rots[1], true, "")
	} else if len(rots) == 3 && rots[0] == rots[2] {
		fc.set("murmurR1", rots[0], true, "")
		fc.set("murmurR2", rots[1], true, "")
	} else {
		problem("murmur rotations have unexpected shape %v", rots)
	}
	fc.set("murmurM", mulM, haveMA, "h1*M + N")
	fc.set("murmurN", addN, haveMA, "h1*M + N")
	// the mixing steps multiply by the named constants c1/c2 (folded by litVal); the finalizer's factors come last
	for len(muls) > 2 && ok1 && ok2 && (muls[0] == c1 || muls[0] == c2) {
		muls = muls[1:]
	}
	if len(shifts) == 3 && len(muls) == 2 {
		fc.set("murmurS1", shifts[0], true, "")
		fc.set("murmurF1", muls[0], true, "")
		fc.set("murmurS2", shifts[1], true, "")
		fc.set("murmurF2", muls[1], true, "")
		fc.set("murmurS3", shifts[2], true, "")
	} else {
		problem("murmur finalizer has unexpected shape shifts=%v muls=%v", shifts, muls)
	}
}

// indexAssignLit finds `<x>[<idx>] = <int literal>` statements in a function, in order.
func indexAssignLits(fn *ast.FuncDecl) []uint64 {
	var out []uint64
	ast.Inspect(fn, func(x ast.Node) bool {
		as, ok := x.(*ast.AssignStmt)
		if !ok || as.Tok != token.ASSIGN || len(as.Lhs) != 1 || len(as.Rhs) != 1 {
			return true
		}
		if _, ok := as.Lhs[0].(*ast.IndexExpr); !ok {
			return true
		}
		if v, ok := litVal(as.Rhs[0]); ok {
			out = append(out, v)
		}
		return true
	})
	return out
}

func schemaFacts(fc *facts) {
	f := parseFile("workers/operator/keyed_state_store.go")
	a := indexAssignLits(findFuncOr(f, "KeyedStateStore", "encodeDBKey"))
	b := indexAssignLits(findFuncOr(f, "KeyedStateStore", "encodeSubjectKey"))
	if len(a) == 1 && len(b) == 1 && a[0] == b[0] {
		fc.set("schemaState", a[0], true, "")
	} else {
		problem("state schema byte: encodeDBKey %v encodeSubjectKey %v", a, b)
	}
	g := parseFile("workers/operator/timer_store.go")
	c := indexAssignLits(findFuncOr(g, "TimerStore", "encodeTimerKey"))
	d := indexAssignLits(findFuncOr(g, "KeyGroupPriorityQueue", "loadFromDB"))
	if len(c) == 1 && len(d) == 1 && c[0] == d[0] {
		fc.set("schemaTimer", c[0], true, "")
	} else {
		problem("timer schema byte: encodeTimerKey %v loadFromDB %v", c, d)
	}
}

func findFuncOr(f *ast.File, recv, name string) *ast.FuncDecl {
	fn := findFunc(f, recv, name)
	if fn == nil {
		problem("function %s.%s not found", recv, name)
		return &ast.FuncDecl{Name: ast.NewIdent(name), Body: &ast.BlockStmt{}}
	}
	return fn
}

// ---- expression translator for whitelisted straight-line functions ----

type fnSpec struct {
	file, recv, name string
	leanName         string
	leanSig          string            // binder list and result type
	idents           map[string]string // Go selector/ident -> Lean term
}

type xlate struct {
	spec     *fnSpec
	lets     map[string]string
	err      error
	recvName string // the receiver's name in the function being translated
	rename   map[string]string // actual receiver / parameter name -> canonical name
}

// canon rewrites the head of a selector path (`tbl.startKey` -> `t.startKey`) to the canonical name.
func (x *xlate) canon(s string) string {
	head, rest, _ := strings.Cut(s, ".")
	if c, ok := x.rename[head]; ok {
		if rest == "" {
			return c
		}
		return c + "." + rest
	}
	return s
}

// canonical names the `idents` tables are written in: the receiver per type and the parameters per function, by
// position, so that renaming a receiver or a parameter in the source does not take a function out of the whitelist
var canonRecv = map[string]string{"KeyGroupRange": "r", "Table": "t"}
var canonParams = map[string][]string{
	"Overlaps": {"other"}, "Contains": {"other"}, "IncludesKeyGroup": {"kg"}, "IndexOf": {"kg"},
	"RangeContainsKey": {"key"}, "RangeKeyCompare": {"key"}, "RangeContainsPrefix": {"prefix"}, "RangePrefixCompare": {"prefix"},
	"keepNewest": {"a", "b"}, "AscendingEntries": {"a", "b"},
}

// recvArgs: the Lean arguments that stand for the receiver in the generated signature of a whitelisted method.
var recvArgs = map[string]string{"KeyGroupRange": "r", "Table": "startKey endKey"}

func (x *xlate) fail(format string, a ...any) string {
	if x.err == nil {
		x.err = fmt.Errorf(format, a...)
	}
	return "sorryUntranslatable"
}

var cmpOps = map[token.Token]string{token.LSS: "<", token.LEQ: "≤", token.GTR: ">", token.GEQ: "≥", token.EQL: "=", token.NEQ: "≠"}
var arithOps = map[token.Token]string{token.ADD: "+", token.SUB: "-", token.MUL: "*", token.QUO: "/", token.REM: "%"}

func (x *xlate) expr(e ast.Expr) string {
	switch n := e.(type) {
	case *ast.ParenExpr:
		return "(" + x.expr(n.X) + ")"
	case *ast.BasicLit:
		if v, ok := litVal(n); ok {
			return strconv.FormatUint(v, 10)
		}
		return x.fail("literal %s", n.Value)
	case *ast.Ident, *ast.SelectorExpr:
		s := selName(e)
		if v, ok := x.lets[s]; ok {
			return v
		}
		if v, ok := x.spec.idents[x.canon(s)]; ok {
			return v
		}
		if v, ok := litVal(e); ok {
			return strconv.FormatUint(v, 10)
		}
		return x.fail("unknown identifier %s", s)
	case *ast.UnaryExpr:
		if n.Op == token.NOT {
			return "(!" + x.expr(n.X) + ")"
		}
		if n.Op == token.SUB {
			return "(-" + x.expr(n.X) + ")"
		}
		return x.fail("unary %s", n.Op)
	case *ast.BinaryExpr:
		if op, ok := cmpOps[n.Op]; ok {
			return "decide (" + x.expr(n.X) + " " + op + " " + x.expr(n.Y) + ")"
		}
		if op, ok := arithOps[n.Op]; ok {
			return "(" + x.expr(n.X) + " " + op + " " + x.expr(n.Y) + ")"
		}
		if n.Op == token.LAND {
			return "(" + x.expr(n.X) + " && " + x.expr(n.Y) + ")"
		}
		if n.Op == token.LOR {
			return "(" + x.expr(n.X) + " || " + x.expr(n.Y) + ")"
		}
		return x.fail("binary %s", n.Op)
	case *ast.CallExpr:
		fn := selName(n.Fun)
		switch fn {
		case "int", "uint64", "int64", "uint32", "uint16", "KeyGroup":
			if len(n.Args) == 1 {
				return x.expr(n.Args[0])
			}
		case "bytes.Compare":
			if len(n.Args) == 2 {
				return "(cmpInt " + x.expr(n.Args[0]) + " " + x.expr(n.Args[1]) + ")"
			}
		case "bytes.HasPrefix":
			if len(n.Args) == 2 {
				return "(Bytes.hasPrefix " + x.expr(n.Args[0]) + " " + x.expr(n.Args[1]) + ")"
			}
		}
		if v, ok := x.spec.idents[x.canon(fn)+"()"]; ok && len(n.Args) == 0 {
			return v
		}
		// a call of another whitelisted method on the same receiver: use its generated definition
		if sel, ok := n.Fun.(*ast.SelectorExpr); ok && x.recvName != "" && selName(sel.X) == x.recvName {
			for i := range fnSpecs {
				sp := &fnSpecs[i]
				if sp.recv == x.spec.recv && sp.recv != "" && sp.name == sel.Sel.Name && sp.leanName != x.spec.leanName {
					if ra, ok := recvArgs[sp.recv]; ok {
						args := ""
						for _, a := range n.Args {
							args += " " + x.expr(a)
						}
						return "(" + sp.leanName + " " + ra + args + ")"
					}
				}
			}
		}
		return x.fail("call %s", fn)
	}
	return x.fail("expression %T", e)
}

// body translates `x := e` prefixes, `if c { return a }` chains and a final `return e`.
func (x *xlate) body(stmts []ast.Stmt) string {
	if len(stmts) == 0 {
		return x.fail("empty body")
	}
	switch s := stmts[0].(type) {
	case *ast.AssignStmt:
		if s.Tok == token.DEFINE && len(s.Lhs) == 1 && len(s.Rhs) == 1 {
			if id, ok := s.Lhs[0].(*ast.Ident); ok {
				x.lets[id.Name] = "(" + x.expr(s.Rhs[0]) + ")"
				return x.body(stmts[1:])
			}
		}
		return x.fail("assignment form")
	case *ast.IfStmt:
		if s.Init == nil && s.Else == nil && len(s.Body.List) == 1 {
			if r, ok := s.Body.List[0].(*ast.ReturnStmt); ok && len(r.Results) == 1 {
				return "if " + x.expr(s.Cond) + " then " + x.expr(r.Results[0]) + " else " + x.body(stmts[1:])
			}
		}
		return x.fail("if form")
	case *ast.ReturnStmt:
		if len(s.Results) == 1 && len(stmts) == 1 {
			return x.expr(s.Results[0])
		}
		return x.fail("return form")
	case *ast.SwitchStmt:
		// tagless `switch { case c1, c2: return a … default: return d }` = an if-chain
		if s.Init != nil || s.Tag != nil {
			return x.fail("switch with tag or init")
		}
		out := ""
		var deflt *ast.CaseClause
		for _, c := range s.Body.List {
			cc, ok := c.(*ast.CaseClause)
			if !ok {
				return x.fail("switch clause")
			}
			if cc.List == nil {
				deflt = cc
				continue
			}
			if len(cc.Body) != 1 {
				return x.fail("switch case body")
			}
			r, ok := cc.Body[0].(*ast.ReturnStmt)
			if !ok || len(r.Results) != 1 {
				return x.fail("switch case body")
			}
			cond := x.expr(cc.List[0])
			for _, e := range cc.List[1:] {
				cond = "(" + cond + " || " + x.expr(e) + ")"
			}
			out += "if " + cond + " then " + x.expr(r.Results[0]) + " else "
		}
		if deflt != nil {
			if len(stmts) != 1 {
				return x.fail("statements after a switch with default")
			}
			return out + x.body(deflt.Body)
		}
		return out + x.body(stmts[1:])
	}
	return x.fail("statement %T", stmts[0])
}

var kgIdents = map[string]string{"r.Start": "r.start", "r.End": "r.stop", "other.Start": "o.start", "other.End": "o.stop", "kg": "kg"}
var tblIdents = map[string]string{"t.startKey": "startKey", "t.endKey": "endKey", "key": "key", "prefix": "pfx"}

var fnSpecs = []fnSpec{
	{"partitioning/key_group_range.go", "KeyGroupRange", "Overlaps", "kgOverlaps", "(r o : KGRange) : Bool", kgIdents},
	{"partitioning/key_group_range.go", "KeyGroupRange", "Contains", "kgContains", "(r o : KGRange) : Bool", kgIdents},
	{"partitioning/key_group_range.go", "KeyGroupRange", "IncludesKeyGroup", "kgIncludes", "(r : KGRange) (kg : Nat) : Bool", kgIdents},
	{"partitioning/key_group_range.go", "KeyGroupRange", "Size", "kgSize", "(r : KGRange) : Nat", kgIdents},
	{"partitioning/key_group_range.go", "KeyGroupRange", "IndexOf", "kgIndexOf", "(r : KGRange) (kg : Nat) : Nat", kgIdents},
	{"dkv/sst/table.go", "Table", "RangeContainsKey", "tblRangeContainsKey", "(startKey endKey key : Bytes) : Bool", tblIdents},
	{"dkv/sst/table.go", "Table", "RangeContainsPrefix", "tblRangeContainsPrefix", "(startKey endKey pfx : Bytes) : Bool", tblIdents},
	{"dkv/sst/table.go", "Table", "RangeKeyCompare", "tblRangeKeyCompare", "(startKey endKey key : Bytes) : Int", tblIdents},
	{"dkv/sst/table.go", "Table", "RangePrefixCompare", "tblRangePrefixCompare", "(startKey endKey pfx : Bytes) : Int", tblIdents},
}

func main() {
	flag.StringVar(&repo, "repo", "/repo", "repository root")
	out := flag.String("out", "/verif/lean/RxnModel/Generated", "output directory")
	flag.String("problems", "", "write problems (json, attributed to groups) to this file")
	flag.Parse()

	problemsOut := flag.Lookup("problems").Value.String()
	fc := &facts{vals: map[string]string{}}
	curGroup = "core:murmur"
	murmurFacts(fc)
	curGroup = "core:schema"
	schemaFacts(fc)
	extraFacts(fc)

	var fb strings.Builder
	fb.WriteString("-- GENERATED by tools/gofacts from /repo sources on every check run. Do not edit.\nnamespace Rxn.Facts\n")
	sort.Strings(fc.names)
	for _, n := range fc.names {
		fmt.Fprintf(&fb, "def %s : Nat := %s\n", n, fc.vals[n])
	}
	fb.WriteString("end Rxn.Facts\n")
	_ = fb
	// A fact that could not be re-derived keeps its last good value (so the model still compiles, the problem is
	// attributed to its name, and ./check decides by fall-back correspondence or reports a broken obligation);
	// every other fact is refreshed from the current source even then.
	{
		oldVals := map[string]string{}
		if b, err := os.ReadFile(filepath.Join(*out, "Facts.lean")); err == nil {
			for _, line := range strings.Split(string(b), "\n") {
				var n, v string
				if _, err := fmt.Sscanf(line, "def %s : Nat := %s", &n, &v); err == nil {
					oldVals[n] = v
				}
			}
		}
		merged := map[string]string{}
		for n, v := range oldVals {
			merged[n] = v
		}
		for _, n := range fc.names {
			merged[n] = fc.vals[n]
		}
		if len(problems) == 0 {
			merged = map[string]string{}
			for _, n := range fc.names {
				merged[n] = fc.vals[n]
			}
		}
		var names []string
		for n := range merged {
			names = append(names, n)
		}
		sort.Strings(names)
		var mb strings.Builder
		mb.WriteString("-- GENERATED by tools/gofacts from /repo sources on every check run. Do not edit.\nnamespace Rxn.Facts\n")
		for _, n := range names {
			fmt.Fprintf(&mb, "def %s : Nat := %s\n", n, merged[n])
		}
		mb.WriteString("end Rxn.Facts\n")
		writeIfChanged(filepath.Join(*out, "Facts.lean"), mb.String())
	}

	var sb strings.Builder
	sb.WriteString("-- GENERATED by tools/gofacts from /repo sources on every check run. Do not edit.\n-- Fresh translations of the whitelisted one-line functions. The models and proofs use the stable forms in\n-- Generated/Fns.lean (namespace Rxn.Gen); Generated/Tie/<name>.lean proves `Gen.f = GenSrc.f` on every run.\nimport RxnModel.Base.Types\nnamespace Rxn.GenSrc\nopen Rxn\n\n")
	files := map[string]*ast.File{}
	oldBlocks := map[string]string{} // lean name -> last good "/-- … -/\ndef …" block
	if b, err := os.ReadFile(filepath.Join(*out, "FnsSrc.lean")); err == nil {
		for _, blk := range strings.Split(string(b), "\n\n") {
			if i := strings.Index(blk, "\ndef "); i >= 0 && strings.HasPrefix(blk, "/--") {
				name := strings.Fields(blk[i+5:])[0]
				oldBlocks[name] = blk
			}
		}
	}
	fnProblems := 0
	keepOld := func(sp *fnSpec) {
		fnProblems++
		if blk, ok := oldBlocks[sp.leanName]; ok {
			sb.WriteString(blk + "\n\n")
		}
	}
	for i := range fnSpecs {
		sp := &fnSpecs[i]
		curGroup = "fn:" + sp.leanName
		groupNames[curGroup] = append(groupNames[curGroup], "Gen."+sp.leanName)
		f, ok := files[sp.file]
		if !ok {
			f = parseFile(sp.file)
			files[sp.file] = f
		}
		fn := findFunc(f, sp.recv, sp.name)
		if fn == nil || fn.Body == nil {
			problem("function %s.%s not found in %s", sp.recv, sp.name, sp.file)
			keepOld(sp)
			continue
		}
		x := &xlate{spec: sp, lets: map[string]string{}}
		x.rename = map[string]string{}
		if fn.Recv != nil && len(fn.Recv.List) == 1 && len(fn.Recv.List[0].Names) == 1 {
			x.recvName = fn.Recv.List[0].Names[0].Name
			if c, ok := canonRecv[sp.recv]; ok {
				x.rename[x.recvName] = c
			}
		}
		if cp, ok := canonParams[sp.name]; ok && fn.Type.Params != nil {
			i := 0
			for _, f := range fn.Type.Params.List {
				for _, nm := range f.Names {
					if i < len(cp) {
						x.rename[nm.Name] = cp[i]
					}
					i++
				}
			}
		}
		body := x.body(fn.Body.List)
		if x.err != nil {
			problem("%s.%s no longer translatable: %v", sp.recv, sp.name, x.err)
			keepOld(sp)
			continue
		}
		fmt.Fprintf(&sb, "/-- `%s.%s` (%s) -/\ndef %s %s :=\n  %s\n\n", sp.recv, sp.name, sp.file, sp.leanName, sp.leanSig, body)
	}
	sb.WriteString("end Rxn.GenSrc\n")
	writeIfChanged(filepath.Join(*out, "FnsSrc.lean"), sb.String())
	// one tie module per function: the stable form used by models and proofs equals the fresh translation
	os.MkdirAll(filepath.Join(*out, "Tie"), 0o755)
	var allNames []string
	for i := range fnSpecs {
		allNames = append(allNames, "Gen."+fnSpecs[i].leanName, "GenSrc."+fnSpecs[i].leanName)
	}
	for i := range fnSpecs {
		sp := &fnSpecs[i]
		binders, args := tieBinders(sp.leanSig)
		var tb strings.Builder
		tb.WriteString("-- GENERATED by tools/gofacts on every check run. Do not edit.\nimport RxnModel.Generated.Fns\nimport RxnModel.Generated.FnsSrc\nopen Rxn\n\n")
		fmt.Fprintf(&tb, "/-- the stable form of `%s.%s` that the models and proofs use is what the source says now -/\n", sp.recv, sp.name)
		fmt.Fprintf(&tb, "theorem Rxn.GenTie.%s %s : Gen.%s %s = GenSrc.%s %s := by\n", sp.leanName, binders, sp.leanName, args, sp.leanName, args)
		fmt.Fprintf(&tb, "  try simp only [%s]\n", strings.Join(allNames, ", "))
		tb.WriteString("  all_goals (first | rfl | grind [cmpInt_cases] | (split <;> simp_all <;> omega))\n")
		writeIfChanged(filepath.Join(*out, "Tie", sp.leanName+".lean"), tb.String())
	}
	if len(problems) == 0 {
		// which group defines which Lean names (kept from the last good run; used to attribute later problems)
		b, _ := json.MarshalIndent(groupNames, "", " ")
		writeIfChanged(filepath.Join(*out, "groups.json"), string(b)+"\n")
	}
	if problemsOut != "" {
		b, _ := json.MarshalIndent(groupedProblems, "", " ")
		os.WriteFile(problemsOut, b, 0o644)
	}
	if len(problems) > 0 {
		for _, p := range groupedProblems {
			fmt.Fprintf(os.Stderr, "gofacts: [%s] %s\n", p.Group, p.Msg)
		}
		os.Exit(3)
	}
}

// tieBinders splits a generated signature "(r o : KGRange) (kg : Nat) : Bool" into its binder part and the
// explicit argument names "r o kg".
func tieBinders(sig string) (binders, args string) {
	depth, cut := 0, len(sig)
	for i, c := range sig {
		switch c {
		case '(', '{':
			depth++
		case ')', '}':
			depth--
		case ':':
			if depth == 0 {
				cut = i
			}
		}
		if cut != len(sig) {
			break
		}
	}
	binders = strings.TrimSpace(sig[:cut])
	var names []string
	rest := binders
	for {
		i := strings.Index(rest, "(")
		if i < 0 {
			break
		}
		j := strings.Index(rest[i:], ":")
		if j < 0 {
			break
		}
		names = append(names, strings.Fields(rest[i+1:i+j])...)
		k := strings.Index(rest[i:], ")")
		if k < 0 {
			break
		}
		rest = rest[i+k+1:]
	}
	return binders, strings.Join(names, " ")
}

func writeIfChanged(path, content string) {
	old, err := os.ReadFile(path)
	if err == nil && string(old) == content {
		return
	}
	if err := os.WriteFile(path, []byte(content), 0o644); err != nil {
		fmt.Fprintln(os.Stderr, err)
		os.Exit(2)
	}
}
