#!/usr/bin/env python3
"""Regenerates /verif/assumptions.json (per-property assumption lists written into every evidence file) from the
as-built notes of the builders: design/<id>.manifest.json "level_note" (split into sentences) plus explicit lists in
design/<id>.assumptions.json when present."""
import json, os, re
V = os.path.dirname(os.path.dirname(os.path.abspath(__file__)))
out = {}
for i in range(1, 21):
    pid = f"C{i:02d}"
    items = []
    try:
        items += json.load(open(os.path.join(V, "design", f"{pid}.assumptions.json")))
    except (OSError, ValueError):
        pass
    try:
        note = json.load(open(os.path.join(V, "design", f"{pid}.manifest.json"))).get("level_note", "")
        items += [s.strip() for s in re.split(r"(?<=[.;])\s+(?=[A-Z`(])", note) if len(s.strip()) > 8]
    except (OSError, ValueError):
        pass
    if items:
        out[pid] = items
json.dump(out, open(os.path.join(V, "assumptions.json"), "w"), indent=1)
print({k: len(v) for k, v in out.items()})
