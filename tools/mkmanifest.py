#!/usr/bin/env python3
"""Regenerates /verif/MANIFEST.json from the table below (keeps it schema-valid)."""
import json, os, subprocess
V = os.path.dirname(os.path.dirname(os.path.abspath(__file__)))
props = [json.loads(l) for l in open(os.path.join(V, "properties.jsonl"))]

# id -> (engine, technique, level text, level note, design ref)
CLAIMED = {
 "C05": ("lean+lockstep", "Lean 4 theorems over a model of key-space/murmur/key encoders; regenerated constants and one-liners (gofacts); lockstep differential correspondence",
   "Proved for all key-group counts 1..65535, operator counts and keys: ranges partition [0,kgc) contiguously with sizes differing by at most one; the router's table lookup returns the unique range containing the key's group; state and timer keys are owned by exactly that range; murmur model reproduces the reference vectors (kernel decide). The model is tied to the code by regenerated constants/functions and by lockstep comparison of ranges, hashes, groups, routing (real operatorCluster), encoders and OwnsKey.",
   "Lean kernel; gofacts translator; harness. uint16 narrowing in NewKeySpace proved harmless; Go int overflow not modelled (values <= 70000).", "8/C05"),
}

hooks_commits = subprocess.run(["git", "-C", "/repo", "log", "--format=%h %s", "160f5f0..HEAD"], capture_output=True, text=True).stdout.splitlines()
m = {
 "version": 1,
 "setup_cmd": "./check --setup",
 "hooks": {"guard": "verif", "enable": "go build -tags verif -overlay /verif/.cache/overlay.json (generated protobuf code is grafted with -overlay; /repo is not modified)",
           "baseline_off_cmd": "cd /repo && go test -mod=mod -json -vet=off -count=1 -timeout 25m ./...",
           "source_commits": [c.split()[0] for c in hooks_commits if c.split(None, 1)[1].startswith("verif hooks")],
           "add_only": True},
 "engines": [
   {"name": "lean+lockstep", "path": "lean/ harness/cmd/corr", "serves_properties": [k for k, v in CLAIMED.items() if v[0] == "lean+lockstep"], "kind_free_text": "Lean 4 model + theorems; lockstep differential correspondence between the model's executable definitions (compiled driver) and the real Go code in-process"},
   {"name": "lean+tracevalidation", "path": "lean/ harness/cmd/corr", "serves_properties": [k for k, v in CLAIMED.items() if v[0] == "lean+tracevalidation"], "kind_free_text": "Lean 4 transition-system model + theorems; traces of the real concurrent code (hook-scheduled) validated step by step against the model"},
 ],
 "checks": [],
 "notes": "All checks: ./check <id> quick|thorough. Evidence level 'proof': obligations = property theorems in lean/RxnModel/Props/<id>.lean, discharged = kernel-checked with only propext/Classical.choice/Quot.sound; evaluations etc. describe the model↔code correspondence run.",
 "not_applicable": [],
}
for p in props:
    i = p["id"]
    if i in CLAIMED:
        eng, tech, text, note, ref = CLAIMED[i]
        m["checks"].append({"property_id": i, "quick_cmd": f"./check {i} quick", "thorough_cmd": f"./check {i} thorough",
            "evidence_file": f"/verif/evidence/{i}.json", "replay_cmd_template": f"./check {i} --replay {{path}}", "engine": eng,
            "level_claimed": {"category": "proof", "text": text, "design_ref": ref}, "level_note": note, "technique": tech})
    else:
        m["not_applicable"].append({"property_id": i, "reason": "check not built yet (framework under construction; plan in DESIGN.md section 8)"})
json.dump(m, open(os.path.join(V, "MANIFEST.json"), "w"), indent=1)
print("claimed:", sorted(CLAIMED))
