#!/usr/bin/env python3
"""Regenerates /verif/MANIFEST.json from the table below (keeps it schema-valid)."""
import json, os, subprocess
V = os.path.dirname(os.path.dirname(os.path.abspath(__file__)))
props = [json.loads(l) for l in open(os.path.join(V, "properties.jsonl"))]

# id -> (engine, technique, level text, level note, design ref)
CLAIMED = {
 "C05": ("lean+lockstep", "Lean 4 theorems over a model of key-space/murmur/key encoders; regenerated constants and one-liners (gofacts); lockstep differential correspondence",
   "Proved for all key-group counts 1..65535, operator counts and keys: ranges partition [0,kgc) contiguously with sizes differing by at most one; the router's table lookup returns the unique range containing the key's group; state and timer keys are owned by exactly that range; murmur model reproduces the reference vectors (kernel decide). The model is tied to the code by regenerated constants/functions and by lockstep comparison of ranges, hashes, groups, routing (real operatorCluster), encoders and OwnsKey.",
   "Lean kernel; gofacts translator; harness. uint16 narrowing in NewKeySpace proved harmless; Go int overflow not modelled (values <= 70000).", "8/C05"),
 "C20": ("lean+tracevalidation", "Lean 4 all-schedule theorems for the batcher and the ReorderFetcher/ReorderBuffer transition system + lockstep on EventBatcher and hook-based trace validation of the real ReorderFetcher",
   "All-schedule theorems for the batcher (concatenation of handed-out batches + current = items added; stale token flushes nothing; timer token is the current batch's) and for the ReorderFetcher/ReorderBuffer transition system at mutex-section granularity (in-order output, prefix, completeness at rest, capacity, mutual exclusion of the two flushers), tied by lockstep on EventBatcher with the real FakeTimer and hook-based trace validation of the real ReorderFetcher under a cooperative scheduler.",
   "Model is the code after the D17 repair; the unrepaired model's reordering witness is kept as a theorem and a regression trace. Output back-pressure and interleavings inside Add/IsFull are modelled but not schedulable without more hooks; SystemTimer real time not covered.", "8/C20"),
 "C04": ("lean+tracevalidation", "Lean 4 every-schedule theorem (each operator's stream = projection of the read order) + end-to-end stream comparison on the real SourceRunner under adversarial scheduling",
   "Every-schedule theorem that each operator's stream is the projection of the read order (exactly-once, per-split key order, broadcasts never overtake) for the runner's delivery path (read loop, reorder fetcher spec, join, routing, per-operator batcher and sender), tied by end-to-end stream comparison on the real SourceRunner with a scripted reader, gated KeyEventBatch, recording operators with back-pressure, fireable batch timers and flushers parked at hooks.",
   "The reorder fetcher is represented by its C20-proved spec; ticker watermarks (real 200 ms ticker) and the operator-side handler are not compared; stirring is timing-assisted (yield/await), verdicts on the correct tree do not depend on timing.", "8/C04"),
 "C07": ("lean+tracevalidation", "Lean 4 refinement proof (LSM transition system refines a last-write-wins map, for Get, two-phase Get and ScanPrefix) + hook-scheduled trace validation of the real dkv.DB",
   "Proved for every history of puts, deletes, memtable rotations, flush begins/commits, compaction commits and reads: Get (also a Get whose memtable and sstable phases are separated by arbitrary background commits) returns the last written entry, and ScanPrefix returns exactly the live latest entries with the prefix in strictly ascending key order. The invariant (sorted runs, newer-above sequence numbers, read-order view = spec, range-unique deeper levels) is proved preserved by every step; the compaction step is the obligation CompactionSound discharged in C18 (the _noCompact theorems are unconditional). Tied to the real dkv.DB by trace validation: generated schedules with tiny memtables where flush/compaction tasks and readers are parked and released at hook points, every read compared with the model and with the map spec.",
   "Memtable (zip tree), table file, k-way merge and level binary search are abstracted by their specs proved in C19/C17; rotation timing and compaction picking are free actions (every size setting covered); Go memory model below the mutex sections trusted. Model describes the code after repairs D1-D5.", "8/C07"),
 "C19": ("lean+lockstep", "Lean 4 theorems (refinement of sorted-list specifications) + regenerated compare/pick functions + lockstep on the real structures",
   "Proved for all operation sequences, keys, priorities and (zip tree) all rank outcomes: SearchUnique finds exactly the matching element on strictly ascending input incl. the table-range level lookup; heap push/pop/fix keep order and contents and pop a minimum; MergeSorted is a sorted permutation and Merge/kv.MergeEntries yields one newest entry per key; the zip tree, SortedCache (byte accounting), Set, SortedMap and the partitioned queue (Peek = global minimum) refine sorted-list specifications. Tied to the code by regenerated compare/pick functions and lockstep comparison of every exported method on the real structures, plus theorem instances evaluated on the implementation.",
   "Lean kernel; gofacts; harness. google/btree and slices.BinarySearch trusted; Partition.Index() abstracted to heap position (checked by lockstep); uint64 counters as Nat; iterator early-termination not modelled.", "8/C19"),
 "C17": ("lean+lockstep", "Lean 4 theorems over byte-level codec models + regenerated constants + byte-exact differential runs against the real writers/readers",
   "Proved for all runs, keys, prefixes and WAL histories: entry/record codecs invert; Table.Get on the written file equals lookup in the sorted run (including below-first, after-last and bloom false positives); ScanPrefix equals the prefix filter; footer loading recovers the writer's bloom filter and index; the bloom filter has no false negatives; WriteRun chunks concatenate to the input with non-empty, ordered, disjoint ranges; the WAL reader returns exactly the records after the marker, and after any put/delete/cut/truncate/rotate history the saved file replays everything newer than the truncations. Tied by regenerated constants and byte-exact differential runs against the real writers and readers.",
   "Lean kernel plus leanchecker; gofacts; harness. Offsets < 2^32, consecutive seqNums and marker >= truncations are hypotheses; slices.BinarySearchFunc is modelled as its loop and proved; the WriteRun size bounds are not proved; malformed-file error paths are compared empirically only; the model describes the code after repairs D19/D27/D29/D30/D31.", "8/C17"),
 "C10": ("lean+lockstep", "Lean 4 refinement proof (cache/store/registry model refines a timer-set spec) + lockstep on the real TimerRegistry over a real DKV",
   "Machine-checked refinement of the line-by-line cache, store and registry model to a timer-set spec for every cache size, key-group range, history of registrations/advances and restore point: exactly-once, ordered firing, idempotent registration, pending set preserved by restore. Tied by lockstep on the real TimerRegistry/TimerStore/KeyGroupPriorityQueue over a real in-memory DKV with checkpoint and reopen at arbitrary points.",
   "DKV and partition heap are represented by their specs (C07/C08, C19); 0 <= t < 2^63; the operator-level fire loop with interleaved flushes is tied by lockstep only.", "8/C10"),
 "C11": ("lean+lockstep", "Lean 4 theorems over the watermarker/registry/operator watermark path + regenerated comparisons + lockstep on the real Watermarker, runner send path and Operator",
   "Proved for every timestamp sequence, runner count and interleaving: per-runner watermark monotone, strictly below the max forwarded timestamp and equal to max - (lateness+1); composite = min over upstreams with epoch default; the handler is told the composite; no timer above it fires. Tied by regenerated comparisons and constants plus lockstep on the real Watermarker, SourceRunner send path and Operator event loop (exhaustive interleavings for 2-3 runners).",
   "Before the first watermark message the handler-visible field is time.Time{} (modelled as it is); pre-epoch timestamps excluded by hypothesis.", "8/C11"),
 "C02": ("lean+tracevalidation", "Lean 4 invariant proofs over a transition system of the operator's alignment + hook-controlled trace validation of the real operator",
   "The consistent cut, blocking of post-barrier items, id-mismatch rejection and fresh barriers for consecutive checkpoints are proved in Lean for every sender count, script, batch size and interleaving of the modelled atomic sections. The model is tied to the real operator.Operator by hook-controlled trace validation of generated schedules, including exhaustive small interleavings, with the DKV checkpoint read back.",
   "The model assumes the job ack and db.Checkpoint succeed, senders are sequential and in SourceRunnerIds, no SourceComplete events. Scheduling below the RWMutex/channel sections is trusted; the DKV store is abstracted as a map (C07/C08).", "8/C02"),
 "C16": ("lean+lockstep", "Lean 4 theorems over models of the runner cut, Partition, Kinesis split tracker/splitter + lockstep/trace correspondence with the real splitter, kinesisfake and SourceRunner",
   "Proved in Lean for all histories: the runner loop's checkpoint reports equal the emitted prefix at the barrier; sliceu.Partition puts every split in exactly one group; the Kinesis splitter model hands no shard out twice per epoch and resumes every checkpointed shard once with its cursor; children are handed out only after their parents are finished - in full for a splitter that persists withheld shards, and for the code as it is under the stated exclusion (children_withheld_partial; D16c is an open known finding; D16a/b/d repaired). Tied to the real SourceSplitter, SplitTracker and kinesisfake, the embedded and httpapi splitters, uniformlyAssignShard and the real SourceRunner.",
   "Shard ids modelled as naturals; float64 rounding of big.Rat modelled exactly; reader abstract in the cut theorem; completeness-after-tick only checked on the implementation.", "8/C16"),
 "C15": ("lean+tracevalidation", "Lean 4 invariant proofs over the job FSM model + trace validation of the real jobs.Job, snapshots.Store and operator.Operator + regenerated heartbeat-expiry predicate",
   "Lean theorems over an executable model of the job FSM, the store's pending snapshot and the operators' checkpoint record cover all action sequences: deploy only on exactly WorkerCount live registered nodes, unhealthy pauses, redeploy from the newest checkpoint, no stale in-flight state after a (re)deploy, bounded checkpoint progress. Tied by trace validation of the real jobs.Job with its real Store and real Operators, and by a regenerated heartbeat-expiry predicate. PARTIAL: liveness is stated as safety plus bounded progress.",
   "Liveness = safety (no_stale_inflight, pending_belongs_to_assembly, record_within_sources) + bounded progress (checkpoint_progress) under fair delivery. Source runners, clock, RPC and storage are fakes; the mini-cluster tie is not built. D15 repaired.", "8/C15"),
}

hooks_commits = subprocess.run(["git", "-C", "/repo", "log", "--format=%h %s", "160f5f0..HEAD"], capture_output=True, text=True).stdout.splitlines()
m = {
 "version": 1,
 "setup_cmd": "./check --setup",
 "hooks": {"guard": "verif", "enable": "go build -tags verif -overlay /verif/.cache/overlay.json (generated protobuf code is grafted with -overlay; /repo is not modified)",
           "baseline_off_cmd": "cd /repo && go test -mod=mod -json -vet=off -count=1 -timeout 25m ./...",
           "source_commits": [c.split()[0] for c in hooks_commits if c.split(None, 1)[1].startswith("verif hooks")],
           "add_only": True},
 "engines": [
   {"name": "lean+lockstep", "path": "lean/ harness/cmd/corr", "serves_properties": [k for k, v in CLAIMED.items() if v[0] == "lean+lockstep"], "kind_free_text": "Lean 4 model + theorems; lockstep differential correspondence between the model's executable definitions (compiled driver) and the real Go code in-process"},
   {"name": "lean+tracevalidation", "path": "lean/ harness/cmd/corr", "serves_properties": [k for k, v in CLAIMED.items() if v[0] == "lean+tracevalidation"], "kind_free_text": "Lean 4 transition-system model + theorems; traces of the real concurrent code (hook-scheduled) validated step by step against the model"},
 ],
 "checks": [],
 "notes": "All checks: ./check <id> quick|thorough. Evidence level 'proof': obligations = property theorems in lean/RxnModel/Props/<id>.lean, discharged = kernel-checked with only propext/Classical.choice/Quot.sound; evaluations etc. describe the model↔code correspondence run.",
 "not_applicable": [],
}
for p in props:
    i = p["id"]
    if i in CLAIMED:
        eng, tech, text, note, ref = CLAIMED[i]
        m["checks"].append({"property_id": i, "quick_cmd": f"./check {i} quick", "thorough_cmd": f"./check {i} thorough",
            "evidence_file": f"/verif/evidence/{i}.json", "replay_cmd_template": f"./check {i} --replay {{path}}", "engine": eng,
            "level_claimed": {"category": "proof", "text": text, "design_ref": ref}, "level_note": note, "technique": tech})
    else:
        m["not_applicable"].append({"property_id": i, "reason": "check not built yet (framework under construction; plan in DESIGN.md section 8)"})
json.dump(m, open(os.path.join(V, "MANIFEST.json"), "w"), indent=1)
print("claimed:", sorted(CLAIMED))
