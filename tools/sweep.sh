#!/bin/sh
# usage: [PROPS="C03 C05"] tools/sweep.sh <seed> <tier> : unchanged-tree run of the checks (tag good of /verif, worktree of /repo HEAD) in scratch copies; prints VIOLATION lines only
seed=$1; tier=$2
wt=/tmp/sw-$seed; vv=/tmp/swv-$seed
git -C /repo worktree add --detach "$wt" HEAD >/dev/null 2>&1 || exit 2
mkdir -p "$vv" && git -C /verif archive good | tar -x -C "$vv" && rsync -a /verif/.cache "$vv"/ && mkdir -p "$vv/lean" && rsync -a /verif/lean/.lake "$vv/lean"/
rm -f "$vv"/.cache/pb.stamp
for p in ${PROPS:-C01 C02 C03 C04 C05 C06 C07 C08 C09 C10 C11 C12 C13 C14 C15 C16 C17 C18 C19 C20}; do
  (cd "$vv" && VERIF_SEED=$seed VERIF_REPO="$wt" timeout 2400 ./check "$p" "$tier" 2>"$vv/err_$p.txt" | grep -E "^(VIOLATION)" ; echo "== seed=$seed $p exit=$?"; grep -E "diverg|broken obligation" "$vv/err_$p.txt" | head -3 | cut -c1-300)
done
git -C /repo worktree remove --force "$wt"; rm -rf "$vv"
