package lib

import "encoding/hex"

// Hex encodes bytes for the line protocol ("-" = empty).
func Hex(b []byte) string {
	if len(b) == 0 {
		return "-"
	}
	return hex.EncodeToString(b)
}

func UnHex(s string) []byte {
	if s == "-" {
		return nil
	}
	b, err := hex.DecodeString(s)
	if err != nil {
		panic("bad hex " + s)
	}
	return b
}
