package lib

import (
	"bytes"
	"context"
	"crypto/sha256"
	"encoding/hex"
	"encoding/json"
	"fmt"
	"os"
	"os/exec"
	"path/filepath"
	"sort"
	"strconv"
	"strings"
	"time"
)

// Case is one differential/trace-validation case: a model header line and the operation lines.
type Case struct {
	Header string   `json:"header"`
	Ops    []string `json:"ops"`
	Tags   []string `json:"tags,omitempty"`
}

func (c Case) Hash() string {
	h := sha256.New()
	h.Write([]byte(c.Header))
	for _, o := range c.Ops {
		h.Write([]byte{'\n'})
		h.Write([]byte(o))
	}
	return hex.EncodeToString(h.Sum(nil))[:16]
}

// Prop describes the correspondence check of one property.
type Prop struct {
	ID   string
	Rule string
	// Corr names the correspondence (model definitions ↔ code) that this check validates.
	Corr     string
	NumCases func(tier string) int
	Gen      func(r *Rng, tier string, i int) Case
	// Impl runs the case on the real code (fresh state) and returns one output per op.
	Impl func(c Case) []string
	// Nontrivial decides whether the case exercised the property's non-trivial rule.
	Nontrivial func(c Case, implOut []string) bool
	// MObs reports whether an op's output is mechanism detail (not a property-level observable).
	MObs func(op string) bool
	// Fixed cases that always run first (regressions / witnesses of repaired defects).
	Fixed func(tier string) []Case
	// SpecIndependent: the driver's `#spec` answers (and plain answers of property-level ops) come from a
	// specification state that does not depend on the mechanism the model replays, so after a mechanism
	// divergence the judge keeps looking for a property-level observable that differs from the specification.
	SpecIndependent bool
	// FeedImpl: trace validation. The driver receives `op ## impl-output` for every op, so the model can read
	// which nondeterministic/background action the implementation actually took (and must re-derive everything
	// it can: the answer is compared with the implementation's output as usual).
	FeedImpl bool
	// Extra lets a property add its own evidence keys.
	Extra func() map[string]any
}

type Env struct {
	Driver string
	Tier   string
	Seed   uint64
	Verif  string // /verif
	Out    string // result json path
}

type modelLine struct {
	model, spec, kf string
	hasSpec         bool
}

func parseModel(s string) modelLine {
	m := modelLine{}
	if i := strings.Index(s, " #spec "); i >= 0 {
		m.model = s[:i]
		rest := s[i+7:]
		m.hasSpec = true
		if j := strings.Index(rest, " #kf "); j >= 0 {
			m.spec = rest[:j]
			m.kf = strings.TrimSpace(rest[j+5:])
		} else {
			m.spec = rest
		}
		return m
	}
	m.model = s
	m.spec = s
	return m
}

// RunDriver pipes the cases to the Lean driver and returns per-case model output lines.
func RunDriver(driver string, cases []Case, impls ...[][]string) ([][]string, error) {
	var in bytes.Buffer
	for ci, c := range cases {
		in.WriteString(c.Header)
		in.WriteByte('\n')
		for oi, o := range c.Ops {
			if strings.HasPrefix(o, "M ") || strings.ContainsAny(o, "\n\r") {
				return nil, fmt.Errorf("illegal op line %q", o)
			}
			in.WriteString(o)
			if len(impls) == 1 {
				in.WriteString(" ## ")
				in.WriteString(strings.NewReplacer("\n", " ", "\r", " ").Replace(impls[0][ci][oi]))
			}
			in.WriteByte('\n')
		}
	}
	ctx, cancel := context.WithTimeout(context.Background(), 15*time.Minute)
	defer cancel()
	cmd := exec.CommandContext(ctx, driver)
	cmd.Stdin = &in
	var out, errb bytes.Buffer
	cmd.Stdout = &out
	cmd.Stderr = &errb
	if err := cmd.Run(); err != nil {
		return nil, fmt.Errorf("driver: %v: %s", err, errb.String())
	}
	lines := strings.Split(strings.TrimRight(out.String(), "\n"), "\n")
	res := make([][]string, len(cases))
	p := 0
	for i, c := range cases {
		if p >= len(lines) {
			return nil, fmt.Errorf("driver output too short at case %d", i)
		}
		if lines[p] != "ok" {
			return nil, fmt.Errorf("driver rejected header %q: %s", c.Header, lines[p])
		}
		p++
		if p+len(c.Ops) > len(lines) {
			return nil, fmt.Errorf("driver output too short in case %d", i)
		}
		res[i] = lines[p : p+len(c.Ops)]
		p += len(c.Ops)
	}
	return res, nil
}

// CaseTimeout bounds one Impl run; a case that does not finish is reported as "timeout" outputs
// (a hang of the real code is an observation, never a reason for the check itself to hang).
var CaseTimeout = 30 * time.Second

// SafeImpl runs Impl with a timeout and converts a panic into an output line.
func SafeImpl(p *Prop, c Case) []string {
	ch := make(chan []string, 1)
	go func() { ch <- safeImpl(p, c) }()
	select {
	case out := <-ch:
		return out
	case <-time.After(CaseTimeout):
		out := make([]string, len(c.Ops))
		for i := range out {
			out[i] = "timeout"
		}
		return out
	}
}

func safeImpl(p *Prop, c Case) (out []string) {
	defer func() {
		if r := recover(); r != nil {
			msg := fmt.Sprint(r)
			if len(msg) > 200 {
				msg = msg[:200]
			}
			out = append(out, "panic "+strings.ReplaceAll(msg, "\n", " "))
			for len(out) < len(c.Ops) {
				out = append(out, "skipped")
			}
		}
	}()
	out = p.Impl(c)
	for len(out) < len(c.Ops) {
		out = append(out, "missing")
	}
	return out[:len(c.Ops)]
}

type verdict struct {
	kind    string // "", "known", "violation", "corr"
	index   int
	kf      string
	kfs     []string // every distinct finding id (or "" for an untagged deviation) among the known lines of the case
	implObs string
	model   string
	spec    string
}

// judge compares implementation and model outputs of one case.
func judge(p *Prop, c Case, impl, model []string) verdict {
	v := verdict{index: -1}
	for i := range c.Ops {
		m := parseModel(model[i])
		mobs := p.MObs != nil && p.MObs(c.Ops[i])
		if impl[i] == m.model {
			if m.hasSpec && m.spec != m.model && !mobs {
				if v.kind == "" {
					v = verdict{kind: "known", index: i, kf: m.kf, implObs: impl[i], model: m.model, spec: m.spec}
				}
				// every deviation of the modelled code from the spec counts, not only the first of the case: a
				// different (or untagged) deviation behind a recorded one must still be listed or reported
				seen := false
				for _, k := range v.kfs {
					seen = seen || k == m.kf
				}
				if !seen {
					v.kfs = append(v.kfs, m.kf)
				}
			}
			continue
		}
		// implementation differs from the model of the code
		if impl[i] != m.spec && !mobs {
			return verdict{kind: "violation", index: i, implObs: impl[i], model: m.model, spec: m.spec}
		}
		if v.kind == "" || v.kind == "known" {
			v = verdict{kind: "corr", index: i, implObs: impl[i], model: m.model, spec: m.spec, kfs: v.kfs}
		}
		if !p.SpecIndependent {
			// after a mechanism divergence the model's later answers are unreliable; stop at the first one
			return v
		}
	}
	return v
}

func evalCase(p *Prop, env *Env, c Case) (verdict, []string, []string, error) {
	impl := SafeImpl(p, c)
	var model [][]string
	var err error
	if p.FeedImpl {
		model, err = RunDriver(env.Driver, []Case{c}, [][]string{impl})
	} else {
		model, err = RunDriver(env.Driver, []Case{c})
	}
	if err != nil {
		return verdict{}, impl, nil, err
	}
	return judge(p, c, impl, model[0]), impl, model[0], nil
}

// shrink minimises the ops of a failing case with delta debugging, keeping the verdict kind.
func shrink(p *Prop, env *Env, c Case, kind string, kf string) Case {
	fails := func(ops []string) bool {
		cc := Case{Header: c.Header, Ops: ops}
		v, _, _, err := evalCase(p, env, cc)
		if err != nil || v.kind != kind {
			return false
		}
		if kind != "known" {
			return v.kf == kf
		}
		for _, k := range v.kfs {
			if k == kf {
				return true
			}
		}
		return false
	}
	ops := append([]string(nil), c.Ops...)
	deadline := time.Now().Add(60 * time.Second)
	n := 2
	for len(ops) >= 2 && time.Now().Before(deadline) {
		chunk := (len(ops) + n - 1) / n
		reduced := false
		for start := 0; start < len(ops); start += chunk {
			end := min(start+chunk, len(ops))
			cand := append(append([]string(nil), ops[:start]...), ops[end:]...)
			if len(cand) > 0 && fails(cand) {
				ops = cand
				n = max(n-1, 2)
				reduced = true
				break
			}
		}
		if !reduced {
			if n >= len(ops) {
				break
			}
			n = min(n*2, len(ops))
		}
	}
	return Case{Header: c.Header, Ops: ops, Tags: c.Tags}
}

type Replay struct {
	Property        string   `json:"property"`
	Seed            uint64   `json:"seed"`
	Tier            string   `json:"tier"`
	Kind            string   `json:"kind"`
	Broken          string   `json:"broken"`
	Header          string   `json:"header"`
	Ops             []string `json:"ops"`
	ImplObs         []string `json:"impl_obs"`
	ModelObs        []string `json:"model_obs"`
	FirstDivergence int      `json:"first_divergence"`
	Signature       string   `json:"signature,omitempty"`
	Reproduce       string   `json:"reproduce"`
}

func writeReplay(env *Env, rp Replay) string {
	dir := filepath.Join(env.Verif, "replays")
	os.MkdirAll(dir, 0o755)
	h := Case{Header: rp.Header, Ops: rp.Ops}.Hash()
	path := filepath.Join(dir, fmt.Sprintf("%s-%s.json", rp.Property, h))
	rp.Reproduce = fmt.Sprintf("./check %s --replay %s", rp.Property, path)
	b, _ := json.MarshalIndent(rp, "", " ")
	os.WriteFile(path, b, 0o644)
	return path
}

type KnownFinding struct {
	Property  string `json:"property"`
	ID        string `json:"id"`
	Status    string `json:"status"`
	Signature string `json:"signature"`
	What      string `json:"what"`
}

func LoadKnown(verif string) []KnownFinding {
	b, err := os.ReadFile(filepath.Join(verif, "known_findings.json"))
	if err != nil {
		return nil
	}
	var k []KnownFinding
	if err := json.Unmarshal(b, &k); err != nil {
		panic("known_findings.json: " + err.Error())
	}
	return k
}

type Result struct {
	Property           string         `json:"property"`
	Evaluations        int            `json:"evaluations"`
	DistinctNontrivial int            `json:"distinct_nontrivial"`
	Rule               string         `json:"rule"`
	Samples            []any          `json:"samples"`
	TracesValidated    int            `json:"traces_validated_against_impl"`
	OpsCompared        int            `json:"ops_compared"`
	Distribution       map[string]int `json:"distribution"`
	Violations         int            `json:"violations"`
	Unreproducible     int            `json:"unreproducible_divergences"`
	KnownFindings      []string       `json:"known_findings"`
	ViolationLines     []string       `json:"violation_lines"`
	Correspondence     string         `json:"correspondence"`
	Extra              map[string]any `json:"extra,omitempty"`
	WallS              float64        `json:"wall_s"`
}

// Run executes the correspondence check of a property and returns the process exit code.
func Run(p *Prop, env *Env) int {
	t0 := time.Now()
	rng := NewRng(env.Seed)
	var cases []Case
	if p.Fixed != nil {
		cases = append(cases, p.Fixed(env.Tier)...)
	}
	cases = append(cases, loadCorpus(env, p.ID)...)
	nfixed := len(cases)
	n := p.NumCases(env.Tier)
	if v, err := strconv.Atoi(os.Getenv("VERIF_MAXCASES")); err == nil && v >= 0 && v < n {
		n = v // debugging aid only
	}
	for i := 0; i < n; i++ {
		cases = append(cases, p.Gen(rng.Fork(), env.Tier, i))
	}
	res := Result{Property: p.ID, Rule: p.Rule, Distribution: map[string]int{}, Correspondence: p.Corr}
	impls := make([][]string, len(cases))
	for i, c := range cases {
		impls[i] = SafeImpl(p, c)
		if os.Getenv("VERIF_DEBUG") != "" {
			fmt.Fprintf(os.Stderr, "case %d %s: %d ops, last=%q\n", i, c.Header, len(c.Ops), impls[i][len(impls[i])-1])
		}
	}
	var models [][]string
	var err error
	if p.FeedImpl {
		models, err = RunDriver(env.Driver, cases, impls)
	} else {
		models, err = RunDriver(env.Driver, cases)
	}
	if err != nil {
		fmt.Fprintln(os.Stderr, "driver failure:", err)
		rp := Replay{Property: p.ID, Seed: env.Seed, Tier: env.Tier, Kind: "no-failing-input-found",
			Broken: p.Corr + " (driver failed: " + err.Error() + ")"}
		path := writeReplay(env, rp)
		fmt.Printf("VIOLATION property=%s replay=%s no-failing-input-found\n", p.ID, path)
		return 1
	}
	known := LoadKnown(env.Verif)
	nontriv := map[string]bool{}
	kfSeen := map[string]Case{}
	type cand struct {
		c Case
		v verdict
	}
	var viols, corrs []cand
	for i, c := range cases {
		res.Evaluations++
		res.OpsCompared += len(c.Ops)
		for _, o := range c.Ops {
			if f := strings.Fields(o); len(f) > 0 {
				res.Distribution["op:"+f[0]]++
			}
		}
		for _, t := range c.Tags {
			res.Distribution["tag:"+t]++
		}
		if p.FeedImpl {
			// what the implementation actually did (background actions, park/done, errors)
			for _, o := range impls[i] {
				if f := strings.Fields(o); len(f) > 0 && len(f[0]) < 24 && !strings.ContainsAny(f[0], ":,=") {
					res.Distribution["impl:"+f[0]]++
				}
			}
		}
		if p.Nontrivial == nil || p.Nontrivial(c, impls[i]) {
			nontriv[c.Hash()] = true
		}
		v := judge(p, c, impls[i], models[i])
		switch v.kind {
		case "":
			res.TracesValidated++
		case "known":
			for _, kf := range v.kfs {
				if _, ok := kfSeen[kf]; !ok {
					kfSeen[kf] = c
				}
			}
		case "violation":
			if len(viols) < 6 {
				viols = append(viols, cand{c, v})
			}
		case "corr":
			if len(corrs) < 6 {
				corrs = append(corrs, cand{c, v})
			}
		}
		if (i == 0 || i == nfixed || i == nfixed+1) && len(res.Samples) < 3 {
			ops := c.Ops
			if len(ops) > 12 {
				ops = ops[:12]
			}
			res.Samples = append(res.Samples, map[string]any{"header": c.Header, "ops": ops, "impl": firstN(impls[i], 12)})
		}
	}
	res.DistinctNontrivial = len(nontriv)
	exit := 0
	// known findings: every deviation of the modelled code from the spec must be listed as open
	var kfIDs []string
	for id := range kfSeen {
		kfIDs = append(kfIDs, id)
	}
	sort.Strings(kfIDs)
	for _, id := range kfIDs {
		listed := false
		for _, k := range known {
			if k.Property == p.ID && k.ID == id && k.Status == "open" {
				line := fmt.Sprintf("KNOWN-FINDING: property=%s %s %s", p.ID, id, k.What)
				fmt.Println(line)
				res.KnownFindings = append(res.KnownFindings, line)
				listed = true
			}
		}
		if !listed {
			c := kfSeen[id]
			c = shrink(p, env, c, "known", id)
			v, impl, model, _ := evalCase(p, env, c)
			path := writeReplay(env, Replay{Property: p.ID, Seed: env.Seed, Tier: env.Tier, Kind: "counterexample",
				Broken: "property theorem (unlisted deviation " + id + ")", Header: c.Header, Ops: c.Ops, ImplObs: impl, ModelObs: model, FirstDivergence: v.index, Signature: id})
			line := fmt.Sprintf("VIOLATION property=%s replay=%s", p.ID, path)
			fmt.Println(line)
			res.ViolationLines = append(res.ViolationLines, line)
			res.Violations++
			exit = 1
		}
	}
	// every other open finding listed for this property is printed too (the known-findings file is the record; the
	// evidence distinguishes what this run observed from what is only listed)
	for _, k := range known {
		if k.Property != p.ID || k.Status != "open" {
			continue
		}
		if _, seen := kfSeen[k.ID]; seen {
			continue
		}
		line := fmt.Sprintf("KNOWN-FINDING: property=%s %s %s (listed; its witness was not exercised in this run)", p.ID, k.ID, k.What)
		fmt.Println(line)
		res.KnownFindings = append(res.KnownFindings, line)
	}
	// A divergence is reported only if it reproduces when the same case is run again on both sides: the
	// correspondence runs are deterministic by construction (hook-scheduled, seeded), so a divergence that
	// does not come back is noise of the harness' own scheduling under load; it is counted in the evidence.
	confirm := func(cs []cand, kind string) (Case, verdict, []string, []string, bool) {
		for _, cd := range cs {
			for try := 0; try < 2; try++ {
				v, impl, model, err := evalCase(p, env, cd.c)
				if err != nil || v.kind != kind {
					continue
				}
				c := shrink(p, env, cd.c, kind, "")
				if v2, impl2, model2, err2 := evalCase(p, env, c); err2 == nil && v2.kind == kind {
					return c, v2, impl2, model2, true
				}
				return cd.c, v, impl, model, true
			}
			res.Unreproducible++
			fmt.Fprintf(os.Stderr, "note: a %s divergence at op %d %q (impl=%q model=%q) did not reproduce in 2 re-runs of the same case; not reported\n",
				kind, cd.v.index, opAt(cd.c, cd.v.index), cd.v.implObs, cd.v.model)
		}
		return Case{}, verdict{}, nil, nil, false
	}
	reported := false
	if len(viols) > 0 {
		if c, v, impl, model, ok := confirm(viols, "violation"); ok {
			path := writeReplay(env, Replay{Property: p.ID, Seed: env.Seed, Tier: env.Tier, Kind: "counterexample",
				Broken: p.Corr, Header: c.Header, Ops: c.Ops, ImplObs: impl, ModelObs: model, FirstDivergence: v.index})
			line := fmt.Sprintf("VIOLATION property=%s replay=%s", p.ID, path)
			fmt.Println(line)
			fmt.Fprintf(os.Stderr, "first divergence at op %d %q: impl=%q spec=%q\n", v.index, opAt(c, v.index), v.implObs, v.spec)
			res.ViolationLines = append(res.ViolationLines, line)
			res.Violations++
			exit = 1
			reported = true
		}
	}
	if !reported && len(corrs) > 0 {
		if c, v, impl, model, ok := confirm(corrs, "corr"); ok {
			path := writeReplay(env, Replay{Property: p.ID, Seed: env.Seed, Tier: env.Tier, Kind: "no-failing-input-found",
				Broken: p.Corr, Header: c.Header, Ops: c.Ops, ImplObs: impl, ModelObs: model, FirstDivergence: v.index})
			line := fmt.Sprintf("VIOLATION property=%s replay=%s no-failing-input-found", p.ID, path)
			fmt.Println(line)
			fmt.Fprintf(os.Stderr, "mechanism divergence at op %d %q: impl=%q model=%q\n", v.index, opAt(c, v.index), v.implObs, v.model)
			res.ViolationLines = append(res.ViolationLines, line)
			res.Violations++
			exit = 1
		}
	}
	if p.Extra != nil {
		res.Extra = p.Extra()
	}
	res.WallS = time.Since(t0).Seconds()
	b, _ := json.MarshalIndent(res, "", " ")
	if env.Out != "" {
		os.WriteFile(env.Out, b, 0o644)
	}
	return exit
}

func opAt(c Case, i int) string {
	if i >= 0 && i < len(c.Ops) {
		return c.Ops[i]
	}
	return ""
}

func firstN(xs []string, n int) []string {
	if len(xs) > n {
		return xs[:n]
	}
	return xs
}

func loadCorpus(env *Env, id string) []Case {
	dir := filepath.Join(env.Verif, "corpus", id)
	ents, err := os.ReadDir(dir)
	if err != nil {
		return nil
	}
	var out []Case
	for _, e := range ents {
		if !strings.HasSuffix(e.Name(), ".json") {
			continue
		}
		b, err := os.ReadFile(filepath.Join(dir, e.Name()))
		if err != nil {
			continue
		}
		var c Case
		if json.Unmarshal(b, &c) == nil && c.Header != "" {
			out = append(out, c)
		}
	}
	return out
}

// ReplayFile re-runs a replay file on both sides; exit 1 if it still diverges.
func ReplayFile(p *Prop, env *Env, path string) int {
	b, err := os.ReadFile(path)
	if err != nil {
		fmt.Fprintln(os.Stderr, err)
		return 2
	}
	var rp Replay
	if err := json.Unmarshal(b, &rp); err != nil {
		fmt.Fprintln(os.Stderr, err)
		return 2
	}
	c := Case{Header: rp.Header, Ops: rp.Ops}
	if c.Header == "" {
		fmt.Printf("replay names a broken obligation without an input: %s\n", rp.Broken)
		return 1
	}
	v, impl, model, err := evalCase(p, env, c)
	if err != nil {
		fmt.Fprintln(os.Stderr, err)
		return 2
	}
	for i, o := range c.Ops {
		mark := " "
		if i == v.index {
			mark = "!"
		}
		fmt.Printf("%s %-50s impl=%s model=%s\n", mark, o, impl[i], model[i])
	}
	if v.kind == "" {
		fmt.Println("replay: no divergence")
		return 0
	}
	fmt.Printf("replay: %s at op %d\n", v.kind, v.index)
	return 1
}
