package lib

// Rng is a splitmix64 generator: every random choice of a run derives from one seed.
type Rng struct{ s uint64 }

// NewRng scrambles the seed (one splitmix64 finalisation) so that consecutive seeds give unrelated streams
// (with a plain affine start state, seed s+1 was seed s shifted by one draw).
func NewRng(seed uint64) *Rng {
	z := seed + 0x9E3779B97F4A7C15
	z = (z ^ (z >> 30)) * 0xBF58476D1CE4E5B9
	z = (z ^ (z >> 27)) * 0x94D049BB133111EB
	z ^= z >> 31
	return &Rng{s: z}
}

func (r *Rng) U64() uint64 {
	r.s += 0x9E3779B97F4A7C15
	z := r.s
	z = (z ^ (z >> 30)) * 0xBF58476D1CE4E5B9
	z = (z ^ (z >> 27)) * 0x94D049BB133111EB
	return z ^ (z >> 31)
}

// Intn returns a value in [0,n).
func (r *Rng) Intn(n int) int {
	if n <= 0 {
		return 0
	}
	return int(r.U64() % uint64(n))
}

// Range returns a value in [lo,hi].
func (r *Rng) Range(lo, hi int) int { return lo + r.Intn(hi-lo+1) }

func (r *Rng) Bool() bool { return r.U64()&1 == 1 }

// Chance returns true with probability num/den.
func (r *Rng) Chance(num, den int) bool { return r.Intn(den) < num }

func (r *Rng) Bytes(n int) []byte {
	b := make([]byte, n)
	for i := range b {
		b[i] = byte(r.U64())
	}
	return b
}

// Pick returns one element.
func Pick[T any](r *Rng, xs []T) T { return xs[r.Intn(len(xs))] }

// Fork derives an independent generator (for per-case streams).
func (r *Rng) Fork() *Rng { return NewRng(r.U64()) }
