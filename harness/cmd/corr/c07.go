package main

import (
	"fmt"
	"slices"
	"strconv"
	"strings"
	"sync"
	"time"

	"reduction.dev/reduction/dkv"
	"reduction.dev/reduction/dkv/kv"
	"reduction.dev/reduction/dkv/sst"
	"reduction.dev/reduction/dkv/storage"
	"reduction.dev/reduction/util/verifhook"
	"verif/harness/lib"
)

func init() { register("C07", propC07) }

// ---- hook-scheduled real dkv.DB ----

type parkedTask struct {
	label   string
	payload []any
	resume  chan struct{}
}

// dkvSched drives the background flush/compaction tasks and two-phase reads of one real DB step by step.
type dkvSched struct {
	db      *dkv.DB
	mu      sync.Mutex
	parked  map[string]*parkedTask // by kind: "flush", "compact", "read"
	events  chan string            // flush.done, compact.done, compact.idle
	free    bool                   // cleanup mode: nothing parks any more
	holdRead bool
	ids     map[*sst.Table]int
	nextID  int
}

func kindOf(label string) string {
	switch {
	case strings.HasPrefix(label, "dkv.flush."):
		return "flush"
	case strings.HasPrefix(label, "dkv.compact."):
		return "compact"
	case label == "dkv.read.between":
		return "read"
	}
	return ""
}

func (s *dkvSched) handler(label string, payload []any) {
	if len(payload) == 0 || payload[0] != any(s.db) {
		return
	}
	switch label {
	case "dkv.flush.done", "dkv.compact.done", "dkv.compact.idle":
		s.mu.Lock()
		free := s.free
		s.mu.Unlock()
		if !free {
			select {
			case s.events <- label:
			default:
			}
		}
		return
	case "dkv.flush.begin", "dkv.flush.commit", "dkv.compact.begin", "dkv.compact.commit", "dkv.read.between":
	default:
		return
	}
	k := kindOf(label)
	s.mu.Lock()
	if s.free || (k == "read" && !s.holdRead) {
		s.mu.Unlock()
		return
	}
	t := &parkedTask{label: label, payload: payload, resume: make(chan struct{})}
	s.parked[k] = t
	s.mu.Unlock()
	<-t.resume
}

const schedGrace = 3 * time.Second

// waitParked polls until a task of the kind is parked (it must be on its way) or the grace period ends.
func (s *dkvSched) waitParked(kind string) *parkedTask {
	deadline := time.Now().Add(schedGrace)
	for {
		s.mu.Lock()
		t := s.parked[kind]
		s.mu.Unlock()
		if t != nil {
			return t
		}
		if time.Now().After(deadline) {
			return nil
		}
		time.Sleep(20 * time.Microsecond)
	}
}

func (s *dkvSched) release(kind string) {
	s.mu.Lock()
	t := s.parked[kind]
	delete(s.parked, kind)
	s.mu.Unlock()
	if t != nil {
		close(t.resume)
	}
}

func (s *dkvSched) waitEvent(want ...string) string {
	deadline := time.After(schedGrace)
	for {
		select {
		case e := <-s.events:
			if slices.Contains(want, e) {
				return e
			}
		case <-deadline:
			return "timeout"
		}
	}
}

func (s *dkvSched) freeAll() {
	s.mu.Lock()
	s.free = true
	ts := s.parked
	s.parked = map[string]*parkedTask{}
	s.mu.Unlock()
	for _, t := range ts {
		close(t.resume)
	}
}

func showEntry(e kv.Entry, err error) string {
	if err == kv.ErrNotFound {
		return "absent"
	}
	if err != nil {
		return "err " + strings.ReplaceAll(err.Error(), " ", "_")
	}
	if e.IsDelete() {
		return "absent"
	}
	return "val " + lib.Hex(e.Value())
}

func showScanEntries(db *dkv.DB, prefix []byte) string {
	var scanErr error
	var parts []string
	for e := range db.ScanPrefix(prefix, &scanErr) {
		parts = append(parts, lib.Hex(e.Key())+":"+lib.Hex(e.Value()))
	}
	if scanErr != nil {
		return "err " + strings.ReplaceAll(scanErr.Error(), " ", "_")
	}
	if len(parts) == 0 {
		return "empty"
	}
	return strings.Join(parts, ",")
}

func dumpTable(t *sst.Table) string {
	var scanErr error
	var parts []string
	for e := range t.ScanPrefix(nil, &scanErr) {
		d := "0"
		if e.IsDelete() {
			d = "1"
		}
		parts = append(parts, fmt.Sprintf("%s:%d:%s:%s", lib.Hex(e.Key()), e.SeqNum(), d, lib.Hex(e.Value())))
	}
	if scanErr != nil {
		return "scanerr"
	}
	if len(parts) == 0 {
		return "empty"
	}
	return strings.Join(parts, ";")
}

type c07Cfg struct {
	mem, target, l0, maxAmp, smallest int
}

func parseC07Header(h string) c07Cfg {
	c := c07Cfg{mem: 120, target: 96, l0: 2, maxAmp: 50, smallest: 1}
	for _, f := range strings.Fields(h) {
		kv := strings.SplitN(f, "=", 2)
		if len(kv) != 2 {
			continue
		}
		v, _ := strconv.Atoi(kv[1])
		switch kv[0] {
		case "mem":
			c.mem = v
		case "target":
			c.target = v
		case "l0":
			c.l0 = v
		case "amp":
			c.maxAmp = v
		case "smallest":
			c.smallest = v
		}
	}
	return c
}

var c07Seq int
var c07Mu sync.Mutex

// runDkvTrace executes the ops on a real dkv.DB under the hook scheduler and returns one output per op.
func runDkvTrace(c lib.Case) []string {
	c07Mu.Lock() // one DB at a time: the flush/compaction queues and the hook handler are process-global
	defer c07Mu.Unlock()
	cfg := parseC07Header(c.Header)
	c07Seq++
	fs := storage.NewMemoryFilesystem().WithWorkingDir(fmt.Sprintf("c07-%d", c07Seq))
	db := dkv.New(dkv.DBOptions{FileSystem: fs, MemTableSize: uint64(cfg.mem), TargetFileSize: uint64(cfg.target), L0TableNumCompactionTrigger: cfg.l0})
	comp := db.VerifCompactor()
	comp.MaxSizeAmplificationPercent = cfg.maxAmp
	comp.SmallestLevelSize = int64(cfg.smallest)
	if err := db.Start(nil); err != nil {
		panic(err)
	}
	s := &dkvSched{db: db, parked: map[string]*parkedTask{}, events: make(chan string, 64), ids: map[*sst.Table]int{}}
	verifhook.Set(s.handler)
	defer func() {
		s.freeAll()
		done := make(chan struct{})
		go func() { db.WaitOnTasks(); close(done) }()
		select {
		case <-done:
		case <-time.After(10 * time.Second):
		}
		verifhook.Set(nil)
	}()

	flushQ, compactQ := 0, 0 // tasks enqueued and not finished
	var readRes chan string
	out := make([]string, 0, len(c.Ops))
	for _, op := range c.Ops {
		f := strings.Fields(op)
		if readRes != nil && f[0] != "bg" && f[0] != "resume" {
			out = append(out, "reader-busy")
			continue
		}
		switch f[0] {
		case "put", "del":
			if flushQ >= 4 {
				// bg.TaskQueue holds 5 tasks: a further rotation would block the writer until a flush finishes
				out = append(out, "queue-full")
				continue
			}
			before := db.VerifMemtableCount()
			if f[0] == "put" {
				db.Put(lib.UnHex(f[1]), lib.UnHex(f[2]))
			} else {
				db.Delete(lib.UnHex(f[1]))
			}
			if db.VerifMemtableCount() > before {
				flushQ++
				out = append(out, "rot=1")
			} else {
				out = append(out, "rot=0")
			}
		case "get":
			out = append(out, showEntry(db.Get(lib.UnHex(f[1]))))
		case "scan":
			out = append(out, showScanEntries(db, lib.UnHex(f[1])))
		case "getpark":
			s.mu.Lock()
			s.holdRead = true
			s.mu.Unlock()
			res := make(chan string, 1)
			key := lib.UnHex(f[1])
			go func() { res <- showEntry(db.Get(key)) }()
			// either the reader parks between its phases or it returns from the memtable phase
			deadline := time.Now().Add(schedGrace)
			for {
				s.mu.Lock()
				p := s.parked["read"]
				s.mu.Unlock()
				if p != nil {
					readRes = res
					out = append(out, "parked")
					break
				}
				select {
				case r := <-res:
					out = append(out, "done "+r)
				default:
					if time.Now().After(deadline) {
						out = append(out, "timeout")
					} else {
						time.Sleep(20 * time.Microsecond)
						continue
					}
				}
				s.mu.Lock()
				s.holdRead = false
				s.mu.Unlock()
				break
			}
		case "scanpark":
			s.mu.Lock()
			s.holdRead = true
			s.mu.Unlock()
			res := make(chan string, 1)
			pfx := lib.UnHex(f[1])
			go func() { res <- showScanEntries(db, pfx) }()
			if s.waitParked("read") != nil {
				readRes = res
				out = append(out, "parked")
			} else {
				s.mu.Lock()
				s.holdRead = false
				s.mu.Unlock()
				out = append(out, "timeout")
			}
		case "resume":
			if readRes == nil {
				out = append(out, "no-reader")
				continue
			}
			s.mu.Lock()
			s.holdRead = false
			s.mu.Unlock()
			s.release("read")
			select {
			case r := <-readRes:
				out = append(out, r)
			case <-time.After(schedGrace):
				out = append(out, "timeout")
			}
			readRes = nil
		case "bg":
			switch f[1] {
			case "f":
				if flushQ == 0 {
					out = append(out, "none")
					continue
				}
				t := s.waitParked("flush")
				if t == nil {
					out = append(out, "timeout")
					continue
				}
				n := t.payload[1].(int)
				if t.label != "dkv.flush.begin" && compactQ >= 4 {
					out = append(out, "queue-full")
					continue
				}
				if t.label == "dkv.flush.begin" {
					s.release("flush")
					if s.waitParked("flush") == nil {
						out = append(out, "timeout")
						continue
					}
					out = append(out, fmt.Sprintf("flushbegin %d", n))
				} else {
					s.release("flush")
					if s.waitEvent("dkv.flush.done") == "timeout" {
						out = append(out, "timeout")
						continue
					}
					flushQ--
					compactQ++
					// mirror the model's id assignment: new level-0 tables in insertion order
					for _, ti := range db.VerifLevels().VerifLayout()[0] {
						if _, ok := s.ids[ti.Table]; !ok {
							s.ids[ti.Table] = s.nextID
							s.nextID++
						}
					}
					out = append(out, fmt.Sprintf("flushcommit %d", n))
				}
			case "c":
				if compactQ == 0 {
					out = append(out, "none")
					continue
				}
				t := s.waitParked("compact")
				if t == nil {
					out = append(out, "timeout")
					continue
				}
				if t.label == "dkv.compact.begin" {
					s.release("compact")
					// the task either goes idle (no change set) or parks at the commit
					got := ""
					deadline := time.Now().Add(schedGrace)
					for got == "" {
						select {
						case e := <-s.events:
							if e == "dkv.compact.idle" {
								got = "idle"
							}
							continue
						default:
						}
						s.mu.Lock()
						p := s.parked["compact"]
						s.mu.Unlock()
						if p != nil && p.label == "dkv.compact.commit" {
							got = "parked"
						} else if time.Now().After(deadline) {
							got = "timeout"
						} else {
							// (a task parked at "begin" is the next queued task: the idle event of this one is on its way)
							time.Sleep(20 * time.Microsecond)
						}
					}
					switch got {
					case "idle":
						compactQ--
						out = append(out, "compactidle")
					case "parked":
						out = append(out, "compactbegin")
					default:
						out = append(out, "timeout")
					}
				} else { // at commit
					cs := t.payload[1].(*sst.ChangeSet)
					lvls, added, removed := cs.VerifChangeSet()
					nLevels := len(db.VerifLevels().VerifLayout())
					lvl := -2
					for _, l := range lvls {
						if l < 0 {
							l = nLevels + l
						}
						if lvl == -2 {
							lvl = l
						} else if lvl != l {
							lvl = -3
						}
					}
					var rm []string
					for _, r := range removed {
						if id, ok := s.ids[r]; ok {
							rm = append(rm, strconv.Itoa(id))
						} else {
							rm = append(rm, "999999")
						}
					}
					var add []string
					for _, a := range added {
						add = append(add, dumpTable(a))
						s.ids[a] = s.nextID
						s.nextID++
					}
					s.release("compact")
					if s.waitEvent("dkv.compact.done") == "timeout" {
						out = append(out, "timeout")
						continue
					}
					rmS, addS := "-", "none"
					if len(rm) > 0 {
						rmS = strings.Join(rm, ",")
					}
					if len(add) > 0 {
						addS = strings.Join(add, "|")
					}
					out = append(out, fmt.Sprintf("compact L%d rm=%s add=%s", lvl, rmS, addS))
				}
			default:
				out = append(out, "bad-op")
			}
		default:
			out = append(out, "bad-op")
		}
	}
	return out
}

// ---- generator ----

var c07Pool = [][]byte{{}, {0x61}, {0x61, 0x00}, {0x61, 0x62}, {0x61, 0x62, 0x63}, {0x62}, {0x00}, {0xff}, {0xff, 0xff}, {0x62, 0xff}, {0x7f}, {0x80, 0x01}}

func c07Key(r *lib.Rng) []byte {
	if r.Chance(1, 10) {
		return r.Bytes(r.Range(1, 3))
	}
	return lib.Pick(r, c07Pool)
}

func c07Val(r *lib.Rng) []byte {
	switch r.Intn(5) {
	case 0:
		return nil
	case 1:
		return r.Bytes(r.Range(20, 70))
	default:
		return r.Bytes(r.Range(1, 6))
	}
}

// genDkvRanged: a larger ordered key space loaded mostly in ascending order, then overwrites/deletes inside a
// narrow moving window, with background steps following closely: multi-table deeper levels whose key ranges are
// only partly touched by the next level-0 tables.
func genDkvRanged(r *lib.Rng, n int) []string {
	var ops []string
	nkeys := r.Range(24, 60)
	key := func(i int) []byte { return []byte{0x40 + byte(i/8), byte(0x30 + i%8)} }
	val := func() []byte { return r.Bytes(r.Range(12, 40)) }
	bg := func() {
		for i := r.Range(1, 5); i > 0; i-- {
			ops = append(ops, lib.Pick(r, []string{"bg f", "bg f", "bg c", "bg c", "bg c"}))
		}
	}
	for i := 0; i < nkeys; i++ {
		ops = append(ops, fmt.Sprintf("put %s %s", lib.Hex(key(i)), lib.Hex(val())))
		if r.Chance(1, 2) {
			bg()
		}
	}
	for i := 0; i < 12; i++ {
		ops = append(ops, lib.Pick(r, []string{"bg f", "bg c", "bg c"}))
	}
	w := r.Intn(nkeys)
	for len(ops) < n+nkeys {
		if r.Chance(1, 12) {
			w = r.Intn(nkeys)
		}
		k := key((w + r.Intn(4)) % nkeys)
		switch x := r.Intn(100); {
		case x < 50:
			ops = append(ops, fmt.Sprintf("put %s %s", lib.Hex(k), lib.Hex(val())))
		case x < 58:
			ops = append(ops, "del "+lib.Hex(k))
		case x < 75:
			ops = append(ops, "get "+lib.Hex(key(r.Intn(nkeys))))
		case x < 80:
			ops = append(ops, "scan "+lib.Hex(key(r.Intn(nkeys))[:1]))
		default:
			bg()
		}
	}
	ops = append(ops, "scan -")
	for i := 0; i < nkeys; i++ {
		ops = append(ops, "get "+lib.Hex(key(i)))
	}
	return ops
}

func genDkvOps(r *lib.Rng, n int, parkReads bool) []string {
	if r.Chance(2, 5) {
		return genDkvRanged(r, n)
	}
	var ops []string
	for len(ops) < n {
		switch x := r.Intn(100); {
		case x < 40:
			ops = append(ops, fmt.Sprintf("put %s %s", lib.Hex(c07Key(r)), lib.Hex(c07Val(r))))
		case x < 52:
			ops = append(ops, "del "+lib.Hex(c07Key(r)))
		case x < 66:
			ops = append(ops, "get "+lib.Hex(c07Key(r)))
		case x < 74:
			p := c07Key(r)
			if r.Chance(1, 3) {
				p = nil
			}
			ops = append(ops, "scan "+lib.Hex(p))
		case x < 84:
			ops = append(ops, "bg f")
		case x < 95:
			ops = append(ops, "bg c")
		default:
			if parkReads {
				if r.Chance(1, 3) {
					p := c07Key(r)
					if r.Chance(1, 3) {
						p = nil
					}
					ops = append(ops, "scanpark "+lib.Hex(p))
				} else {
					ops = append(ops, "getpark "+lib.Hex(c07Key(r)))
				}
				for i := r.Intn(4); i > 0; i-- {
					ops = append(ops, lib.Pick(r, []string{"bg f", "bg c"}))
				}
				ops = append(ops, "resume")
			}
		}
	}
	// final full observation
	ops = append(ops, "scan -")
	for _, k := range c07Pool {
		ops = append(ops, "get "+lib.Hex(k))
	}
	return ops
}

func c07Header(r *lib.Rng, id string) string {
	return fmt.Sprintf("M %s mem=%d target=%d l0=%d amp=%d smallest=%d", id, lib.Pick(r, []int{60, 120, 200, 400}), lib.Pick(r, []int{64, 96, 160, 256}),
		lib.Pick(r, []int{1, 2, 2, 3, 4}), lib.Pick(r, []int{1, 25, 50, 200, 100000}), lib.Pick(r, []int{1, 2000, 5000, 1 << 40}))
}

func c07Fixed() []lib.Case {
	k, z := "6b", "7a7a"
	big := lib.Hex([]byte(strings.Repeat("x", 300)))
	return []lib.Case{
		// D2: sealed + active memtable hold the key while the flush is held back
		{Header: "M C07 mem=200 l0=100", Ops: []string{"put " + k + " 01", "put " + z + " " + big, "put " + k + " 02", "get " + k, "bg f", "get " + k, "bg f", "get " + k, "scan -"}, Tags: []string{"regress-D2"}},
		// D3: two level-0 tables hold the key
		{Header: "M C07 mem=200 l0=100", Ops: []string{"put " + k + " 01", "put " + z + " " + big, "bg f", "bg f", "put " + k + " 02", "put " + z + " " + big, "bg f", "bg f", "get " + k, "scan " + k}, Tags: []string{"regress-D3"}},
		// D4: delete in memory over a flushed put; and across memtables
		{Header: "M C07 mem=200 l0=100", Ops: []string{"put " + k + " 01", "put " + z + " " + big, "bg f", "bg f", "del " + k, "get " + k, "scan " + k, "scan -"}, Tags: []string{"regress-D4"}},
		{Header: "M C07 mem=200 l0=100", Ops: []string{"put " + k + " 01", "put " + z + " " + big, "del " + k, "scan " + k, "get " + k}, Tags: []string{"regress-D4"}},
		// D5: flush commit between the two phases of a read
		{Header: "M C07 mem=200 l0=100", Ops: []string{"put " + k + " 01", "put " + z + " " + big, "bg f", "getpark " + k, "bg f", "resume", "get " + k}, Tags: []string{"regress-D5"}},
		{Header: "M C07 mem=200 l0=100", Ops: []string{"put " + k + " 01", "put " + z + " " + big, "bg f", "scanpark " + k, "bg f", "resume", "scan " + k}, Tags: []string{"regress-D5"}},
	}
}

func dkvNontrivial(c lib.Case, out []string) bool {
	// the trace held data in several containers: at least one flush commit or a compaction happened
	for _, o := range out {
		if strings.HasPrefix(o, "flushcommit") || strings.HasPrefix(o, "compact L") {
			return true
		}
	}
	return false
}

func propC07() *lib.Prop {
	return &lib.Prop{
		ID:       "C07",
		Corr:     "Model/Lsm.lean transition system ↔ real dkv.DB (hook-scheduled flush/compaction commits, two-phase reads)",
		Rule:     "trace validation: generated schedules of put/del/get/scan/background steps on a real dkv.DB with tiny memtables; every read is compared with the model and with the map spec; non-trivial = at least one flush commit or compaction happened in the trace",
		FeedImpl:        true,
		SpecIndependent: true,
		NumCases: func(tier string) int {
			if tier == "thorough" {
				return 4000
			}
			return 400
		},
		Fixed: func(string) []lib.Case { return c07Fixed() },
		Gen: func(r *lib.Rng, tier string, i int) lib.Case {
			n := r.Range(20, 120)
			if tier == "thorough" {
				n = r.Range(20, 300)
			}
			return lib.Case{Header: c07Header(r, "C07"), Ops: genDkvOps(r, n, true)}
		},
		Impl:       runDkvTrace,
		Nontrivial: dkvNontrivial,
		MObs: func(op string) bool {
			return strings.HasPrefix(op, "bg ")
		},
	}
}
