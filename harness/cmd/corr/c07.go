package main

import (
	"errors"
	"fmt"
	"iter"
	"slices"
	"strconv"
	"strings"
	"sync"
	"sync/atomic"
	"time"

	"reduction.dev/reduction/dkv"
	"reduction.dev/reduction/dkv/kv"
	"reduction.dev/reduction/dkv/sst"
	"reduction.dev/reduction/dkv/storage"
	"reduction.dev/reduction/util/verifhook"
	"verif/harness/lib"
)

func init() { register("C07", propC07) }

// ---- hook-scheduled real dkv.DB ----

type parkedTask struct {
	label   string
	payload []any
	resume  chan struct{}
}

// dkvSched drives the background flush/compaction tasks and two-phase reads of one real DB step by step.
type dkvSched struct {
	db       *dkv.DB
	mu       sync.Mutex
	parked   map[string]*parkedTask // by kind: "flush", "compact", "read"
	events   chan string            // flush.done, compact.done, compact.idle
	free     bool                   // cleanup mode: nothing parks any more
	holdRead bool
	ids      map[*sst.Table]int
	nextID   int
}

func kindOf(label string) string {
	switch {
	case strings.HasPrefix(label, "dkv.flush."):
		return "flush"
	case strings.HasPrefix(label, "dkv.compact."):
		return "compact"
	case label == "dkv.read.between":
		return "read"
	}
	return ""
}

func (s *dkvSched) handler(label string, payload []any) {
	if len(payload) == 0 || payload[0] != any(s.db) {
		return
	}
	switch label {
	case "dkv.flush.done", "dkv.compact.done", "dkv.compact.idle":
		s.mu.Lock()
		free := s.free
		s.mu.Unlock()
		if !free {
			select {
			case s.events <- label:
			default:
			}
		}
		return
	case "dkv.flush.begin", "dkv.flush.commit", "dkv.compact.begin", "dkv.compact.commit", "dkv.read.between":
	default:
		return
	}
	k := kindOf(label)
	s.mu.Lock()
	if s.free || (k == "read" && !s.holdRead) {
		s.mu.Unlock()
		return
	}
	t := &parkedTask{label: label, payload: payload, resume: make(chan struct{})}
	s.parked[k] = t
	s.mu.Unlock()
	<-t.resume
}

const schedGrace = 3 * time.Second

// waitParked polls until a task of the kind is parked (it must be on its way) or the grace period ends.
func (s *dkvSched) waitParked(kind string) *parkedTask {
	deadline := time.Now().Add(schedGrace)
	for {
		s.mu.Lock()
		t := s.parked[kind]
		s.mu.Unlock()
		if t != nil {
			return t
		}
		if time.Now().After(deadline) {
			return nil
		}
		time.Sleep(20 * time.Microsecond)
	}
}

func (s *dkvSched) release(kind string) {
	s.mu.Lock()
	t := s.parked[kind]
	delete(s.parked, kind)
	s.mu.Unlock()
	if t != nil {
		close(t.resume)
	}
}

func (s *dkvSched) waitEvent(want ...string) string {
	deadline := time.After(schedGrace)
	for {
		select {
		case e := <-s.events:
			if slices.Contains(want, e) {
				return e
			}
		case <-deadline:
			return "timeout"
		}
	}
}

func (s *dkvSched) freeAll() {
	s.mu.Lock()
	s.free = true
	ts := s.parked
	s.parked = map[string]*parkedTask{}
	s.mu.Unlock()
	for _, t := range ts {
		close(t.resume)
	}
}

func showEntry(e kv.Entry, err error) string {
	if err == kv.ErrNotFound {
		return "absent"
	}
	if err != nil {
		return "err " + strings.ReplaceAll(err.Error(), " ", "_")
	}
	if e.IsDelete() {
		return "absent"
	}
	return "val " + lib.Hex(e.Value())
}

func showScanEntries(db *dkv.DB, prefix []byte) string {
	scanErr := new(error)
	return showScanIter(db.ScanPrefix(prefix, scanErr), scanErr)
}

// showScanIter consumes a ScanPrefix iterator (now) and renders what it yields.
func showScanIter(it iter.Seq[kv.Entry], scanErr *error) string {
	var parts []string
	for e := range it {
		parts = append(parts, lib.Hex(e.Key())+":"+lib.Hex(e.Value()))
	}
	if *scanErr != nil {
		return "err " + strings.ReplaceAll((*scanErr).Error(), " ", "_")
	}
	if len(parts) == 0 {
		return "empty"
	}
	return strings.Join(parts, ",")
}

func dumpTable(t *sst.Table) string {
	var scanErr error
	var parts []string
	for e := range t.ScanPrefix(nil, &scanErr) {
		d := "0"
		if e.IsDelete() {
			d = "1"
		}
		parts = append(parts, fmt.Sprintf("%s:%d:%s:%s", lib.Hex(e.Key()), e.SeqNum(), d, lib.Hex(e.Value())))
	}
	if scanErr != nil {
		return "scanerr"
	}
	if len(parts) == 0 {
		return "empty"
	}
	return strings.Join(parts, ";")
}

type c07Cfg struct {
	mem, target, l0, maxAmp, smallest int
}

func parseC07Header(h string) c07Cfg {
	c := c07Cfg{mem: 120, target: 96, l0: 2, maxAmp: 50, smallest: 1}
	for _, f := range strings.Fields(h) {
		kv := strings.SplitN(f, "=", 2)
		if len(kv) != 2 {
			continue
		}
		v, _ := strconv.Atoi(kv[1])
		switch kv[0] {
		case "mem":
			c.mem = v
		case "target":
			c.target = v
		case "l0":
			c.l0 = v
		case "amp":
			c.maxAmp = v
		case "smallest":
			c.smallest = v
		}
	}
	return c
}

var c07Seq int
var c07Mu sync.Mutex

// c07FailFS is the database's FileSystem with one injectable fault: once armed (`failnext`), the next table file
// that is saved fails (`tableWriter.Write` returns the error, the flush or compaction task returns it before its
// commit section). `failed` tells the scheduler that the running task is on its way out.
type c07FailFS struct {
	storage.FileSystem
	arm    atomic.Bool
	failed chan struct{}
}

func (f *c07FailFS) New(path string) storage.File {
	file := f.FileSystem.New(path)
	if strings.HasSuffix(path, ".sst") {
		return &c07FailFile{File: file, fs: f}
	}
	return file
}

type c07FailFile struct {
	storage.File
	fs *c07FailFS
}

func (f *c07FailFile) Save() error {
	if f.fs.arm.CompareAndSwap(true, false) {
		select {
		case f.fs.failed <- struct{}{}:
		default:
		}
		return errors.New("c07: injected table write failure")
	}
	return f.File.Save()
}

// tookFailure reports (and consumes) the signal of an injected table write failure.
func (f *c07FailFS) tookFailure() bool {
	select {
	case <-f.failed:
		return true
	default:
		return false
	}
}

// runDkvTrace executes the ops on a real dkv.DB under the hook scheduler and returns one output per op.
func runDkvTrace(c lib.Case) []string {
	c07Mu.Lock() // one DB at a time: the flush/compaction queues and the hook handler are process-global
	defer c07Mu.Unlock()
	cfg := parseC07Header(c.Header)
	c07Seq++
	fs := &c07FailFS{FileSystem: storage.NewMemoryFilesystem().WithWorkingDir(fmt.Sprintf("c07-%d", c07Seq)), failed: make(chan struct{}, 4)}
	db := dkv.New(dkv.DBOptions{FileSystem: fs, MemTableSize: uint64(cfg.mem), TargetFileSize: uint64(cfg.target), L0TableNumCompactionTrigger: cfg.l0})
	comp := db.VerifCompactor()
	comp.MaxSizeAmplificationPercent = cfg.maxAmp
	comp.SmallestLevelSize = int64(cfg.smallest)
	if err := db.Start(nil); err != nil {
		panic(err)
	}
	s := &dkvSched{db: db, parked: map[string]*parkedTask{}, events: make(chan string, 64), ids: map[*sst.Table]int{}}
	verifhook.Set(s.handler)
	defer func() {
		s.freeAll()
		done := make(chan struct{})
		go func() { db.WaitOnTasks(); close(done) }()
		select {
		case <-done:
		case <-time.After(10 * time.Second):
		}
		verifhook.Set(nil)
	}()

	flushQ, compactQ := 0, 0 // tasks enqueued and not finished
	var readRes chan string
	// a ScanPrefix iterator obtained by `scanget` and not yet consumed (`scanrun`); dropped unconsumed at the end of
	// the trace (it is a lazy iter.Seq: nothing runs, nothing is held by it but memory)
	var heldIter iter.Seq[kv.Entry]
	var heldErr *error
	out := make([]string, 0, len(c.Ops))
	for _, op := range c.Ops {
		f := strings.Fields(op)
		// one goroutine does the reads and the writes: while a read is parked between its phases or an iterator is
		// held unconsumed, no other foreground operation happens
		if (readRes != nil || heldIter != nil) && f[0] != "bg" && f[0] != "resume" && f[0] != "scanrun" {
			out = append(out, "reader-busy")
			continue
		}
		switch f[0] {
		case "failnext":
			// the next table file that is saved (by a flush or by a compaction) fails
			fs.arm.Store(true)
			out = append(out, "armed")
		case "scanget":
			// the call returns (it does not park between its phases: holdRead is off); the sequence is consumed later
			heldErr = new(error)
			heldIter = db.ScanPrefix(lib.UnHex(f[1]), heldErr)
			out = append(out, "held")
		case "scanrun":
			if heldIter == nil {
				out = append(out, "no-iter")
				continue
			}
			it, ep := heldIter, heldErr
			heldIter, heldErr = nil, nil
			res := make(chan string, 1)
			go func() {
				defer func() {
					if r := recover(); r != nil {
						res <- "panic " + strings.ReplaceAll(fmt.Sprint(r), " ", "_")
					}
				}()
				res <- showScanIter(it, ep)
			}()
			select {
			case r := <-res:
				out = append(out, r)
			case <-time.After(schedGrace):
				out = append(out, "timeout")
			}
		case "put", "del":
			if flushQ >= 4 {
				// bg.TaskQueue holds 5 tasks: a further rotation would block the writer until a flush finishes
				out = append(out, "queue-full")
				continue
			}
			before := db.VerifMemtableCount()
			if f[0] == "put" {
				db.Put(lib.UnHex(f[1]), lib.UnHex(f[2]))
			} else {
				db.Delete(lib.UnHex(f[1]))
			}
			if db.VerifMemtableCount() > before {
				flushQ++
				out = append(out, "rot=1")
			} else {
				out = append(out, "rot=0")
			}
		case "get":
			out = append(out, showEntry(db.Get(lib.UnHex(f[1]))))
		case "scan":
			out = append(out, showScanEntries(db, lib.UnHex(f[1])))
		case "getpark":
			s.mu.Lock()
			s.holdRead = true
			s.mu.Unlock()
			res := make(chan string, 1)
			key := lib.UnHex(f[1])
			go func() { res <- showEntry(db.Get(key)) }()
			// either the reader parks between its phases or it returns from the memtable phase
			deadline := time.Now().Add(schedGrace)
			for {
				s.mu.Lock()
				p := s.parked["read"]
				s.mu.Unlock()
				if p != nil {
					readRes = res
					out = append(out, "parked")
					break
				}
				select {
				case r := <-res:
					out = append(out, "done "+r)
				default:
					if time.Now().After(deadline) {
						out = append(out, "timeout")
					} else {
						time.Sleep(20 * time.Microsecond)
						continue
					}
				}
				s.mu.Lock()
				s.holdRead = false
				s.mu.Unlock()
				break
			}
		case "scanpark":
			s.mu.Lock()
			s.holdRead = true
			s.mu.Unlock()
			res := make(chan string, 1)
			pfx := lib.UnHex(f[1])
			go func() { res <- showScanEntries(db, pfx) }()
			if s.waitParked("read") != nil {
				readRes = res
				out = append(out, "parked")
			} else {
				s.mu.Lock()
				s.holdRead = false
				s.mu.Unlock()
				out = append(out, "timeout")
			}
		case "resume":
			if readRes == nil {
				out = append(out, "no-reader")
				continue
			}
			s.mu.Lock()
			s.holdRead = false
			s.mu.Unlock()
			s.release("read")
			select {
			case r := <-readRes:
				out = append(out, r)
			case <-time.After(schedGrace):
				out = append(out, "timeout")
			}
			readRes = nil
		case "bg":
			switch f[1] {
			case "f":
				if flushQ == 0 {
					out = append(out, "none")
					continue
				}
				t := s.waitParked("flush")
				if t == nil {
					out = append(out, "timeout")
					continue
				}
				n := t.payload[1].(int)
				if t.label != "dkv.flush.begin" && compactQ >= 4 {
					out = append(out, "queue-full")
					continue
				}
				if t.label == "dkv.flush.begin" {
					s.release("flush")
					// the task parks at its commit, or an injected table write failure ends it before the commit (then
					// the next queued flush task, if any, may already be parked at its begin)
					got := ""
					deadline := time.Now().Add(schedGrace)
					for got == "" {
						if fs.tookFailure() {
							got = "failed"
							break
						}
						s.mu.Lock()
						p := s.parked["flush"]
						s.mu.Unlock()
						if p != nil && p.label == "dkv.flush.commit" {
							got = "parked"
						} else if time.Now().After(deadline) {
							got = "timeout"
						} else {
							time.Sleep(20 * time.Microsecond)
						}
					}
					switch got {
					case "parked":
						out = append(out, fmt.Sprintf("flushbegin %d", n))
					case "failed":
						flushQ--
						out = append(out, fmt.Sprintf("flushfail %d", n))
					default:
						out = append(out, "timeout")
					}
				} else {
					s.release("flush")
					if s.waitEvent("dkv.flush.done") == "timeout" {
						out = append(out, "timeout")
						continue
					}
					flushQ--
					compactQ++
					// mirror the model's id assignment: new level-0 tables in insertion order; their contents (key, seq,
					// marker, value of every entry, read back from the table file) are part of the observation: the
					// driver prints the sealed memtables of the model's flush snapshot in the same form
					var flushed []string
					for _, ti := range db.VerifLevels().VerifLayout()[0] {
						if _, ok := s.ids[ti.Table]; !ok {
							s.ids[ti.Table] = s.nextID
							s.nextID++
							flushed = append(flushed, dumpTable(ti.Table))
						}
					}
					out = append(out, fmt.Sprintf("flushcommit %d tbl=%s", n, strings.Join(flushed, "|")))
				}
			case "c":
				if compactQ == 0 {
					out = append(out, "none")
					continue
				}
				t := s.waitParked("compact")
				if t == nil {
					out = append(out, "timeout")
					continue
				}
				if t.label == "dkv.compact.begin" {
					s.release("compact")
					// the task either goes idle (no change set) or parks at the commit
					got := ""
					deadline := time.Now().Add(schedGrace)
					for got == "" {
						select {
						case e := <-s.events:
							if e == "dkv.compact.idle" {
								got = "idle"
							}
							continue
						default:
						}
						if fs.tookFailure() {
							got = "failed" // Compact returned the injected error: the task is over, nothing was committed
							continue
						}
						s.mu.Lock()
						p := s.parked["compact"]
						s.mu.Unlock()
						if p != nil && p.label == "dkv.compact.commit" {
							got = "parked"
						} else if time.Now().After(deadline) {
							got = "timeout"
						} else {
							// (a task parked at "begin" is the next queued task: the idle event of this one is on its way)
							time.Sleep(20 * time.Microsecond)
						}
					}
					switch got {
					case "idle":
						compactQ--
						out = append(out, "compactidle")
					case "parked":
						out = append(out, "compactbegin")
					case "failed":
						compactQ--
						out = append(out, "compactfail")
					default:
						out = append(out, "timeout")
					}
				} else { // at commit
					cs := t.payload[1].(*sst.ChangeSet)
					lvls, added, removed := cs.VerifChangeSet()
					nLevels := len(db.VerifLevels().VerifLayout())
					lvl := -2
					for _, l := range lvls {
						if l < 0 {
							l = nLevels + l
						}
						if lvl == -2 {
							lvl = l
						} else if lvl != l {
							lvl = -3
						}
					}
					var rm []string
					for _, r := range removed {
						if id, ok := s.ids[r]; ok {
							rm = append(rm, strconv.Itoa(id))
						} else {
							rm = append(rm, "999999")
						}
					}
					var add []string
					for _, a := range added {
						add = append(add, dumpTable(a))
						s.ids[a] = s.nextID
						s.nextID++
					}
					s.release("compact")
					if s.waitEvent("dkv.compact.done") == "timeout" {
						out = append(out, "timeout")
						continue
					}
					rmS, addS := "-", "none"
					if len(rm) > 0 {
						rmS = strings.Join(rm, ",")
					}
					if len(add) > 0 {
						addS = strings.Join(add, "|")
					}
					out = append(out, fmt.Sprintf("compact L%d rm=%s add=%s", lvl, rmS, addS))
				}
			default:
				out = append(out, "bad-op")
			}
		default:
			out = append(out, "bad-op")
		}
	}
	return out
}

// ---- generator ----

var c07Pool = [][]byte{{}, {0x61}, {0x61, 0x00}, {0x61, 0x62}, {0x61, 0x62, 0x63}, {0x62}, {0x00}, {0xff}, {0xff, 0xff}, {0x62, 0xff}, {0x7f}, {0x80, 0x01}}

func c07Key(r *lib.Rng) []byte {
	if r.Chance(1, 10) {
		return r.Bytes(r.Range(1, 3))
	}
	return lib.Pick(r, c07Pool)
}

func c07Val(r *lib.Rng) []byte {
	switch r.Intn(5) {
	case 0:
		return nil
	case 1:
		return r.Bytes(r.Range(20, 70))
	default:
		return r.Bytes(r.Range(1, 6))
	}
}

// ---- "readall": a read of every written key after every background step ----
//
// In a readall case the generator follows every background step (`bg f`, `bg c`) and every `resume` by a full
// observation: `scan -` and `get k` for every key of the case's key universe. It is a pure expansion into the
// existing ops (the driver and the real-code runner know nothing about it). While a read is parked (between
// `getpark`/`scanpark` and `resume`) the runner and the driver both answer `reader-busy` to foreground reads (one
// reader goroutine), so inside that window nothing is emitted; the observation follows the `resume`.

// c07ReadAllCap bounds the key universe of one readall observation; a larger universe is sampled.
const c07ReadAllCap = 24

// c07ReadAll appends the full observation over the universe `uni` (sampled from r, order kept, if it is larger
// than the cap).
func c07ReadAll(r *lib.Rng, ops []string, uni [][]byte) []string {
	ops = append(ops, "scan -")
	if len(uni) > c07ReadAllCap {
		// deterministic sample without replacement: partial Fisher-Yates over the indices, then back in order
		idx := make([]int, len(uni))
		for i := range idx {
			idx[i] = i
		}
		for i := 0; i < c07ReadAllCap; i++ {
			j := i + r.Intn(len(idx)-i)
			idx[i], idx[j] = idx[j], idx[i]
		}
		pick := slices.Clone(idx[:c07ReadAllCap])
		slices.Sort(pick)
		for _, i := range pick {
			ops = append(ops, "get "+lib.Hex(uni[i]))
		}
		return ops
	}
	for _, k := range uni {
		ops = append(ops, "get "+lib.Hex(k))
	}
	return ops
}

func c07IsBg(op string) bool { return op == "bg f" || op == "bg c" }

// genDkvRanged: a larger ordered key space loaded mostly in ascending order, then overwrites/deletes inside a
// narrow moving window, with background steps following closely: multi-table deeper levels whose key ranges are
// only partly touched by the next level-0 tables.
// readAll: every background step is followed by the full observation of the keys written so far (n counts the
// generated steps, not the lines of the observations).
func genDkvRanged(r *lib.Rng, n int, readAll bool) []string {
	var ops []string
	nkeys := r.Range(24, 60)
	if readAll {
		nkeys = r.Range(8, 30)
	}
	key := func(i int) []byte { return []byte{0x40 + byte(i/8), byte(0x30 + i%8)} }
	val := func() []byte { return r.Bytes(r.Range(12, 40)) }
	var written [][]byte // in readall cases: the keys written so far (all of them are loaded in ascending order)
	steps := 0
	add := func(op string) {
		ops = append(ops, op)
		steps++
		if readAll && c07IsBg(op) {
			ops = c07ReadAll(r, ops, written)
		}
	}
	bg := func() {
		if r.Chance(1, 10) {
			add("failnext") // the next table write of a flush or compaction fails: nothing is committed by that task
		}
		for i := r.Range(1, 5); i > 0; i-- {
			add(lib.Pick(r, []string{"bg f", "bg f", "bg c", "bg c", "bg c"}))
		}
	}
	for i := 0; i < nkeys; i++ {
		add(fmt.Sprintf("put %s %s", lib.Hex(key(i)), lib.Hex(val())))
		written = append(written, key(i))
		if r.Chance(1, 2) {
			bg()
		}
	}
	for i := 0; i < 12; i++ {
		add(lib.Pick(r, []string{"bg f", "bg c", "bg c"}))
	}
	w := r.Intn(nkeys)
	for steps < n+nkeys {
		if r.Chance(1, 12) {
			w = r.Intn(nkeys)
		}
		k := key((w + r.Intn(4)) % nkeys)
		switch x := r.Intn(100); {
		case x < 50:
			add(fmt.Sprintf("put %s %s", lib.Hex(k), lib.Hex(val())))
		case x < 58:
			add("del " + lib.Hex(k))
		case x < 75:
			add("get " + lib.Hex(key(r.Intn(nkeys))))
		case x < 78:
			add("scan " + lib.Hex(key(r.Intn(nkeys))[:1]))
		case x < 81:
			// iterator obtained, background steps, then consumed (no foreground operation and no observation inside)
			p := key(r.Intn(nkeys))[:1]
			if r.Chance(1, 3) {
				p = nil
			}
			ops = append(ops, "scanget "+lib.Hex(p))
			for i := r.Intn(5); i > 0; i-- {
				ops = append(ops, lib.Pick(r, []string{"bg f", "bg c"}))
				steps++
			}
			ops = append(ops, "scanrun")
			steps += 2
			if readAll {
				ops = c07ReadAll(r, ops, written)
			}
		default:
			bg()
		}
	}
	ops = append(ops, "scan -")
	for i := 0; i < nkeys; i++ {
		ops = append(ops, "get "+lib.Hex(key(i)))
	}
	return ops
}

// genDkvOps: n generated steps over the key pool (plus a few random keys). readAll: every background step and
// every `resume` is followed by the full observation of the pool keys and of the random keys written so far.
func genDkvOps(r *lib.Rng, n int, parkReads, readAll bool) []string {
	if r.Chance(2, 5) {
		return genDkvRanged(r, n, readAll)
	}
	var ops []string
	uni := slices.Clone(c07Pool)
	wkey := func() []byte { // the key of a write joins the universe
		k := c07Key(r)
		if readAll && !slices.ContainsFunc(uni, func(u []byte) bool { return slices.Equal(u, k) }) {
			uni = append(uni, k)
		}
		return k
	}
	steps := 0
	add := func(op string, observe bool) {
		ops = append(ops, op)
		steps++
		if readAll && observe {
			ops = c07ReadAll(r, ops, uni)
		}
	}
	for steps < n {
		switch x := r.Intn(100); {
		case x < 40:
			k := wkey()
			add(fmt.Sprintf("put %s %s", lib.Hex(k), lib.Hex(c07Val(r))), false)
		case x < 52:
			add("del "+lib.Hex(wkey()), false)
		case x < 64:
			add("get "+lib.Hex(c07Key(r)), false)
		case x < 71:
			p := c07Key(r)
			if r.Chance(1, 3) {
				p = nil
			}
			add("scan "+lib.Hex(p), false)
		case x < 81:
			if r.Chance(1, 8) {
				add("failnext", false) // the next table write (of this flush, or of a compaction that comes first) fails
			}
			add("bg f", true)
		case x < 92:
			if r.Chance(1, 12) {
				add("failnext", false)
			}
			add("bg c", true)
		case x < 95:
			if parkReads {
				// iterator obtained, background steps, then consumed: foreground operations are refused while the
				// iterator is held (reader-busy), so no observation inside; it follows the `scanrun`
				p := c07Key(r)
				if r.Chance(1, 3) {
					p = nil
				}
				add("scanget "+lib.Hex(p), false)
				for i := r.Intn(5); i > 0; i-- {
					add(lib.Pick(r, []string{"bg f", "bg c"}), false)
				}
				add("scanrun", true)
			}
		default:
			if parkReads {
				if r.Chance(1, 3) {
					p := c07Key(r)
					if r.Chance(1, 3) {
						p = nil
					}
					add("scanpark "+lib.Hex(p), false)
				} else {
					add("getpark "+lib.Hex(c07Key(r)), false)
				}
				for i := r.Intn(4); i > 0; i-- {
					// inside the parked window foreground reads are refused (reader-busy): no observation here
					add(lib.Pick(r, []string{"bg f", "bg c"}), false)
				}
				add("resume", true)
			}
		}
	}
	// final full observation
	ops = append(ops, "scan -")
	for _, k := range uni {
		ops = append(ops, "get "+lib.Hex(k))
	}
	return ops
}

func c07Header(r *lib.Rng, id string) string {
	return fmt.Sprintf("M %s mem=%d target=%d l0=%d amp=%d smallest=%d", id, lib.Pick(r, []int{60, 120, 200, 400}), lib.Pick(r, []int{64, 96, 160, 256}),
		lib.Pick(r, []int{1, 2, 2, 3, 4}), lib.Pick(r, []int{1, 25, 50, 200, 100000}), lib.Pick(r, []int{1, 2000, 5000, 1 << 40}))
}

func c07Fixed() []lib.Case {
	k, z := "6b", "7a7a"
	big := lib.Hex([]byte(strings.Repeat("x", 300)))
	return []lib.Case{
		// D2: sealed + active memtable hold the key while the flush is held back
		{Header: "M C07 mem=200 l0=100", Ops: []string{"put " + k + " 01", "put " + z + " " + big, "put " + k + " 02", "get " + k, "bg f", "get " + k, "bg f", "get " + k, "scan -"}, Tags: []string{"regress-D2"}},
		// D3: two level-0 tables hold the key
		{Header: "M C07 mem=200 l0=100", Ops: []string{"put " + k + " 01", "put " + z + " " + big, "bg f", "bg f", "put " + k + " 02", "put " + z + " " + big, "bg f", "bg f", "get " + k, "scan " + k}, Tags: []string{"regress-D3"}},
		// D4: delete in memory over a flushed put; and across memtables
		{Header: "M C07 mem=200 l0=100", Ops: []string{"put " + k + " 01", "put " + z + " " + big, "bg f", "bg f", "del " + k, "get " + k, "scan " + k, "scan -"}, Tags: []string{"regress-D4"}},
		{Header: "M C07 mem=200 l0=100", Ops: []string{"put " + k + " 01", "put " + z + " " + big, "del " + k, "scan " + k, "get " + k}, Tags: []string{"regress-D4"}},
		// D5: flush commit between the two phases of a read
		{Header: "M C07 mem=200 l0=100", Ops: []string{"put " + k + " 01", "put " + z + " " + big, "bg f", "getpark " + k, "bg f", "resume", "get " + k}, Tags: []string{"regress-D5"}},
		{Header: "M C07 mem=200 l0=100", Ops: []string{"put " + k + " 01", "put " + z + " " + big, "bg f", "scanpark " + k, "bg f", "resume", "scan " + k}, Tags: []string{"regress-D5"}},
		// an iterator is obtained, the flush of the memtable that holds the key commits, then the iterator is consumed:
		// it must still yield the key (both snapshots belong to the call, not to the first pull)
		{Header: "M C07 mem=200 l0=100", Ops: []string{"put " + k + " 01", "put " + z + " " + big, "scanget " + k, "bg f", "bg f", "scanrun", "scan " + k}, Tags: []string{"window-iter-held"}},
		// a flush whose table write fails commits nothing: the sealed memtable stays readable, the next flush task
		// writes both sealed memtables
		{Header: "M C07 mem=200 l0=100", Ops: []string{"put " + k + " 01", "put " + z + " " + big, "failnext", "bg f", "get " + k, "scan -", "bg f",
			"put " + k + " 02", "put " + z + " " + big, "bg f", "get " + k, "bg f", "get " + k, "scan -"}, Tags: []string{"flush-fails"}},
		// a compaction whose table write fails commits nothing; a later compaction task does the work
		{Header: "M C07 mem=200 l0=1", Ops: []string{"put " + k + " 01", "put " + z + " " + big, "bg f", "bg f", "failnext", "bg c", "get " + k, "scan -", "bg c",
			"put " + k + " 02", "put " + z + " " + big, "bg f", "bg f", "bg c", "bg c", "bg c", "get " + k, "scan -"}, Tags: []string{"compaction-fails"}},
	}
}

// ---- bounded-exhaustive sweep for C07 ----
//
// All schedules over a small alphabet on two keys up to a fixed depth, each step followed by the full observation
// (`scan -`, `get k1`, `get k2`). The memtable holds both keys with small values (2 x 19 bytes <= 60) and is
// rotated by the "big" put (17+1+48 > 60), so a flush is possible after one step; l0=1 lets the compactor act on a
// single level-0 table.
//
// Alphabet: P1 `put k1 v`, P2 `put k2 v`, D1 `del k1`, BIG `put k2 <48 bytes>` (rotates), F `bg f` (one step of the
// flush task: begin, then commit), C `bg c` (one step of the compaction task), G `getpark k1`, S `scanpark -`,
// H `scanget -` (iterator obtained, consumed later), R `resume` / `scanrun` (closes the window G/S/H opened). Values
// are a function of the step index.
//
// The enumeration is purely generator-side. To leave out schedules that cannot differ from a shorter one, the
// generator PREDICTS the state of the queues and memtables (it never calls the code under test): a background step
// is only taken when a task is predicted to be queued, a `getpark` only when the key is predicted to be in no
// memtable (otherwise the real call returns from its first phase: a plain get, which every observation contains),
// inside a window (read parked, or iterator held) only background steps and (after at least one of them) the closing
// `resume`/`scanrun` are taken — the runner and the driver refuse foreground operations there. A wrong prediction (for instance under a
// changed rotation rule) costs nothing: the runner answers `none`/`reader-busy`/`no-reader` and the driver agrees.
// Only schedules with at least one predicted flush commit are kept (the others never leave the memtables).

const c07SweepHeader = "M C07 mem=60 target=96 l0=1 amp=50 smallest=1"

var c07SwK = [2]string{"61", "62"}

type c07SwSt struct {
	active     uint8   // bit i: key i is in the active memtable
	sealed     []uint8 // sealed memtables, oldest first
	flushing   int     // -1: no flush task between begin and commit; else the number of sealed memtables it took
	flushQ     int     // flush tasks queued and not finished
	compactQ   int     // compaction tasks queued and not finished
	compPhase  int     // 0: the next `bg c` is a begin, 1: it is the commit
	window     int     // 0: none; swParked: a read is parked between its phases; swHeld: an iterator is held unconsumed
	bgInWindow bool
	commits    int // predicted flush commits
}

func (s c07SwSt) clone() c07SwSt {
	s.sealed = append([]uint8(nil), s.sealed...)
	return s
}

func (s c07SwSt) inMem(bit uint8) bool {
	if s.active&bit != 0 {
		return true
	}
	for _, m := range s.sealed {
		if m&bit != 0 {
			return true
		}
	}
	return false
}

const (
	swParked = 1
	swHeld   = 2
)

const (
	swP1 = iota
	swP2
	swD1
	swBIG
	swF
	swC
	swG
	swS
	swH
	swR
	swLetters
)

// enabled: does the letter make a schedule that is not predicted to be equivalent to a shorter/other one?
func (s c07SwSt) enabled(l, remaining int) bool {
	bgReady := s.flushQ > 0 || s.compactQ > 0
	if s.window != 0 {
		switch l {
		case swF:
			return s.flushQ > 0
		case swC:
			return s.compactQ > 0
		case swR:
			return s.bgInWindow
		}
		return false
	}
	switch l {
	case swP1, swP2, swD1:
		return true
	case swBIG:
		return s.flushQ < 4
	case swF:
		return s.flushQ > 0
	case swC:
		return s.compactQ > 0
	case swG:
		return bgReady && remaining >= 2 && !s.inMem(1)
	case swS, swH:
		return bgReady && remaining >= 2
	}
	return false
}

// apply returns the op line of the letter at step i and the predicted next state.
func (s c07SwSt) apply(l, i int) (string, c07SwSt) {
	n := s.clone()
	small := lib.Hex([]byte{byte(0x11 + i)})
	switch l {
	case swP1:
		n.active |= 1
		return "put " + c07SwK[0] + " " + small, n
	case swP2:
		n.active |= 2
		return "put " + c07SwK[1] + " " + small, n
	case swD1:
		n.active |= 1
		return "del " + c07SwK[0], n
	case swBIG:
		n.active |= 2
		n.sealed = append(n.sealed, n.active)
		n.active = 0
		n.flushQ++
		return "put " + c07SwK[1] + " " + strings.Repeat(lib.Hex([]byte{byte(0x81 + i)}), 48), n
	case swF:
		if n.flushing < 0 {
			n.flushing = len(n.sealed)
		} else {
			n.sealed = n.sealed[min(n.flushing, len(n.sealed)):]
			n.flushing = -1
			n.flushQ--
			n.compactQ++
			n.commits++
		}
		n.bgInWindow = n.window != 0
		return "bg f", n
	case swC:
		if n.compPhase == 0 {
			n.compPhase = 1
		} else {
			n.compPhase = 0
			n.compactQ--
		}
		n.bgInWindow = n.window != 0
		return "bg c", n
	case swG:
		n.window, n.bgInWindow = swParked, false
		return "getpark " + c07SwK[0], n
	case swS:
		n.window, n.bgInWindow = swParked, false
		return "scanpark -", n
	case swH:
		n.window, n.bgInWindow = swHeld, false
		return "scanget -", n
	default: // swR: closes the open window
		op := c07SwClose(s.window)
		n.window, n.bgInWindow = 0, false
		return op, n
	}
}

func c07SwClose(window int) string {
	if window == swHeld {
		return "scanrun"
	}
	return "resume"
}

func c07SwObserve(ops []string) []string {
	return append(ops, "scan -", "get "+c07SwK[0], "get "+c07SwK[1])
}

// c07SweepFrom enumerates all schedules of exactly `depth` letters after the given prefix (itself a schedule of
// letters, observed step by step as well). needCommit: keep only schedules with a predicted flush commit.
func c07SweepFrom(prefix []int, depth int, needCommit bool, tag string) []lib.Case {
	st := c07SwSt{flushing: -1}
	var ops []string
	for i, l := range prefix {
		var op string
		op, st = st.apply(l, i)
		ops = append(ops, op)
		if st.window == 0 {
			ops = c07SwObserve(ops)
		}
	}
	var out []lib.Case
	var rec func(st c07SwSt, ops []string, i int)
	rec = func(st c07SwSt, ops []string, i int) {
		if i == len(prefix)+depth {
			if needCommit && st.commits == 0 {
				return
			}
			fin := append([]string(nil), ops...)
			if st.window != 0 {
				fin = c07SwObserve(append(fin, c07SwClose(st.window)))
			}
			out = append(out, lib.Case{Header: c07SweepHeader, Ops: fin, Tags: []string{tag}})
			return
		}
		for l := 0; l < swLetters; l++ {
			if !st.enabled(l, len(prefix)+depth-i) {
				continue
			}
			op, nx := st.apply(l, i)
			nops := append(ops[:len(ops):len(ops)], op)
			if nx.window == 0 {
				nops = c07SwObserve(nops)
			}
			rec(nx, nops, i+1)
		}
	}
	rec(st, ops, len(prefix))
	return out
}

var c07SweepOnce sync.Once
var c07SweepAll []lib.Case

const c07SweepQuick = 40

// c07Sweep: the sweep cases of the tier (thorough: all of them; quick: a stride sample of c07SweepQuick cases).
func c07Sweep(tier string) []lib.Case {
	c07SweepOnce.Do(func() {
		// from the empty database
		c07SweepAll = append(c07SweepAll, c07SweepFrom(nil, 7, true, "sweep-empty")...)
		// both keys in one level-0 table, compaction queued
		c07SweepAll = append(c07SweepAll, c07SweepFrom([]int{swP1, swBIG, swF, swF}, 5, false, "sweep-l0")...)
		// after the compactor's first two steps on that table
		c07SweepAll = append(c07SweepAll, c07SweepFrom([]int{swP1, swBIG, swF, swF, swC, swC}, 5, false, "sweep-l1")...)
	})
	if tier == "thorough" {
		return c07SweepAll
	}
	n := len(c07SweepAll)
	if n <= c07SweepQuick {
		return c07SweepAll
	}
	out := make([]lib.Case, 0, c07SweepQuick)
	for j := 0; j < c07SweepQuick; j++ {
		out = append(out, c07SweepAll[j*n/c07SweepQuick])
	}
	return out
}

// dkvNontrivial: the trace held data in several containers AND was read there: at least one flush commit or
// compaction happened, and after it a get/scan was answered that covers a key written before that commit
// (a `get`/`getpark` of such a key, or a `scan`/`scanpark` whose prefix such a key has).
func dkvNontrivial(c lib.Case, out []string) bool {
	written := map[string]bool{} // hex keys written so far
	var old []string             // hex keys written before some flush commit / compaction
	isOld := map[string]bool{}
	for i, op := range c.Ops {
		if i >= len(out) {
			break
		}
		f := strings.Fields(op)
		if len(f) == 0 {
			continue
		}
		o := out[i]
		switch f[0] {
		case "put", "del":
			if len(f) > 1 && strings.HasPrefix(o, "rot=") {
				written[f[1]] = true
			}
		case "bg":
			if strings.HasPrefix(o, "flushcommit") || strings.HasPrefix(o, "compact L") {
				for k := range written {
					if !isOld[k] {
						isOld[k] = true
						old = append(old, k)
					}
				}
			}
		case "get", "getpark":
			if len(f) > 1 && isOld[f[1]] && o != "reader-busy" && o != "timeout" {
				return true
			}
		case "scan", "scanpark", "scanget":
			if len(f) > 1 && o != "reader-busy" && o != "timeout" {
				p := f[1]
				if p == "-" {
					p = ""
				}
				for _, k := range old {
					if k != "-" && strings.HasPrefix(k, p) {
						return true
					}
					if k == "-" && p == "" {
						return true
					}
				}
			}
		}
	}
	return false
}

// c07CaseShape decides from the case's Rng whether the case is a readall case and how many steps it has.
func c07CaseShape(r *lib.Rng, tier string) (n int, readAll bool) {
	readAll = r.Chance(1, 3)
	switch {
	case readAll && tier == "thorough":
		n = r.Range(10, 90)
	case readAll:
		n = r.Range(10, 40) // every background step costs a full observation: fewer steps, same number of lines
	case tier == "thorough":
		n = r.Range(20, 300)
	default:
		n = r.Range(20, 120)
	}
	return
}

func propC07() *lib.Prop {
	return &lib.Prop{
		ID:   "C07",
		Corr: "Model/Lsm.lean transition system ↔ real dkv.DB (hook-scheduled flush/compaction commits, two-phase reads)",
		Rule: "trace validation: generated schedules of put/del/get/scan/background steps on a real dkv.DB with tiny memtables; every read is compared with the model and with the map spec; " +
			"in one case of three every background step and every resumed two-phase read is followed by a scan of everything and a get of every key of the case's key universe; " +
			"plus a bounded-exhaustive sweep (all schedules of put/del/rotating put/flush step/compaction step/parked get/parked scan over 2 keys up to a fixed depth, full observation after every step; a stride sample in the quick tier); " +
			"non-trivial = a flush commit or compaction happened and a key written before it was read (get/scan) afterwards",
		FeedImpl:        true,
		SpecIndependent: true,
		NumCases: func(tier string) int {
			if tier == "thorough" {
				return len(c07Sweep(tier)) + 4000
			}
			return len(c07Sweep(tier)) + 480
		},
		Fixed: func(string) []lib.Case { return c07Fixed() },
		Gen: func(r *lib.Rng, tier string, i int) lib.Case {
			if sw := c07Sweep(tier); i < len(sw) {
				return sw[i] // deterministic: the i-th enumerated schedule (the Rng is not used)
			}
			n, readAll := c07CaseShape(r, tier)
			c := lib.Case{Header: c07Header(r, "C07"), Ops: genDkvOps(r, n, true, readAll)}
			if readAll {
				c.Tags = []string{"readall"}
			}
			return c
		},
		Impl:       runDkvTrace,
		Nontrivial: dkvNontrivial,
		MObs: func(op string) bool {
			return strings.HasPrefix(op, "bg ")
		},
	}
}
