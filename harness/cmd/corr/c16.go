package main

import (
	"context"
	"crypto/md5"
	"encoding/json"
	"fmt"
	"io"
	"log/slog"
	"math/big"
	"net/http"
	"net/http/httptest"
	"os"
	"path/filepath"
	"sort"
	"strconv"
	"strings"
	"sync"
	"sync/atomic"
	"time"

	awskinesis "github.com/aws/aws-sdk-go-v2/service/kinesis"
	kinesistypes "github.com/aws/aws-sdk-go-v2/service/kinesis/types"
	gproto "google.golang.org/protobuf/proto"
	"google.golang.org/protobuf/types/known/timestamppb"
	"reduction.dev/reduction-protocol/handlerpb"
	"reduction.dev/reduction-protocol/jobconfigpb"
	protocolkinesispb "reduction.dev/reduction-protocol/kinesispb"
	"reduction.dev/reduction/batching"
	"reduction.dev/reduction/clocks"
	"reduction.dev/reduction/config"
	"reduction.dev/reduction/connectors"
	"reduction.dev/reduction/connectors/embedded"
	"reduction.dev/reduction/connectors/httpapi"
	"reduction.dev/reduction/connectors/kinesis"
	"reduction.dev/reduction/connectors/kinesis/kinesisfake"
	"reduction.dev/reduction/connectors/kinesis/kinesispb"
	"reduction.dev/reduction/jobs"
	"reduction.dev/reduction/proto"
	"reduction.dev/reduction/proto/jobpb"
	"reduction.dev/reduction/proto/snapshotpb"
	"reduction.dev/reduction/proto/workerpb"
	"reduction.dev/reduction/storage/locations"
	"reduction.dev/reduction/util/sliceu"
	"reduction.dev/reduction/workers/sourcerunner"
	"verif/harness/lib"
)

func init() { register("C16", propC16) }

const c16Wait = 5 * time.Second

// c16CodeReadd mirrors Driver/C16.lean `codeReadd`: the code resumes shards that have a checkpointed position but were
// no longer assigned when the splitter's part of the checkpoint was taken (D52 repaired, /repo c7455f1), so the
// harness's own bookkeeping must not count them as finished after a restore.
const c16CodeReadd = true

// c16Stuck is a last-resort bound for waits that always end promptly unless the code under test is stuck.
const c16Stuck = 6 * time.Second

var c16Max = new(big.Int).Lsh(big.NewInt(1), 128)

// ---------------------------------------------------------------------------------------------------------------
// canonical output of AssignSplits calls

func c16ShardNum(id string) int {
	n, err := strconv.Atoi(strings.TrimPrefix(id, "shardId-"))
	if err != nil {
		return -1
	}
	return n
}

func c16ShardID(n int) string { return fmt.Sprintf("shardId-%012d", n) }

type c16Split struct {
	id  int
	cur string
}

// showAssign prints one hooks.AssignSplits call: runners in order, splits by id, `id@cursor`.
func showAssign(runnerIDs []string, a map[string][]*workerpb.SourceSplit, num func(string) int, cur func([]byte) string) (string, []int) {
	var parts []string
	var ids []int
	for i, r := range runnerIDs {
		ss := a[r]
		if len(ss) == 0 {
			continue
		}
		var l []c16Split
		for _, s := range ss {
			l = append(l, c16Split{num(s.SplitId), cur(s.Cursor)})
			ids = append(ids, num(s.SplitId))
		}
		sort.Slice(l, func(a, b int) bool { return l[a].id < l[b].id || (l[a].id == l[b].id && l[a].cur < l[b].cur) })
		strs := make([]string, len(l))
		for j, x := range l {
			strs[j] = fmt.Sprintf("%d@%s", x.id, x.cur)
		}
		parts = append(parts, fmt.Sprintf("r%d:[%s]", i, strings.Join(strs, ",")))
	}
	return "A " + strings.Join(parts, " "), ids
}

func curDec(b []byte) string {
	if len(b) == 0 {
		return "-"
	}
	return string(b)
}

// ---------------------------------------------------------------------------------------------------------------
// Kinesis splitter against kinesisfake

type kinEnv struct {
	srv       *httptest.Server
	client    *awskinesis.Client
	arn       string
	runnerIDs []string
	splitter  *kinesis.SourceSplitter
	tick      chan<- time.Time
	calls     chan map[string][]*workerpb.SourceSplit
	errCh     chan error
	// bookkeeping of the harness (independent of the code under test) for the theorem-instance check
	parents [][]int
	done    map[int]bool
	log     []int
	hasCk   bool
	ckState []byte
	ckSplit [][]byte
	ckDone  map[int]bool
}

var c16Quiet sync.Once

// c16PageListShards makes the fake answer ListShards in pages of `page` shards (the splitter sends no MaxResults of its
// own; Kinesis pages at 1000 shards): the request is given a MaxResults, so listAllShards has to follow NextToken.
func c16PageListShards(srv *httptest.Server, page int) {
	inner := srv.Config.Handler
	srv.Config.Handler = http.HandlerFunc(func(w http.ResponseWriter, r *http.Request) {
		if strings.HasSuffix(r.Header.Get("x-amz-target"), ".ListShards") {
			body, _ := io.ReadAll(r.Body)
			var req map[string]any
			if json.Unmarshal(body, &req) == nil {
				req["MaxResults"] = page
				body, _ = json.Marshal(req)
			}
			r.Body = io.NopCloser(strings.NewReader(string(body)))
			r.ContentLength = int64(len(body))
		}
		inner.ServeHTTP(w, r)
	})
}

func newKinEnv(shards, runners int, page ...int) (*kinEnv, error) {
	c16Quiet.Do(func() { slog.SetDefault(slog.New(slog.NewTextHandler(io.Discard, nil))) })
	e := &kinEnv{done: map[int]bool{}, errCh: make(chan error, 64)}
	srv, _ := kinesisfake.StartFake()
	if len(page) > 0 && page[0] > 0 {
		c16PageListShards(srv, page[0])
	}
	e.srv = srv
	e.client = kinesis.NewLocalClient(srv.URL)
	name := "s"
	n32 := int32(shards)
	if _, err := e.client.CreateStream(context.Background(), &awskinesis.CreateStreamInput{StreamName: &name, ShardCount: &n32}); err != nil {
		return e, err
	}
	d, err := e.client.DescribeStream(context.Background(), &awskinesis.DescribeStreamInput{StreamName: &name})
	if err != nil {
		return e, err
	}
	e.arn = *d.StreamDescription.StreamARN
	for i := 0; i < runners; i++ {
		e.runnerIDs = append(e.runnerIDs, fmt.Sprintf("r%d", i))
	}
	for i := 0; i < shards; i++ {
		e.parents = append(e.parents, nil)
	}
	return e, nil
}

func (e *kinEnv) close() {
	if e.splitter != nil {
		e.splitter.Close()
	}
	if e.srv != nil {
		e.srv.CloseClientConnections()
		e.srv.Close()
	}
}

// sync returns once the real processShardAssignment loop has received a wake-up signal sent now: the loop is
// sequential, so everything it was asked to do before is complete at that moment. No request to the fake is involved.
// The only ways not to return true are a dead loop (its error is on errCh) or a stuck one (last-resort deadline).
func (e *kinEnv) sync() string {
	sp := e.splitter
	sent := make(chan struct{})
	go func() { sp.VerifWake(); close(sent) }()
	deadline := time.Now().Add(c16Stuck)
	for waiting := true; waiting; {
		select {
		case <-sent:
			waiting = false
		case err := <-e.errCh:
			return "error " + strings.ReplaceAll(err.Error(), "\n", " ")
		case <-time.After(c16Stuck):
			return "stuck"
		}
	}
	for sp.VerifWakePending() {
		select {
		case err := <-e.errCh:
			return "error " + strings.ReplaceAll(err.Error(), "\n", " ")
		default:
		}
		if time.Now().After(deadline) {
			return "stuck"
		}
		time.Sleep(10 * time.Microsecond)
	}
	return ""
}

// sendTick hands one discovery tick to the real loop (accepted when the loop is in its select).
func (e *kinEnv) sendTick() string {
	select {
	case e.tick <- time.Now():
		return ""
	case err := <-e.errCh:
		return "error " + strings.ReplaceAll(err.Error(), "\n", " ")
	case <-time.After(c16Stuck):
		return "stuck"
	}
}

// settle waits until everything the splitter loop was asked to do has been done and returns the AssignSplits calls.
// Two wake-ups: when the second is received, the work triggered by the first (AvailableSplits + assignShards after
// whatever preceded it) is complete; the second itself then finds nothing to assign.
func (e *kinEnv) settle() string {
	for i := 0; i < 2; i++ {
		if s := e.sync(); s != "" {
			return s
		}
	}
	var outs []string
	for {
		select {
		case a := <-e.calls:
			s, ids := showAssign(e.runnerIDs, a, c16ShardNum, curDec)
			e.log = append(e.log, ids...)
			outs = append(outs, s)
			continue
		default:
		}
		break
	}
	select {
	case err := <-e.errCh:
		return "error " + strings.ReplaceAll(err.Error(), "\n", " ")
	default:
	}
	if len(outs) == 0 {
		return "-"
	}
	return strings.Join(outs, " | ")
}

// start (re)creates the splitter. A request of the previous, just closed splitter may have poisoned a pooled
// loopback connection ("use of closed network connection" / "failed to decode response body" from the HTTP
// transport): that is transport noise of the in-process fake, not behaviour of the splitter, so such a start is
// simply tried again on a fresh splitter.
func (e *kinEnv) start() string {
	out := ""
	for attempt := 0; attempt < 4; attempt++ {
		out = e.startOnce()
		if !(strings.HasPrefix(out, "error ") && (strings.Contains(out, "use of closed network connection") || strings.Contains(out, "failed to decode response body") || strings.Contains(out, "connection reset"))) {
			return out
		}
		time.Sleep(5 * time.Millisecond)
	}
	return out
}

func (e *kinEnv) startOnce() string {
	if e.splitter != nil {
		e.splitter.Close()
	}
	calls := make(chan map[string][]*workerpb.SourceSplit, 256)
	e.calls = calls
	e.errCh = make(chan error, 64) // per splitter: a closed splitter's cancelled requests are of no interest
	// every splitter gets its own client and connection pool: nothing of a closed splitter can affect the next one
	cfg := kinesis.SourceConfig{StreamARN: e.arn, Client: kinesis.NewLocalClient(e.srv.URL), ShardDiscoveryInterval: time.Hour}
	e.splitter = kinesis.NewSourceSplitter(cfg, e.runnerIDs, connectors.SourceSplitterHooks{
		AssignSplits: func(a map[string][]*workerpb.SourceSplit) { calls <- a },
	}, e.errCh)
	var ck *snapshotpb.SourceCheckpoint
	e.done = map[int]bool{}
	e.log = nil
	if e.hasCk {
		ck = &snapshotpb.SourceCheckpoint{SplitterState: e.ckState, SplitStates: e.ckSplit}
		for k := range e.ckDone {
			e.done[k] = true
		}
		if c16CodeReadd {
			// a shard with a reported position that the splitter no longer tracked (and that discovery will not list
			// again) is resumed by the repaired splitter: it is not finished in the restored cut
			var st kinesispb.SplitterState
			if gproto.Unmarshal(e.ckState, &st) == nil {
				assigned := map[string]bool{}
				for _, sh := range st.AssignedShards {
					assigned[sh.ShardId] = true
				}
				for _, b := range e.ckSplit {
					var pos kinesispb.Shard
					if gproto.Unmarshal(b, &pos) == nil && !assigned[pos.ShardId] && pos.ShardId <= st.LastAssignedShardId {
						delete(e.done, c16ShardNum(pos.ShardId))
					}
				}
			}
		}
	}
	if err := e.splitter.Start(ck); err != nil {
		return "error " + strings.ReplaceAll(err.Error(), "\n", " ")
	}
	e.tick = e.splitter.VerifManualTicker()
	return e.settle()
}

// check evaluates one_reader / children_withheld (and, after a discovery, that no shard is left behind) on what the
// real splitter handed out, using only the harness's own record of the stream lineage and finish notifications.
func (e *kinEnv) check(withLost bool) string {
	l := append([]int(nil), e.log...)
	sort.Ints(l)
	for i := 0; i+1 < len(l); i++ {
		if l[i] == l[i+1] {
			return fmt.Sprintf("dup %d", l[i])
		}
	}
	inLog := map[int]bool{}
	for _, i := range l {
		inLog[i] = true
	}
	parentsDone := func(i int) bool {
		if i < 0 || i >= len(e.parents) {
			return true
		}
		for _, p := range e.parents[i] {
			if !e.done[p] {
				return false
			}
		}
		return true
	}
	for _, i := range l {
		if !parentsDone(i) {
			return fmt.Sprintf("early %d", i)
		}
	}
	if withLost {
		for i := range e.parents {
			if !e.done[i] && !inLog[i] && parentsDone(i) {
				return fmt.Sprintf("lost %d", i)
			}
		}
	}
	return "ok"
}

// c16Noisy recognises outputs that come from the test rig rather than from the behaviour under test: a wait that hit
// its last-resort bound (an overloaded machine, or a stall elsewhere in the pipeline) or noise of the in-process HTTP
// transport. Such an attempt is abandoned at once and the whole case is run again on a fresh rig (c16Retry); only an
// outcome that shows in every attempt is reported.
func c16Noisy(o string) bool {
	return o == "stuck" || strings.HasPrefix(o, "stuck-") || strings.HasPrefix(o, "timeout") || strings.HasPrefix(o, "setup-error") ||
		strings.Contains(o, "use of closed network connection") || strings.Contains(o, "failed to decode response body") ||
		strings.Contains(o, "connection reset")
}

// c16Abandoned reports whether the attempt already produced a noisy output (the remaining ops are then skipped).
func c16Abandoned(out []string) bool {
	return len(out) > 0 && (out[len(out)-1] == "abandoned" || c16Noisy(out[len(out)-1]))
}

// c16Discarded counts, per kind of rig outcome, the attempts that c16Retry threw away (reported in the evidence).
var c16Discarded = struct {
	sync.Mutex
	n map[string]int
}{n: map[string]int{}}

func c16Retry(run func() []string) []string {
	var out []string
	for attempt := 0; attempt < 3; attempt++ {
		out = run()
		noisy := ""
		for _, o := range out {
			if noisy == "" && c16Noisy(o) {
				noisy = strings.Fields(o + " x")[0]
				if strings.Contains(o, "use of closed network connection") || strings.Contains(o, "failed to decode response body") || strings.Contains(o, "connection reset") {
					noisy = "transport"
				}
			}
		}
		if noisy == "" {
			break
		}
		c16Discarded.Lock()
		c16Discarded.n[noisy]++
		if attempt == 2 {
			c16Discarded.n["persistent (reported)"]++
		}
		c16Discarded.Unlock()
	}
	return out
}

// implKin runs the case; if an output shows noise of the in-process HTTP transport between the AWS client and the
// fake (a connection closed under the client, a wait that hit its last-resort bound), the whole case is run again on a
// fresh fake, client and splitter. Behaviour of the splitter is deterministic in the ops, so a defect shows in every
// attempt, while the noise does not repeat.
func implKin(c lib.Case, shards, runners, page int) []string {
	return c16Retry(func() []string { return implKinOnce(c, shards, runners, page) })
}

func implKinOnce(c lib.Case, shards, runners, page int) []string {
	out := make([]string, 0, len(c.Ops))
	e, err := newKinEnv(shards, runners, page)
	defer e.close()
	if err != nil {
		for range c.Ops {
			out = append(out, "setup-error "+err.Error())
		}
		return out
	}
	ctx := context.Background()
	for _, op := range c.Ops {
		if c16Abandoned(out) {
			out = append(out, "abandoned")
			continue
		}
		f := strings.Fields(op)
		if e.splitter == nil && f[0] != "start" && f[0] != "restore" && f[0] != "split" && f[0] != "merge" {
			out = append(out, "not-started")
			continue
		}
		switch f[0] {
		case "start", "restore":
			out = append(out, e.start()+" ; "+e.check(true))
		case "tick":
			if st := e.sendTick(); st == "" {
				out = append(out, e.settle()+" ; "+e.check(true))
			} else {
				out = append(out, st)
			}
		case "finish":
			var ids []string
			for _, s := range c16List(f[1]) {
				n, _ := strconv.Atoi(s)
				ids = append(ids, c16ShardID(n))
				e.done[n] = true
			}
			fin := make(chan struct{})
			sp := e.splitter
			go func() { sp.NotifySplitsFinished("r0", ids); close(fin) }()
			select {
			case <-fin:
				out = append(out, e.settle()+" ; "+e.check(false))
			case err := <-e.errCh:
				out = append(out, "error "+strings.ReplaceAll(err.Error(), "\n", " "))
			case <-time.After(c16Stuck):
				out = append(out, "stuck")
			}
		case "ckpt":
			e.ckState = e.splitter.Checkpoint()
			e.ckSplit = nil
			for _, p := range c16List(f[1]) {
				kv := strings.SplitN(p, "=", 2)
				n, _ := strconv.Atoi(kv[0])
				b, _ := gproto.Marshal(&kinesispb.Shard{ShardId: c16ShardID(n), Cursor: kv[1]})
				e.ckSplit = append(e.ckSplit, b)
			}
			e.ckDone = map[int]bool{}
			for k := range e.done {
				e.ckDone[k] = true
			}
			e.hasCk = true
			var st kinesispb.SplitterState
			if err := gproto.Unmarshal(e.ckState, &st); err != nil {
				out = append(out, "bad-state")
				continue
			}
			var ids []int
			for _, sh := range st.AssignedShards {
				ids = append(ids, c16ShardNum(sh.ShardId))
			}
			sort.Ints(ids)
			last := "-"
			if st.LastAssignedShardId != "" {
				last = strconv.Itoa(c16ShardNum(st.LastAssignedShardId))
			}
			out = append(out, fmt.Sprintf("last=%s assigned=%s", last, joinInts(ids, ",")))
		case "split":
			i, _ := strconv.Atoi(f[1])
			id := c16ShardID(i)
			_, err := e.client.SplitShard(ctx, &awskinesis.SplitShardInput{StreamARN: &e.arn, ShardToSplit: &id, NewStartingHashKey: &f[2]})
			if err != nil {
				out = append(out, "err")
			} else {
				e.parents = append(e.parents, []int{i}, []int{i})
				out = append(out, "ok")
			}
		case "merge":
			i, _ := strconv.Atoi(f[1])
			j, _ := strconv.Atoi(f[2])
			a, b := c16ShardID(i), c16ShardID(j)
			_, err := e.client.MergeShards(ctx, &awskinesis.MergeShardsInput{StreamARN: &e.arn, ShardToMerge: &a, AdjacentShardToMerge: &b})
			if err != nil {
				out = append(out, "err")
			} else {
				e.parents = append(e.parents, []int{i, j})
				out = append(out, "ok")
			}
		case "chk":
			out = append(out, e.check(true))
		default:
			out = append(out, "bad-op")
		}
	}
	return out
}

func c16List(s string) []string {
	if s == "-" || s == "" {
		return nil
	}
	return strings.Split(s, ",")
}

func joinInts(xs []int, sep string) string {
	s := make([]string, len(xs))
	for i, x := range xs {
		s[i] = strconv.Itoa(x)
	}
	return strings.Join(s, sep)
}

// ---------------------------------------------------------------------------------------------------------------
// D61: Checkpoint() concurrently with an assignment of the real splitter loop (hook-free stress; the hard obligation
// is the structural fact C16.checkpoint_is_one_locked_read, this op only adds a chance to see a regression concretely)

// implCkRace: op `stress <roots> <rounds>`. Per round a root shard is split, its children are discovered (withheld),
// then the shard is reported finished — the loop hands out the children and tracks them — while another goroutine
// takes checkpoints. A checkpoint whose LastAssignedShardId covers the children must list them.
func implCkRace(c lib.Case) []string {
	out := make([]string, 0, len(c.Ops))
	for _, op := range c.Ops {
		f := strings.Fields(op)
		if f[0] != "stress" || len(f) != 3 {
			out = append(out, "bad-op")
			continue
		}
		roots, _ := strconv.Atoi(f[1])
		rounds, _ := strconv.Atoi(f[2])
		out = append(out, ckRaceOnce(roots, min(rounds, roots)))
	}
	return out
}

func ckRaceOnce(roots, rounds int) string {
	e, err := newKinEnv(roots, 1)
	defer e.close()
	if err != nil {
		return "setup-error " + err.Error()
	}
	if s := e.start(); c16Noisy(s) || strings.HasPrefix(s, "error") {
		return "setup-error " + s
	}
	w := new(big.Int).Div(c16Max, big.NewInt(int64(roots)))
	ctx := context.Background()
	next := roots
	for round := 0; round < rounds; round++ {
		parent := c16ShardID(round)
		at := new(big.Int).Mul(w, big.NewInt(int64(round)))
		at.Add(at, new(big.Int).Rsh(w, 1))
		ats := at.String()
		if _, err := e.client.SplitShard(ctx, &awskinesis.SplitShardInput{StreamARN: &e.arn, ShardToSplit: &parent, NewStartingHashKey: &ats}); err != nil {
			return "setup-error " + err.Error()
		}
		if st := e.sendTick(); st != "" {
			return st
		}
		if s := e.settle(); c16Noisy(s) {
			return s
		}
		children := []string{c16ShardID(next), c16ShardID(next + 1)}
		next += 2
		stop := make(chan struct{})
		bad := make(chan string, 1)
		sp := e.splitter
		go func() {
			for {
				select {
				case <-stop:
					bad <- ""
					return
				default:
				}
				var st kinesispb.SplitterState
				if gproto.Unmarshal(sp.Checkpoint(), &st) != nil {
					continue
				}
				if st.LastAssignedShardId >= children[1] {
					has := map[string]bool{}
					for _, sh := range st.AssignedShards {
						has[sh.ShardId] = true
					}
					if !has[children[0]] || !has[children[1]] {
						bad <- fmt.Sprintf("checkpoint with LastAssignedShardId=%d does not list the assigned shards %d,%d", c16ShardNum(st.LastAssignedShardId), c16ShardNum(children[0]), c16ShardNum(children[1]))
					} else {
						bad <- ""
					}
					return
				}
			}
		}()
		sp.NotifySplitsFinished("r0", []string{parent})
		s := e.settle()
		close(stop)
		verdict := <-bad
		if c16Noisy(s) {
			return s
		}
		if verdict != "" {
			return verdict
		}
	}
	return "ok"
}

// ---------------------------------------------------------------------------------------------------------------
// the barrier cut on the real SourceRunner with a scripted reader

type cutScript struct {
	batch   []int
	barrier uint64
	mode    int // 0 plain read; 1 barrier requested before the cursors move; 2 after; 3 while the records are emitted
	k       int // mode 3: the request is made when the k-th record of this read has arrived downstream
}

type cutSplit struct{ id, init, cur int }

type cutReader struct {
	mu        sync.Mutex
	splits    []*cutSplit
	queue     []cutScript
	consumed  chan int
	assigned  chan struct{}
	ckptTaken chan struct{}
	inject    func(id uint64)
	arm       func(split, idx int, fire func()) // mode 3: fire when that record is received by an operator
	stopped   atomic.Bool
}

func (r *cutReader) find(id int) *cutSplit {
	for _, s := range r.splits {
		if s.id == id {
			return s
		}
	}
	return nil
}

func (r *cutReader) waitCkpt() {
	select {
	case <-r.ckptTaken:
	case <-time.After(10 * time.Millisecond):
	}
}

func (r *cutReader) ReadEvents() ([][]byte, error) {
	r.mu.Lock()
	if len(r.queue) == 0 {
		r.mu.Unlock()
		if r.stopped.Load() {
			return nil, connectors.ErrEndOfInput
		}
		time.Sleep(200 * time.Microsecond)
		return nil, nil
	}
	sc := r.queue[0]
	r.queue = r.queue[1:]
	if sc.mode == 1 {
		// the checkpoint request arrives while this read is in progress, before any cursor has moved
		r.mu.Unlock()
		r.inject(sc.barrier)
		r.waitCkpt()
		r.mu.Lock()
	}
	var events [][]byte
	trigSplit, trigIdx := -1, -1
	for _, id := range sc.batch {
		if s := r.find(id); s != nil {
			events = append(events, []byte(fmt.Sprintf("%d:%d", id, s.cur)))
			if sc.mode == 3 && (len(events) <= sc.k || trigSplit < 0) {
				trigSplit, trigIdx = id, s.cur // the k-th record of the read (the last one if it is shorter)
			}
			s.cur++
		}
	}
	r.mu.Unlock()
	if sc.mode == 3 {
		// ... or while the runner is emitting the records of this read
		if trigSplit < 0 {
			r.inject(sc.barrier)
		} else {
			id := sc.barrier
			r.arm(trigSplit, trigIdx, func() { r.inject(id) })
		}
	}
	if sc.mode == 2 {
		// ... or after the cursors moved but before the records are handed to the loop
		r.inject(sc.barrier)
		r.waitCkpt()
	}
	r.consumed <- len(events)
	return events, nil
}

func (r *cutReader) AssignSplits(splits []*workerpb.SourceSplit) error {
	r.mu.Lock()
	for _, sp := range splits {
		// appended unconditionally, as the kinesis, embedded and httpapi readers do
		id, _ := strconv.Atoi(sp.SplitId)
		c, _ := strconv.Atoi(string(sp.Cursor))
		r.splits = append(r.splits, &cutSplit{id, c, c})
	}
	r.mu.Unlock()
	r.assigned <- struct{}{}
	return nil
}

func (r *cutReader) Checkpoint() [][]byte {
	r.mu.Lock()
	defer r.mu.Unlock()
	out := make([][]byte, len(r.splits))
	for i, s := range r.splits {
		out[i] = []byte(fmt.Sprintf("%d=%d", s.id, s.cur))
	}
	select {
	case r.ckptTaken <- struct{}{}:
	default:
	}
	return out
}

type cutJob struct {
	proto.NoopJob
	reports chan *jobpb.SourceRunnerCheckpointCompleteRequest
}

func (j *cutJob) OnSourceRunnerCheckpointComplete(ctx context.Context, req *jobpb.SourceRunnerCheckpointCompleteRequest) error {
	j.reports <- req
	return nil
}

type cutHandler struct{}

func (cutHandler) ProcessEventBatch(ctx context.Context, req *handlerpb.ProcessEventBatchRequest) (*handlerpb.ProcessEventBatchResponse, error) {
	return &handlerpb.ProcessEventBatchResponse{}, nil
}

func (cutHandler) KeyEventBatch(ctx context.Context, events [][]byte) ([][]*handlerpb.KeyedEvent, error) {
	out := make([][]*handlerpb.KeyedEvent, len(events))
	for i, e := range events {
		out[i] = []*handlerpb.KeyedEvent{{Key: e, Value: e, Timestamp: timestamppb.New(time.Unix(1000, 0))}}
	}
	return out, nil
}

type cutEvent struct {
	barrier    uint64 // != 0: barrier
	split, idx int
}

// cutTrigger fires once when a given record arrives at any operator.
type cutTrigger struct {
	mu         sync.Mutex
	split, idx int
	fire       func()
}

func (t *cutTrigger) arm(split, idx int, fire func()) {
	t.mu.Lock()
	t.split, t.idx, t.fire = split, idx, fire
	t.mu.Unlock()
}

func (t *cutTrigger) seen(split, idx int) {
	t.mu.Lock()
	var f func()
	if t.fire != nil && t.split == split && t.idx == idx {
		f, t.fire = t.fire, nil
	}
	t.mu.Unlock()
	if f != nil {
		f()
	}
}

type cutOp struct {
	proto.UnimplementedOperator
	id       string
	mu       sync.Mutex
	events   []cutEvent
	barriers chan uint64
	trig     *cutTrigger
}

func (o *cutOp) ID() string   { return o.id }
func (o *cutOp) Host() string { return "h" }
func (o *cutOp) HandleEventBatch(ctx context.Context, batch []*workerpb.Event) error {
	for _, ev := range batch {
		switch t := ev.Event.(type) {
		case *workerpb.Event_KeyedEvent:
			var s, i int
			fmt.Sscanf(string(t.KeyedEvent.Key), "%d:%d", &s, &i)
			o.mu.Lock()
			o.events = append(o.events, cutEvent{split: s, idx: i})
			o.mu.Unlock()
			if o.trig != nil {
				o.trig.seen(s, i)
			}
		case *workerpb.Event_CheckpointBarrier:
			o.mu.Lock()
			o.events = append(o.events, cutEvent{barrier: t.CheckpointBarrier.CheckpointId})
			o.mu.Unlock()
			o.barriers <- t.CheckpointBarrier.CheckpointId
		}
	}
	return nil
}

type cutReport struct {
	id   uint64
	snap map[int]int
}

type cutEnv struct {
	finishedOK  func(split int) bool          // the reader reported the end of this split (its records may precede barriers that omit it)
	parseState  func([]byte) (split, pos int) // one entry of SplitStates
	finalSplits func() []cutSplit             // the reader's splits with assigned and current position
	sr          *sourcerunner.SourceRunner
	reader      *cutReader
	job         *cutJob
	ops         []*cutOp
	reports     []cutReport
	cancel      context.CancelFunc
}

func newCutEnv(maxSize, delayMs, nOps int) *cutEnv {
	e := &cutEnv{}
	e.reader = &cutReader{consumed: make(chan int, 64), assigned: make(chan struct{}, 64), ckptTaken: make(chan struct{}, 1)}
	e.parseState = func(b []byte) (int, int) {
		var s, c int
		fmt.Sscanf(string(b), "%d=%d", &s, &c)
		return s, c
	}
	e.finalSplits = func() []cutSplit {
		e.reader.mu.Lock()
		defer e.reader.mu.Unlock()
		var l []cutSplit
		for _, s := range e.reader.splits {
			l = append(l, *s)
		}
		return l
	}
	trig := &cutTrigger{}
	e.reader.arm = trig.arm
	e.reader.inject = func(id uint64) { go e.sr.HandleStartCheckpoint(context.Background(), id) }
	e.start(maxSize, delayMs, nOps, e.reader, cutHandler{}, trig)
	return e
}

// start builds the real SourceRunner around the given reader and deploys it to nOps recording operators.
func (e *cutEnv) start(maxSize, delayMs, nOps int, reader connectors.SourceReader, handler proto.Handler, trig *cutTrigger) {
	c16Quiet.Do(func() { slog.SetDefault(slog.New(slog.NewTextHandler(io.Discard, nil))) })
	e.job = &cutJob{reports: make(chan *jobpb.SourceRunnerCheckpointCompleteRequest, 64)}
	nodes := make([]*jobpb.NodeIdentity, nOps)
	for i := 0; i < nOps; i++ {
		e.ops = append(e.ops, &cutOp{id: fmt.Sprintf("op%d", i), barriers: make(chan uint64, 256), trig: trig})
		nodes[i] = &jobpb.NodeIdentity{Id: e.ops[i].id, Host: "h"}
	}
	e.sr = sourcerunner.New(sourcerunner.NewParams{
		Host:        "h",
		UserHandler: handler,
		Job:         e.job,
		OperatorFactory: func(senderID string, node *jobpb.NodeIdentity) proto.Operator {
			for _, o := range e.ops {
				if o.id == node.Id {
					return o
				}
			}
			return e.ops[0]
		},
		SourceReaderFactory: func(*jobconfigpb.Source) connectors.SourceReader { return reader },
		EventBatching:       batching.EventBatcherParams{MaxSize: maxSize, MaxDelay: time.Duration(delayMs) * time.Millisecond},
	})
	e.sr.Logger = slog.New(slog.NewTextHandler(io.Discard, nil))
	ctx, cancel := context.WithCancel(context.Background())
	e.cancel = cancel
	go e.sr.Start(ctx)
	e.sr.HandleDeploy(ctx, &workerpb.DeploySourceRunnerRequest{Operators: nodes, KeyGroupCount: 16, Sources: []*jobconfigpb.Source{{}}})
}

func (e *cutEnv) close() {
	if e.reader != nil {
		e.reader.stopped.Store(true)
	}
	e.sr.Halt()
	e.cancel()
}

// awaitBarrier waits for the runner's report of checkpoint id and for the barrier at every operator, then prints the
// reported positions and, per split, the indices of its records that the operators received ahead of the barrier.
func (e *cutEnv) awaitBarrier(id uint64) string {
	var rep cutReport
	select {
	case r := <-e.job.reports:
		if r.CheckpointId != id {
			return fmt.Sprintf("report-for %d", r.CheckpointId)
		}
		rep = cutReport{id: id, snap: map[int]int{}}
		for _, b := range r.SplitStates {
			s, c := e.parseState(b)
			rep.snap[s] = c
		}
	case <-time.After(c16Wait):
		return "timeout-report"
	}
	for _, o := range e.ops {
		select {
		case got := <-o.barriers:
			if got != id {
				return fmt.Sprintf("barrier %d at %s", got, o.id)
			}
		case <-time.After(c16Wait):
			return "timeout-barrier"
		}
	}
	e.reports = append(e.reports, rep)
	var splits []int
	for s := range rep.snap {
		splits = append(splits, s)
	}
	sort.Ints(splits)
	st := make([]string, len(splits))
	del := make([]string, len(splits))
	for k, s := range splits {
		st[k] = fmt.Sprintf("%d=%d", s, rep.snap[s])
		var idx []int
		for _, o := range e.ops {
			o.mu.Lock()
			for _, ev := range o.events {
				if ev.barrier == id {
					break
				}
				if ev.barrier == 0 && ev.split == s {
					idx = append(idx, ev.idx)
				}
			}
			o.mu.Unlock()
		}
		sort.Ints(idx)
		if len(idx) == 0 {
			del[k] = fmt.Sprintf("%d:-", s)
		} else {
			del[k] = fmt.Sprintf("%d:%s", s, joinRuns(idx))
		}
	}
	return "st " + strings.Join(st, ",") + " | " + strings.Join(del, " ")
}

// final evaluates cursor_matches_cut_partial for every report on every operator stream, and exactly-once delivery.
func (e *cutEnv) final() string {
	const fin = uint64(1) << 40
	e.sr.HandleStartCheckpoint(context.Background(), fin)
	if s := e.awaitBarrier(fin); strings.HasPrefix(s, "timeout") {
		return s
	}
	seen := map[[2]int]int{}
	for _, o := range e.ops {
		o.mu.Lock()
		evs := append([]cutEvent(nil), o.events...)
		o.mu.Unlock()
		for _, rep := range e.reports {
			before := true
			found := false
			for _, ev := range evs {
				if ev.barrier == rep.id {
					before = false
					found = true
					continue
				}
				if ev.barrier != 0 {
					continue
				}
				c, ok := rep.snap[ev.split]
				if !ok {
					if e.finishedOK != nil && e.finishedOK(ev.split) {
						continue
					}
					if before {
						return fmt.Sprintf("record of split %d ahead of barrier %d which does not report it", ev.split, rep.id)
					}
					continue
				}
				if before && ev.idx >= c {
					return fmt.Sprintf("record %d:%d ahead of barrier %d with position %d", ev.split, ev.idx, rep.id, c)
				}
				if !before && ev.idx < c {
					return fmt.Sprintf("record %d:%d behind barrier %d with position %d", ev.split, ev.idx, rep.id, c)
				}
			}
			if !found {
				return fmt.Sprintf("barrier %d missing at %s", rep.id, o.id)
			}
		}
		for _, ev := range evs {
			if ev.barrier == 0 {
				seen[[2]int{ev.split, ev.idx}]++
			}
		}
	}
	total := 0
	for _, s := range e.finalSplits() {
		for i := s.init; i < s.cur; i++ {
			if seen[[2]int{s.id, i}] != 1 {
				return fmt.Sprintf("record %d:%d delivered %d times", s.id, i, seen[[2]int{s.id, i}])
			}
			total++
		}
	}
	if total != len(seen) {
		return "unexpected records delivered"
	}
	return "ok"
}

func (e *cutEnv) push(sc cutScript) string {
	e.reader.mu.Lock()
	e.reader.queue = append(e.reader.queue, sc)
	e.reader.mu.Unlock()
	select {
	case n := <-e.reader.consumed:
		return fmt.Sprintf("n=%d", n)
	case <-time.After(c16Wait):
		return "timeout-read"
	}
}

// atoiList parses a read batch: split ids in emission order, `a*n` = n records of split a.
func atoiList(s string) []int {
	var out []int
	for _, x := range c16List(s) {
		if a, cnt, ok := strings.Cut(x, "*"); ok {
			v, _ := strconv.Atoi(a)
			k, _ := strconv.Atoi(cnt)
			for ; k > 0; k-- {
				out = append(out, v)
			}
			continue
		}
		n, _ := strconv.Atoi(x)
		out = append(out, n)
	}
	return out
}

// joinRuns prints a sorted list as maximal runs `a-b` joined by dots.
func joinRuns(xs []int) string {
	var parts []string
	for i := 0; i < len(xs); {
		j := i
		for j+1 < len(xs) && xs[j+1] == xs[j]+1 {
			j++
		}
		if i == j {
			parts = append(parts, strconv.Itoa(xs[i]))
		} else {
			parts = append(parts, fmt.Sprintf("%d-%d", xs[i], xs[j]))
		}
		i = j + 1
	}
	return strings.Join(parts, ".")
}

func implCut(c lib.Case, maxSize, delayMs, nOps int) []string {
	out := make([]string, 0, len(c.Ops))
	e := newCutEnv(maxSize, delayMs, nOps)
	defer e.close()
	started := false
	for _, op := range c.Ops {
		if c16Abandoned(out) {
			out = append(out, "abandoned")
			continue
		}
		f := strings.Fields(op)
		switch f[0] {
		case "assign":
			var splits []*workerpb.SourceSplit
			for _, p := range c16List(f[1]) {
				kv := strings.SplitN(p, "@", 2)
				splits = append(splits, &workerpb.SourceSplit{SplitId: kv[0], SourceId: "s", Cursor: []byte(kv[1])})
			}
			if err := e.sr.HandleAssignSplits(splits); err != nil {
				out = append(out, "error")
				continue
			}
			select {
			case <-e.reader.assigned:
				out = append(out, "ok")
				started = started || len(splits) > 0
			case <-time.After(c16Wait):
				out = append(out, "timeout")
			}
		case "read":
			if !started {
				out = append(out, "n=0")
				continue
			}
			out = append(out, e.push(cutScript{batch: atoiList(f[1])}))
		case "barrier":
			id, _ := strconv.ParseUint(f[1], 10, 64)
			e.sr.HandleStartCheckpoint(context.Background(), id)
			out = append(out, e.awaitBarrier(id))
		case "readbar1", "readbar2", "readbar3":
			id, _ := strconv.ParseUint(f[1], 10, 64)
			k := 0
			if f[0] == "readbar3" {
				k, _ = strconv.Atoi(f[2])
				f = append(f[:2], f[3:]...)
			}
			if !started {
				e.sr.HandleStartCheckpoint(context.Background(), id)
				out = append(out, e.awaitBarrier(id))
				continue
			}
			mode := 1
			if f[0] == "readbar2" {
				mode = 2
			} else if f[0] == "readbar3" {
				mode = 3
			}
			if s := e.push(cutScript{batch: atoiList(f[2]), barrier: id, mode: mode, k: k}); strings.HasPrefix(s, "timeout") {
				out = append(out, s)
				continue
			}
			out = append(out, e.awaitBarrier(id))
		case "end":
			out = append(out, e.final())
		default:
			out = append(out, "bad-op")
		}
	}
	return out
}

// ---------------------------------------------------------------------------------------------------------------
// the barrier cut with the real embedded SourceReader, free running (only the statement of cursor_matches_cut_partial is
// observed, so the output does not depend on the schedule)

type ecutHandler struct{ cutHandler }

func (ecutHandler) KeyEventBatch(ctx context.Context, events [][]byte) ([][]*handlerpb.KeyedEvent, error) {
	time.Sleep(30 * time.Microsecond) // throttle the free-running source a little
	return cutHandler{}.KeyEventBatch(ctx, events)
}

type ecutOp struct {
	proto.UnimplementedOperator
	id       string
	mu       sync.Mutex
	nums     []int64 // record values; -id for barrier id
	barriers chan uint64
}

func (o *ecutOp) ID() string   { return o.id }
func (o *ecutOp) Host() string { return "h" }
func (o *ecutOp) HandleEventBatch(ctx context.Context, batch []*workerpb.Event) error {
	for _, ev := range batch {
		switch t := ev.Event.(type) {
		case *workerpb.Event_KeyedEvent:
			n, _ := strconv.ParseInt(string(t.KeyedEvent.Key), 10, 64)
			o.mu.Lock()
			o.nums = append(o.nums, n)
			o.mu.Unlock()
		case *workerpb.Event_CheckpointBarrier:
			o.mu.Lock()
			o.nums = append(o.nums, -int64(t.CheckpointBarrier.CheckpointId))
			o.mu.Unlock()
			o.barriers <- t.CheckpointBarrier.CheckpointId
		}
	}
	return nil
}

func implECut(c lib.Case, maxSize, delayMs, nOps, splitCount, batchSize int) []string {
	c16Quiet.Do(func() { slog.SetDefault(slog.New(slog.NewTextHandler(io.Discard, nil))) })
	out := make([]string, 0, len(c.Ops))
	job := &cutJob{reports: make(chan *jobpb.SourceRunnerCheckpointCompleteRequest, 64)}
	var ops []*ecutOp
	nodes := make([]*jobpb.NodeIdentity, nOps)
	for i := 0; i < nOps; i++ {
		ops = append(ops, &ecutOp{id: fmt.Sprintf("op%d", i), barriers: make(chan uint64, 256)})
		nodes[i] = &jobpb.NodeIdentity{Id: ops[i].id, Host: "h"}
	}
	reader := embedded.NewSourceReader(embedded.SourceConfig{SplitCount: splitCount, BatchSize: batchSize})
	sr := sourcerunner.New(sourcerunner.NewParams{
		Host: "h", UserHandler: ecutHandler{}, Job: job,
		OperatorFactory: func(senderID string, node *jobpb.NodeIdentity) proto.Operator {
			for _, o := range ops {
				if o.id == node.Id {
					return o
				}
			}
			return ops[0]
		},
		SourceReaderFactory: func(*jobconfigpb.Source) connectors.SourceReader { return reader },
		EventBatching:       batching.EventBatcherParams{MaxSize: maxSize, MaxDelay: time.Duration(delayMs) * time.Millisecond},
	})
	sr.Logger = slog.New(slog.NewTextHandler(io.Discard, nil))
	ctx, cancel := context.WithCancel(context.Background())
	defer cancel()
	defer sr.Halt()
	go sr.Start(ctx)
	sr.HandleDeploy(ctx, &workerpb.DeploySourceRunnerRequest{Operators: nodes, KeyGroupCount: 16, Sources: []*jobconfigpb.Source{{}}})
	inits := map[int]int64{}
	for _, op := range c.Ops {
		if c16Abandoned(out) {
			out = append(out, "abandoned")
			continue
		}
		f := strings.Fields(op)
		switch f[0] {
		case "assign":
			var splits []*workerpb.SourceSplit
			for _, p := range c16List(f[1]) {
				kv := strings.SplitN(p, "@", 2)
				k, _ := strconv.Atoi(kv[0])
				cur, _ := strconv.ParseInt(kv[1], 10, 64)
				var cb []byte
				if cur != 0 {
					cb = make([]byte, 8)
					for i := 0; i < 8; i++ {
						cb[7-i] = byte(cur >> (8 * i))
					}
				}
				if _, dup := inits[k]; !dup {
					inits[k] = cur
					splits = append(splits, &workerpb.SourceSplit{SplitId: kv[0], SourceId: "s", Cursor: cb})
				}
			}
			if err := sr.HandleAssignSplits(splits); err != nil {
				out = append(out, "error")
			} else {
				out = append(out, "ok")
			}
		case "pause":
			us, _ := strconv.Atoi(f[1])
			time.Sleep(time.Duration(us) * time.Microsecond)
			out = append(out, "ok")
		case "barrier":
			id, _ := strconv.ParseUint(f[1], 10, 64)
			sr.HandleStartCheckpoint(context.Background(), id)
			res := "ok"
			var states [][]byte
			select {
			case r := <-job.reports:
				states = r.SplitStates
			case <-time.After(c16Wait):
				res = "timeout-report"
			}
			for _, o := range ops {
				if res != "ok" {
					break
				}
				select {
				case <-o.barriers:
				case <-time.After(c16Wait):
					res = "timeout-barrier"
				}
			}
			if res == "ok" {
				cursors := map[int]int64{}
				for _, b := range states {
					var st struct {
						Cursor  int64
						SplitID string
					}
					if json.Unmarshal(b, &st) != nil {
						res = "bad-state"
					}
					k, _ := strconv.Atoi(st.SplitID)
					cursors[k] = st.Cursor
				}
				// records ahead of the barrier, per split
				got := map[int]map[int64]int{}
				for _, o := range ops {
					o.mu.Lock()
					for _, n := range o.nums {
						if n == -int64(id) {
							break
						}
						if n < 0 {
							continue
						}
						k := int(n % int64(splitCount))
						if got[k] == nil {
							got[k] = map[int64]int{}
						}
						got[k][n]++
					}
					o.mu.Unlock()
				}
				for k, m := range got {
					cur, ok := cursors[k]
					if !ok {
						res = fmt.Sprintf("records of split %d ahead of barrier %d which does not report it", k, id)
						continue
					}
					want := (cur - inits[k]) / int64(splitCount)
					if int64(len(m)) != want {
						res = fmt.Sprintf("split %d: position %d after %d, but %d records ahead of barrier %d", k, cur, inits[k], len(m), id)
					}
					for n, cnt := range m {
						if off := n - int64(k); off < inits[k] || off >= cur || cnt != 1 {
							res = fmt.Sprintf("split %d: record %d (x%d) ahead of barrier %d with position %d", k, n, cnt, id, cur)
						}
					}
				}
				for k, cur := range cursors {
					if got[k] == nil && cur != inits[k] {
						res = fmt.Sprintf("split %d: position %d but no record ahead of barrier %d", k, cur, id)
					}
				}
			}
			out = append(out, res)
		default:
			out = append(out, "bad-op")
		}
	}
	return out
}

func genECut(r *lib.Rng) lib.Case {
	splitCount := r.Range(1, 4)
	batch := r.Range(1, 4)
	c := lib.Case{Header: fmt.Sprintf("M C16 ecut %d %d %d %d %d", lib.Pick(r, []int{1, 2, 4}), lib.Pick(r, []int{1, 3}), r.Range(1, 3), splitCount, batch), Tags: []string{"ecut"}}
	var mine []string
	for k := 0; k < splitCount; k++ {
		if r.Chance(2, 3) || len(mine) == 0 {
			mine = append(mine, fmt.Sprintf("%d@%d", k, lib.Pick(r, []int{0, 0, 3 * splitCount * batch})))
		}
	}
	if r.Chance(1, 5) {
		c.Ops = append(c.Ops, "barrier 1")
	}
	c.Ops = append(c.Ops, "assign "+strings.Join(mine, ","))
	for b := 2; b < r.Range(4, 7); b++ {
		c.Ops = append(c.Ops, fmt.Sprintf("pause %d", lib.Pick(r, []int{0, 50, 300, 1500})), fmt.Sprintf("barrier %d", b))
	}
	return c
}

// ---------------------------------------------------------------------------------------------------------------
// recovery at the job level: real jobs.Job + snapshots.Store + httpapi splitter; the storage location lets the
// harness hold the write of a job snapshot, so that a publication can land between assembly.Deploy and
// sourceSplitter.Start of a redeploy

type c16GateLoc struct {
	locations.StorageLocation
	mu      sync.Mutex
	hold    bool
	gates   []chan struct{}
	gated   atomic.Int64 // number of writes caught so far
	pending sync.WaitGroup
}

func (l *c16GateLoc) Write(path string, data io.Reader) (string, error) {
	if filepath.Ext(path) != ".snapshot" {
		return l.StorageLocation.Write(path, data)
	}
	l.mu.Lock()
	if os.Getenv("C16_DEBUG") != "" {
		fmt.Fprintln(os.Stderr, "write", path, "hold", l.hold)
	}
	var gate chan struct{}
	if l.hold {
		gate = make(chan struct{})
		l.gates = append(l.gates, gate)
		l.pending.Add(1)
		l.hold = false // holds exactly the next snapshot write
		l.gated.Add(1)
	}
	l.mu.Unlock()
	if gate != nil {
		<-gate
		defer l.pending.Done()
	}
	return l.StorageLocation.Write(path, data)
}

func (l *c16GateLoc) release() {
	l.mu.Lock()
	gates := l.gates
	l.gates = nil
	l.mu.Unlock()
	for _, g := range gates {
		close(g)
	}
	l.pending.Wait()
}

type jobRunner struct {
	proto.UnimplementedSourceRunner
	assigned    chan []*workerpb.SourceSplit
	checkpoints chan uint64
}

func (r *jobRunner) ID() string   { return "sr1" }
func (r *jobRunner) Host() string { return "sr1-host" }
func (r *jobRunner) Deploy(context.Context, *workerpb.DeploySourceRunnerRequest) error {
	return nil
}
func (r *jobRunner) AssignSplits(ctx context.Context, splits []*workerpb.SourceSplit) error {
	r.assigned <- splits
	return nil
}
func (r *jobRunner) StartCheckpoint(ctx context.Context, id uint64) error {
	r.checkpoints <- id
	return nil
}

type jobOperator struct {
	proto.UnimplementedOperator
	id       string
	onDeploy func()
	deployed chan *workerpb.DeployOperatorRequest
}

func (o *jobOperator) ID() string   { return o.id }
func (o *jobOperator) Host() string { return o.id + "-host" }
func (o *jobOperator) Deploy(ctx context.Context, req *workerpb.DeployOperatorRequest) error {
	if o.onDeploy != nil {
		o.onDeploy()
	}
	o.deployed <- req
	return nil
}
func (o *jobOperator) UpdateRetainedCheckpoints(ctx context.Context, ids []uint64) error { return nil }
func (o *jobOperator) NeedsTable(ctx context.Context, uri string) (bool, error)          { return false, nil }

func implJob(c lib.Case) []string {
	c16Quiet.Do(func() { slog.SetDefault(slog.New(slog.NewTextHandler(io.Discard, nil))) })
	out := make([]string, 0, len(c.Ops))
	dir, err := os.MkdirTemp("", "c16job")
	if err != nil {
		return []string{"setup-error"}
	}
	defer os.RemoveAll(dir)
	loc := &c16GateLoc{StorageLocation: locations.NewLocalDirectory(filepath.Join(dir, "store"))}
	clock := clocks.NewFrozenClock()
	runner := &jobRunner{assigned: make(chan []*workerpb.SourceSplit, 16), checkpoints: make(chan uint64, 16)}
	var opMu sync.Mutex
	ops := map[string]*jobOperator{}
	errCh := make(chan error, 16)
	job, err := jobs.New(&jobs.NewParams{
		JobConfig: &config.Config{
			WorkerCount:            1,
			KeyGroupCount:          8,
			WorkingStorageLocation: filepath.Join(dir, "work"),
			Sources:                []connectors.SourceConfig{httpapi.SourceConfig{Addr: "http://127.0.0.1:1", Topics: []string{"events"}}},
		},
		Clock:   clock,
		Store:   loc,
		ErrChan: errCh,
		Logger:  slog.New(slog.NewTextHandler(io.Discard, nil)),
		OperatorFactory: func(senderID string, node *jobpb.NodeIdentity) proto.Operator {
			opMu.Lock()
			defer opMu.Unlock()
			return ops[node.Id]
		},
		SourceRunnerFactory: func(node *jobpb.NodeIdentity) proto.SourceRunner { return runner },
	})
	if err != nil {
		return []string{"setup-error " + err.Error()}
	}
	positions := map[uint64]uint64{}
	var newest uint64
	opN := 0
	waitCurrent := func(id uint64) bool {
		for deadline := time.Now().Add(c16Stuck); job.VerifCurrentCheckpointIDC16() < id; {
			if time.Now().After(deadline) {
				return false
			}
			time.Sleep(50 * time.Microsecond)
		}
		return true
	}
	// deploy registers the next operator and reports what the new assembly was started with
	deploy := func(race bool) string {
		opN++
		o := &jobOperator{id: fmt.Sprintf("op%d", opN), deployed: make(chan *workerpb.DeployOperatorRequest, 4)}
		if race {
			// the snapshot write that was in flight completes while the replacement operator is being deployed
			o.onDeploy = func() { loc.release(); waitCurrent(newest) }
		}
		opMu.Lock()
		ops[o.id] = o
		opMu.Unlock()
		job.HandleRegisterOperator(&jobpb.NodeIdentity{Id: o.id, Host: o.id + "-host"})
		if opN == 1 {
			job.HandleRegisterSourceRunner(&jobpb.NodeIdentity{Id: "sr1", Host: "sr1-host"})
		}
		var req *workerpb.DeployOperatorRequest
		select {
		case req = <-o.deployed:
		case err := <-errCh:
			return "error " + err.Error()
		case <-time.After(c16Stuck):
			return "stuck-deploy"
		}
		var splits []*workerpb.SourceSplit
		select {
		case splits = <-runner.assigned:
		case err := <-errCh:
			return "error " + err.Error()
		case <-time.After(c16Stuck):
			return "stuck-assign"
		}
		dep, cur, verdict := "-", "-", "ok"
		var restored uint64
		if len(req.Checkpoints) > 0 {
			restored = req.Checkpoints[0].CheckpointId
			dep = strconv.FormatUint(restored, 10)
		}
		if len(splits) != 1 {
			return fmt.Sprintf("dep %s | %d splits", dep, len(splits))
		}
		if len(splits[0].Cursor) == 8 {
			var p uint64
			for _, b := range splits[0].Cursor {
				p = p<<8 | uint64(b)
			}
			cur = strconv.FormatUint(p, 10)
			// the statement of job_resumes_restored_cut on the implementation
			if restored == 0 || positions[restored] != p {
				verdict = fmt.Sprintf("mismatch: operators restore checkpoint %s (position %d), split resumes from %d", dep, positions[restored], p)
			}
		} else if restored != 0 {
			verdict = "mismatch: operators restore a checkpoint, split resumes from the start"
		}
		return fmt.Sprintf("dep %s | %s@%s ; %s", dep, splits[0].SplitId, cur, verdict)
	}
	for _, op := range c.Ops {
		if c16Abandoned(out) {
			out = append(out, "abandoned")
			continue
		}
		f := strings.Fields(op)
		switch {
		case f[0] == "deploy":
			out = append(out, deploy(false))
		case opN == 0:
			out = append(out, "not-deployed")
		case f[0] == "fail":
			cur := fmt.Sprintf("op%d", opN)
			job.HandleDeregisterOperator(&jobpb.NodeIdentity{Id: cur, Host: cur + "-host"})
			out = append(out, deploy(len(f) > 1 && f[1] == "race"))
		case f[0] == "release":
			loc.release()
			if waitCurrent(newest) {
				out = append(out, "ok")
			} else {
				out = append(out, "stuck-release")
			}
		case f[0] == "ckpt":
			pos, _ := strconv.ParseUint(f[1], 10, 64)
			hold := len(f) > 2 && f[2] == "hold"
			// fire the job's checkpoint ticker (registered once the job runs) until the runner is asked to checkpoint
			var id uint64
			for deadline := time.Now().Add(c16Stuck); id == 0 && time.Now().Before(deadline); {
				func() {
					defer func() { recover() }()
					clock.TickEvery("checkpointing")
				}()
				select {
				case id = <-runner.checkpoints:
				case <-time.After(2 * time.Millisecond):
				}
			}
			if id == 0 {
				out = append(out, "stuck-checkpoint")
				continue
			}
			if os.Getenv("C16_DEBUG") != "" {
				fmt.Fprintln(os.Stderr, "checkpoint id", id, "queued", len(runner.checkpoints))
			}
			positions[id] = pos
			newest = id
			gatedBefore := loc.gated.Load()
			if hold {
				loc.mu.Lock()
				loc.hold = true
				loc.mu.Unlock()
			}
			cb := make([]byte, 8)
			for i := 0; i < 8; i++ {
				cb[7-i] = byte(pos >> (8 * i))
			}
			e1 := job.HandleSourceRunnerCheckpointComplete(context.Background(), &jobpb.SourceRunnerCheckpointCompleteRequest{SourceRunnerId: "sr1", CheckpointId: id, SplitStates: [][]byte{cb}})
			e2 := job.HandleOperatorCheckpointComplete(context.Background(), &snapshotpb.OperatorCheckpoint{OperatorId: fmt.Sprintf("op%d", opN), CheckpointId: id, KeyGroupRange: &snapshotpb.KeyGroupRange{Start: 0, End: 8}})
			switch {
			case e1 != nil || e2 != nil:
				out = append(out, fmt.Sprintf("error %v %v", e1, e2))
			case hold:
				// the write of this snapshot has to be the one that is caught before anything else happens
				res := fmt.Sprintf("ck %d held", id)
				for deadline := time.Now().Add(c16Stuck); loc.gated.Load() == gatedBefore; {
					if time.Now().After(deadline) {
						res = "stuck-gate"
						break
					}
					time.Sleep(20 * time.Microsecond)
				}
				out = append(out, res)
			case waitCurrent(id):
				out = append(out, fmt.Sprintf("ck %d", id))
			default:
				if os.Getenv("C16_DEBUG") != "" {
					fmt.Fprintln(os.Stderr, "current", job.VerifCurrentCheckpointIDC16(), "want", id, "errs", len(errCh))
					select {
					case e := <-errCh:
						fmt.Fprintln(os.Stderr, "err", e)
					default:
					}
				}
				out = append(out, "stuck-publish")
			}
		default:
			out = append(out, "bad-op")
		}
	}
	loc.release()
	return out
}

func genJob(r *lib.Rng) lib.Case {
	c := lib.Case{Header: "M C16 job", Tags: []string{"job"}, Ops: []string{"deploy"}}
	pos := 0
	held := false
	for n := r.Range(3, 9); n > 0; n-- {
		switch k := r.Intn(10); {
		case k < 5:
			pos += r.Range(1, 9)
			if !held && r.Chance(1, 2) {
				c.Ops = append(c.Ops, fmt.Sprintf("ckpt %d hold", pos))
				held = true
			} else {
				c.Ops = append(c.Ops, fmt.Sprintf("ckpt %d", pos))
			}
		case k < 6:
			c.Ops = append(c.Ops, "release")
			held = false
		case k < 8:
			c.Ops = append(c.Ops, "fail race")
			if held {
				c.Tags = append(c.Tags, "job-race")
			}
			held = false
		default:
			c.Ops = append(c.Ops, "fail")
		}
	}
	return c
}

// ---------------------------------------------------------------------------------------------------------------
// the barrier cut with the real Kinesis SourceReader (against kinesisfake) under the real ReadSourceChannel and
// SourceRunner, one gated ReadEvents per `kread`, with GetRecords requests that fail with a retryable error

type gateResult struct {
	n   int
	err error
}

// gateReader lets the real reader's ReadEvents run only when the harness hands out a permit.
type gateReader struct {
	inner    connectors.SourceReader
	permits  chan struct{}
	results  chan gateResult
	assigned chan struct{}
	stopped  atomic.Bool
}

func (g *gateReader) ReadEvents() ([][]byte, error) {
	select {
	case <-g.permits:
		ev, err := g.inner.ReadEvents()
		g.results <- gateResult{len(ev), err}
		return ev, err
	default:
	}
	if g.stopped.Load() {
		return nil, connectors.ErrEndOfInput
	}
	time.Sleep(200 * time.Microsecond)
	return nil, nil
}

func (g *gateReader) AssignSplits(splits []*workerpb.SourceSplit) error {
	err := g.inner.AssignSplits(splits)
	g.assigned <- struct{}{}
	return err
}

func (g *gateReader) Checkpoint() [][]byte { return g.inner.Checkpoint() }

// kreadHandler keys every Kinesis record by its data ("shard:position").
type kreadHandler struct{ cutHandler }

func (kreadHandler) KeyEventBatch(ctx context.Context, events [][]byte) ([][]*handlerpb.KeyedEvent, error) {
	out := make([][]*handlerpb.KeyedEvent, len(events))
	for i, ev := range events {
		var rec protocolkinesispb.Record
		if err := gproto.Unmarshal(ev, &rec); err != nil {
			return nil, err
		}
		out[i] = []*handlerpb.KeyedEvent{{Key: rec.Data, Value: rec.Data, Timestamp: timestamppb.New(time.Unix(1000, 0))}}
	}
	return out, nil
}

// c16KeyForShard finds a partition key whose MD5 lands in root shard `shard` of `count` (kinesisfake.pickShard).
func c16KeyForShard(count, shard int) string {
	w := new(big.Int).Div(c16Max, big.NewInt(int64(count)))
	for j := 0; ; j++ {
		key := fmt.Sprintf("k%d", j)
		h := md5.Sum([]byte(key))
		idx := int(new(big.Int).Div(new(big.Int).SetBytes(h[:]), w).Int64())
		if idx >= count {
			idx = count - 1
		}
		if idx == shard {
			return key
		}
	}
}

func implKRead(c lib.Case, maxSize, delayMs, nOps, shards, limit int) []string {
	c16Quiet.Do(func() { slog.SetDefault(slog.New(slog.NewTextHandler(io.Discard, nil))) })
	out := make([]string, 0, len(c.Ops))
	fail := func(msg string) []string {
		for len(out) < len(c.Ops) {
			out = append(out, "setup-error "+msg)
		}
		return out
	}
	srv, fk := kinesisfake.StartFake()
	defer srv.Close()
	fk.SetGetRecordsLimit(limit)
	var failIn atomic.Int64 // the failIn-th GetRecords request from now is answered with a throttling error
	inner := srv.Config.Handler
	srv.Config.Handler = http.HandlerFunc(func(w http.ResponseWriter, r *http.Request) {
		if strings.HasSuffix(r.Header.Get("x-amz-target"), ".GetRecords") && failIn.Load() > 0 {
			if failIn.Add(-1) == 0 {
				io.Copy(io.Discard, r.Body)
				w.Header().Set("Content-Type", "application/x-amz-json-1.1")
				w.WriteHeader(http.StatusBadRequest)
				w.Write([]byte(`{ "__type": "ProvisionedThroughputExceededException", "message": "Rate exceeded for shard" }`))
				return
			}
		}
		inner.ServeHTTP(w, r)
	})
	admin := kinesis.NewLocalClient(srv.URL)
	ctx := context.Background()
	name := "s"
	n32 := int32(shards)
	if _, err := admin.CreateStream(ctx, &awskinesis.CreateStreamInput{StreamName: &name, ShardCount: &n32}); err != nil {
		return fail(err.Error())
	}
	d, err := admin.DescribeStream(ctx, &awskinesis.DescribeStreamInput{StreamName: &name})
	if err != nil {
		return fail(err.Error())
	}
	arn := *d.StreamDescription.StreamARN

	gate := &gateReader{permits: make(chan struct{}, 4), results: make(chan gateResult, 4), assigned: make(chan struct{}, 16)}
	var finMu sync.Mutex
	finished := map[int]bool{} // shards whose end the real reader reported through its hook
	gate.inner = kinesis.NewSourceReader(kinesis.SourceConfig{StreamARN: arn, Client: kinesis.NewLocalClient(srv.URL)},
		connectors.SourceReaderHooks{NotifySplitsFinished: func(ids []string) {
			finMu.Lock()
			for _, id := range ids {
				finished[c16ShardNum(id)] = true
			}
			finMu.Unlock()
		}})
	isFinished := func(s int) bool { finMu.Lock(); defer finMu.Unlock(); return finished[s] }
	inits := map[int]int{}
	var order []int
	put := map[int]int{}
	closed := map[int]bool{}
	e := &cutEnv{}
	e.finishedOK = isFinished
	e.parseState = func(b []byte) (int, int) {
		var st kinesispb.Shard
		if gproto.Unmarshal(b, &st) != nil {
			return -1, 0
		}
		pos := 0
		if st.Cursor != "" {
			seq, _ := strconv.Atoi(st.Cursor)
			pos = seq + 1 // the position behind the last record read
		}
		return c16ShardNum(st.ShardId), pos
	}
	e.finalSplits = func() []cutSplit {
		// the positions of the last report (taken by `end`)
		var l []cutSplit
		if len(e.reports) == 0 {
			return nil
		}
		last := e.reports[len(e.reports)-1]
		for _, s := range order {
			pos, ok := last.snap[s]
			if !ok && isFinished(s) {
				pos = put[s] // read to its end and dropped by the reader
			}
			l = append(l, cutSplit{s, inits[s], pos})
		}
		return l
	}
	e.start(maxSize, delayMs, nOps, gate, kreadHandler{}, nil)
	defer func() { gate.stopped.Store(true); e.close() }()

	started := false
	for _, op := range c.Ops {
		if c16Abandoned(out) {
			out = append(out, "abandoned")
			continue
		}
		f := strings.Fields(op)
		switch f[0] {
		case "close":
			// the shard is split in the middle of its range: it is closed and ends after its last record
			sh, _ := strconv.Atoi(f[1])
			w := new(big.Int).Div(c16Max, big.NewInt(int64(shards)))
			at := new(big.Int).Mul(w, big.NewInt(int64(sh)))
			at.Add(at, new(big.Int).Rsh(w, 1))
			id, ats := c16ShardID(sh), at.String()
			if _, err := admin.SplitShard(ctx, &awskinesis.SplitShardInput{StreamARN: &arn, ShardToSplit: &id, NewStartingHashKey: &ats}); err != nil {
				out = append(out, "err")
			} else {
				closed[sh] = true
				out = append(out, "ok")
			}
		case "put":
			sh, _ := strconv.Atoi(f[1])
			n, _ := strconv.Atoi(f[2])
			if closed[sh] {
				out = append(out, "closed")
				continue
			}
			key := c16KeyForShard(shards, sh)
			var recs []kinesistypes.PutRecordsRequestEntry
			for i := 0; i < n; i++ {
				recs = append(recs, kinesistypes.PutRecordsRequestEntry{Data: []byte(fmt.Sprintf("%d:%d", sh, put[sh])), PartitionKey: &key})
				put[sh]++
			}
			if n > 0 {
				if _, err := admin.PutRecords(ctx, &awskinesis.PutRecordsInput{StreamARN: &arn, Records: recs}); err != nil {
					out = append(out, "setup-error "+err.Error())
					continue
				}
			}
			out = append(out, "ok")
		case "assign":
			var splits []*workerpb.SourceSplit
			for _, p := range c16List(f[1]) {
				kv := strings.SplitN(p, "@", 2)
				sh, _ := strconv.Atoi(kv[0])
				var cur []byte
				inits[sh] = 0
				if kv[1] != "-" {
					seq, _ := strconv.Atoi(kv[1])
					cur = []byte(kv[1])
					inits[sh] = seq + 1
				}
				order = append(order, sh)
				splits = append(splits, &workerpb.SourceSplit{SplitId: c16ShardID(sh), SourceId: "s", Cursor: cur})
			}
			if err := e.sr.HandleAssignSplits(splits); err != nil {
				out = append(out, "error")
				continue
			}
			select {
			case <-gate.assigned:
				out = append(out, "ok")
				started = started || len(splits) > 0
			case <-time.After(c16Wait):
				out = append(out, "timeout")
			}
		case "fail":
			k, _ := strconv.Atoi(f[1])
			failIn.Store(int64(k))
			out = append(out, "ok")
		case "expire":
			// every shard iterator handed out so far expires: the reader's next GetRecords on such a shard gets
			// ExpiredIteratorException, refreshes the iterator and asks again within the same ReadEvents
			fk.ExpireShardIterators()
			out = append(out, "ok")
		case "kread", "kreadm":
			res := gateResult{}
			if started {
				gate.permits <- struct{}{}
				select {
				case res = <-gate.results:
				case <-time.After(c16Wait):
					out = append(out, "timeout-read")
					continue
				}
			}
			switch {
			case f[0] == "kread":
				out = append(out, "ok")
			case res.err != nil && connectors.IsRetryable(res.err):
				out = append(out, "err")
			case res.err != nil:
				out = append(out, "terminal "+res.err.Error())
			default:
				out = append(out, fmt.Sprintf("n=%d", res.n))
			}
		case "kbarrier", "kbarrierm":
			id, _ := strconv.ParseUint(f[1], 10, 64)
			e.sr.HandleStartCheckpoint(ctx, id)
			line := e.awaitBarrier(id)
			if f[0] == "kbarrierm" || !strings.HasPrefix(line, "st ") {
				out = append(out, line)
				continue
			}
			// the statement of cursor_matches_cut_kinesis_partial on the implementation: per reported shard, the records
			// received ahead of the barrier are exactly those from its assigned position up to the reported one
			out = append(out, kreadVerdict(e, id, inits, isFinished, put))
		case "end":
			out = append(out, e.final())
		default:
			out = append(out, "bad-op")
		}
	}
	return out
}

func kreadVerdict(e *cutEnv, id uint64, inits map[int]int, isFinished func(int) bool, put map[int]int) string {
	rep := e.reports[len(e.reports)-1]
	got := map[int]map[int]int{}
	for _, o := range e.ops {
		o.mu.Lock()
		for _, ev := range o.events {
			if ev.barrier == id {
				break
			}
			if ev.barrier == 0 {
				if got[ev.split] == nil {
					got[ev.split] = map[int]int{}
				}
				got[ev.split][ev.idx]++
			}
		}
		o.mu.Unlock()
	}
	var shards []int
	for s := range got {
		shards = append(shards, s)
	}
	for s := range rep.snap {
		if got[s] == nil {
			shards = append(shards, s)
		}
	}
	sort.Ints(shards)
	for _, s := range shards {
		pos, ok := rep.snap[s]
		if !ok && isFinished(s) {
			pos = put[s] // the reader reached the shard's end and dropped it: everything of it is ahead of the barrier
		} else if !ok {
			return fmt.Sprintf("records of shard %d ahead of barrier %d which does not report it", s, id)
		}
		for i := inits[s]; i < pos; i++ {
			if got[s][i] != 1 {
				return fmt.Sprintf("shard %d: position %d reported at barrier %d, but record %d was received %d times ahead of it", s, pos, id, i, got[s][i])
			}
		}
		for i := range got[s] {
			if i < inits[s] || i >= pos {
				return fmt.Sprintf("shard %d: record %d received ahead of barrier %d with position %d", s, i, id, pos)
			}
		}
	}
	return "ok"
}

func genKRead(r *lib.Rng) lib.Case {
	shards := r.Range(2, 3)
	limit := r.Range(1, 5)
	c := lib.Case{Header: fmt.Sprintf("M C16 kread %d %d %d %d %d", lib.Pick(r, []int{1, 2, 4}), lib.Pick(r, []int{1, 2}), r.Range(1, 2), shards, limit), Tags: []string{"kread"}}
	mech := r.Chance(1, 3) // print what the round-robin reader does (mechanism) instead of the verdicts
	rd, bar := "kread", "kbarrier"
	if mech {
		rd, bar = "kreadm", "kbarrierm"
		c.Tags = append(c.Tags, "kread-mech")
	}
	have := make([]int, shards)
	for s := 0; s < shards; s++ {
		have[s] = r.Range(0, 12)
		c.Ops = append(c.Ops, fmt.Sprintf("put %d %d", s, have[s]))
	}
	var as []string
	for s := 0; s < shards; s++ {
		if s < 2 || r.Chance(2, 3) {
			cur := "-"
			if r.Chance(1, 5) && have[s] > 0 {
				cur = strconv.Itoa(r.Intn(min(have[s], 3))) // resume after an existing record
			}
			as = append(as, fmt.Sprintf("%d@%s", s, cur))
		}
	}
	if r.Chance(1, 4) {
		c.Ops = append(c.Ops, rd) // before any shard is assigned
	}
	c.Ops = append(c.Ops, "assign "+strings.Join(as, ","))
	b, fails := 0, 0
	closedShard := map[int]bool{}
	for n := r.Range(6, 14); n > 0; n-- {
		switch k := r.Intn(10); {
		case k < 5:
			c.Ops = append(c.Ops, rd)
		case k < 7:
			b++
			c.Ops = append(c.Ops, fmt.Sprintf("%s %d", bar, b))
		case k < 9 && r.Chance(1, 3):
			// expired shard iterators, alone or with a throttled request on the first or the repeated GetRecords
			c.Ops = append(c.Ops, "expire")
			if fails < 2 && r.Chance(1, 2) {
				fails++
				c.Ops = append(c.Ops, fmt.Sprintf("fail %d", r.Range(1, 3)))
				c.Tags = append(c.Tags, "kread-fail")
			}
			c.Ops = append(c.Ops, rd, rd)
			c.Tags = append(c.Tags, "kread-expire")
		case k < 9:
			if fails < 2 {
				fails++
				// the k-th GetRecords from now is throttled: also one that is not the first of a polling round
				c.Ops = append(c.Ops, fmt.Sprintf("fail %d", r.Range(1, 3)), rd, rd)
				c.Tags = append(c.Tags, "kread-fail")
			}
		default:
			sh := r.Intn(shards)
			if closedShard[sh] {
				continue
			}
			if r.Chance(1, 3) {
				// the shard is closed: the reader reaches its end, notifies and drops it; later reports omit it
				closedShard[sh] = true
				c.Ops = append(c.Ops, fmt.Sprintf("close %d", sh), rd, rd, rd)
				c.Tags = append(c.Tags, "kread-end")
				continue
			}
			c.Ops = append(c.Ops, fmt.Sprintf("put %d %d", sh, r.Range(1, 6)))
		}
	}
	b++
	c.Ops = append(c.Ops, rd, fmt.Sprintf("%s %d", bar, b), "end")
	return c
}

// ---------------------------------------------------------------------------------------------------------------
// Partition, embedded and httpapi splitters, uniformlyAssignShard

func checkPartitionExact(n, groups int) string {
	xs := make([]int, n)
	for i := range xs {
		xs[i] = i
	}
	gs := sliceu.Partition(xs, groups)
	if len(gs) != groups {
		return fmt.Sprintf("groups %d", len(gs))
	}
	count := map[int]int{}
	for _, g := range gs {
		for _, x := range g {
			count[x]++
		}
	}
	for i := 0; i < n; i++ {
		if count[i] != 1 {
			return fmt.Sprintf("element %d in %d groups", i, count[i])
		}
	}
	if len(count) != n {
		return "foreign elements"
	}
	return "ok"
}

func implMisc(c lib.Case) []string {
	out := make([]string, 0, len(c.Ops))
	for _, op := range c.Ops {
		f := strings.Fields(op)
		at := func(i int) int { v, _ := strconv.Atoi(f[i]); return v }
		ids := func(n int) []string {
			r := make([]string, n)
			for i := range r {
				r[i] = fmt.Sprintf("r%d", i)
			}
			return r
		}
		switch f[0] {
		case "part":
			xs := make([]int, at(1))
			for i := range xs {
				xs[i] = i
			}
			gs := sliceu.Partition(xs, at(2))
			parts := make([]string, len(gs))
			for i, g := range gs {
				if len(g) == 0 {
					parts[i] = "-"
				} else {
					parts[i] = joinInts(g, ".")
				}
			}
			out = append(out, strings.Join(parts, ";"))
		case "partchk":
			out = append(out, checkPartitionExact(at(1), at(2)))
		case "embchk":
			// the statement of partition_exact / one reader on the real embedded splitter: every split in exactly one list
			got := "no-call"
			r := ids(at(2))
			k := at(1)
			sp := embedded.NewSourceSplitter(embedded.SourceConfig{SplitCount: k}, r, connectors.SourceSplitterHooks{
				AssignSplits: func(a map[string][]*workerpb.SourceSplit) {
					count := map[string]int{}
					total := 0
					for _, id := range r {
						for _, s := range a[id] {
							count[s.SplitId]++
							total++
						}
					}
					got = "ok"
					for i := 0; i < k; i++ {
						if count[strconv.Itoa(i)] != 1 {
							got = fmt.Sprintf("split %d assigned %d times", i, count[strconv.Itoa(i)])
						}
					}
					if total != k && got == "ok" {
						got = "foreign splits"
					}
				}})
			if err := sp.Start(nil); err != nil {
				got = "error"
			}
			out = append(out, got)
		case "emb":
			var got string
			r := ids(at(2))
			sp := embedded.NewSourceSplitter(embedded.SourceConfig{SplitCount: at(1)}, r, connectors.SourceSplitterHooks{
				AssignSplits: func(a map[string][]*workerpb.SourceSplit) {
					got, _ = showAssign(r, a, func(s string) int { n, _ := strconv.Atoi(s); return n }, curDec)
				}})
			if err := sp.Start(nil); err != nil {
				got = "error"
			}
			out = append(out, got)
		case "http":
			var got string
			r := ids(at(1))
			var states [][]byte
			for _, h := range c16List(f[2]) {
				states = append(states, lib.UnHex(h))
			}
			sp := httpapi.NewSourceSplitter(httpapi.SourceConfig{}, r, connectors.SourceSplitterHooks{
				AssignSplits: func(a map[string][]*workerpb.SourceSplit) {
					var parts []string
					for i, id := range r {
						for _, s := range a[id] {
							parts = append(parts, fmt.Sprintf("r%d:[%s@%s]", i, s.SplitId, lib.Hex(s.Cursor)))
						}
					}
					got = "A " + strings.Join(parts, " ")
				}}, make(chan error, 1))
			if err := sp.Start(&snapshotpb.SourceCheckpoint{SplitStates: states}); err != nil {
				got = "error"
			}
			out = append(out, got)
		case "uidx":
			lo, _ := new(big.Int).SetString(f[1], 10)
			hi, _ := new(big.Int).SetString(f[2], 10)
			out = append(out, strconv.Itoa(kinesis.VerifUniformlyAssignShard(lo, hi, at(3))))
		default:
			out = append(out, "bad-op")
		}
	}
	return out
}

// ---------------------------------------------------------------------------------------------------------------
// generators (pure)

// genStream is the generator's own picture of the stream and of an ideal splitter; it only guides the choice of
// realistic operations.
type genStream struct {
	parents    [][]int
	lo, hi     []*big.Int
	closed     []bool
	done       map[int]bool
	discovered int
}

func newGenStream(count int) *genStream {
	g := &genStream{done: map[int]bool{}}
	w := new(big.Int).Div(c16Max, big.NewInt(int64(count)))
	for i := 0; i < count; i++ {
		lo := new(big.Int).Mul(w, big.NewInt(int64(i)))
		hi := new(big.Int).Sub(new(big.Int).Mul(w, big.NewInt(int64(i+1))), big.NewInt(1))
		if i == count-1 {
			hi = new(big.Int).Sub(c16Max, big.NewInt(1))
		}
		g.parents = append(g.parents, nil)
		g.lo, g.hi, g.closed = append(g.lo, lo), append(g.hi, hi), append(g.closed, false)
	}
	return g
}

func (g *genStream) open() []int {
	var o []int
	for i, c := range g.closed {
		if !c {
			o = append(o, i)
		}
	}
	return o
}

// reading: shards an ideal splitter would have handed out and that are not finished
func (g *genStream) reading() []int {
	var o []int
	for i := 0; i < g.discovered && i < len(g.parents); i++ {
		if g.done[i] {
			continue
		}
		ok := true
		for _, p := range g.parents[i] {
			ok = ok && g.done[p]
		}
		if ok {
			o = append(o, i)
		}
	}
	return o
}

func randBig(r *lib.Rng, lo, hi *big.Int) *big.Int { // in (lo, hi)
	span := new(big.Int).Sub(hi, lo)
	if span.Cmp(big.NewInt(2)) < 0 {
		return new(big.Int).Add(lo, big.NewInt(1))
	}
	x := new(big.Int).SetBytes(r.Bytes(17))
	x.Mod(x, new(big.Int).Sub(span, big.NewInt(1)))
	return x.Add(x, new(big.Int).Add(lo, big.NewInt(1)))
}

func genKin(r *lib.Rng, tier string) lib.Case {
	shards := lib.Pick(r, []int{1, 1, 2, 2, 3, 4})
	runners := lib.Pick(r, []int{1, 2, 2, 3, 5})
	c := lib.Case{Header: fmt.Sprintf("M C16 kin %d %d", shards, runners), Tags: []string{"kin"}}
	if r.Chance(1, 3) {
		// ListShards answered in pages of 1..3 shards: discovery has to follow NextToken
		c.Header += fmt.Sprintf(" %d", r.Range(1, 3))
		c.Tags = append(c.Tags, "kin-paged")
	}
	g := newGenStream(shards)
	// some lineage may exist before the splitter first starts
	nOps := r.Range(8, 28)
	if tier == "thorough" {
		nOps = r.Range(10, 60)
	}
	started := false
	hasCk, restored, reshaped := false, false, false
	var finishedNow []int // finished since the last checkpoint
	ckDone := map[int]bool{}
	doStart := func(name string) {
		c.Ops = append(c.Ops, name)
		g.discovered = len(g.parents)
		started = true
	}
	if r.Chance(3, 4) {
		doStart("start")
	}
	for len(c.Ops) < nOps {
		switch k := r.Intn(20); {
		case k < 5: // split
			o := g.open()
			if len(o) == 0 || len(g.parents) > 24 {
				continue
			}
			i := lib.Pick(r, o)
			if r.Chance(1, 12) {
				i = r.Intn(len(g.parents)) // possibly closed
			}
			var at *big.Int
			switch r.Intn(4) {
			case 0: // the middle: assignments land on runner boundaries
				at = new(big.Int).Add(g.lo[i], g.hi[i])
				at.Add(at, big.NewInt(1)).Rsh(at, 1)
			case 1:
				at = new(big.Int).Add(g.lo[i], big.NewInt(int64(r.Range(0, 2)))) // at or just above lo
			default:
				at = randBig(r, g.lo[i], g.hi[i])
			}
			c.Ops = append(c.Ops, fmt.Sprintf("split %d %s", i, at.String()))
			if !g.closed[i] && at.Cmp(g.lo[i]) > 0 && at.Cmp(g.hi[i]) < 0 {
				n := len(g.parents)
				g.closed[i] = true
				g.parents = append(g.parents, []int{i}, []int{i})
				g.lo = append(g.lo, g.lo[i], at)
				g.hi = append(g.hi, new(big.Int).Sub(at, big.NewInt(1)), g.hi[i])
				g.closed = append(g.closed, false, false)
				_ = n
				reshaped = true
			}
		case k < 7: // merge two adjacent open shards
			o := g.open()
			if len(g.parents) > 24 {
				continue
			}
			a, b := -1, -1
			for _, i := range o {
				for _, j := range o {
					if new(big.Int).Add(g.hi[i], big.NewInt(1)).Cmp(g.lo[j]) == 0 && (a < 0 || r.Bool()) {
						a, b = i, j
					}
				}
			}
			if r.Chance(1, 10) {
				a, b = r.Intn(len(g.parents)+1), r.Intn(len(g.parents)+1)
			}
			if a < 0 {
				continue
			}
			c.Ops = append(c.Ops, fmt.Sprintf("merge %d %d", a, b))
			if a < len(g.parents) && b < len(g.parents) {
				lo, hi := g.lo[a], g.hi[a]
				if g.lo[b].Cmp(lo) < 0 {
					lo = g.lo[b]
				}
				if g.hi[b].Cmp(hi) > 0 {
					hi = g.hi[b]
				}
				g.closed[a], g.closed[b] = true, true
				g.parents = append(g.parents, []int{a, b})
				g.lo, g.hi, g.closed = append(g.lo, lo), append(g.hi, hi), append(g.closed, false)
				reshaped = true
			}
		case k < 11:
			if !started {
				continue
			}
			c.Ops = append(c.Ops, "tick")
			g.discovered = len(g.parents)
		case k < 15: // finish: mostly closed shards that are being read, in any order
			if !started {
				continue
			}
			cand := g.reading()
			var closedCand []int
			for _, i := range cand {
				if g.closed[i] {
					closedCand = append(closedCand, i)
				}
			}
			var ids []int
			switch {
			case len(closedCand) > 0 && r.Chance(5, 6):
				ids = append(ids, lib.Pick(r, closedCand))
				if len(closedCand) > 1 && r.Chance(1, 3) {
					ids = append(ids, lib.Pick(r, closedCand))
				}
			case len(cand) > 0 && r.Chance(1, 2):
				ids = append(ids, lib.Pick(r, cand))
			case r.Chance(1, 3):
				ids = append(ids, r.Intn(len(g.parents)+1))
			default:
				continue
			}
			c.Ops = append(c.Ops, "finish "+joinInts(ids, ","))
			for _, i := range ids {
				g.done[i] = true
				if i < len(g.parents) {
					finishedNow = append(finishedNow, i)
				}
			}
		case k < 17:
			if !started {
				continue
			}
			var st []string
			for _, i := range g.reading() {
				if r.Chance(2, 3) {
					st = append(st, fmt.Sprintf("%d=%d", i, r.Range(1, 99)))
				}
			}
			if r.Chance(1, 8) && len(st) > 0 {
				st = append(st, strings.SplitN(st[0], "=", 2)[0]+"=7") // a later state of the same shard overwrites
			}
			// The runners report their positions when they handle the barrier, the splitter's part of the checkpoint is
			// taken when the last acknowledgement arrives: a shard can finish in between, so the checkpoint also holds
			// positions of shards the splitter has been told are finished (D52).
			if len(finishedNow) > 0 && r.Chance(1, 2) {
				for _, i := range finishedNow {
					if r.Chance(2, 3) {
						st = append(st, fmt.Sprintf("%d=%d", i, r.Range(1, 99)))
						c.Tags = append(c.Tags, "kin-state-of-finished")
					}
				}
			}
			s := "-"
			if len(st) > 0 {
				s = strings.Join(st, ",")
			}
			c.Ops = append(c.Ops, "ckpt "+s)
			finishedNow = nil
			hasCk = true
			ckDone = map[int]bool{}
			for i := range g.done {
				ckDone[i] = true
			}
		case k < 19:
			if !started {
				doStart("start")
				continue
			}
			g.done = map[int]bool{}
			if hasCk {
				for i := range ckDone {
					g.done[i] = true
				}
				restored = true
			}
			doStart("restore")
		default:
			if started {
				c.Ops = append(c.Ops, "chk")
			}
		}
	}
	if restored && reshaped {
		c.Tags = append(c.Tags, "kin-restore-lineage")
	}
	return c
}

func genCut(r *lib.Rng, tier string) lib.Case {
	maxSize := lib.Pick(r, []int{1, 1, 2, 3, 5})
	delay := lib.Pick(r, []int{1, 2, 5})
	nOps := lib.Pick(r, []int{1, 2, 3})
	c := lib.Case{Header: fmt.Sprintf("M C16 cut %d %d %d", maxSize, delay, nOps), Tags: []string{"cut"}}
	var splits []int
	next := 0
	bar := 0
	addSplits := func() {
		k := r.Range(1, 3)
		var l []string
		for i := 0; i < k; i++ {
			id := next
			next++
			// A split is never assigned to a reader twice: the splitters hand every split out once per deployment
			// (C16.one_reader, partition_disjoint) and a deployment starts with a fresh reader. That is the hypothesis of
			// C16.cursor_matches_cut_partial; what the appending readers do with a duplicate is outside the property.
			splits = append(splits, id)
			l = append(l, fmt.Sprintf("%d@%d", id, lib.Pick(r, []int{0, 0, 3, 40})))
		}
		c.Ops = append(c.Ops, "assign "+strings.Join(l, ","))
	}
	batch := func() string {
		n := r.Range(0, 6)
		if n == 0 || len(splits) == 0 {
			return "-"
		}
		b := make([]int, n)
		for i := range b {
			b[i] = lib.Pick(r, splits)
			if r.Chance(1, 15) {
				b[i] = 77 // a split the reader does not hold
			}
		}
		return joinInts(b, ",")
	}
	// a read of 501..2000 records (several slices of any plausible emission chunking), from one or several splits
	bigBatch := func() string {
		total := r.Range(501, 2000)
		var parts []string
		for total > 0 {
			n := total
			if r.Chance(1, 2) {
				n = r.Range(1, total)
			}
			parts = append(parts, fmt.Sprintf("%d*%d", lib.Pick(r, splits), n))
			total -= n
		}
		return strings.Join(parts, ",")
	}
	bigLeft := 0
	if r.Chance(2, 5) {
		bigLeft = r.Range(1, 2)
		c.Tags = append(c.Tags, "cut-bigread")
	}
	if r.Chance(1, 6) {
		bar++
		c.Ops = append(c.Ops, fmt.Sprintf("barrier %d", bar)) // before any split is assigned
	}
	addSplits()
	n := r.Range(6, 18)
	if tier == "thorough" {
		n = r.Range(8, 40)
	}
	for i := 0; i < n; i++ {
		if bigLeft > 0 && r.Chance(1, 4) {
			// a checkpoint is requested while a large read is under way: before / after the cursors move, or when the
			// k-th record of the read has arrived downstream (the runner is then still emitting, or just done)
			bigLeft--
			bar++
			switch r.Intn(4) {
			case 0:
				c.Ops = append(c.Ops, fmt.Sprintf("readbar1 %d %s", bar, bigBatch()))
			case 1:
				c.Ops = append(c.Ops, fmt.Sprintf("readbar2 %d %s", bar, bigBatch()))
			default:
				c.Ops = append(c.Ops, fmt.Sprintf("readbar3 %d %d %s", bar, lib.Pick(r, []int{1, 2, 40, 250, 499, 500, 501, 900}), bigBatch()))
			}
			continue
		}
		switch k := r.Intn(13); {
		case k == 12:
			bar++
			c.Ops = append(c.Ops, fmt.Sprintf("readbar3 %d %d %s", bar, r.Range(0, 4), batch()))
		case k < 5:
			c.Ops = append(c.Ops, "read "+batch())
		case k < 7:
			bar++
			c.Ops = append(c.Ops, fmt.Sprintf("barrier %d", bar))
		case k < 9:
			bar++
			c.Ops = append(c.Ops, fmt.Sprintf("readbar1 %d %s", bar, batch()))
		case k < 11:
			bar++
			c.Ops = append(c.Ops, fmt.Sprintf("readbar2 %d %s", bar, batch()))
		default:
			if len(splits) < 6 {
				addSplits()
			}
		}
	}
	c.Ops = append(c.Ops, "end")
	return c
}

func genMisc(r *lib.Rng) lib.Case {
	c := lib.Case{Header: "M C16 misc", Tags: []string{"misc"}}
	if r.Chance(1, 3) {
		// theorem instances on the implementation only (property-level observables)
		c.Tags = []string{"misc-chk"}
		for j := 0; j < 25; j++ {
			if r.Bool() {
				c.Ops = append(c.Ops, fmt.Sprintf("partchk %d %d", r.Range(0, 40), r.Range(1, 12)))
			} else {
				c.Ops = append(c.Ops, fmt.Sprintf("embchk %d %d", r.Range(0, 20), r.Range(1, 8)))
			}
		}
		return c
	}
	for j := 0; j < 25; j++ {
		switch r.Intn(5) {
		case 0:
			c.Ops = append(c.Ops, fmt.Sprintf("part %d %d", r.Range(0, 40), r.Range(1, 12)))
		case 1:
			c.Ops = append(c.Ops, fmt.Sprintf("emb %d %d", r.Range(0, 20), r.Range(1, 8)))
		case 2:
			var st []string
			for i := r.Intn(4); i > 0; i-- {
				st = append(st, lib.Hex(r.Bytes(r.Intn(3))))
			}
			s := "-"
			if len(st) > 0 {
				s = strings.Join(st, ",")
			}
			c.Ops = append(c.Ops, fmt.Sprintf("http %d %s", r.Range(0, 3), s))
		default:
			n := lib.Pick(r, []int{1, 2, 2, 3, 4, 5, 7, 8, 16, 100})
			var lo, hi *big.Int
			switch r.Intn(4) {
			case 0: // ranges whose midpoint sits just below a runner boundary (float rounding decides)
				k := int64(r.Range(1, n))
				hi = new(big.Int).Div(new(big.Int).Mul(c16Max, big.NewInt(k)), big.NewInt(int64(n)))
				lo = new(big.Int).Set(hi)
				d := new(big.Int).Lsh(big.NewInt(1), uint(r.Range(0, 127)))
				lo.Sub(lo, d)
				hi.Add(hi, d).Sub(hi, big.NewInt(int64(r.Range(0, 3))))
				if lo.Sign() < 0 {
					lo.SetInt64(0)
				}
				if hi.Cmp(c16Max) >= 0 {
					hi.Sub(c16Max, big.NewInt(1))
				}
			case 1:
				lo = big.NewInt(0)
				hi = new(big.Int).Sub(c16Max, big.NewInt(1))
			default:
				a := new(big.Int).SetBytes(r.Bytes(16))
				b := new(big.Int).SetBytes(r.Bytes(16))
				if a.Cmp(b) > 0 {
					a, b = b, a
				}
				lo, hi = a, b
			}
			c.Ops = append(c.Ops, fmt.Sprintf("uidx %s %s %d", lo, hi, n))
		}
	}
	return c
}

func c16Header(c lib.Case) (mode string, args []int) {
	f := strings.Fields(c.Header)
	if len(f) < 3 {
		return "", nil
	}
	for _, a := range f[3:] {
		n, _ := strconv.Atoi(a)
		args = append(args, n)
	}
	return f[2], args
}

func propC16() *lib.Prop {
	const mid0 = "42535295865117307932921825928971026432"  // 2^125
	const mid1 = "255211775190703847597530955573826158592" // 2^127 + 2^126
	return &lib.Prop{
		ID:   "C16",
		Corr: "Model/Splits.lean ↔ kinesis.SourceSplitter+SplitTracker (against kinesisfake), uniformlyAssignShard, embedded/httpapi splitters, sliceu.Partition, SourceRunner.processEvents (barrier cut with a scripted reader)",
		Rule: "cases: kin = op sequences (split/merge of the stream, discovery ticks, finish notifications in any order, checkpoint, restore) on the real Kinesis splitter; cut = assign/read/barrier scripts (reads of up to 2000 records; checkpoint requests arriving inside a read: before/after the cursors move and while its records are being emitted, triggered by the k-th record arriving downstream) on the real SourceRunner with a scripted reader; job = real jobs.Job + snapshots.Store + httpapi splitter with a storage location that holds a snapshot write until the replacement operator is being deployed (checkpoint id the operators restore vs position the split resumes from); kread = the real Kinesis SourceReader (kinesisfake) under the real ReadSourceChannel and SourceRunner, one gated ReadEvents per op, GetRecords requests failing with a retryable throttling error, expired shard iterators and shard ends (closed shard: real NotifySplitsFinished hook, reader drops it) at chosen points, positions at barriers vs records received ahead of them; ckrace = Checkpoint() of the real splitter taken concurrently with its loop handing out shards (stress, D61); ecut = the real embedded SourceReader free-running under the real SourceRunner with barriers at random moments (only the statement of cursor_matches_cut_partial is observed); misc = Partition/embedded/httpapi/uniformlyAssignShard blocks. non-trivial = kin case with a restore from a checkpoint after the stream was resharded, cut case with a barrier after a read, or misc block",
		NumCases: func(tier string) int {
			if tier == "thorough" {
				return 8000
			}
			return 1000
		},
		Fixed: func(tier string) []lib.Case {
			var cs []lib.Case
			// D16a/D16b (repaired): restore hands every assigned shard out once, with its cursor
			cs = append(cs, lib.Case{Header: "M C16 kin 2 2", Tags: []string{"kin", "fixed-D16ab"},
				Ops: []string{"start", "ckpt 0=11,1=12", "restore", "chk", "tick", "restore"}})
			// D16d (repaired): LastAssigned never moves backwards, a finished shard is not listed again
			cs = append(cs, lib.Case{Header: "M C16 kin 2 2", Tags: []string{"kin", "fixed-D16d"},
				Ops: []string{"start", "split 0 " + mid0, "split 1 " + mid1, "tick", "finish 1", "finish 5", "finish 0", "tick", "tick", "chk"}})
			// D61 (repaired): checkpoints taken while the loop hands out shards are consistent
			cs = append(cs, lib.Case{Header: "M C16 ckrace", Tags: []string{"ckrace", "fixed-D61"}, Ops: []string{"stress 300 40"}})
			// D52 (repaired): a shard finishes between its runner's barrier and the splitter's part of the checkpoint;
			// the restart resumes it from the reported position and its children wait
			cs = append(cs, lib.Case{Header: "M C16 kin 1 1", Tags: []string{"kin", "fixed-D52", "kin-restore-lineage", "kin-state-of-finished"},
				Ops: []string{"start", "split 0 100", "tick", "finish 0", "ckpt 0=5", "restore", "chk", "finish 0", "tick", "chk"}})
			// D16c (repaired): withheld shards below LastAssigned survive a restore (persisted in the splitter state)
			cs = append(cs, lib.Case{Header: "M C16 kin 2 2", Tags: []string{"kin", "fixed-D16c", "kin-restore-lineage"},
				Ops: []string{"start", "split 0 " + mid0, "split 1 " + mid1, "tick", "finish 1", "ckpt 0=7,4=9", "split 2 1000", "restore", "finish 0", "tick", "chk"}})
			// a publication lands between assembly.Deploy and sourceSplitter.Start of the redeploy
			cs = append(cs, lib.Case{Header: "M C16 job", Tags: []string{"job", "job-race"},
				Ops: []string{"deploy", "ckpt 10", "ckpt 20 hold", "fail race", "ckpt 33", "fail", "ckpt 40 hold", "fail", "release", "fail"}})
			// expired iterators, also with the repeated GetRecords throttled
			cs = append(cs, lib.Case{Header: "M C16 kread 1 1 1 2 2", Tags: []string{"kread", "kread-expire", "kread-fail", "kread-mech"},
				Ops: []string{"put 0 6", "put 1 6", "assign 0@-,1@-", "kreadm", "expire", "kreadm", "kreadm", "kbarrierm 1", "expire", "fail 2", "kreadm", "kreadm", "kreadm", "expire", "fail 1", "kreadm", "kreadm", "kreadm", "kbarrierm 2", "end"}})
			// a shard ends while it is being read: barrier right after the end, more reads, another barrier
			cs = append(cs, lib.Case{Header: "M C16 kread 2 1 2 2 3", Tags: []string{"kread", "kread-end", "kread-mech"},
				Ops: []string{"put 0 4", "put 1 5", "assign 0@-,1@-", "kreadm", "close 0", "kreadm", "kreadm", "kbarrierm 1", "kreadm", "kreadm", "kbarrierm 2", "put 0 3", "put 1 2", "kreadm", "kreadm", "kbarrierm 3", "end"}})
			cs = append(cs, lib.Case{Header: "M C16 kread 1 1 1 3 2", Tags: []string{"kread", "kread-end"},
				Ops: []string{"put 0 2", "put 1 3", "put 2 0", "assign 0@-,1@-,2@-", "close 2", "close 0", "kread", "kread", "kread", "kbarrier 1", "kread", "kread", "kbarrier 2", "kread", "kread", "kread", "kbarrier 3", "end"}})
			// throttled GetRecords on a shard that is not the first one of a polling round
			cs = append(cs, lib.Case{Header: "M C16 kread 4 2 1 2 5", Tags: []string{"kread", "kread-fail"},
				Ops: []string{"put 0 12", "put 1 9", "assign 0@-,1@-", "fail 2", "kread", "kread", "kread", "kbarrier 1", "kread", "kread", "fail 1", "kread", "kbarrier 2", "kread", "kread", "kread", "kread", "kbarrier 3", "end"}})
			cs = append(cs, lib.Case{Header: "M C16 kread 1 1 2 2 3", Tags: []string{"kread", "kread-fail", "kread-mech"},
				Ops: []string{"put 0 7", "put 1 4", "kreadm", "assign 0@-,1@1", "kreadm", "fail 1", "kreadm", "kreadm", "kbarrierm 1", "fail 2", "kreadm", "kreadm", "kreadm", "kbarrierm 2", "put 1 3", "kreadm", "kreadm", "kreadm", "kbarrierm 3", "end"}})
			// large reads with the checkpoint requested while they are being emitted
			cs = append(cs, lib.Case{Header: "M C16 cut 1 1 2", Tags: []string{"cut", "cut-bigread"},
				Ops: []string{"assign 0@0,1@7", "readbar3 1 1 0*1300", "readbar2 2 1*600,0*300,1*400", "readbar3 3 500 0*200,1*901", "read 0*700", "barrier 4", "readbar1 5 1*502", "end"}})
			cs = append(cs, lib.Case{Header: "M C16 cut 4 2 3", Tags: []string{"cut", "cut-bigread"},
				Ops: []string{"assign 0@0", "readbar3 1 2 0*1001", "readbar3 2 501 0*1600", "readbar2 3 0*2000", "end"}})
			cs = append(cs, lib.Case{Header: "M C16 cut 2 2 2", Tags: []string{"cut"},
				Ops: []string{"barrier 1", "assign 0@0,1@5", "read 0,1,0", "barrier 2", "readbar1 3 1,1,0", "readbar2 4 0,0", "assign 2@0,3@9", "read 2,77,0,3", "barrier 5", "end"}})
			grid := lib.Case{Header: "M C16 misc", Tags: []string{"misc", "grid"}}
			chk := lib.Case{Header: "M C16 misc", Tags: []string{"misc-chk", "grid"}}
			for l := 0; l <= 9; l++ {
				for n := 1; n <= 5; n++ {
					grid.Ops = append(grid.Ops, fmt.Sprintf("part %d %d", l, n), fmt.Sprintf("emb %d %d", l, n))
					chk.Ops = append(chk.Ops, fmt.Sprintf("partchk %d %d", l, n), fmt.Sprintf("embchk %d %d", l, n))
				}
			}
			cs = append(cs, chk)
			all := new(big.Int).Sub(c16Max, big.NewInt(1)).String()
			half := new(big.Int).Sub(new(big.Int).Rsh(c16Max, 1), big.NewInt(1)).String()
			for n := 1; n <= 6; n++ {
				grid.Ops = append(grid.Ops, fmt.Sprintf("uidx 0 %s %d", all, n), fmt.Sprintf("uidx 0 %s %d", half, n), fmt.Sprintf("uidx 0 0 %d", n), fmt.Sprintf("uidx %s %s %d", all, all, n))
			}
			grid.Ops = append(grid.Ops, "http 0 -", "http 2 -", "http 1 -,ab,-", "http 3 01,02")
			cs = append(cs, grid)
			return cs
		},
		Gen: func(r *lib.Rng, tier string, i int) lib.Case {
			switch k := r.Intn(20); {
			case k < 11:
				return genKin(r, tier)
			case k < 15:
				return genCut(r, tier)
			case k < 16:
				return genKRead(r)
			case k < 17 && r.Chance(1, 12):
				// checkpoints taken while the real splitter loop hands out shards (D61), small instance
				return lib.Case{Header: "M C16 ckrace", Tags: []string{"ckrace"}, Ops: []string{fmt.Sprintf("stress %d %d", r.Range(60, 200), r.Range(5, 15))}}
			case k < 17:
				return genECut(r)
			case k < 18:
				return genJob(r)
			default:
				return genMisc(r)
			}
		},
		Impl: func(c lib.Case) (res []string) {
			if dir := os.Getenv("C16_DUMP"); dir != "" { // debugging aid: dump every case with the implementation's outputs
				defer func() {
					b, _ := json.Marshal(map[string]any{"header": c.Header, "ops": c.Ops, "impl": res})
					os.WriteFile(fmt.Sprintf("%s/%s.json", dir, c.Hash()), b, 0o644)
				}()
			}
			mode, a := c16Header(c)
			switch {
			case mode == "kin" && len(a) == 2:
				return implKin(c, a[0], a[1], 0)
			case mode == "kin" && len(a) == 3:
				return implKin(c, a[0], a[1], a[2])
			case mode == "cut" && len(a) == 3:
				return c16Retry(func() []string { return implCut(c, a[0], a[1], a[2]) })
			case mode == "ckrace":
				return c16Retry(func() []string { return implCkRace(c) })
			case mode == "job":
				return c16Retry(func() []string { return implJob(c) })
			case mode == "kread" && len(a) == 5:
				return c16Retry(func() []string { return implKRead(c, a[0], a[1], a[2], a[3], a[4]) })
			case mode == "ecut" && len(a) == 5:
				return c16Retry(func() []string { return implECut(c, a[0], a[1], a[2], a[3], a[4]) })
			default:
				return implMisc(c)
			}
		},
		Nontrivial: func(c lib.Case, impl []string) bool {
			mode, _ := c16Header(c)
			switch mode {
			case "kin":
				for _, t := range c.Tags {
					if t == "kin-restore-lineage" {
						return true
					}
				}
				return false
			case "ecut":
				return true
			case "kread":
				for _, t := range c.Tags {
					if t == "kread-fail" {
						return true
					}
				}
				return false
			case "job":
				for _, t := range c.Tags {
					if t == "job-race" {
						return true
					}
				}
				return false
			case "cut":
				read := false
				for _, o := range c.Ops {
					if strings.HasPrefix(o, "read") && !strings.HasSuffix(o, " -") {
						read = true
					}
					if read && (strings.HasPrefix(o, "barrier") || strings.HasPrefix(o, "readbar")) {
						return true
					}
				}
				return false
			}
			return true
		},
		Extra: func() map[string]any {
			c16Discarded.Lock()
			defer c16Discarded.Unlock()
			d := map[string]int{}
			total := 0
			for k, v := range c16Discarded.n {
				d[k] = v
				total += v
			}
			return map[string]any{"discarded_attempts": total, "discarded_attempts_by_outcome": d}
		},
		// which runner gets which split is mechanism; that every split has exactly one is checked by partchk / embchk
		MObs: func(op string) bool {
			return strings.HasPrefix(op, "uidx") || strings.HasPrefix(op, "part ") || strings.HasPrefix(op, "emb ") ||
				strings.HasPrefix(op, "kreadm") || strings.HasPrefix(op, "kbarrierm")
		},
	}
}
