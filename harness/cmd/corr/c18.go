package main

import (
	"fmt"
	"slices"
	"sort"
	"strconv"
	"strings"
	"sync"
	"time"

	"reduction.dev/reduction/dkv"
	"reduction.dev/reduction/dkv/kv"
	"reduction.dev/reduction/dkv/sst"
	"reduction.dev/reduction/dkv/storage"
	"reduction.dev/reduction/util/verifhook"
	"verif/harness/lib"
)

func init() { register("C18", propC18) }

type c18Entry struct {
	k, v []byte
	seq  uint64
	del  bool
}

func (e c18Entry) Key() []byte    { return e.k }
func (e c18Entry) Value() []byte  { return e.v }
func (e c18Entry) IsDelete() bool { return e.del }
func (e c18Entry) SeqNum() uint64 { return e.seq }

func c18ShowEntry(e kv.Entry) string {
	d := "0"
	v := e.Value()
	if e.IsDelete() {
		d = "1"
		v = nil
	}
	return fmt.Sprintf("%s:%d:%s:%s", lib.Hex(e.Key()), e.SeqNum(), d, lib.Hex(v))
}

func c18ParseRun(s string) []kv.Entry {
	if s == "empty" || s == "" {
		return nil
	}
	var out []kv.Entry
	for _, item := range strings.Split(s, ";") {
		f := strings.Split(item, ":")
		if len(f) != 4 {
			continue
		}
		seq, _ := strconv.ParseUint(f[1], 10, 64)
		out = append(out, c18Entry{k: lib.UnHex(f[0]), seq: seq, del: f[2] == "1", v: lib.UnHex(f[3])})
	}
	return out
}

// ---- branch counters for the evidence ----

var c18Mu sync.Mutex
var c18Count = map[string]int{}

func c18Bump(k string) {
	c18Mu.Lock()
	c18Count[k]++
	c18Mu.Unlock()
}

// ---- oracle: the answers the real size arithmetic gives to every question the compactor can ask ----

func bit(b bool) string {
	if b {
		return "1"
	}
	return "0"
}

func c18Oracle(ll *sst.LevelList, c *sst.Compactor) string {
	n := len(ll.TableCounts())
	few := ll.TableCounts()[0] < c.L0RunNumCompactionTrigger
	sar := ll.SizeAmplificationRatio()
	amp := sar.Percentage() > c.MaxSizeAmplificationPercent
	var met strings.Builder
	for level := range ll.AscendLevels(1) {
		for _, t := range slices.SortedFunc(level.AllTables(), sst.OrderOldToNew) {
			sar = sar.WithCompactedBytes(t.Size())
			met.WriteString(bit(sar.Percentage() < c.MaxSizeAmplificationPercent))
		}
	}
	var over strings.Builder
	for i := 0; i < n; i++ {
		l := ll.At(i)
		over.WriteString(bit(l.ByteSize > c.SmallestLevelSize*int64(l.Num)))
	}
	return fmt.Sprintf("o=%s%s/%s/%s", bit(few), bit(amp), met.String(), over.String())
}

// ---- direct mode ----

type c18Cfg struct {
	mode                                 string
	levels, l0, amp, target              int
	smallest                             int64
	mem                                  int
}

func parseC18Header(h string) c18Cfg {
	c := c18Cfg{mode: "direct", levels: 4, l0: 2, amp: 50, smallest: 1 << 40, target: 1 << 20, mem: 120}
	for _, f := range strings.Fields(h) {
		kvp := strings.SplitN(f, "=", 2)
		if len(kvp) != 2 {
			continue
		}
		v, _ := strconv.ParseInt(kvp[1], 10, 64)
		switch kvp[0] {
		case "mode":
			c.mode = kvp[1]
		case "levels":
			c.levels = int(v)
		case "l0":
			c.l0 = int(v)
		case "amp":
			c.amp = int(v)
		case "smallest":
			c.smallest = v
		case "target":
			c.target = int(v)
		case "mem":
			c.mem = int(v)
		}
	}
	return c
}

type c18Direct struct {
	ll      *sst.LevelList
	tw      *sst.TableWriter
	comp    *sst.Compactor
	ids     map[*sst.Table]int
	nextID  int
	pending *sst.ChangeSet
	last    string // description of the last Compact result (for `pick`)
}

func (d *c18Direct) write(run string) *sst.Table {
	t, err := d.tw.Write(slices.Values(c18ParseRun(run)))
	if err != nil {
		panic(err)
	}
	d.ids[t] = d.nextID
	d.nextID++
	return t
}

func (d *c18Direct) dump() string {
	var lv []string
	for _, l := range d.ll.VerifLayout() {
		if len(l) == 0 {
			lv = append(lv, "-")
			continue
		}
		var ts []string
		for _, ti := range l {
			id, ok := d.ids[ti.Table]
			if !ok {
				id = 999999
			}
			ts = append(ts, fmt.Sprintf("%d=%s", id, dumpTable(ti.Table)))
		}
		lv = append(lv, strings.Join(ts, "|"))
	}
	return strings.Join(lv, "/")
}

func (d *c18Direct) describe(cs *sst.ChangeSet, sorted bool) string {
	cur := d.comp.VerifMinorLevel()
	if cs == nil {
		return fmt.Sprintf("none cur=%d", cur)
	}
	lvls, added, removed := cs.VerifChangeSet()
	n := len(d.ll.TableCounts())
	lvl := -2
	for _, l := range lvls {
		if l < 0 {
			l = n + l
		}
		if lvl == -2 {
			lvl = l
		} else if lvl != l {
			lvl = -3
		}
	}
	var rm []int
	for _, r := range removed {
		if id, ok := d.ids[r]; ok {
			rm = append(rm, id)
		} else {
			rm = append(rm, 999999)
		}
	}
	if sorted {
		sort.Ints(rm)
	}
	rmS := "-"
	if len(rm) > 0 {
		var ss []string
		for _, x := range rm {
			ss = append(ss, strconv.Itoa(x))
		}
		rmS = strings.Join(ss, ",")
	}
	addS := "none"
	if len(added) > 0 {
		var ss []string
		for _, a := range added {
			ss = append(ss, dumpTable(a))
		}
		addS = strings.Join(ss, "|")
	}
	return fmt.Sprintf("cs L%d rm=%s add=%s cur=%d", lvl, rmS, addS, cur)
}

func runC18Direct(c lib.Case, cfg c18Cfg) []string {
	fs := storage.NewMemoryFilesystem()
	tw := sst.NewTableWriter(fs, 0)
	d := &c18Direct{
		ll: sst.NewEmptyLevelList(cfg.levels), tw: tw, ids: map[*sst.Table]int{},
		comp: &sst.Compactor{TableWriter: tw, L0RunNumCompactionTrigger: cfg.l0, MaxSizeAmplificationPercent: cfg.amp,
			SmallestLevelSize: cfg.smallest, LevelSizeMultiplier: 10, TargetTableSize: int64(cfg.target)},
		last: "none cur=0",
	}
	flushedSinceCompute := false
	out := make([]string, 0, len(c.Ops))
	for _, op := range c.Ops {
		f := strings.Fields(op)
		switch f[0] {
		case "tbl":
			lvl, _ := strconv.Atoi(f[1])
			d.ll.AddTables(lvl, d.write(f[2]))
			out = append(out, "ok")
		case "flush":
			cs := &sst.ChangeSet{}
			cs.AddTables(0, d.write(f[1]))
			d.ll = d.ll.NewWithChangeSet(cs)
			if d.pending != nil {
				flushedSinceCompute = true
			}
			out = append(out, "ok")
		case "compact":
			if d.pending != nil {
				out = append(out, "busy")
				continue
			}
			o := c18Oracle(d.ll, d.comp)
			before := d.comp.VerifMinorLevel()
			cs, err := d.comp.Compact(d.ll)
			if err != nil {
				out = append(out, "err "+strings.ReplaceAll(err.Error(), " ", "_"))
				continue
			}
			d.pending = cs
			flushedSinceCompute = false
			d.last = d.describe(cs, true)
			switch {
			case cs == nil:
				c18Bump("branch:none")
			case o[3] == '1':
				c18Bump("branch:major")
				_, added, removed := cs.VerifChangeSet()
				// partial pick: some level above the base keeps a table while a deeper non-base level or it gave one
				layout := d.ll.VerifLayout()
				rmSet := map[*sst.Table]bool{}
				for _, r := range removed {
					rmSet[r] = true
				}
				for i := 0; i < len(layout)-1; i++ {
					took, kept := 0, 0
					for _, ti := range layout[i] {
						if rmSet[ti.Table] {
							took++
						} else {
							kept++
						}
					}
					if took > 0 && kept > 0 {
						c18Bump(fmt.Sprintf("major-partial-level:%s", map[bool]string{true: "0", false: "deep"}[i == 0]))
					}
					if took == 0 && kept > 0 {
						c18Bump("major-untouched-upper-level")
					}
				}
				if len(added) > 1 {
					c18Bump("multi-table-output")
				}
			case before == 0:
				c18Bump("branch:minor-l0")
			default:
				c18Bump("branch:minor-deep")
			}
			out = append(out, o+" "+d.describe(cs, true))
		case "apply":
			if d.pending == nil {
				out = append(out, "none")
				continue
			}
			_, added, _ := d.pending.VerifChangeSet()
			for _, a := range added {
				d.ids[a] = d.nextID
				d.nextID++
			}
			d.ll = d.ll.NewWithChangeSet(d.pending)
			d.pending = nil
			if flushedSinceCompute {
				c18Bump("applied-after-flush-arrival")
			}
			c18Bump("applied")
			out = append(out, "ok")
		case "valid":
			out = append(out, d.dump()+" valid")
		case "get":
			e, err := d.ll.Get(lib.UnHex(f[1]))
			if err == kv.ErrNotFound {
				out = append(out, "none")
			} else if err != nil {
				out = append(out, "err "+strings.ReplaceAll(err.Error(), " ", "_"))
			} else {
				out = append(out, "e "+c18ShowEntry(e))
			}
		case "scan":
			var scanErr error
			var parts []string
			for e := range d.ll.ScanPrefixWithTombstones(lib.UnHex(f[1]), &scanErr) {
				parts = append(parts, c18ShowEntry(e))
			}
			if scanErr != nil {
				out = append(out, "err "+strings.ReplaceAll(scanErr.Error(), " ", "_"))
			} else if len(parts) == 0 {
				out = append(out, "empty")
			} else {
				out = append(out, strings.Join(parts, ";"))
			}
		case "safe":
			out = append(out, "safe")
		case "pick":
			out = append(out, d.last)
		case "layout":
			out = append(out, d.dump())
		default:
			out = append(out, "bad-op")
		}
	}
	return out
}

// ---- generator (pure) ----

var c18Pool = [][]byte{{}, {0x61}, {0x61, 0x00}, {0x61, 0x62}, {0x61, 0x62, 0x63}, {0x62}, {0x00}, {0xff}, {0xff, 0xff}, {0x62, 0xff}, {0x7f}, {0x80, 0x01}, {0x6b}, {0x7a}}

type c18Gen struct {
	r   *lib.Rng
	seq uint64
}

func (g *c18Gen) val() []byte {
	switch g.r.Intn(12) {
	case 0:
		return nil
	case 1:
		return g.r.Bytes(g.r.Range(200, 1500))
	default:
		return g.r.Bytes(g.r.Range(1, 6))
	}
}

// run builds a sorted run over the given keys with fresh sequence numbers handed out in a random order.
func (g *c18Gen) run(keys [][]byte) string {
	seqs := make([]uint64, len(keys))
	for i := range seqs {
		g.seq++
		seqs[i] = g.seq
	}
	for i := len(seqs) - 1; i > 0; i-- {
		j := g.r.Intn(i + 1)
		seqs[i], seqs[j] = seqs[j], seqs[i]
	}
	var parts []string
	for i, k := range keys {
		if g.r.Chance(1, 6) {
			parts = append(parts, fmt.Sprintf("%s:%d:1:-", lib.Hex(k), seqs[i]))
		} else {
			parts = append(parts, fmt.Sprintf("%s:%d:0:%s", lib.Hex(k), seqs[i], lib.Hex(g.val())))
		}
	}
	return strings.Join(parts, ";")
}

func (g *c18Gen) keys(m int) [][]byte {
	set := map[string][]byte{}
	for len(set) < m {
		var k []byte
		if g.r.Chance(1, 8) {
			k = g.r.Bytes(g.r.Range(1, 3))
		} else {
			k = lib.Pick(g.r, c18Pool)
		}
		set[string(k)] = k
	}
	var ks [][]byte
	for _, k := range set {
		ks = append(ks, k)
	}
	slices.SortFunc(ks, func(a, b []byte) int { return strings.Compare(string(a), string(b)) })
	return ks
}

func c18ObserveOps() []string {
	ops := []string{"valid"}
	for _, k := range c18Pool {
		ops = append(ops, "get "+lib.Hex(k))
	}
	ops = append(ops, "scan -", "scan 61", "scan ff", "safe", "pick", "layout")
	return ops
}

func c18GenDirect(r *lib.Rng, tier string) lib.Case {
	g := &c18Gen{r: r}
	n := lib.Pick(r, []int{2, 3, 3, 4, 4, 5, 6})
	hdr := fmt.Sprintf("M C18 mode=direct levels=%d l0=%d amp=%d smallest=%d target=%d", n,
		lib.Pick(r, []int{1, 1, 2, 3}), lib.Pick(r, []int{1, 25, 50, 100, 150, 250, 400, 100000}),
		lib.Pick(r, []int64{1, 2000, 4500, 9000, 1 << 40}), lib.Pick(r, []int{24, 48, 96, 200, 1 << 20}))
	var ops []string
	// deeper levels first (oldest data), each level a sorted non-overlapping sequence of tables
	for lvl := n - 1; lvl >= 1; lvl-- {
		if r.Chance(1, 4) {
			continue
		}
		nt := r.Range(1, 3)
		ks := g.keys(r.Range(nt, nt+5))
		// the tables of the level receive their sequence numbers in a random order: ages do not follow key order
		cuts := []int{0}
		for i := 1; i < nt; i++ {
			cuts = append(cuts, r.Range(1, len(ks)-1))
		}
		cuts = append(cuts, len(ks))
		sort.Ints(cuts)
		type piece struct {
			pos  int
			keys [][]byte
		}
		var pieces []piece
		for i := 0; i+1 < len(cuts); i++ {
			if cuts[i] < cuts[i+1] {
				pieces = append(pieces, piece{len(pieces), ks[cuts[i]:cuts[i+1]]})
			}
		}
		order := make([]int, len(pieces))
		for i := range order {
			order[i] = i
		}
		for i := len(order) - 1; i > 0; i-- {
			j := r.Intn(i + 1)
			order[i], order[j] = order[j], order[i]
		}
		runs := make([]string, len(pieces))
		for _, pi := range order {
			runs[pi] = g.run(pieces[pi].keys)
		}
		for _, run := range runs {
			ops = append(ops, fmt.Sprintf("tbl %d %s", lvl, run))
		}
	}
	for i := r.Intn(5); i > 0; i-- {
		ops = append(ops, "tbl 0 "+g.run(g.keys(r.Range(1, 5))))
	}
	ops = append(ops, c18ObserveOps()...)
	rounds := r.Range(2, 6)
	if tier == "thorough" {
		rounds = r.Range(2, 12)
	}
	for i := 0; i < rounds; i++ {
		ops = append(ops, "compact")
		if r.Chance(1, 3) {
			for j := r.Range(1, 2); j > 0; j-- {
				ops = append(ops, "flush "+g.run(g.keys(r.Range(1, 4))))
			}
		}
		ops = append(ops, "apply")
		ops = append(ops, c18ObserveOps()...)
		if r.Chance(1, 2) {
			for j := r.Range(1, 3); j > 0; j-- {
				ops = append(ops, "flush "+g.run(g.keys(r.Range(1, 4))))
			}
		}
	}
	return lib.Case{Header: hdr, Ops: ops}
}

func c18Fixed() []lib.Case {
	obs := c18ObserveOps()
	// D22: L0{k@9}  L2{A: a@1, B: k@5}  base{z@2}, four tables of about the same size, goal 250 %: 300 % before, 200 % after
	// taking A. The unrepaired picker went on to level 0 and merged k@9 into the base beneath B.
	d22 := []string{"tbl 3 7a:2:0:01", "tbl 2 61:1:0:02", "tbl 2 6b:5:0:6f6c64", "tbl 0 6b:9:0:6e6577"}
	d22 = append(d22, "compact", "apply")
	d22 = append(d22, obs...)
	d22 = append(d22, "compact", "apply")
	d22 = append(d22, obs...)
	// the same with a flush arriving between computing and applying the change set
	d22f := []string{"tbl 3 7a:2:0:01", "tbl 2 61:1:0:02", "tbl 2 6b:5:0:6f6c64", "tbl 0 6b:9:0:6e6577", "compact", "flush 6b:12:1:-;7a:11:0:05", "apply"}
	d22f = append(d22f, obs...)
	// minor compaction chain: level 0 -> 1 -> 2 with multi-table outputs
	minor := []string{"tbl 2 61:1:0:01;62:2:0:02", "tbl 1 61:3:0:03", "tbl 1 6b:4:1:-", "tbl 0 61:6:0:04;7a:5:0:05", "tbl 0 6b:7:0:06"}
	for i := 0; i < 4; i++ {
		minor = append(minor, "compact", "apply")
		minor = append(minor, obs...)
	}
	return []lib.Case{
		{Header: "M C18 mode=direct levels=4 l0=1 amp=250 smallest=1099511627776 target=1048576", Ops: d22, Tags: []string{"regress-D22"}},
		{Header: "M C18 mode=direct levels=4 l0=1 amp=250 smallest=1099511627776 target=1048576", Ops: d22f, Tags: []string{"regress-D22"}},
		{Header: "M C18 mode=direct levels=4 l0=2 amp=100000 smallest=1 target=24", Ops: minor, Tags: []string{"minor-chain"}},
	}
}

func propC18() *lib.Prop {
	return &lib.Prop{
		ID:   "C18",
		Corr: "Model/Compaction.lean compact/applyCS/LayoutValid/SafeCS ↔ real sst.Compactor.Compact, LevelList.NewWithChangeSet, Get, ScanPrefixWithTombstones",
		Rule: "real Compactor.Compact steps on level lists of real tables (overlapping keys across levels, multi-table levels, flush arrivals between computing and applying a change set); after every step the real layout is judged by LayoutValid, every pool key's Get and three scans are compared with the never-compacted reference, the real change set is tested for membership in SafeCS/safeCS and compared with the model's compact under the observed oracle answers; non-trivial = at least one change set was applied",
		FeedImpl: true,
		NumCases: func(tier string) int {
			if tier == "thorough" {
				return 3000
			}
			return 300
		},
		Fixed: func(string) []lib.Case { return c18Fixed() },
		Gen: func(r *lib.Rng, tier string, i int) lib.Case {
			return c18GenDirect(r, tier)
		},
		Impl: func(c lib.Case) []string {
			cfg := parseC18Header(c.Header)
			return runC18Direct(c, cfg)
		},
		Nontrivial: func(c lib.Case, out []string) bool {
			for i, o := range out {
				if o == "ok" && c.Ops[i] == "apply" {
					return true
				}
			}
			return false
		},
		MObs: func(op string) bool {
			f := strings.Fields(op)
			switch f[0] {
			case "valid", "get", "scan":
				return false
			}
			return true
		},
		Extra: func() map[string]any {
			c18Mu.Lock()
			defer c18Mu.Unlock()
			m := map[string]any{}
			for k, v := range c18Count {
				m[k] = v
			}
			return m
		},
	}
}

var _ = time.Second
var _ = dkv.New
var _ = verifhook.Set
