package main

import (
	"fmt"
	"slices"
	"sort"
	"strconv"
	"strings"
	"io"
	"log/slog"
	"sync"
	"time"

	"reduction.dev/reduction/dkv"
	"reduction.dev/reduction/dkv/kv"
	"reduction.dev/reduction/dkv/recovery"
	"reduction.dev/reduction/dkv/sst"
	"reduction.dev/reduction/dkv/storage"
	"reduction.dev/reduction/util/verifhook"
	"verif/harness/lib"
)

func init() { register("C18", propC18) }

type c18Entry struct {
	k, v []byte
	seq  uint64
	del  bool
}

func (e c18Entry) Key() []byte    { return e.k }
func (e c18Entry) Value() []byte  { return e.v }
func (e c18Entry) IsDelete() bool { return e.del }
func (e c18Entry) SeqNum() uint64 { return e.seq }

func c18ShowEntry(e kv.Entry) string {
	d := "0"
	v := e.Value()
	if e.IsDelete() {
		d = "1"
		v = nil
	}
	return fmt.Sprintf("%s:%d:%s:%s", lib.Hex(e.Key()), e.SeqNum(), d, lib.Hex(v))
}

func c18ParseRun(s string) []kv.Entry {
	if s == "empty" || s == "" {
		return nil
	}
	var out []kv.Entry
	for _, item := range strings.Split(s, ";") {
		f := strings.Split(item, ":")
		if len(f) != 4 {
			continue
		}
		seq, _ := strconv.ParseUint(f[1], 10, 64)
		out = append(out, c18Entry{k: lib.UnHex(f[0]), seq: seq, del: f[2] == "1", v: lib.UnHex(f[3])})
	}
	return out
}

// ---- branch counters for the evidence ----

var c18Mu sync.Mutex
var c18Count = map[string]int{}

func c18Bump(k string) {
	c18Mu.Lock()
	c18Count[k]++
	c18Mu.Unlock()
}

// ---- oracle: the answers the real size arithmetic gives to every question the compactor can ask ----

func bit(b bool) string {
	if b {
		return "1"
	}
	return "0"
}

func c18Oracle(ll *sst.LevelList, c *sst.Compactor) string {
	n := len(ll.TableCounts())
	few := ll.TableCounts()[0] < c.L0RunNumCompactionTrigger
	sar := ll.SizeAmplificationRatio()
	amp := sar.Percentage() > c.MaxSizeAmplificationPercent
	var met strings.Builder
	for level := range ll.AscendLevels(1) {
		for _, t := range slices.SortedFunc(level.AllTables(), sst.OrderOldToNew) {
			sar = sar.WithCompactedBytes(t.Size())
			met.WriteString(bit(sar.Percentage() < c.MaxSizeAmplificationPercent))
		}
	}
	var over strings.Builder
	for i := 0; i < n; i++ {
		l := ll.At(i)
		over.WriteString(bit(l.ByteSize > c.SmallestLevelSize*int64(l.Num)))
	}
	return fmt.Sprintf("o=%s%s/%s/%s", bit(few), bit(amp), met.String(), over.String())
}

// ---- direct mode ----

// c18FailFS makes the Save of newly created files fail while `fail` is set (a table write that returns an error).
type c18FailFS struct {
	storage.FileSystem
	fail bool // Save of files created now fails
	mu   sync.Mutex
	// read faults: while armed, ReadAt on the named file at or beyond the offset fails
	readArmed bool
	readFrom  map[string]int64
	readFired bool
}

type c18FailFile struct {
	storage.File
	fs       *c18FailFS
	failSave bool
}

func (f c18FailFile) Save() error {
	if f.failSave {
		return fmt.Errorf("injected write failure")
	}
	return f.File.Save()
}

func (f c18FailFile) ReadAt(p []byte, off int64) (int, error) {
	g := f.fs
	g.mu.Lock()
	from, has := g.readFrom[f.File.Name()]
	hit := g.readArmed && has && off >= from
	if hit {
		g.readFired = true
	}
	g.mu.Unlock()
	if hit {
		return 0, fmt.Errorf("injected read failure at %d", off)
	}
	return f.File.ReadAt(p, off)
}

func (g *c18FailFS) New(path string) storage.File {
	return c18FailFile{File: g.FileSystem.New(path), fs: g, failSave: g.fail}
}

// armReads makes every table with two or more entries unreadable behind its first entry.
func (g *c18FailFS) armReads(ll *sst.LevelList) {
	from := map[string]int64{}
	for _, l := range ll.VerifLayout() {
		for _, ti := range l {
			var scanErr error
			n, first := 0, int64(0)
			for e := range ti.Table.ScanPrefix(nil, &scanErr) {
				if n == 0 {
					first = int64(4 + len(e.Key()) + 8 + 1)
					if !e.IsDelete() {
						first += int64(4 + len(e.Value()))
					}
				}
				n++
			}
			if n >= 2 {
				from[ti.Name] = first
			}
		}
	}
	g.mu.Lock()
	g.readFrom, g.readArmed, g.readFired = from, true, false
	g.mu.Unlock()
}

func (g *c18FailFS) disarmReads() bool {
	g.mu.Lock()
	defer g.mu.Unlock()
	g.readArmed = false
	return g.readFired
}

type c18Cfg struct {
	mode                                 string
	levels, l0, amp, target              int
	smallest                             int64
	mem                                  int
	nsrc, sl0, samp                      int
	ssmall                               int64
	order                                []int
}

func parseC18Header(h string) c18Cfg {
	c := c18Cfg{mode: "direct", levels: 4, l0: 2, amp: 50, smallest: 1 << 40, target: 1 << 20, mem: 120}
	for _, f := range strings.Fields(h) {
		kvp := strings.SplitN(f, "=", 2)
		if len(kvp) != 2 {
			continue
		}
		v, _ := strconv.ParseInt(kvp[1], 10, 64)
		switch kvp[0] {
		case "mode":
			c.mode = kvp[1]
		case "levels":
			c.levels = int(v)
		case "l0":
			c.l0 = int(v)
		case "amp":
			c.amp = int(v)
		case "smallest":
			c.smallest = v
		case "target":
			c.target = int(v)
		case "mem":
			c.mem = int(v)
		case "nsrc":
			c.nsrc = int(v)
		case "sl0":
			c.sl0 = int(v)
		case "samp":
			c.samp = int(v)
		case "ssmall":
			c.ssmall = v
		case "order":
			for _, x := range strings.Split(kvp[1], ".") {
				n, _ := strconv.Atoi(x)
				c.order = append(c.order, n)
			}
		}
	}
	return c
}

type c18Direct struct {
	ll      *sst.LevelList
	tw      *sst.TableWriter
	comp    *sst.Compactor
	ids     map[*sst.Table]int
	nextID  int
	pending *sst.ChangeSet
	last    string // description of the last Compact result (for `pick`)
}

func (d *c18Direct) write(run string) *sst.Table {
	t, err := d.tw.Write(slices.Values(c18ParseRun(run)))
	if err != nil {
		panic(err)
	}
	d.ids[t] = d.nextID
	d.nextID++
	return t
}

func (d *c18Direct) dump() string {
	var lv []string
	for _, l := range d.ll.VerifLayout() {
		if len(l) == 0 {
			lv = append(lv, "-")
			continue
		}
		var ts []string
		for _, ti := range l {
			id, ok := d.ids[ti.Table]
			if !ok {
				id = 999999
			}
			ts = append(ts, fmt.Sprintf("%d=%s", id, dumpTable(ti.Table)))
		}
		lv = append(lv, strings.Join(ts, "|"))
	}
	return strings.Join(lv, "/")
}

func (d *c18Direct) describe(cs *sst.ChangeSet, sorted bool) string {
	cur := d.comp.VerifMinorLevel()
	if cs == nil {
		return fmt.Sprintf("none cur=%d", cur)
	}
	lvls, added, removed := cs.VerifChangeSet()
	n := len(d.ll.TableCounts())
	lvl := -2
	for _, l := range lvls {
		if l < 0 {
			l = n + l
		}
		if lvl == -2 {
			lvl = l
		} else if lvl != l {
			lvl = -3
		}
	}
	var rm []int
	for _, r := range removed {
		if id, ok := d.ids[r]; ok {
			rm = append(rm, id)
		} else {
			rm = append(rm, 999999)
		}
	}
	if sorted {
		sort.Ints(rm)
	}
	rmS := "-"
	if len(rm) > 0 {
		var ss []string
		for _, x := range rm {
			ss = append(ss, strconv.Itoa(x))
		}
		rmS = strings.Join(ss, ",")
	}
	addS := "none"
	if len(added) > 0 {
		var ss []string
		for _, a := range added {
			ss = append(ss, dumpTable(a))
		}
		addS = strings.Join(ss, "|")
	}
	return fmt.Sprintf("cs L%d rm=%s add=%s cur=%d", lvl, rmS, addS, cur)
}

func runC18Direct(c lib.Case, cfg c18Cfg) []string {
	fs := &c18FailFS{FileSystem: storage.NewMemoryFilesystem()}
	tw := sst.NewTableWriter(fs, 0)
	d := &c18Direct{
		ll: sst.NewEmptyLevelList(cfg.levels), tw: tw, ids: map[*sst.Table]int{},
		comp: &sst.Compactor{TableWriter: tw, L0RunNumCompactionTrigger: cfg.l0, MaxSizeAmplificationPercent: cfg.amp,
			SmallestLevelSize: cfg.smallest, LevelSizeMultiplier: 10, TargetTableSize: int64(cfg.target)},
		last: "none cur=0",
	}
	flushedSinceCompute := false
	// mode=ckpt: source databases whose checkpoints are merged into one level list by recovery.LoadCheckpointList
	var srcs []*dkv.DB
	srcRoot := storage.NewMemoryFilesystem()
	if cfg.mode == "ckpt" {
		c07Mu.Lock() // the flush/compaction queues of dkv are process-global
		defer c07Mu.Unlock()
		c07Seq++
		verifhook.Set(nil)

		for i := 0; i < cfg.nsrc; i++ {
			db := dkv.New(dkv.DBOptions{FileSystem: srcRoot.WithWorkingDir(fmt.Sprintf("c18k-%d/s%d", c07Seq, i)), MemTableSize: uint64(cfg.mem),
				TargetFileSize: uint64(cfg.target), L0TableNumCompactionTrigger: cfg.sl0, Logger: slog.New(slog.NewTextHandler(io.Discard, nil))})
			sc := db.VerifCompactor()
			sc.MaxSizeAmplificationPercent = cfg.samp
			sc.SmallestLevelSize = cfg.ssmall
			if err := db.Start(nil); err != nil {
				panic(err)
			}
			srcs = append(srcs, db)
		}
	}
	waitSrc := func(db *dkv.DB) bool {
		done := make(chan struct{})
		go func() {
			for i := 0; i < 2; i++ { // a flush task enqueues its compaction task when it finishes
				db.WaitOnTasks()
				time.Sleep(200 * time.Microsecond)
			}
			close(done)
		}()
		select {
		case <-done:
			return true
		case <-time.After(10 * time.Second):
			return false
		}
	}
	out := make([]string, 0, len(c.Ops))
	for _, op := range c.Ops {
		f := strings.Fields(op)
		switch f[0] {
		case "w":
			i, _ := strconv.Atoi(f[1])
			if i >= len(srcs) {
				out = append(out, "bad-src")
				continue
			}
			if f[2] == "put" {
				srcs[i].Put(lib.UnHex(f[3]), lib.UnHex(f[4]))
			} else {
				srcs[i].Delete(lib.UnHex(f[3]))
			}
			if !waitSrc(srcs[i]) {
				out = append(out, "timeout")
				continue
			}
			out = append(out, "ok")
		case "load":
			var handles []recovery.CheckpointHandle
			bad := ""
			for _, si := range cfg.order {
				if si >= len(srcs) {
					bad = "bad-order"
					break
				}
				if !waitSrc(srcs[si]) {
					bad = "timeout"
					break
				}
				h, err := srcs[si].Checkpoint(1)()
				if err != nil {
					bad = "err checkpoint"
					break
				}
				handles = append(handles, h)
			}
			if bad != "" {
				out = append(out, bad)
				continue
			}
			cl, err := recovery.LoadCheckpointList(srcRoot, &kv.AllDataOwnership{}, handles)
			if err != nil {
				out = append(out, "err load")
				continue
			}
			d.ll = cl.Latest().Levels
			for _, l := range d.ll.VerifLayout() {
				for _, ti := range l {
					d.ids[ti.Table] = d.nextID
					d.nextID++
				}
			}
			c18Bump("ckpt:loaded")
			if l0 := d.ll.VerifLayout()[0]; len(l0) > 1 {
				for i := 0; i+1 < len(l0); i++ {
					if l0[i].StartSeqNum > l0[i+1].StartSeqNum {
						c18Bump("ckpt:l0-age-disagrees-with-insertion-order")
						break
					}
				}
			}
			out = append(out, d.dump())
		case "tbl":
			lvl, _ := strconv.Atoi(f[1])
			d.ll.AddTables(lvl, d.write(f[2]))
			out = append(out, "ok")
		case "flush":
			cs := &sst.ChangeSet{}
			cs.AddTables(0, d.write(f[1]))
			d.ll = d.ll.NewWithChangeSet(cs)
			if d.pending != nil {
				flushedSinceCompute = true
			}
			out = append(out, "ok")
		case "compact":
			if d.pending != nil {
				out = append(out, "busy")
				continue
			}
			o := c18Oracle(d.ll, d.comp)
			before := d.comp.VerifMinorLevel()
			cs, err := d.comp.Compact(d.ll)
			if err != nil {
				out = append(out, "err "+strings.ReplaceAll(err.Error(), " ", "_"))
				continue
			}
			d.pending = cs
			flushedSinceCompute = false
			d.last = d.describe(cs, true)
			switch {
			case cs == nil:
				c18Bump("branch:none")
			case o[3] == '1':
				c18Bump("branch:major")
				_, added, removed := cs.VerifChangeSet()
				// partial pick: some level above the base keeps a table while a deeper non-base level or it gave one
				layout := d.ll.VerifLayout()
				rmSet := map[*sst.Table]bool{}
				for _, r := range removed {
					rmSet[r] = true
				}
				for i := 0; i < len(layout)-1; i++ {
					took, kept := 0, 0
					for _, ti := range layout[i] {
						if rmSet[ti.Table] {
							took++
						} else {
							kept++
						}
					}
					if took > 0 && kept > 0 {
						c18Bump(fmt.Sprintf("major-partial-level:%s", map[bool]string{true: "0", false: "deep"}[i == 0]))
					}
					if took == 0 && kept > 0 {
						c18Bump("major-untouched-upper-level")
					}
				}
				if len(added) > 1 {
					c18Bump("multi-table-output")
				}
			case before == 0:
				c18Bump("branch:minor-l0")
			default:
				c18Bump("branch:minor-deep")
			}
			out = append(out, o+" "+d.describe(cs, true))
		case "compactfail":
			// a Compact call whose table write fails: an error and no change set; the level list stays as it is
			if d.pending != nil {
				out = append(out, "busy")
				continue
			}
			o := c18Oracle(d.ll, d.comp)
			before := d.ll
			fs.fail = true
			cs, err := d.comp.Compact(d.ll)
			fs.fail = false
			switch {
			case err != nil && cs == nil && d.ll == before:
				c18Bump("compact-write-failed")
				out = append(out, fmt.Sprintf("%s failed cur=%d", o, d.comp.VerifMinorLevel()))
			case err == nil && cs == nil:
				out = append(out, fmt.Sprintf("%s none cur=%d", o, d.comp.VerifMinorLevel()))
			default:
				out = append(out, fmt.Sprintf("%s unexpected cs=%v err=%v", o, cs != nil, err != nil))
			}
		case "compactreadfail":
			// Compact while every input table with two or more entries is unreadable behind its first entry: the call must
			// return an error and no change set. Whatever it returns is what the database would then hold: a change set
			// returned in spite of the fault is applied, so that the reads that follow show what was lost.
			if d.pending != nil {
				out = append(out, "busy")
				continue
			}
			o := c18Oracle(d.ll, d.comp)
			fs.armReads(d.ll)
			cs, err := d.comp.Compact(d.ll)
			fired := fs.disarmReads()
			if !fired {
				// no input table had a second entry: an ordinary Compact
				if err != nil {
					out = append(out, "err "+strings.ReplaceAll(err.Error(), " ", "_"))
					continue
				}
				d.pending = cs
				flushedSinceCompute = false
				d.last = d.describe(cs, true)
				out = append(out, o+" "+d.describe(cs, true))
				continue
			}
			c18Bump("compact-read-fault")
			if cs != nil {
				c18Bump("compact-read-fault-ignored")
				_, added, _ := cs.VerifChangeSet()
				for _, a := range added {
					d.ids[a] = d.nextID
					d.nextID++
				}
				d.ll = d.ll.NewWithChangeSet(cs)
			}
			d.last = fmt.Sprintf("failed cur=%d", d.comp.VerifMinorLevel())
			out = append(out, fmt.Sprintf("%s readfault cur=%d", o, d.comp.VerifMinorLevel()))
		case "apply":
			if d.pending == nil {
				out = append(out, "none")
				continue
			}
			_, added, _ := d.pending.VerifChangeSet()
			for _, a := range added {
				d.ids[a] = d.nextID
				d.nextID++
			}
			d.ll = d.ll.NewWithChangeSet(d.pending)
			d.pending = nil
			if flushedSinceCompute {
				c18Bump("applied-after-flush-arrival")
			}
			c18Bump("applied")
			out = append(out, "ok")
		case "valid":
			out = append(out, d.dump()+" valid")
		case "get":
			e, err := d.ll.Get(lib.UnHex(f[1]))
			if err == kv.ErrNotFound {
				out = append(out, "none")
			} else if err != nil {
				out = append(out, "err "+strings.ReplaceAll(err.Error(), " ", "_"))
			} else {
				out = append(out, "e "+c18ShowEntry(e))
			}
		case "scan":
			var scanErr error
			var parts []string
			for e := range d.ll.ScanPrefixWithTombstones(lib.UnHex(f[1]), &scanErr) {
				parts = append(parts, c18ShowEntry(e))
			}
			if scanErr != nil {
				out = append(out, "err "+strings.ReplaceAll(scanErr.Error(), " ", "_"))
			} else if len(parts) == 0 {
				out = append(out, "empty")
			} else {
				out = append(out, strings.Join(parts, ";"))
			}
		case "safe":
			out = append(out, "safe")
		case "cfg":
			// what dkv.New builds when every option is left at its default (Facts.dkvLevelCount, dkvDefaultL0Trigger,
			// dkvMaxSizeAmpPercent)
			db0 := dkv.New(dkv.DBOptions{FileSystem: storage.NewMemoryFilesystem(), Logger: slog.New(slog.NewTextHandler(io.Discard, nil))})
			c0 := db0.VerifCompactor()
			out = append(out, fmt.Sprintf("levels=%d l0=%d amp=%d", len(db0.VerifLevels().VerifLayout()), c0.L0RunNumCompactionTrigger, c0.MaxSizeAmplificationPercent))
		case "ages":
			// Table.Age() of every table (model: sequence number of the first entry of the run)
			var lv []string
			for _, l := range d.ll.VerifLayout() {
				if len(l) == 0 {
					lv = append(lv, "-")
					continue
				}
				var ts []string
				for _, ti := range l {
					ts = append(ts, fmt.Sprintf("%d:%d", d.ids[ti.Table], ti.Table.Age()))
				}
				lv = append(lv, strings.Join(ts, ","))
			}
			out = append(out, strings.Join(lv, "/"))
		case "agesort":
			// every level in the order majorCompaction visits its tables: slices.SortedFunc(level.AllTables(), OrderOldToNew)
			// (tables of equal age, possible only across checkpoint sources, are listed by id)
			var lv []string
			n := len(d.ll.TableCounts())
			for i := 0; i < n; i++ {
				ts := slices.SortedFunc(d.ll.At(i).AllTables(), sst.OrderOldToNew)
				for a := 0; a < len(ts); {
					b := a
					for b < len(ts) && ts[b].Age() == ts[a].Age() {
						b++
					}
					slices.SortFunc(ts[a:b], func(x, y *sst.Table) int { return d.ids[x] - d.ids[y] })
					a = b
				}
				if len(ts) == 0 {
					lv = append(lv, "-")
					continue
				}
				var ss []string
				for _, t := range ts {
					ss = append(ss, strconv.Itoa(d.ids[t]))
				}
				lv = append(lv, strings.Join(ss, ","))
			}
			out = append(out, strings.Join(lv, "/"))
		case "pick":
			out = append(out, d.last)
		case "layout":
			out = append(out, d.dump())
		default:
			out = append(out, "bad-op")
		}
	}
	return out
}

// ---- generator (pure) ----

var c18Pool = [][]byte{{}, {0x61}, {0x61, 0x00}, {0x61, 0x62}, {0x61, 0x62, 0x63}, {0x62}, {0x00}, {0xff}, {0xff, 0xff}, {0x62, 0xff}, {0x7f}, {0x80, 0x01}, {0x6b}, {0x7a}}

type c18Gen struct {
	r   *lib.Rng
	seq uint64
}

func (g *c18Gen) val() []byte {
	switch g.r.Intn(12) {
	case 0:
		return nil
	case 1:
		return g.r.Bytes(g.r.Range(200, 1500))
	default:
		return g.r.Bytes(g.r.Range(1, 6))
	}
}

// run builds a sorted run over the given keys with fresh sequence numbers handed out in a random order.
func (g *c18Gen) run(keys [][]byte) string {
	seqs := make([]uint64, len(keys))
	for i := range seqs {
		g.seq++
		seqs[i] = g.seq
	}
	for i := len(seqs) - 1; i > 0; i-- {
		j := g.r.Intn(i + 1)
		seqs[i], seqs[j] = seqs[j], seqs[i]
	}
	var parts []string
	for i, k := range keys {
		if g.r.Chance(1, 6) {
			parts = append(parts, fmt.Sprintf("%s:%d:1:-", lib.Hex(k), seqs[i]))
		} else {
			parts = append(parts, fmt.Sprintf("%s:%d:0:%s", lib.Hex(k), seqs[i], lib.Hex(g.val())))
		}
	}
	return strings.Join(parts, ";")
}

func (g *c18Gen) keys(m int) [][]byte {
	set := map[string][]byte{}
	for len(set) < m {
		var k []byte
		if g.r.Chance(1, 8) {
			k = g.r.Bytes(g.r.Range(1, 3))
		} else {
			k = lib.Pick(g.r, c18Pool)
		}
		set[string(k)] = k
	}
	var ks [][]byte
	for _, k := range set {
		ks = append(ks, k)
	}
	slices.SortFunc(ks, func(a, b []byte) int { return strings.Compare(string(a), string(b)) })
	return ks
}

func c18ObserveOps() []string {
	ops := []string{"valid"}
	for _, k := range c18Pool {
		ops = append(ops, "get "+lib.Hex(k))
	}
	// prefixes that start inside one table of a multi-table level and end in the next (AllTablesForPrefix's binary search
	// and forward walk), besides the whole range and one-byte prefixes
	ops = append(ops, "scan -", "scan 61", "scan ff", "scan 6162", "scan 616263", "scan 62", "safe", "pick", "layout", "ages", "agesort")
	return ops
}

func c18GenDirect(r *lib.Rng, tier string) lib.Case {
	g := &c18Gen{r: r}
	n := lib.Pick(r, []int{2, 3, 3, 4, 4, 5, 6})
	hdr := fmt.Sprintf("M C18 mode=direct levels=%d l0=%d amp=%d smallest=%d target=%d", n,
		lib.Pick(r, []int{1, 1, 2, 3}), lib.Pick(r, []int{1, 25, 50, 100, 150, 250, 400, 100000}),
		lib.Pick(r, []int64{1, 2000, 4500, 9000, 1 << 40}), lib.Pick(r, []int{24, 48, 96, 200, 1 << 20}))
	ops := []string{"cfg"}
	// deeper levels first (oldest data), each level a sorted non-overlapping sequence of tables
	for lvl := n - 1; lvl >= 1; lvl-- {
		if r.Chance(1, 4) {
			continue
		}
		nt := r.Range(1, 3)
		ks := g.keys(r.Range(nt, nt+5))
		// the tables of the level receive their sequence numbers in a random order: ages do not follow key order
		cuts := []int{0}
		for i := 1; i < nt; i++ {
			cuts = append(cuts, r.Range(1, len(ks)-1))
		}
		cuts = append(cuts, len(ks))
		sort.Ints(cuts)
		type piece struct {
			pos  int
			keys [][]byte
		}
		var pieces []piece
		for i := 0; i+1 < len(cuts); i++ {
			if cuts[i] < cuts[i+1] {
				pieces = append(pieces, piece{len(pieces), ks[cuts[i]:cuts[i+1]]})
			}
		}
		order := make([]int, len(pieces))
		for i := range order {
			order[i] = i
		}
		for i := len(order) - 1; i > 0; i-- {
			j := r.Intn(i + 1)
			order[i], order[j] = order[j], order[i]
		}
		runs := make([]string, len(pieces))
		for _, pi := range order {
			runs[pi] = g.run(pieces[pi].keys)
		}
		for _, run := range runs {
			ops = append(ops, fmt.Sprintf("tbl %d %s", lvl, run))
		}
	}
	for i := r.Intn(5); i > 0; i-- {
		ops = append(ops, "tbl 0 "+g.run(g.keys(r.Range(1, 5))))
	}
	ops = append(ops, c18ObserveOps()...)
	rounds := r.Range(2, 6)
	if tier == "thorough" {
		rounds = r.Range(2, 12)
	}
	for i := 0; i < rounds; i++ {
		if r.Chance(1, 6) {
			ops = append(ops, "compactfail")
			ops = append(ops, c18ObserveOps()...)
		}
		if r.Chance(1, 5) {
			ops = append(ops, "compactreadfail", "apply")
			ops = append(ops, c18ObserveOps()...)
		}
		ops = append(ops, "compact")
		if r.Chance(1, 3) {
			for j := r.Range(1, 2); j > 0; j-- {
				ops = append(ops, "flush "+g.run(g.keys(r.Range(1, 4))))
			}
		}
		ops = append(ops, "apply")
		ops = append(ops, c18ObserveOps()...)
		if r.Chance(1, 2) {
			for j := r.Range(1, 3); j > 0; j-- {
				ops = append(ops, "flush "+g.run(g.keys(r.Range(1, 4))))
			}
		}
	}
	return lib.Case{Header: hdr, Ops: ops}
}

// c18GenDB: a trace on a real dkv.DB (hook-scheduled flush and compaction tasks): writes keep rotating memtables, flushes
// commit while a computed change set waits for its commit, compaction steps are repeated until the task goes idle.
func c18GenDB(r *lib.Rng, tier string) lib.Case {
	hdr := fmt.Sprintf("M C18 mode=db mem=%d target=%d l0=%d amp=%d smallest=%d", lib.Pick(r, []int{40, 60, 120}), lib.Pick(r, []int{32, 64, 160}),
		lib.Pick(r, []int{1, 2, 2, 3}), lib.Pick(r, []int{1, 50, 150, 250, 400, 100000}), lib.Pick(r, []int{1, 4500, 9000, 1 << 40}))
	n := r.Range(40, 140)
	if tier == "thorough" {
		n = r.Range(40, 320)
	}
	var ops []string
	for len(ops) < n {
		switch x := r.Intn(100); {
		case x < 45:
			ops = append(ops, fmt.Sprintf("put %s %s", lib.Hex(c07Key(r)), lib.Hex(c07Val(r))))
		case x < 55:
			ops = append(ops, "del "+lib.Hex(c07Key(r)))
		case x < 62:
			ops = append(ops, "get "+lib.Hex(c07Key(r)))
		case x < 66:
			ops = append(ops, "scan "+lib.Hex(lib.Pick(r, [][]byte{nil, {0x61}, {0xff}})))
		case x < 78:
			ops = append(ops, "bg f")
		case x < 80:
			ops = append(ops, "bg crf")
		case x < 82:
			ops = append(ops, "bg cf")
		case x < 88:
			// bring a flush and a compaction to their commit points, then let the two commits race
			ops = append(ops, "bg f", "bg c", "bg race")
		default:
			ops = append(ops, "bg c")
		}
	}
	// drain: finish flushes and compactions, then observe everything
	for i := 0; i < 12; i++ {
		ops = append(ops, "bg f", "bg c")
	}
	ops = append(ops, "scan -")
	for _, k := range c07Pool {
		ops = append(ops, "get "+lib.Hex(k))
	}
	ops = append(ops, "chk")
	return lib.Case{Header: hdr, Ops: ops}
}

// c18GenCkpt: two or three real source databases write disjoint key spaces (their sequence numbers are unrelated), their
// checkpoints are merged by recovery.LoadCheckpointList in a random handle order, then Compact runs on the composite.
func c18GenCkpt(r *lib.Rng, tier string) lib.Case {
	nsrc := r.Range(2, 3)
	order := make([]int, nsrc)
	for i := range order {
		order[i] = i
	}
	for i := nsrc - 1; i > 0; i-- {
		j := r.Intn(i + 1)
		order[i], order[j] = order[j], order[i]
	}
	var os []string
	for _, x := range order {
		os = append(os, strconv.Itoa(x))
	}
	hdr := fmt.Sprintf("M C18 mode=ckpt levels=6 nsrc=%d order=%s mem=%d sl0=%d samp=%d ssmall=%d l0=%d amp=%d smallest=%d target=%d", nsrc, strings.Join(os, "."),
		lib.Pick(r, []int{40, 60, 100}), lib.Pick(r, []int{2, 3, 100}), lib.Pick(r, []int{50, 250, 100000}), lib.Pick(r, []int64{1, 9000, 1 << 40}),
		lib.Pick(r, []int{1, 1, 2, 3}), lib.Pick(r, []int{1, 25, 50, 100, 150, 250, 400, 100000}),
		lib.Pick(r, []int64{1, 2000, 4500, 9000, 1 << 40}), lib.Pick(r, []int{24, 48, 96, 200, 1 << 20}))
	suffixes := [][]byte{{}, {0x00}, {0x61}, {0x61, 0x62}, {0xff}}
	key := func(src int) []byte { return append([]byte{byte(0x10 * (src + 1))}, lib.Pick(r, suffixes)...) }
	var ops []string
	left := make([]int, nsrc)
	total := 0
	for i := range left {
		left[i] = r.Range(4, 14)
		total += left[i]
	}
	for total > 0 {
		i := r.Intn(nsrc)
		if left[i] == 0 {
			continue
		}
		left[i]--
		total--
		if r.Chance(1, 6) {
			ops = append(ops, fmt.Sprintf("w %d del %s", i, lib.Hex(key(i))))
		} else {
			ops = append(ops, fmt.Sprintf("w %d put %s %s", i, lib.Hex(key(i)), lib.Hex(r.Bytes(r.Range(1, 30)))))
		}
	}
	ops = append(ops, "load")
	obs := []string{"valid"}
	for s := 0; s < nsrc; s++ {
		for _, sf := range suffixes {
			obs = append(obs, "get "+lib.Hex(append([]byte{byte(0x10 * (s + 1))}, sf...)))
		}
	}
	obs = append(obs, "scan -", "scan 10", "scan 2061", "safe", "pick", "layout", "ages", "agesort")
	ops = append(ops, obs...)
	g := &c18Gen{r: r, seq: 100000}
	rounds := r.Range(3, 8)
	if tier == "thorough" {
		rounds = r.Range(3, 14)
	}
	for i := 0; i < rounds; i++ {
		ops = append(ops, "compact")
		if r.Chance(1, 4) {
			ops = append(ops, "flush "+g.run([][]byte{key(r.Intn(nsrc))}))
		}
		ops = append(ops, "apply")
		ops = append(ops, obs...)
		if r.Chance(1, 3) {
			ops = append(ops, "flush "+g.run([][]byte{key(r.Intn(nsrc))}))
		}
	}
	return lib.Case{Header: hdr, Ops: ops}
}

func c18Fixed() []lib.Case {
	obs := c18ObserveOps()
	// D22: L0{k@9}  L2{A: a@1, B: k@5}  base{z@2}, four tables of about the same size, goal 250 %: 300 % before, 200 % after
	// taking A. The unrepaired picker went on to level 0 and merged k@9 into the base beneath B.
	d22 := []string{"cfg", "tbl 3 7a:2:0:01", "tbl 2 61:1:0:02", "tbl 2 6b:5:0:6f6c64", "tbl 0 6b:9:0:6e6577"}
	d22 = append(d22, "compactfail")
	d22 = append(d22, obs...)
	d22 = append(d22, "compact", "apply")
	d22 = append(d22, obs...)
	d22 = append(d22, "compact", "apply")
	d22 = append(d22, obs...)
	// the same with a flush arriving between computing and applying the change set
	d22f := []string{"tbl 3 7a:2:0:01", "tbl 2 61:1:0:02", "tbl 2 6b:5:0:6f6c64", "tbl 0 6b:9:0:6e6577", "compact", "flush 6b:12:1:-;7a:11:0:05", "apply"}
	d22f = append(d22f, obs...)
	// minor compaction chain: level 0 -> 1 -> 2 with multi-table outputs
	minor := []string{"tbl 2 61:1:0:01;62:2:0:02", "tbl 1 61:3:0:03", "tbl 1 6b:4:1:-", "tbl 0 61:6:0:04;7a:5:0:05", "tbl 0 6b:7:0:06"}
	for i := 0; i < 4; i++ {
		minor = append(minor, "compact", "apply")
		minor = append(minor, obs...)
	}
	// a flush writes its table while the compaction task is between choosing the file name of its output table and saving
	// it (one TableWriter for both tasks): table numbers must be handed out atomically
	v40 := strings.Repeat("41", 40)
	w40 := strings.Repeat("42", 40)
	race := []string{"put 6130 " + v40, "bg f", "bg f", "put 6130 " + w40, "bg c", "bg f", "bg race", "get 6130", "scan -",
		"put 6230 " + v40, "bg f", "bg c", "bg race", "get 6130", "get 6230", "scan -", "bg c", "bg c", "scan -", "chk"}
	crf := []string{"put 6130 41", "put 7a30 42", "put 6230 " + v40, "bg f", "bg f", "del 7a30", "put 6330 43", "put 6430 " + v40, "bg f", "bg f",
		"bg crf", "get 7a30", "get 6130", "scan -", "bg c", "bg c", "bg c", "get 7a30", "scan -", "chk"}
	cf := []string{"put 6130 " + v40, "bg f", "bg f", "put 6130 " + w40, "bg cf", "bg f", "bg c", "get 6130", "scan -",
		"put 6230 " + v40, "bg f", "bg f", "bg c", "bg c", "get 6130", "get 6230", "scan -", "chk"}
	// 13 level-0 tables of two checkpoint sources whose sequence numbers (hence ages) tie pairwise
	var tie []string
	for i := 0; i < 7; i++ {
		for s := 0; s < 2; s++ {
			tie = append(tie, fmt.Sprintf("w %d put %02x%02x %s", s, 0x10*(s+1), 0x61+i%3, strings.Repeat("43", 50)))
		}
	}
	tie = append(tie, "load", "valid", "ages", "agesort", "compact", "apply", "valid", "get 1061", "get 2062", "scan -", "safe", "pick", "layout",
		"compact", "apply", "valid", "get 1061", "get 2062", "scan -", "safe", "pick", "layout")
	// a read fault on an input table in each kind of compaction step: the key behind the fault (7a) has an older version
	// (or its only version) that must not come back / vanish
	rf := func(setup ...string) []string {
		ops := append([]string{}, setup...)
		ops = append(ops, "compactreadfail", "apply")
		ops = append(ops, obs...)
		ops = append(ops, "compact", "apply")
		ops = append(ops, obs...)
		return ops
	}
	rfMinorL0 := rf("tbl 2 7a:1:0:01", "tbl 1 61:2:0:02", "tbl 0 61:4:0:03;7a:5:1:-", "tbl 0 6b:6:0:04") // 3 levels: level 2 is the base
	rfMinorDeep := rf("tbl 3 6d:1:0:09", "tbl 2 61:2:0:01;7a:3:0:02", "tbl 1 61:4:0:03;7a:5:1:-", "tbl 0 6b:6:0:04", "compact", "apply")
	rfMajor := rf("tbl 3 61:1:0:01;7a:2:0:02", "tbl 1 6b:3:0:03", "tbl 0 61:5:0:04;7a:6:1:-")
	return []lib.Case{
		{Header: "M C18 mode=direct levels=3 l0=1 amp=100000 smallest=1099511627776 target=1048576", Ops: rfMinorL0, Tags: []string{"read-fault-minor-l0"}},
		{Header: "M C18 mode=direct levels=4 l0=1 amp=100000 smallest=1 target=1048576", Ops: rfMinorDeep, Tags: []string{"read-fault-minor-deep"}},
		{Header: "M C18 mode=direct levels=4 l0=1 amp=1 smallest=1099511627776 target=1048576", Ops: rfMajor, Tags: []string{"read-fault-major"}},
		{Header: "M C18 mode=db mem=60 target=1048576 l0=2 amp=100000 smallest=1099511627776", Ops: crf, Tags: []string{"db-read-fault"}},
		{Header: "M C18 mode=db mem=40 target=1048576 l0=1 amp=100000 smallest=1099511627776", Ops: cf, Tags: []string{"flush-inside-compaction-write"}},
		{Header: "M C18 mode=db mem=40 target=1048576 l0=1 amp=100000 smallest=1099511627776", Ops: race, Tags: []string{"commit-race"}},
		{Header: "M C18 mode=ckpt levels=6 nsrc=2 order=1.0 mem=40 sl0=100 samp=100000 ssmall=1099511627776 l0=1 amp=150 smallest=1099511627776 target=1048576", Ops: tie, Tags: []string{"tied-ages-13-l0"}},
		{Header: "M C18 mode=direct levels=4 l0=1 amp=250 smallest=1099511627776 target=1048576", Ops: d22, Tags: []string{"regress-D22"}},
		{Header: "M C18 mode=direct levels=4 l0=1 amp=250 smallest=1099511627776 target=1048576", Ops: d22f, Tags: []string{"regress-D22"}},
		{Header: "M C18 mode=direct levels=4 l0=2 amp=100000 smallest=1 target=24", Ops: minor, Tags: []string{"minor-chain"}},
	}
}

func propC18() *lib.Prop {
	return &lib.Prop{
		ID:   "C18",
		Corr: "Model/Compaction.lean compact/applyCS/LayoutValid/SafeCS ↔ real sst.Compactor.Compact, LevelList.NewWithChangeSet, Get, ScanPrefixWithTombstones",
		Rule: "real Compactor.Compact steps on level lists of real tables (overlapping keys across levels, multi-table levels, flush arrivals between computing and applying a change set); after every step the real layout is judged by LayoutValid, every pool key's Get and six scans are compared with the never-compacted reference, the real change set is tested for membership in SafeCS/safeCS and compared with the model's compact under the observed oracle answers; non-trivial = at least one change set was applied",
		FeedImpl: true,
		NumCases: func(tier string) int {
			if tier == "thorough" {
				return 3000
			}
			return 300
		},
		Fixed: func(string) []lib.Case { return c18Fixed() },
		Gen: func(r *lib.Rng, tier string, i int) lib.Case {
			if i%4 == 3 {
				return c18GenDB(r, tier)
			}
			if i%4 == 1 {
				return c18GenCkpt(r, tier)
			}
			return c18GenDirect(r, tier)
		},
		Impl: func(c lib.Case) []string {
			cfg := parseC18Header(c.Header)
			if cfg.mode == "db" {
				return runC18DB(c)
			}
			return runC18Direct(c, cfg)
		},
		Nontrivial: func(c lib.Case, out []string) bool {
			for i, o := range out {
				if (o == "ok" && c.Ops[i] == "apply") || strings.HasPrefix(o, "compact L") {
					return true
				}
			}
			return false
		},
		MObs: func(op string) bool {
			f := strings.Fields(op)
			switch f[0] {
			case "valid", "get", "scan":
				return false
			}
			return true
		},
		Extra: func() map[string]any {
			c18Mu.Lock()
			defer c18Mu.Unlock()
			m := map[string]any{}
			for k, v := range c18Count {
				m[k] = v
			}
			return m
		},
	}
}

// ---- db mode ----

// c18GateFS holds back one creation of a table file: the writer that called New stays between choosing the file name
// and saving the file until the harness releases it (the window in which a flush can write its own table).
type c18GateFS struct {
	storage.FileSystem
	mu      sync.Mutex
	armed   bool
	entered chan struct{}
	release chan struct{}
}

func (g *c18GateFS) New(path string) storage.File {
	g.mu.Lock()
	hold := g.armed && strings.HasSuffix(path, ".sst")
	if hold {
		g.armed = false
	}
	g.mu.Unlock()
	if hold {
		g.entered <- struct{}{}
		<-g.release
	}
	return g.FileSystem.New(path)
}

func (g *c18GateFS) arm() {
	g.mu.Lock()
	g.armed = true
	g.entered = make(chan struct{}, 1)
	g.release = make(chan struct{})
	g.mu.Unlock()
}

func (g *c18GateFS) disarm() {
	g.mu.Lock()
	g.armed = false
	g.mu.Unlock()
}


// runC18DB is c07.go's runDkvTrace (hook-scheduled real dkv.DB) extended with what C18 compares at every compaction
// step: the oracle answers computed from the real sizes before Compact runs and the compactor's cursor after it.
func runC18DB(c lib.Case) []string {
	c07Mu.Lock() // one DB at a time: the flush/compaction queues and the hook handler are process-global
	defer c07Mu.Unlock()
	cfg := parseC07Header(c.Header)
	c07Seq++
	ffs := &c18FailFS{FileSystem: storage.NewMemoryFilesystem().WithWorkingDir(fmt.Sprintf("c18-%d", c07Seq))}
	fs := &c18GateFS{FileSystem: ffs}
	db := dkv.New(dkv.DBOptions{FileSystem: fs, MemTableSize: uint64(cfg.mem), TargetFileSize: uint64(cfg.target), L0TableNumCompactionTrigger: cfg.l0})
	comp := db.VerifCompactor()
	comp.MaxSizeAmplificationPercent = cfg.maxAmp
	comp.SmallestLevelSize = int64(cfg.smallest)
	if err := db.Start(nil); err != nil {
		panic(err)
	}
	s := &dkvSched{db: db, parked: map[string]*parkedTask{}, events: make(chan string, 64), ids: map[*sst.Table]int{}}
	verifhook.Set(s.handler)
	defer func() {
		fs.disarm()
		s.freeAll()
		done := make(chan struct{})
		go func() { db.WaitOnTasks(); close(done) }()
		select {
		case <-done:
		case <-time.After(10 * time.Second):
		}
		verifhook.Set(nil)
	}()

	flushQ, compactQ := 0, 0 // tasks enqueued and not finished
	flushedSinceBegin := false
	var readRes chan string
	out := make([]string, 0, len(c.Ops))
	for _, op := range c.Ops {
		f := strings.Fields(op)
		if readRes != nil && f[0] != "bg" && f[0] != "resume" {
			out = append(out, "reader-busy")
			continue
		}
		switch f[0] {
		case "put", "del":
			if flushQ >= 4 {
				// bg.TaskQueue holds 5 tasks: a further rotation would block the writer until a flush finishes
				out = append(out, "queue-full")
				continue
			}
			before := db.VerifMemtableCount()
			if f[0] == "put" {
				db.Put(lib.UnHex(f[1]), lib.UnHex(f[2]))
			} else {
				db.Delete(lib.UnHex(f[1]))
			}
			if db.VerifMemtableCount() > before {
				flushQ++
				out = append(out, "rot=1")
			} else {
				out = append(out, "rot=0")
			}
		case "chk":
			// the files of the live tables are pairwise distinct (table numbers are handed out atomically per table)
			seen := map[string]bool{}
			dup := ""
			for _, l := range db.VerifLevels().VerifLayout() {
				for _, ti := range l {
					if seen[ti.URI] {
						dup = ti.Name
					}
					seen[ti.URI] = true
				}
			}
			if dup != "" {
				out = append(out, "safe dup-file "+dup)
			} else {
				out = append(out, "safe")
			}
		case "get":
			out = append(out, showEntry(db.Get(lib.UnHex(f[1]))))
		case "scan":
			out = append(out, showScanEntries(db, lib.UnHex(f[1])))
		case "getpark":
			s.mu.Lock()
			s.holdRead = true
			s.mu.Unlock()
			res := make(chan string, 1)
			key := lib.UnHex(f[1])
			go func() { res <- showEntry(db.Get(key)) }()
			// either the reader parks between its phases or it returns from the memtable phase
			deadline := time.Now().Add(schedGrace)
			for {
				s.mu.Lock()
				p := s.parked["read"]
				s.mu.Unlock()
				if p != nil {
					readRes = res
					out = append(out, "parked")
					break
				}
				select {
				case r := <-res:
					out = append(out, "done "+r)
				default:
					if time.Now().After(deadline) {
						out = append(out, "timeout")
					} else {
						time.Sleep(20 * time.Microsecond)
						continue
					}
				}
				s.mu.Lock()
				s.holdRead = false
				s.mu.Unlock()
				break
			}
		case "scanpark":
			s.mu.Lock()
			s.holdRead = true
			s.mu.Unlock()
			res := make(chan string, 1)
			pfx := lib.UnHex(f[1])
			go func() { res <- showScanEntries(db, pfx) }()
			if s.waitParked("read") != nil {
				readRes = res
				out = append(out, "parked")
			} else {
				s.mu.Lock()
				s.holdRead = false
				s.mu.Unlock()
				out = append(out, "timeout")
			}
		case "resume":
			if readRes == nil {
				out = append(out, "no-reader")
				continue
			}
			s.mu.Lock()
			s.holdRead = false
			s.mu.Unlock()
			s.release("read")
			select {
			case r := <-readRes:
				out = append(out, r)
			case <-time.After(schedGrace):
				out = append(out, "timeout")
			}
			readRes = nil
		case "bg":
			switch f[1] {
			case "f":
				if flushQ == 0 {
					out = append(out, "none")
					continue
				}
				t := s.waitParked("flush")
				if t == nil {
					out = append(out, "timeout")
					continue
				}
				n := t.payload[1].(int)
				if t.label != "dkv.flush.begin" && compactQ >= 4 {
					out = append(out, "queue-full")
					continue
				}
				if t.label == "dkv.flush.begin" {
					s.release("flush")
					if s.waitParked("flush") == nil {
						out = append(out, "timeout")
						continue
					}
					out = append(out, fmt.Sprintf("flushbegin %d", n))
				} else {
					s.release("flush")
					if s.waitEvent("dkv.flush.done") == "timeout" {
						out = append(out, "timeout")
						continue
					}
					flushQ--
					compactQ++
					// mirror the model's id assignment: new level-0 tables in insertion order
					for _, ti := range db.VerifLevels().VerifLayout()[0] {
						if _, ok := s.ids[ti.Table]; !ok {
							s.ids[ti.Table] = s.nextID
							s.nextID++
						}
					}
					flushedSinceBegin = true
					out = append(out, fmt.Sprintf("flushcommit %d", n))
				}
			case "crf":
				// the compaction task's Compact runs while every table with two or more entries is unreadable behind its first
				// entry: the task must end with an error, the level list unchanged. A change set it holds in spite of a fault
				// is committed, as the database would, so that the reads that follow show what was lost.
				if compactQ == 0 {
					out = append(out, "none")
					continue
				}
				t := s.waitParked("compact")
				if t == nil {
					out = append(out, "timeout")
					continue
				}
				if t.label != "dkv.compact.begin" {
					out = append(out, "skip")
					continue
				}
				orc := c18Oracle(db.VerifLevels(), comp)
				curBefore := comp.VerifMinorLevel()
				ffs.armReads(db.VerifLevels())
				s.release("compact")
				got := ""
				var firedAt time.Time
				deadline := time.Now().Add(schedGrace)
				for got == "" {
					select {
					case e := <-s.events:
						if e == "dkv.compact.idle" {
							got = "idle"
						}
						continue
					default:
					}
					s.mu.Lock()
					p := s.parked["compact"]
					s.mu.Unlock()
					ffs.mu.Lock()
					fired := ffs.readFired
					ffs.mu.Unlock()
					switch {
					case p != nil && p.label == "dkv.compact.commit":
						got = "parked"
					case fired && firedAt.IsZero():
						firedAt = time.Now()
					case fired && time.Since(firedAt) > 150*time.Millisecond:
						got = "failed" // the task returned the error (there is no hook on that path)
					case time.Now().After(deadline):
						got = "timeout"
					default:
						time.Sleep(20 * time.Microsecond)
					}
				}
				fired := ffs.disarmReads()
				switch {
				case got == "idle":
					compactQ--
					c18Bump("db:compact-none")
					out = append(out, fmt.Sprintf("compactidle %s cur=%d", orc, comp.VerifMinorLevel()))
				case got == "parked" && !fired:
					switch {
					case orc[3] == '1':
						c18Bump("db:compact-major")
					case curBefore == 0:
						c18Bump("db:compact-minor-l0")
					default:
						c18Bump("db:compact-minor-deep")
					}
					flushedSinceBegin = false
					out = append(out, fmt.Sprintf("compactbegin %s cur=%d", orc, comp.VerifMinorLevel()))
				case got == "parked" && fired:
					c18Bump("db:compact-read-fault-ignored")
					tc := s.waitParked("compact")
					cs := tc.payload[1].(*sst.ChangeSet)
					_, added, _ := cs.VerifChangeSet()
					for _, a := range added {
						s.ids[a] = s.nextID
						s.nextID++
					}
					s.release("compact")
					s.waitEvent("dkv.compact.done")
					out = append(out, fmt.Sprintf("readfault %s cur=%d", orc, comp.VerifMinorLevel()))
				case got == "failed":
					compactQ--
					c18Bump("db:compact-read-fault")
					out = append(out, fmt.Sprintf("readfault %s cur=%d", orc, comp.VerifMinorLevel()))
				default:
					out = append(out, "timeout")
				}
			case "race":
				// the flush commit and the compaction commit are released together and really race for db.mu: afterwards the
				// level list must hold both effects (no lost update)
				if compactQ == 0 || flushQ == 0 {
					out = append(out, "skip")
					continue
				}
				tc := s.waitParked("compact")
				tf := s.waitParked("flush")
				if tc == nil || tf == nil {
					out = append(out, "timeout")
					continue
				}
				if tc.label != "dkv.compact.commit" || tf.label != "dkv.flush.commit" {
					out = append(out, "skip")
					continue
				}
				if compactQ >= 4 {
					// the finishing flush task enqueues a compaction task: a full queue would block it
					out = append(out, "queue-full")
					continue
				}
				n := tf.payload[1].(int)
				cs := tc.payload[1].(*sst.ChangeSet)
				lvls, added, removed := cs.VerifChangeSet()
				nLevels := len(db.VerifLevels().VerifLayout())
				lvl := -2
				for _, l := range lvls {
					if l < 0 {
						l = nLevels + l
					}
					if lvl == -2 {
						lvl = l
					} else if lvl != l {
						lvl = -3
					}
				}
				var rm []string
				for _, r := range removed {
					if id, ok := s.ids[r]; ok {
						rm = append(rm, strconv.Itoa(id))
					} else {
						rm = append(rm, "999999")
					}
				}
				before := map[*sst.Table]bool{}
				for _, ti := range db.VerifLevels().VerifLayout()[0] {
					before[ti.Table] = true
				}
				// release both at once
				s.mu.Lock()
				pf, pc := s.parked["flush"], s.parked["compact"]
				delete(s.parked, "flush")
				delete(s.parked, "compact")
				s.mu.Unlock()
				var wg sync.WaitGroup
				wg.Add(2)
				start := make(chan struct{})
				go func() { defer wg.Done(); <-start; close(pf.resume) }()
				go func() { defer wg.Done(); <-start; close(pc.resume) }()
				close(start)
				wg.Wait()
				gotF, gotC := false, false
				deadline := time.After(schedGrace)
				for !(gotF && gotC) {
					select {
					case e := <-s.events:
						if e == "dkv.flush.done" {
							gotF = true
						}
						if e == "dkv.compact.done" {
							gotC = true
						}
					case <-deadline:
						gotF, gotC = true, true
						lvl = -9
					}
				}
				if lvl == -9 {
					out = append(out, "timeout")
					continue
				}
				flushQ--
				compactQ++
				// ids as the model hands them out: the flushed tables first, then the compaction's output
				base := s.nextID
				for _, ti := range db.VerifLevels().VerifLayout()[0] {
					if _, known := s.ids[ti.Table]; !known && !before[ti.Table] {
						s.ids[ti.Table] = s.nextID
						s.nextID++
					}
				}
				s.nextID = base + n
				var add []string
				for _, a := range added {
					add = append(add, dumpTable(a))
					s.ids[a] = s.nextID
					s.nextID++
				}
				rmS, addS := "-", "none"
				if len(rm) > 0 {
					rmS = strings.Join(rm, ",")
				}
				if len(add) > 0 {
					addS = strings.Join(add, "|")
				}
				var idl []string
				for _, l := range db.VerifLevels().VerifLayout() {
					if len(l) == 0 {
						idl = append(idl, "-")
						continue
					}
					var xs []string
					for _, ti := range l {
						if id, known := s.ids[ti.Table]; known {
							xs = append(xs, strconv.Itoa(id))
						} else {
							xs = append(xs, "999999")
						}
					}
					idl = append(idl, strings.Join(xs, ","))
				}
				flushedSinceBegin = false
				c18Bump("db:flush-and-compaction-commit-raced")
				out = append(out, fmt.Sprintf("race flushcommit %d compact L%d rm=%s add=%s cur=%d ids=%s", n, lvl, rmS, addS, comp.VerifMinorLevel(), strings.Join(idl, "/")))
			case "cf":
				// a flush writes its tables while the compaction task is between choosing the file name of its first
				// output table and saving it (TableWriter is shared by both tasks)
				if compactQ == 0 || flushQ == 0 {
					out = append(out, "none")
					continue
				}
				tc := s.waitParked("compact")
				tf := s.waitParked("flush")
				if tc == nil || tf == nil {
					out = append(out, "timeout")
					continue
				}
				if tc.label != "dkv.compact.begin" || tf.label != "dkv.flush.begin" {
					out = append(out, "skip")
					continue
				}
				orc := c18Oracle(db.VerifLevels(), comp)
				nSealed := tf.payload[1].(int)
				fs.arm()
				s.release("compact")
				got := ""
				deadline := time.Now().Add(schedGrace)
				for got == "" {
					select {
					case <-fs.entered:
						got = "writing"
						continue
					case e := <-s.events:
						if e == "dkv.compact.idle" {
							got = "idle"
						}
						continue
					default:
					}
					if time.Now().After(deadline) {
						got = "timeout"
					} else {
						time.Sleep(20 * time.Microsecond)
					}
				}
				switch got {
				case "idle":
					fs.disarm()
					compactQ--
					c18Bump("db:compact-none")
					out = append(out, fmt.Sprintf("compactidle %s cur=%d", orc, comp.VerifMinorLevel()))
				case "writing":
					// the compaction holds a file name; now the flush task writes its tables and parks at its commit
					s.release("flush")
					okF := false
					dl := time.Now().Add(schedGrace)
					for time.Now().Before(dl) {
						s.mu.Lock()
						p := s.parked["flush"]
						s.mu.Unlock()
						if p != nil && p.label == "dkv.flush.commit" {
							okF = true
							break
						}
						time.Sleep(20 * time.Microsecond)
					}
					close(fs.release)
					okC := false
					dl = time.Now().Add(schedGrace)
					for time.Now().Before(dl) {
						s.mu.Lock()
						p := s.parked["compact"]
						s.mu.Unlock()
						if p != nil && p.label == "dkv.compact.commit" {
							okC = true
							break
						}
						time.Sleep(20 * time.Microsecond)
					}
					if !okF || !okC {
						out = append(out, "timeout")
						continue
					}
					flushedSinceBegin = false
					c18Bump("db:flush-write-inside-compaction-write")
					out = append(out, fmt.Sprintf("cf compactbegin %s cur=%d flushbegin %d", orc, comp.VerifMinorLevel(), nSealed))
				default:
					fs.disarm()
					select {
					case <-fs.release:
					default:
						close(fs.release)
					}
					out = append(out, "timeout")
				}
			case "c":
				if compactQ == 0 {
					out = append(out, "none")
					continue
				}
				t := s.waitParked("compact")
				if t == nil {
					out = append(out, "timeout")
					continue
				}
				if t.label == "dkv.compact.begin" {
					orc := c18Oracle(db.VerifLevels(), comp)
					curBefore := comp.VerifMinorLevel()
					s.release("compact")
					// the task either goes idle (no change set) or parks at the commit
					got := ""
					deadline := time.Now().Add(schedGrace)
					for got == "" {
						select {
						case e := <-s.events:
							if e == "dkv.compact.idle" {
								got = "idle"
							}
							continue
						default:
						}
						s.mu.Lock()
						p := s.parked["compact"]
						s.mu.Unlock()
						if p != nil && p.label == "dkv.compact.commit" {
							got = "parked"
						} else if time.Now().After(deadline) {
							got = "timeout"
						} else {
							// (a task parked at "begin" is the next queued task: the idle event of this one is on its way)
							time.Sleep(20 * time.Microsecond)
						}
					}
					switch got {
					case "idle":
						compactQ--
						c18Bump("db:compact-none")
						out = append(out, fmt.Sprintf("compactidle %s cur=%d", orc, comp.VerifMinorLevel()))
					case "parked":
						switch {
						case orc[3] == '1':
							c18Bump("db:compact-major")
						case curBefore == 0:
							c18Bump("db:compact-minor-l0")
						default:
							c18Bump("db:compact-minor-deep")
						}
						flushedSinceBegin = false
						out = append(out, fmt.Sprintf("compactbegin %s cur=%d", orc, comp.VerifMinorLevel()))
					default:
						out = append(out, "timeout")
					}
				} else { // at commit
					cs := t.payload[1].(*sst.ChangeSet)
					lvls, added, removed := cs.VerifChangeSet()
					nLevels := len(db.VerifLevels().VerifLayout())
					lvl := -2
					for _, l := range lvls {
						if l < 0 {
							l = nLevels + l
						}
						if lvl == -2 {
							lvl = l
						} else if lvl != l {
							lvl = -3
						}
					}
					var rm []string
					for _, r := range removed {
						if id, ok := s.ids[r]; ok {
							rm = append(rm, strconv.Itoa(id))
						} else {
							rm = append(rm, "999999")
						}
					}
					var add []string
					for _, a := range added {
						add = append(add, dumpTable(a))
						s.ids[a] = s.nextID
						s.nextID++
					}
					s.release("compact")
					if s.waitEvent("dkv.compact.done") == "timeout" {
						out = append(out, "timeout")
						continue
					}
					rmS, addS := "-", "none"
					if len(rm) > 0 {
						rmS = strings.Join(rm, ",")
					}
					if len(add) > 0 {
						addS = strings.Join(add, "|")
					}
					if flushedSinceBegin {
						c18Bump("db:commit-after-flush-arrival")
					}
					flushedSinceBegin = false
					out = append(out, fmt.Sprintf("compact L%d rm=%s add=%s cur=%d", lvl, rmS, addS, comp.VerifMinorLevel()))
				}
			default:
				out = append(out, "bad-op")
			}
		default:
			out = append(out, "bad-op")
		}
	}
	return out
}

