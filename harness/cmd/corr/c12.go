package main

import (
	"fmt"
	"strconv"
	"strings"
	"sync"
	"sync/atomic"
	"time"

	"google.golang.org/protobuf/proto"
	"reduction.dev/reduction/connectors"
	"reduction.dev/reduction/proto/jobpb"
	"reduction.dev/reduction/proto/snapshotpb"
	"reduction.dev/reduction/storage/snapshots"
	"verif/harness/lib"
)

func init() { register("C12", propC12) }

// ---- implementation side: the real snapshots.Store over an in-memory location ----

// c12Ctl is shared by the source splitters of all deployments of a case: it counts Checkpoint() calls (made by
// Store.finishSnapshot inside the store's critical section) and can park the next one.
type c12Ctl struct {
	n       atomic.Int64
	armed   atomic.Bool
	reached chan struct{}
	release chan struct{}
}

type c12Splitter struct {
	connectors.UnimplementedSourceSplitter
	ctl *c12Ctl
}

func (s *c12Splitter) Checkpoint() []byte {
	s.ctl.n.Add(1)
	if s.ctl.armed.CompareAndSwap(true, false) {
		rel := s.ctl.release
		s.ctl.reached <- struct{}{}
		<-rel
	}
	return nil
}

type c12Pending struct {
	fin chan struct{} // closed when the call has returned
	res string
}

func newPending() *c12Pending { return &c12Pending{fin: make(chan struct{})} }

func (p *c12Pending) run(f func() string) {
	p.res = safely(f)
	close(p.fin)
}

type c12Run struct {
	loc   *memLoc
	store *snapshots.Store
	ctl   *c12Ctl
	// a call parked inside Checkpoint() and the calls issued while it is parked
	held      *c12Pending
	queued    []*c12Pending
	window    atomic.Bool       // a hold window is open: calls run in goroutines, publications may overlap
	mu        sync.Mutex        // guards the two maps (calls may run in goroutines)
	spIDs     map[uint64]bool   // ids for which a savepoint was requested
	noRestore map[uint64]bool   // savepoints published inside a hold window (not used for restarts)
	pubs      map[uint64]string // what was persisted per published id
}

func (r *c12Run) noteSavepoint(id uint64) {
	r.mu.Lock()
	defer r.mu.Unlock()
	r.spIDs[id] = true
}

func (r *c12Run) newStore(savepointURI string) {
	// savepoint requests that were not published die with the old store (their id may be handed out again: D55)
	r.mu.Lock()
	for id := range r.spIDs {
		if _, published := r.pubs[id]; !published {
			delete(r.spIDs, id)
		}
	}
	r.mu.Unlock()
	r.ctl = &c12Ctl{reached: make(chan struct{}, 1), release: make(chan struct{})}
	r.store = snapshots.NewStore(&snapshots.NewStoreParams{
		FileStore:       r.loc,
		SavepointsPath:  "savepoints",
		CheckpointsPath: "checkpoints",
		SavepointURI:    savepointURI,
	})
	r.store.RegisterSourceSplitter(&c12Splitter{ctl: r.ctl})
}

// safely runs a real call and turns a panic into a result
func safely(f func() string) (res string) {
	defer func() {
		if p := recover(); p != nil {
			res = "panic " + strings.ReplaceAll(fmt.Sprint(p), "\n", " ")
		}
	}()
	return f()
}

// issue performs one store call of the schedule. Normally inline. If the harness armed the splitter gate the
// call runs in its own goroutine and may get parked inside Checkpoint() ("held"). While a call is parked, the
// store mutex tells what happens to further calls: held => they block (started for real, chained so that they
// enter in issue order, results reported by `release`); not held => the call runs now and its result is the
// observation (the model says "blocked").
func (r *c12Run) issue(f func() string) string {
	if r.held != nil {
		if !r.store.VerifStateLockedC12() {
			return safely(f)
		}
		p := newPending()
		var prev *c12Pending
		if len(r.queued) > 0 {
			prev = r.queued[len(r.queued)-1]
		}
		r.queued = append(r.queued, p)
		go func() {
			if prev != nil {
				<-prev.fin
			}
			p.run(f)
		}()
		return "blocked"
	}
	if !r.ctl.armed.Load() {
		return safely(f)
	}
	p := newPending()
	go p.run(f)
	select {
	case <-p.fin:
		return p.res
	case <-r.ctl.reached:
		r.held = p
		r.window.Store(true)
		return "held"
	case <-time.After(10 * time.Second):
		return "timeout"
	}
}

func (r *c12Run) releaseHeld() string {
	if r.held == nil {
		return "released -"
	}
	early := ""
	for _, q := range r.queued {
		select {
		case <-q.fin:
			early = " ran-while-held"
		default:
		}
	}
	close(r.ctl.release)
	r.ctl.release = make(chan struct{})
	wait := func(p *c12Pending) string {
		select {
		case <-p.fin:
			return p.res
		case <-time.After(10 * time.Second):
			return "timeout"
		}
	}
	parts := []string{wait(r.held)}
	for _, q := range r.queued {
		parts = append(parts, wait(q))
	}
	r.held, r.queued = nil, nil
	r.window.Store(false)
	return "released " + strings.Join(parts, " ; ") + early
}

func c12Names(prefix, s string) []string {
	var out []string
	for _, v := range u64List(s) {
		out = append(out, prefix+strconv.FormatUint(v, 10))
	}
	if out == nil {
		out = []string{}
	}
	return out
}

func c12Desc(ck *snapshotpb.JobCheckpoint) string {
	var ents []string
	for _, oc := range ck.GetOperatorCheckpoints() {
		tag := "?"
		if i := strings.LastIndex(oc.DkvFileUri, "ckpt-"); i >= 0 {
			tag = oc.DkvFileUri[i+5:]
		}
		ents = append(ents, fmt.Sprintf("%s:%d:%s", strings.TrimPrefix(oc.OperatorId, "op"), oc.CheckpointId, tag))
	}
	ops := "-"
	if len(ents) > 0 {
		ops = strings.Join(ents, ";")
	}
	splits := "-"
	if scs := ck.GetSourceCheckpoints(); len(scs) == 1 {
		var ss []string
		for _, s := range scs[0].SplitStates {
			ss = append(ss, string(s))
		}
		if len(ss) > 0 {
			splits = strings.Join(ss, ",")
		}
	} else {
		splits = fmt.Sprintf("sources=%d", len(scs))
	}
	return fmt.Sprintf("id=%d ops=%s splits=%s", ck.GetId(), ops, splits)
}

// afterAck renders the result of an acknowledgement; if the call finished a snapshot it waits (bounded) for
// the asynchronous publication and reports what was persisted.
func (r *c12Run) afterAck(err error, before int64, cp uint64) string {
	res := "ok"
	if err != nil {
		switch msg := err.Error(); {
		case strings.Contains(msg, "there is no pending"):
			res = "err nopending"
		case strings.Contains(msg, "but pending checkpoint is"):
			res = "err wrongid"
		case strings.Contains(msg, "unknown id"):
			res = "err unknown"
		default:
			res = "err other"
		}
	}
	if r.ctl.n.Load() == before {
		return res
	}
	// wait (bounded) for the asynchronous publication: the file has been written and the lock section has run
	// (ids only grow, so the current checkpoint is then at least cp). Later publications may already have
	// replaced it as current and removed its file; what was persisted is taken from the location's history.
	loc, store := r.loc, r.store
	deadline := time.Now().Add(5 * time.Second)
	var data []byte
	for {
		b, ok := loc.Written(c13Path(cp))
		if ok && store.CurrentCheckpoint().GetId() >= cp {
			data = b
			break
		}
		if time.Now().After(deadline) {
			if !ok {
				return res + " pub missing-file"
			}
			return res + " pub timeout"
		}
		time.Sleep(20 * time.Microsecond)
	}
	var ck snapshotpb.JobCheckpoint
	if proto.Unmarshal(data, &ck) != nil {
		return res + " pub unreadable-file"
	}
	r.mu.Lock()
	r.pubs[cp] = c12Desc(&ck)
	isSp := r.spIDs[cp]
	if isSp && r.window.Load() {
		// published inside a hold window: later calls of the window run concurrently with this publication, so the
		// artifact race described below cannot be kept out; such a savepoint is not used for restarts (both sides).
		// Its artifact is still awaited: existing artifacts count for the id counter of a savepoint restart (D66).
		r.noRestore[cp] = true
	}
	r.mu.Unlock()
	if isSp && len(ck.GetOperatorCheckpoints()) == 0 {
		// The savepoint artifact is created by the publisher goroutine AFTER the lock section (it copies the job
		// file last). If the next checkpoint is published meanwhile, its cleanup removes that job file and the
		// artifact silently never exists (a race of the code, D65, open; savepoints are C14's
		// property). This harness therefore lets the artifact finish before it issues the next call; the expiry
		// of the wait is an output, not a silent skip.
		deadline := time.Now().Add(20 * time.Second)
		for {
			if _, err := store.SavepointURIForID(cp); err == nil {
				break
			}
			if time.Now().After(deadline) {
				return res + " pub " + c12Desc(&ck) + " savepoint-artifact-timeout"
			}
			time.Sleep(50 * time.Microsecond)
		}
	}
	return res + " pub " + c12Desc(&ck)
}

func c12Impl(c lib.Case) []string {
	r := &c12Run{loc: newMemLoc(), spIDs: map[uint64]bool{}, noRestore: map[uint64]bool{}, pubs: map[uint64]string{}}
	r.newStore("")
	defer func() {
		if r.held != nil { // never leave goroutines parked
			close(r.ctl.release)
		}
	}()
	out := make([]string, 0, len(c.Ops))
	for _, op := range c.Ops {
		f := strings.Fields(op)
		u := func(i int) uint64 { v, _ := strconv.ParseUint(f[i], 10, 64); return v }
		store := r.store
		switch f[0] {
		case "create":
			out = append(out, r.issue(func() string {
				id, err := store.CreateCheckpoint(c12Names("op", f[1]), c12Names("sr", f[2]))
				if err != nil {
					return "inprogress"
				}
				return fmt.Sprintf("id %d", id)
			}))
		case "savepoint":
			out = append(out, r.issue(func() string {
				id, created, err := store.CreateSavepoint(c12Names("op", f[1]), c12Names("sr", f[2]))
				switch {
				case err != nil:
					return "sp already"
				case created:
					r.noteSavepoint(id)
					return fmt.Sprintf("sp created %d", id)
				default:
					r.noteSavepoint(id)
					return fmt.Sprintf("sp existing %d", id)
				}
			}))
		case "opack":
			out = append(out, r.issue(func() string {
				before := r.ctl.n.Load()
				req := &snapshotpb.OperatorCheckpoint{
					CheckpointId: u(2), OperatorId: "op" + f[1], DkvFileUri: fmt.Sprintf("op%s/ckpt-%s", f[1], f[3]),
					KeyGroupRange: &snapshotpb.KeyGroupRange{Start: 0, End: 1},
				}
				if len(f) > 4 { // unusual payloads
					switch f[4] {
					case "nokgr":
						req.KeyGroupRange = nil
					case "emptykgr":
						req.KeyGroupRange = &snapshotpb.KeyGroupRange{}
					}
				}
				err := store.AddOperatorSnapshot(req)
				return r.afterAck(err, before, u(2))
			}))
		case "srack":
			out = append(out, r.issue(func() string {
				before := r.ctl.n.Load()
				var splits [][]byte
				for _, v := range u64List(f[3]) {
					splits = append(splits, []byte(strconv.FormatUint(v, 10)))
				}
				err := store.AddSourceSnapshot(&jobpb.SourceRunnerCheckpointCompleteRequest{CheckpointId: u(2), SourceRunnerId: "sr" + f[1], SplitStates: splits})
				return r.afterAck(err, before, u(2))
			}))
		case "redeploy":
			// a new deployment registers its source splitter (jobs.Job.start)
			out = append(out, r.issue(func() string {
				store.RegisterSourceSplitter(&c12Splitter{ctl: r.ctl})
				return "ok"
			}))
		case "hold":
			if r.held != nil {
				out = append(out, "skipped")
			} else {
				r.ctl.armed.Store(true)
				out = append(out, "armed")
			}
		case "release":
			out = append(out, r.releaseHeld())
		case "current":
			if r.held != nil {
				out = append(out, "skipped")
			} else if ck := r.store.CurrentCheckpoint(); ck == nil {
				out = append(out, "cur none")
			} else {
				out = append(out, "cur "+c12Desc(ck))
			}
		case "restart":
			if r.held != nil {
				out = append(out, "skipped")
				continue
			}
			r.newStore("")
			if err := r.store.LoadCheckpoint(); err != nil {
				out = append(out, "loaded error")
			} else if ck := r.store.CurrentCheckpoint(); ck == nil {
				out = append(out, "loaded none")
			} else {
				out = append(out, fmt.Sprintf("loaded %d", ck.Id))
			}
		case "sprestart":
			// restart the job from the savepoint of checkpoint k: fresh = a new storage location that holds only
			// the savepoint artifacts; same = the job's own storage
			if r.held != nil {
				out = append(out, "skipped")
				continue
			}
			k := u(1)
			r.mu.Lock()
			usable := r.spIDs[k] && !r.noRestore[k] && strings.Contains(r.pubs[k], " ops=- ")
			r.mu.Unlock()
			if !usable {
				out = append(out, "nosavepoint")
				continue
			}
			uri := ""
			deadline := time.Now().Add(5 * time.Second)
			for uri == "" && time.Now().Before(deadline) { // the artifact is written after the publication
				if got, err := r.store.SavepointURIForID(k); err == nil {
					uri = got
				} else {
					time.Sleep(50 * time.Microsecond)
				}
			}
			if uri == "" {
				out = append(out, "nosavepoint timeout")
				continue
			}
			if f[2] == "fresh" {
				fresh := newMemLoc()
				for p, err := range r.loc.List() {
					if err == nil && strings.HasPrefix(p, "savepoints/") {
						b, _ := r.loc.Read(p)
						fresh.Write(p, strings.NewReader(string(b)))
					}
				}
				r.loc = fresh
			}
			r.newStore(uri)
			if err := r.store.LoadCheckpoint(); err != nil {
				out = append(out, "loaded error")
			} else if ck := r.store.CurrentCheckpoint(); ck == nil {
				out = append(out, "loaded none")
			} else {
				out = append(out, fmt.Sprintf("loaded %d", ck.Id))
			}
		default:
			out = append(out, "bad-op")
		}
	}
	return out
}

// ---- generator (pure; keeps its own small reference of what is pending to aim acknowledgements) ----

type c12Ref struct {
	abandoned uint64 // id of the checkpoint abandoned by the last redeployment (0 = none)
	cid       uint64
	pending   bool
	ops       map[uint64]bool
	srs       map[uint64]bool
	sp        bool
	noOps     bool // the pending checkpoint expects no operators (its savepoint artifact needs no DKV files)
	pubMax    uint64
}

func c12ShowSet(xs []uint64) string {
	if len(xs) == 0 {
		return "-"
	}
	parts := make([]string, len(xs))
	for i, v := range xs {
		parts[i] = strconv.FormatUint(v, 10)
	}
	return strings.Join(parts, ",")
}

func (ref *c12Ref) complete() bool {
	for _, d := range ref.ops {
		if !d {
			return false
		}
	}
	for _, d := range ref.srs {
		if !d {
			return false
		}
	}
	return true
}

func c12Gen(r *lib.Rng, tier string, _ int) lib.Case {
	c := lib.Case{Header: "M C12"}
	ref := &c12Ref{}
	nOps, nSrs := r.Range(1, 4), r.Range(1, 3)
	assembly := func() (ops, srs []uint64) {
		for i := 1; i <= nOps; i++ {
			ops = append(ops, uint64(i))
		}
		for i := 1; i <= nSrs; i++ {
			srs = append(srs, uint64(i))
		}
		if r.Chance(1, 8) && len(ops) > 1 {
			ops = append(ops, ops[0]) // duplicate id in the list: a map key once
		}
		if r.Chance(1, 25) {
			ops, srs = nil, nil // degenerate empty assembly
		} else if r.Chance(1, 7) {
			ops = nil // runners only
		}
		return
	}
	start := func(kind string) {
		ops, srs := assembly()
		c.Ops = append(c.Ops, fmt.Sprintf("%s %s %s", kind, c12ShowSet(ops), c12ShowSet(srs)))
		if ref.pending {
			if kind == "savepoint" {
				ref.sp = true
			}
			return
		}
		ref.cid++
		ref.pending, ref.sp, ref.noOps = true, kind == "savepoint", len(ops) == 0
		ref.ops, ref.srs = map[uint64]bool{}, map[uint64]bool{}
		for _, o := range ops {
			ref.ops[o] = false
		}
		for _, s := range srs {
			ref.srs[s] = false
		}
	}
	pickID := func() uint64 {
		if ref.abandoned != 0 && r.Chance(1, 3) {
			return ref.abandoned // late acknowledgement of the checkpoint a redeployment abandoned
		}
		switch r.Intn(12) {
		case 0:
			return ref.cid + 1
		case 1:
			if ref.cid > 0 {
				return ref.cid - 1
			}
			return 7
		case 2:
			return 0
		}
		return ref.cid
	}
	var spDone []uint64
	publishedNow := func() {
		ref.pending, ref.pubMax = false, ref.cid
		c.Tags = append(c.Tags, "published")
		if ref.sp && ref.noOps {
			spDone = append(spDone, ref.cid)
		}
	}
	n := r.Range(8, 40)
	restarts := 0
	holdLeft := 0 // > 0: a hold window is open (or armed); counts the calls still to issue before `release`
	closeHold := func() {
		if holdLeft > 0 {
			holdLeft = 0
			c.Ops = append(c.Ops, "release")
		}
	}
	for len(c.Ops) < n {
		if holdLeft > 0 {
			holdLeft--
			if holdLeft == 0 {
				c.Ops = append(c.Ops, "release")
				continue
			}
		} else if ref.pending && r.Chance(1, 6) {
			// park the splitter: the call that finishes the snapshot stays inside Checkpoint() while the next
			// calls of the schedule are issued concurrently
			c.Ops = append(c.Ops, "hold")
			c.Tags = append(c.Tags, "hold")
			holdLeft = r.Range(3, 7)
			// drive the pending checkpoint to completion so that the window really opens
			for o := uint64(1); o <= 9; o++ {
				if d, ok := ref.ops[o]; ok && !d && r.Chance(4, 5) {
					c.Ops = append(c.Ops, fmt.Sprintf("opack %d %d %d", o, ref.cid, r.Intn(50)))
					ref.ops[o] = true
				}
			}
			for sr := uint64(1); sr <= 9; sr++ {
				if d, ok := ref.srs[sr]; ok && !d && r.Chance(4, 5) {
					c.Ops = append(c.Ops, fmt.Sprintf("srack %d %d %d", sr, ref.cid, r.Intn(50)))
					ref.srs[sr] = true
				}
			}
			if ref.complete() {
				publishedNow()
				c.Tags = append(c.Tags, "held-window")
				// typical racers: a retried acknowledgement of the same id, a redeployment and a new checkpoint
				if r.Bool() {
					c.Ops = append(c.Ops, fmt.Sprintf("srack 1 %d 7", ref.cid))
				}
				if r.Bool() {
					c.Ops = append(c.Ops, fmt.Sprintf("opack 1 %d 7", ref.cid))
				}
				c.Tags = append(c.Tags, "bad-ack")
			}
			continue
		}
		switch k := r.Intn(20); {
		case k < 3:
			start("create")
		case k == 3:
			start("savepoint")
		case k < 11:
			op := uint64(r.Range(1, nOps))
			if r.Chance(1, 10) {
				op = 9 // foreign sender
			}
			cp := pickID()
			odd := ""
			if r.Chance(1, 7) {
				odd = lib.Pick(r, []string{" nokgr", " nokgr", " emptykgr"})
				c.Tags = append(c.Tags, "odd-payload")
			}
			c.Ops = append(c.Ops, fmt.Sprintf("opack %d %d %d%s", op, cp, r.Intn(50), odd))
			if ref.pending && cp == ref.cid {
				if d, ok := ref.ops[op]; ok && !d {
					ref.ops[op] = true
				} else {
					c.Tags = append(c.Tags, "bad-ack")
				}
				if ref.complete() {
					publishedNow()
				}
			} else {
				c.Tags = append(c.Tags, "bad-ack")
			}
		case k < 18:
			sr := uint64(r.Range(1, nSrs))
			if r.Chance(1, 10) {
				sr = 9
			}
			cp := pickID()
			var splits []uint64
			for j := r.Intn(4); j > 0; j-- {
				splits = append(splits, uint64(r.Intn(100)))
			}
			c.Ops = append(c.Ops, fmt.Sprintf("srack %d %d %s", sr, cp, c12ShowSet(splits)))
			if ref.pending && cp == ref.cid {
				if d, ok := ref.srs[sr]; ok {
					if d {
						c.Tags = append(c.Tags, "dup-sr-ack")
					}
					ref.srs[sr] = true
					if ref.complete() {
						publishedNow()
					}
				} else {
					c.Tags = append(c.Tags, "bad-ack")
				}
			} else {
				c.Tags = append(c.Tags, "bad-ack")
			}
		case k == 18:
			if r.Bool() {
				closeHold()
				c.Ops = append(c.Ops, "current")
				break
			}
			// redeployment, with or without a pending checkpoint; usually followed by a fresh round
			c.Ops = append(c.Ops, "redeploy")
			if ref.pending {
				ref.abandoned = ref.cid
				ref.pending = false
				c.Tags = append(c.Tags, "abandon")
			} else {
				c.Tags = append(c.Tags, "redeploy-idle")
			}
			if r.Chance(3, 4) {
				start(lib.Pick(r, []string{"create", "create", "savepoint"}))
			}
		default:
			if len(spDone) > 0 && r.Chance(2, 3) {
				// restart the job from a savepoint, into a fresh storage location or its own storage
				closeHold()
				k := lib.Pick(r, spDone)
				c.Ops = append(c.Ops, fmt.Sprintf("sprestart %d %s", k, lib.Pick(r, []string{"fresh", "fresh", "same"})))
				ref.pending, ref.cid, ref.pubMax, ref.abandoned = false, k, k, 0
				c.Tags = append(c.Tags, "sprestart")
				start("create")
			} else if restarts < 2 && r.Chance(1, 2) {
				closeHold()
				restarts++
				c.Ops = append(c.Ops, "restart")
				ref.pending, ref.cid, ref.abandoned = false, ref.pubMax, 0
				c.Tags = append(c.Tags, "restart")
			}
		}
	}
	closeHold()
	c.Ops = append(c.Ops, "current")
	return c
}

func c12Fixed(tier string) []lib.Case {
	cs := []lib.Case{
		// D12 (repaired): a repeated source-runner acknowledgement must not add its split states again
		{Header: "M C12", Tags: []string{"D12", "published", "dup-sr-ack"}, Ops: []string{
			"create 1 1", "srack 1 1 7", "srack 1 1 7", "opack 1 1 0", "current"}},
		{Header: "M C12", Tags: []string{"D12", "published", "dup-sr-ack"}, Ops: []string{
			"create 1,2 1,2", "srack 1 1 4,5", "opack 1 1 3", "srack 1 1 4,5", "srack 2 1 6", "srack 1 1 9", "opack 2 1 8", "current"}},
		// ids across restarts: resume counting from the newest published checkpoint
		{Header: "M C12", Tags: []string{"restart", "published"}, Ops: []string{
			"create 1 1", "opack 1 1 0", "srack 1 1 -", "create 1 1", "opack 1 2 0", "srack 1 2 -", "create 1 1", "opack 1 3 0", "srack 1 3 -",
			"create 1 1", "restart", "current", "create 1 1", "opack 1 4 1", "srack 1 4 2", "restart", "create 1 1"}},
		// redeployment while checkpoint 1 is pending: the next checkpoint must be 2, late acks of 1 are refused,
		// 2 is published with the acknowledgements sent for it (seeded change C12-2 reuses id 1)
		{Header: "M C12", Tags: []string{"abandon", "published", "bad-ack"}, Ops: []string{
			"create 1,2 1", "opack 1 1 5", "redeploy", "create 1,2 1", "opack 2 1 6", "opack 1 2 7", "opack 2 2 8", "srack 1 1 9", "srack 1 2 3", "current"}},
		{Header: "M C12", Tags: []string{"abandon", "redeploy-idle", "published"}, Ops: []string{
			"redeploy", "savepoint 1 1", "redeploy", "redeploy", "opack 1 1 0", "savepoint 1 1", "srack 1 1 4", "opack 1 2 1", "srack 1 2 5",
			"redeploy", "create 1 1", "restart", "create 1 1", "redeploy", "create 1 1", "current"}},
		// seeded C12-3 (finishSnapshot released the store lock around splitter.Checkpoint()): while the finishing
		// acknowledgement is inside Checkpoint(), a retried ack must wait and then find nothing pending ...
		{Header: "M C12", Tags: []string{"hold", "held-window", "published", "bad-ack"}, Ops: []string{
			"create 1 1", "opack 1 1 0", "hold", "srack 1 1 7", "srack 1 1 7", "opack 1 1 3", "release", "current"}},
		// ... and a redeployment + new checkpoint issued in the window must not be wiped when the first call resumes
		{Header: "M C12", Tags: []string{"hold", "held-window", "published", "abandon"}, Ops: []string{
			"create 1 1", "opack 1 1 0", "create 1 1", "hold", "srack 1 1 7", "redeploy", "create 1 1", "release",
			"create 1 1", "opack 1 2 4", "srack 1 2 5", "current"}},
		{Header: "M C12", Tags: []string{"hold"}, Ops: []string{
			"hold", "create 1,2 1", "opack 1 1 0", "srack 1 1 1", "release", "opack 2 1 2", "savepoint 1 1", "redeploy", "release", "current"}},
		// seeded C12-4 (counter from local files only): restart from the savepoint of checkpoint 3 into a fresh
		// storage location, and into the job's own storage; the next checkpoint must be 4
		{Header: "M C12", Tags: []string{"sprestart", "published"}, Ops: []string{
			"create 1 1", "opack 1 1 0", "srack 1 1 1", "create 1 1", "opack 1 2 0", "srack 1 2 2", "savepoint - 1", "srack 1 3 9",
			"sprestart 3 fresh", "current", "create 1 1", "opack 1 4 0", "srack 1 4 3", "current", "restart", "create 1 1"}},
		{Header: "M C12", Tags: []string{"sprestart", "published"}, Ops: []string{
			"savepoint - 1,2", "srack 2 1 4", "create 1 1", "srack 1 1 5", "sprestart 2 same", "sprestart 1 same", "current", "create 1 1",
			"opack 1 2 0", "srack 1 2 6", "current", "sprestart 1 fresh", "savepoint 1 1"}},
		// D49 (repaired): rolling back to savepoint 1 in the job's own storage, which holds checkpoint 3: the next
		// id is 4 (not 2 again) and a later plain restart resumes from 4 (not from the old timeline's 3)
		{Header: "M C12", Tags: []string{"D49", "sprestart", "published", "restart"}, Ops: []string{
			"savepoint - 1", "srack 1 1 4", "create 1 1", "opack 1 2 0", "srack 1 2 5", "create 1 1", "opack 1 3 0", "srack 1 3 6",
			"sprestart 1 same", "current", "create 1 1", "opack 1 4 9", "srack 1 4 9", "restart", "current", "create 1 1"}},
		// seeded C12-5 (an ack whose payload the store refuses still counted towards completion): an ack without key
		// group range is recorded like any other; the checkpoint has exactly one entry per operator; a retry is a duplicate
		{Header: "M C12", Tags: []string{"odd-payload", "published", "bad-ack"}, Ops: []string{
			"create 1,2 1", "opack 1 1 3 nokgr", "opack 2 1 4", "srack 1 1 5", "opack 1 1 6", "current"}},
		{Header: "M C12", Tags: []string{"odd-payload", "published"}, Ops: []string{
			"create 1 1", "srack 1 1 -", "opack 1 1 3 emptykgr", "create 1 -", "opack 1 2 4 nokgr", "current", "restart", "current"}},
		// D66 (repaired): a job restarted from savepoint 1 in a storage that already holds the artifact of savepoint 3
		// must not hand out id 3 again (it would overwrite that savepoint's directory): the next id is 4
		{Header: "M C12", Tags: []string{"D66", "sprestart", "published"}, Ops: []string{
			"savepoint - 1", "srack 1 1 4", "create 1 1", "opack 1 2 0", "srack 1 2 5", "savepoint - 1", "srack 1 3 6",
			"sprestart 1 fresh", "create 1 1", "opack 1 4 0", "srack 1 4 7", "current"}},
		// D64 (open): the job configured with savepoint 1 publishes checkpoint 2 and restarts with the same
		// configuration: it goes back to savepoint 1 although checkpoint 2 is complete in its storage
		{Header: "M C12", Tags: []string{"D64", "sprestart", "published"}, Ops: []string{
			"savepoint - 1", "srack 1 1 4", "sprestart 1 same", "create 1 1", "opack 1 2 0", "srack 1 2 5", "current",
			"sprestart 1 same", "current", "create 1 1", "restart", "current"}},
		// D55 (open): an id handed out but not persisted before the job process is lost is handed out again, and
		// acknowledgements made for the old checkpoint complete the new one
		{Header: "M C12", Tags: []string{"D55", "restart", "published"}, Ops: []string{
			"create 1 1", "restart", "create 1 1", "opack 1 1 99", "srack 1 1 5", "current"}},
		{Header: "M C12", Tags: []string{"D55", "restart", "published"}, Ops: []string{
			"create 1 1", "opack 1 1 0", "srack 1 1 1", "create 1 1", "savepoint 1 1", "restart", "savepoint 1 1", "opack 1 2 7", "srack 1 2 8", "create 1 1"}},
		// savepoint folds into the pending checkpoint; second request refused
		{Header: "M C12", Tags: []string{"published"}, Ops: []string{
			"create 1 1", "savepoint 1 1", "savepoint 1 1", "create 1 1", "opack 1 1 0", "srack 1 1 1", "savepoint - -", "opack 5 2 0", "current"}},
	}
	// exhaustive short sequences for 2 operators + 1 runner (thorough: + 2 runners, longer)
	alphabet := []string{"create 1,2 1", "opack 1 1 0", "opack 2 1 0", "srack 1 1 3", "opack 1 2 0", "srack 1 2 4", "opack 2 2 0", "savepoint 1,2 1", "redeploy"}
	depth := 4
	if tier == "thorough" {
		depth = 5
	}
	var rec func(prefix []string)
	rec = func(prefix []string) {
		if len(prefix) == depth {
			cs = append(cs, lib.Case{Header: "M C12", Tags: []string{"exhaustive"}, Ops: append(append([]string(nil), prefix...), "current")})
			return
		}
		for _, a := range alphabet {
			rec(append(prefix, a))
		}
	}
	rec([]string{"create 1,2 1"})
	return cs
}

func propC12() *lib.Prop {
	return &lib.Prop{
		ID:   "C12",
		Corr: "Model/Store.lean (+Model/Publish.lean for restarts) ↔ storage/snapshots Store: CreateCheckpoint, CreateSavepoint, AddOperatorSnapshot, AddSourceSnapshot, RegisterSourceSplitter (redeployment), LoadCheckpoint (local files and savepoint URI), CurrentCheckpoint, written snapshot files; calls issued while another call is parked inside sourceSplitter.Checkpoint()",
		Rule: "cases = call sequences (assemblies of 1-4 operators / 1-3 runners, duplicate, wrong-id, foreign and late acknowledgements, savepoint requests, redeployments with and without a pending checkpoint followed by late acknowledgements of the abandoned id, store restarts from local files and from savepoint artifacts, and calls issued concurrently while the finishing acknowledgement is parked inside the source splitter) on the real Store over an in-memory location; non-trivial = the sequence contains a rejected/ignored acknowledgement, a published snapshot (file decoded and compared) or a restart",
		NumCases: func(tier string) int {
			if tier == "thorough" {
				return 20000
			}
			return 2500
		},
		Fixed: c12Fixed,
		Gen:   c12Gen,
		Impl:  c12Impl,
		Nontrivial: func(c lib.Case, _ []string) bool {
			return len(c.Tags) > 0
		},
	}
}
