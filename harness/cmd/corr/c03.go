package main

// C03 — keyed state behaves as a per-key map the handler fully controls.
//
// Lockstep differential (T2) against Model/KeyedState.lean in two modes (third header word):
//
//   store  the REAL operator.KeyedStateStore over a REAL dkv.DB (memory filesystem) opened with tiny memtable and
//          table sizes, so memtable rotation, flush and compaction run underneath the mutation history (free running
//          background tasks; `rot` forces a rotation, `wait` joins the background tasks, `getmid` lets the pending
//          flush commit between the two snapshots of the scan).
//   op     the REAL operator.Operator (HandleDeploy, HandleEvent, event loop, EventBatcher, processEventBatch,
//          TimerRegistry writing timers into the same DKV) with a reference handler that returns scripted mutations
//          and records the KeyStates of every ProcessEventBatchRequest.
//
// P-obs: the state returned by GetState / the KeyStates handed to the handler. Everything else answers `ok`.

import (
	"bytes"
	"fmt"
	"strconv"
	"strings"
	"sync"
	"sync/atomic"
	"time"

	"reduction.dev/reduction-protocol/handlerpb"
	"reduction.dev/reduction/dkv"
	"reduction.dev/reduction/dkv/storage"
	"reduction.dev/reduction/partitioning"
	"reduction.dev/reduction/util/verifhook"
	"reduction.dev/reduction/workers/operator"
	"verif/harness/lib"
)

func init() { register("C03", propC03) }

const c03Wait = 10 * time.Second

var (
	c03Mu       sync.Mutex // one case at a time: flush/compaction queues and the hook handler are process-global
	c03Seq      int
	c03Flushes  atomic.Int64
	c03Compacts atomic.Int64
	c03MidReads atomic.Int64
)

// ---------------------------------------------------------------- op-line token grammar (shared with Driver/C03.lean)

type c03Mut struct {
	del bool
	key []byte
	val []byte
}
type c03Ns struct {
	ns   string
	muts []c03Mut
}
type c03Res struct {
	key    []byte
	timers []int64
	nss    []c03Ns
}

func c03ParseNss(f []string) ([]c03Ns, []string) {
	var out []c03Ns
	for len(f) >= 2 && f[0] == "ns" {
		n := c03Ns{ns: string(lib.UnHex(f[1]))}
		f = f[2:]
	muts:
		for len(f) > 0 {
			switch {
			case f[0] == "p" && len(f) >= 3:
				n.muts = append(n.muts, c03Mut{key: lib.UnHex(f[1]), val: lib.UnHex(f[2])})
				f = f[3:]
			case f[0] == "d" && len(f) >= 2:
				n.muts = append(n.muts, c03Mut{del: true, key: lib.UnHex(f[1])})
				f = f[2:]
			default:
				break muts
			}
		}
		out = append(out, n)
	}
	return out, f
}

func c03ParseBatch(f []string) (evs [][]byte, res []c03Res, ok bool) {
	for len(f) >= 2 && f[0] == "ev" {
		evs = append(evs, lib.UnHex(f[1]))
		f = f[2:]
	}
	for len(f) >= 2 && f[0] == "res" {
		r := c03Res{key: lib.UnHex(f[1])}
		f = f[2:]
		for len(f) >= 2 && f[0] == "t" {
			t, _ := strconv.ParseInt(f[1], 10, 64)
			r.timers = append(r.timers, t)
			f = f[2:]
		}
		r.nss, f = c03ParseNss(f)
		res = append(res, r)
	}
	return evs, res, len(f) == 0
}

func c03ToPB(nss []c03Ns) []*handlerpb.StateMutationNamespace {
	out := make([]*handlerpb.StateMutationNamespace, len(nss))
	for i, n := range nss {
		m := &handlerpb.StateMutationNamespace{Namespace: n.ns}
		for _, mu := range n.muts {
			if mu.del {
				m.Mutations = append(m.Mutations, &handlerpb.StateMutation{Mutation: &handlerpb.StateMutation_Delete{Delete: &handlerpb.DeleteMutation{Key: mu.key}}})
			} else {
				m.Mutations = append(m.Mutations, &handlerpb.StateMutation{Mutation: &handlerpb.StateMutation_Put{Put: &handlerpb.PutMutation{Key: mu.key, Value: mu.val}}})
			}
		}
		out[i] = m
	}
	return out
}

func c03ShowState(st []*handlerpb.StateEntryNamespace) string {
	if len(st) == 0 {
		return "-"
	}
	var sb strings.Builder
	for _, g := range st {
		sb.WriteString(lib.Hex([]byte(g.Namespace)))
		sb.WriteByte('[')
		for i, e := range g.Entries {
			if i > 0 {
				sb.WriteByte(',')
			}
			sb.WriteString(lib.Hex(e.Key) + "=" + lib.Hex(e.Value))
		}
		sb.WriteByte(']')
	}
	return sb.String()
}

// ---------------------------------------------------------------- background bookkeeping

// c03Pins keeps every table object of a case reachable (see c03ImplOp: the collector's deletions are not this check's subject)
type c03Pins struct {
	mu   sync.Mutex
	objs []any
}

func (p *c03Pins) add(x any) {
	p.mu.Lock()
	p.objs = append(p.objs, x)
	p.mu.Unlock()
}

func c03Hook(mid *atomic.Pointer[dkv.DB], pins *c03Pins) verifhook.Handler {
	return func(label string, payload []any) {
		switch label {
		case "dkv.flush.done":
			c03Flushes.Add(1)
		case "dkv.compact.commit":
			if pins != nil && len(payload) > 1 {
				pins.add(payload[1]) // the change set: tables leaving the level list stay reachable
			}
		case "dkv.compact.done":
			c03Compacts.Add(1)
		case "dkv.read.between":
			// getmid: let every pending flush/compaction commit between the memtable and the sstable snapshot
			if db := mid.Swap(nil); db != nil {
				c03MidReads.Add(1)
				c03WaitTasks(db)
			}
		}
	}
}

func c03WaitTasks(db *dkv.DB) string {
	done := make(chan error, 1)
	go func() { done <- db.WaitOnTasks() }()
	select {
	case err := <-done:
		if err != nil {
			return "bg-error " + strings.ReplaceAll(err.Error(), "\n", " ")
		}
		return "ok"
	case <-time.After(c03Wait):
		return "timeout"
	}
}

type c03Cfg struct {
	kgc, mem, target, small, batch int
	mode                           string
}

func c03Header(h string) c03Cfg {
	f := strings.Fields(h)
	at := func(i, d int) int {
		if i < len(f) {
			if v, err := strconv.Atoi(f[i]); err == nil {
				return v
			}
		}
		return d
	}
	c := c03Cfg{kgc: at(2, 256), mode: "store", mem: at(4, 300), target: at(5, 6000), small: at(6, 1), batch: at(7, 8)}
	if len(f) > 3 {
		c.mode = f[3]
	}
	return c
}

func c03Tune(db *dkv.DB, cfg c03Cfg) {
	comp := db.VerifCompactor()
	comp.SmallestLevelSize = int64(cfg.small)
	comp.LevelSizeMultiplier = 2
	comp.TargetTableSize = int64(cfg.target)
}

// rotation as a full memtable would cause it; never on an empty active memtable (a write always precedes a rotation)
type c03Rot struct{ lastSeq uint64 }

func (r *c03Rot) rotate(db *dkv.DB) {
	if s := db.VerifSeqNum(); s != r.lastSeq {
		r.lastSeq = s
		db.VerifRotate()
	}
}

// ---------------------------------------------------------------- mode "store"

func c03ImplStore(c lib.Case, cfg c03Cfg) []string {
	c03Seq++
	fs := storage.NewMemoryFilesystem().WithWorkingDir(fmt.Sprintf("c03-%d", c03Seq))
	db := dkv.New(dkv.DBOptions{FileSystem: fs, MemTableSize: uint64(cfg.mem), TargetFileSize: uint64(cfg.target), L0TableNumCompactionTrigger: 2})
	c03Tune(db, cfg)
	if err := db.Start(nil); err != nil {
		return []string{"start " + err.Error()}
	}
	var mid atomic.Pointer[dkv.DB]
	verifhook.Set(c03Hook(&mid, nil))
	defer func() {
		c03WaitTasks(db)
		verifhook.Set(nil)
	}()
	ks := partitioning.NewKeySpace(cfg.kgc, 1)
	store := operator.NewKeyedStateStore(db, ks)
	timers := operator.NewTimerStore(nil, ks, partitioning.KeyGroupRange{Start: 0, End: 1}, 1024) // encoder only
	rot := &c03Rot{}
	out := make([]string, 0, len(c.Ops))
	get := func(k []byte) string {
		st, err := store.GetState(k)
		if err != nil {
			return "error " + strings.ReplaceAll(err.Error(), "\n", " ")
		}
		return c03ShowState(st)
	}
	for _, op := range c.Ops {
		n := len(out)
		func() {
			defer c03Recover(&out, n) // a panic of the real code is the observation of this op
			c03StoreOp(op, &out, store, db, ks, timers, rot, &mid, get)
		}()
	}
	return out
}

// c03Key hands the subject key to the store in ONE buffer that every call of a case overwrites: the store's API takes a
// []byte and owns nothing of it after the call returns, so an implementation that keeps the caller's slice (a "last key"
// cache, say) answers the next key from the previous key's group (seeded C05-9).
var c03KB []byte

func c03Key(k []byte) []byte {
	c03KB = append(c03KB[:0], k...)
	return c03KB
}

func c03StoreOp(op string, outp *[]string, store *operator.KeyedStateStore, db *dkv.DB, ks *partitioning.KeySpace,
	timers *operator.TimerStore, rot *c03Rot, mid *atomic.Pointer[dkv.DB], get func([]byte) string) {
	out := *outp
	defer func() { *outp = out }()
	for range 1 {
		f := strings.Fields(op)
		switch {
		case f[0] == "apply" && len(f) >= 2:
			nss, rest := c03ParseNss(f[2:])
			if len(rest) != 0 {
				out = append(out, "bad-op")
				continue
			}
			if err := store.ApplyMutations(c03Key(lib.UnHex(f[1])), c03ToPB(nss)); err != nil {
				out = append(out, "error "+err.Error())
				continue
			}
			out = append(out, "ok")
		case f[0] == "get" && len(f) == 2:
			out = append(out, get(c03Key(lib.UnHex(f[1]))))
		case f[0] == "getmid" && len(f) == 2:
			mid.Store(db)
			out = append(out, get(c03Key(lib.UnHex(f[1]))))
			mid.Store(nil)
		case (f[0] == "tput" || f[0] == "tdel") && len(f) == 3:
			t, _ := strconv.ParseInt(f[2], 10, 64)
			key := timers.VerifEncodeTimerKey(lib.UnHex(f[1]), time.Unix(0, t))
			if f[0] == "tput" {
				db.Put(key, nil) // KeyGroupPriorityQueue.Push: write-through
			} else {
				db.Delete(key) // KeyGroupPriorityQueue.Pop / Delete
			}
			out = append(out, "ok")
		case f[0] == "rot":
			rot.rotate(db)
			out = append(out, "ok")
		case f[0] == "wait":
			out = append(out, c03WaitTasks(db))
		case f[0] == "ckpt":
			out = append(out, "ok")
		default:
			out = append(out, c03Instance(ks, f))
		}
	}
}

func c03Recover(out *[]string, n int) {
	if r := recover(); r != nil {
		msg := strings.ReplaceAll(fmt.Sprint(r), "\n", " ")
		if len(msg) > 160 {
			msg = msg[:160]
		}
		*out = append((*out)[:n], "panic "+msg)
	}
}

// c03Instance evaluates the statement of an encoder theorem on the real encoders.
func c03Instance(ks *partitioning.KeySpace, f []string) string {
	st := operator.NewKeyedStateStore(nil, ks)
	h := func(i int) []byte { return lib.UnHex(f[i]) }
	switch {
	case f[0] == "prefixfree" && len(f) == 5: // C03.subject_prefix_free
		has := bytes.HasPrefix(st.VerifEncodeDBKey(h(2), string(h(3)), h(4)), st.VerifEncodeSubjectKey(h(1)))
		if has != bytes.Equal(h(1), h(2)) {
			return fmt.Sprintf("state of %s visible under %s: %v", f[2], f[1], has)
		}
		return "ok"
	case f[0] == "inj" && len(f) == 7: // C03.dbkey_injective
		same := bytes.Equal(h(1), h(4)) && bytes.Equal(h(2), h(5)) && bytes.Equal(h(3), h(6))
		eq := bytes.Equal(st.VerifEncodeDBKey(h(1), string(h(2)), h(3)), st.VerifEncodeDBKey(h(4), string(h(5)), h(6)))
		if eq != same {
			return fmt.Sprintf("composite keys equal=%v for same=%v", eq, same)
		}
		return "ok"
	case f[0] == "disjoint" && len(f) == 4: // C03.state_timer_disjoint
		ts := operator.NewTimerStore(nil, ks, partitioning.KeyGroupRange{Start: 0, End: 1}, 1024)
		t, _ := strconv.ParseInt(f[2], 10, 64)
		if bytes.HasPrefix(ts.VerifEncodeTimerKey(h(1), time.Unix(0, t)), st.VerifEncodeSubjectKey(h(3))) {
			return "timer key inside the state prefix"
		}
		return "ok"
	case f[0] == "decode" && len(f) == 4: // C03.decode_encode, through the real GetState over a one-entry database
		return c03Decode(ks, h(1), string(h(2)), h(3))
	}
	return "bad-op"
}

func c03Decode(ks *partitioning.KeySpace, k []byte, ns string, d []byte) string {
	c03Seq++
	db := dkv.Open(dkv.DBOptions{FileSystem: storage.NewMemoryFilesystem().WithWorkingDir(fmt.Sprintf("c03d-%d", c03Seq))}, nil)
	store := operator.NewKeyedStateStore(db, ks)
	db.Put(store.VerifEncodeDBKey(k, ns, d), []byte{1})
	st, err := store.GetState(k)
	if err != nil || len(st) != 1 || len(st[0].Entries) != 1 {
		return fmt.Sprintf("unexpected state %v %v", st, err)
	}
	return lib.Hex([]byte(st[0].Namespace)) + " " + lib.Hex(st[0].Entries[0].Key)
}

// ---------------------------------------------------------------- generator

// subject keys: prefixes of one another, 0x00/0xff, keys that look like the tail of another key's composite key
var c03Subjects = [][]byte{
	nil, {0x61}, {0x61, 0x62}, {0x61, 0x00}, {0x00}, {0xff}, {0xff, 0xff},
	{0x61, 0x01, 0x62},                   // "a" ++ len("b") ++ "b": aliases key "a"/ns "b" without the length prefix
	{0x61, 0x00, 0x63},                   // "a" ++ len("") ++ "c"
	{0x00, 0x00, 0x00, 0x01, 0x61},       // embeds the 4-byte length of "a"
	{0x61, 0x00, 0x00, 0x00, 0x00, 0x01}, // "a" followed by something that looks like a length
}
var c03EntryKeys = [][]byte{nil, {0x00}, {0xff}, {0x61}, {0x61, 0x62}, {0x01, 0x61}, {0x62}, {0x00, 0x00}, {0x02, 0x61, 0x62}}
var c03Namespaces = []string{"", "a", "ab", "b", "a\x00"}

func c03Val(r *lib.Rng) []byte {
	switch r.Intn(5) {
	case 0:
		return nil
	case 1:
		return []byte{byte(r.Intn(256))}
	case 2:
		return r.Bytes(r.Range(20, 60)) // fills the tiny memtables
	default:
		return r.Bytes(r.Range(1, 6))
	}
}

func c03GenNss(r *lib.Rng, sb *strings.Builder, long string) {
	for n := r.Range(1, 3); n > 0; n-- {
		ns := lib.Pick(r, c03Namespaces)
		if long != "" && r.Chance(1, 12) {
			ns = long
		}
		sb.WriteString(" ns " + lib.Hex([]byte(ns)))
		for m := r.Range(1, 4); m > 0; m-- {
			ek := lib.Pick(r, c03EntryKeys)
			switch r.Intn(6) {
			case 0, 1:
				sb.WriteString(" d " + lib.Hex(ek))
			case 2: // delete-then-put of the same entry in one call
				sb.WriteString(" d " + lib.Hex(ek) + " p " + lib.Hex(ek) + " " + lib.Hex(c03Val(r)))
			default:
				sb.WriteString(" p " + lib.Hex(ek) + " " + lib.Hex(c03Val(r)))
			}
		}
	}
}

func c03Pool(r *lib.Rng) [][]byte {
	n := r.Range(2, 5)
	pool := make([][]byte, 0, n)
	for len(pool) < n {
		k := lib.Pick(r, c03Subjects)
		if r.Chance(1, 6) {
			k = r.Bytes(r.Range(0, 9))
		}
		dup := false
		for _, p := range pool {
			dup = dup || bytes.Equal(p, k)
		}
		if !dup {
			pool = append(pool, k)
		}
	}
	return pool
}

func c03GenStore(r *lib.Rng, tier string) lib.Case {
	kgc := lib.Pick(r, []int{1, 1, 2, 7, 256, 65535})
	mem := lib.Pick(r, []int{100, 150, 250, 400, 400, 1 << 20})
	target := lib.Pick(r, []int{4200, 6000, 20000})
	small := lib.Pick(r, []int{1, 5000, 20000})
	c := lib.Case{Header: fmt.Sprintf("M C03 %d store %d %d %d", kgc, mem, target, small)}
	pool := c03Pool(r)
	long := ""
	if r.Chance(1, 5) {
		long = strings.Repeat("n", 255) // the longest namespace the one-byte length can carry
	}
	nops := r.Range(20, 80)
	if tier == "thorough" {
		nops = r.Range(40, 160)
	}
	for i := 0; i < nops; i++ {
		k := lib.Pick(r, pool)
		switch x := r.Intn(100); {
		case x < 52:
			var sb strings.Builder
			sb.WriteString("apply " + lib.Hex(k))
			c03GenNss(r, &sb, long)
			c.Ops = append(c.Ops, sb.String())
		case x < 74:
			c.Ops = append(c.Ops, "get "+lib.Hex(k))
		case x < 78:
			c.Ops = append(c.Ops, "getmid "+lib.Hex(k))
		case x < 84:
			c.Ops = append(c.Ops, fmt.Sprintf("%s %s %d", lib.Pick(r, []string{"tput", "tput", "tdel"}), lib.Hex(k), lib.Pick(r, []int64{0, 1, 1 << 32, 97 << 24, 1<<62 + 5})))
		case x < 91:
			c.Ops = append(c.Ops, "rot")
		case x < 95:
			c.Ops = append(c.Ops, "wait")
		case x < 96:
			c.Ops = append(c.Ops, fmt.Sprintf("prefixfree %s %s %s %s", lib.Hex(k), lib.Hex(lib.Pick(r, pool)), lib.Hex([]byte(lib.Pick(r, c03Namespaces))), lib.Hex(lib.Pick(r, c03EntryKeys))))
		case x < 97:
			c.Ops = append(c.Ops, fmt.Sprintf("inj %s %s %s %s %s %s", lib.Hex(k), lib.Hex([]byte(lib.Pick(r, c03Namespaces))), lib.Hex(lib.Pick(r, c03EntryKeys)),
				lib.Hex(lib.Pick(r, pool)), lib.Hex([]byte(lib.Pick(r, c03Namespaces))), lib.Hex(lib.Pick(r, c03EntryKeys))))
		case x < 98:
			c.Ops = append(c.Ops, fmt.Sprintf("disjoint %s %d %s", lib.Hex(k), lib.Pick(r, []int64{0, 1, 97 << 24, 1 << 40}), lib.Hex(lib.Pick(r, pool))))
		default:
			c.Ops = append(c.Ops, fmt.Sprintf("decode %s %s %s", lib.Hex(k), lib.Hex([]byte(lib.Pick(r, c03Namespaces))), lib.Hex(lib.Pick(r, c03EntryKeys))))
		}
	}
	for _, k := range pool {
		c.Ops = append(c.Ops, "get "+lib.Hex(k))
	}
	return c
}

// scripted key results: mostly for the given keys (possibly several results for one key), sometimes for another key of
// the pool; timers around the current watermark (some at or below it: SetTimer drops those)
func c03GenResults(r *lib.Rng, sb *strings.Builder, keys, pool [][]byte, cur int64, maxRes int) {
	for nr := r.Range(0, maxRes); nr > 0; nr-- {
		k := keys[r.Intn(len(keys))]
		if r.Chance(1, 8) {
			k = lib.Pick(r, pool)
		}
		sb.WriteString(" res " + lib.Hex(k))
		for nt := lib.Pick(r, []int{0, 0, 0, 1, 1, 2}); nt > 0; nt-- {
			t := cur + int64(r.Range(-3, 40))
			if r.Chance(1, 10) {
				t = lib.Pick(r, []int64{97 << 24, 1 << 40})
			}
			sb.WriteString(fmt.Sprintf(" t %d", max(t, 0)))
		}
		if !r.Chance(1, 8) {
			c03GenNss(r, sb, "")
		}
	}
}

func c03GenOp(r *lib.Rng, tier string) lib.Case {
	// every redeploy scans each key group's timers once, so cases with 65535 key groups run without restarts
	kgc := lib.Pick(r, []int{1, 2, 7, 256})
	big := r.Chance(1, 8)
	if big {
		kgc = 65535
	}
	b := r.Range(1, 8)
	c := lib.Case{Header: fmt.Sprintf("M C03 %d op 0 %d %d %d", kgc, lib.Pick(r, []int{4200, 6000, 20000}), lib.Pick(r, []int{1, 5000}), b)}
	pool := c03Pool(r)
	nb := r.Range(8, 30)
	if tier == "thorough" {
		nb = r.Range(15, 60)
	}
	cur := int64(0)    // the generator's own watermark clock
	ckpts := 0         // checkpoint ids are 1,2,.. in order of the `ckpt` ops
	var retained []int // ids a restart may name: a restore keeps only the restored one
	for i := 0; i < nb; i++ {
		var sb strings.Builder
		if r.Chance(1, 5) {
			// watermark: the due timers fire through processEventBatch
			cur += int64(r.Range(1, 25))
			sb.WriteString(fmt.Sprintf("wm %d", cur))
			c03GenResults(r, &sb, pool, pool, cur, 2)
			c.Ops = append(c.Ops, sb.String())
		} else {
			sb.WriteString("batch")
			n := r.Range(1, b)
			if r.Chance(1, 3) {
				n = b
			}
			var keys [][]byte
			for j := 0; j < n; j++ {
				k := lib.Pick(r, pool)
				if j > 0 && r.Chance(1, 3) {
					k = keys[r.Intn(len(keys))] // repeated key inside the batch
				}
				keys = append(keys, k)
				sb.WriteString(" ev " + lib.Hex(k))
			}
			c03GenResults(r, &sb, keys, pool, cur, 3)
			c.Ops = append(c.Ops, sb.String())
		}
		switch r.Intn(12) {
		case 0, 1, 2:
			c.Ops = append(c.Ops, "rot")
		case 3:
			c.Ops = append(c.Ops, "rot", "wait")
		case 4, 5:
			c.Ops = append(c.Ops, "ckpt")
			ckpts++
			retained = append(retained, ckpts)
		case 6:
			if len(retained) > 0 && !big {
				// redeploy from a retained checkpoint: what was returned after it is gone, the rest stays
				op := lib.Pick(r, []string{"restart", "restart new"})
				if r.Chance(1, 2) {
					// an older retained checkpoint (the one the job published), not the operator's latest
					j := r.Intn(len(retained))
					op += fmt.Sprintf(" %d", retained[j])
					retained = retained[j : j+1]
					c.Tags = append(c.Tags, "restore-older")
				}
				if !strings.Contains(op, " ") || strings.HasSuffix(op, "new") {
					retained = retained[len(retained)-1:] // restored the latest
				}
				c.Ops = append(c.Ops, op)
				c.Tags = append(c.Tags, "restore")
			}
		case 7:
			if len(retained) > 0 && !big && r.Chance(1, 2) {
				ckpts++
				retained = append(retained, ckpts)
				retained = retained[len(retained)-1:]
				c.Ops = append(c.Ops, "ckpt", lib.Pick(r, []string{"restart", "restart new"}))
				c.Tags = append(c.Tags, "restore")
			}
		}
	}
	// final read-back: fire every timer, then read every key
	c.Ops = append(c.Ops, fmt.Sprintf("wm %d", int64(1)<<41))
	for i := 0; i < len(pool); i += b {
		var sb strings.Builder
		sb.WriteString("batch")
		for _, k := range pool[i:min(i+b, len(pool))] {
			sb.WriteString(" ev " + lib.Hex(k))
		}
		c.Ops = append(c.Ops, sb.String())
	}
	return c
}

// witnesses of the repaired DKV read defects at the level of this property (D2–D5), and encoder corner cases
func c03Fixed() []lib.Case {
	hdr := func(mem int) string { return fmt.Sprintf("M C03 1 store %d 4200 1", mem) }
	return []lib.Case{
		{Header: hdr(1 << 20), Tags: []string{"D4"}, Ops: []string{ // delete in memory above a flushed put
			"apply 6b ns 61 p 01 aa p 02 bb", "rot", "wait", "apply 6b ns 61 d 01", "get 6b", "rot", "wait", "get 6b"}},
		{Header: hdr(1 << 20), Tags: []string{"D4"}, Ops: []string{ // delete in the active memtable above a sealed one
			"apply 6b ns 61 p 01 aa", "rot", "apply 6b ns 61 d 01", "get 6b", "wait", "get 6b"}},
		{Header: hdr(1 << 20), Tags: []string{"D2"}, Ops: []string{ // overwrite while the flush is in flight
			"apply 6b ns - p - 01", "rot", "apply 6b ns - p - 02", "get 6b", "wait", "get 6b"}},
		{Header: hdr(1 << 20), Tags: []string{"D3"}, Ops: []string{ // two level-0 tables hold the entry
			"apply 6b ns - p - 01", "rot", "wait", "apply 6b ns - p - 02", "rot", "get 6b", "wait", "get 6b",
			"apply 6b ns - d -", "rot", "wait", "get 6b"}},
		{Header: hdr(1 << 20), Tags: []string{"D5"}, Ops: []string{ // the flush commits between the two snapshots of the scan
			"apply 6b ns 61 p 01 aa", "rot", "getmid 6b", "apply 6b ns 61 d 01 p 02 bb", "rot", "getmid 6b", "get 6b"}},
		{Header: hdr(120), Tags: []string{"alias"}, Ops: []string{ // keys that would alias without the length prefixes
			"apply 61 ns 62 p 63 01", "apply 610162 ns - p 63 02", "apply 6101 ns - p 6263 03", "apply - ns - p - 04",
			"get 61", "get 610162", "get 6101", "get -", "get 6162", "tput 61 0", "tput - 1627389952", "get 61", "get -",
			"apply 61 ns - p 0162 05 ns 62 d 63", "get 61", "prefixfree 61 610162 - 63", "prefixfree 61 61 62 63",
			"inj 61 62 63 61 - 6263", "inj 61 6162 - 61 61 62", "disjoint 61 0 61", "decode 61 6162 -", "decode - - -"}},
		{Header: "M C03 1 op 0 4200 1 2", Tags: []string{"op", "timers", "restore"}, Ops: []string{
			"batch ev 6b ev 6c res 6b t 5 t 9 ns 61 p 01 aa res 6c t 5 ns 61 p 01 cc res 6d t 7", "ckpt",
			"batch ev 6b res 6b t 30 ns 61 d 01 p 02 bb", "rot", "restart", "wm 8 res 6b ns 62 p - 01", "batch ev 6b ev 6c",
			"ckpt", "batch ev 6c res 6c ns 61 d 01", "restart new", "wm 9", "batch ev 6c ev 6b", "wm 100"}},
		{Header: "M C03 1 op 0 4200 1 2", Tags: []string{"op", "restore-older"}, Ops: []string{ // restore of an older retained checkpoint
			"batch ev 6b res 6b t 7 ns 61 p 01 02", "ckpt", "batch ev 6b res 6b ns 61 d 01 p 03 04", "rot", "ckpt",
			"batch ev 6b res 6b ns 61 p 05 06", "restart 1", "wm 9", "batch ev 6b res 6b ns 62 p - -", "ckpt", "restart new 2",
			"batch ev 6b res 6b ns 61 d 01", "restart 1", "batch ev 6b", "restart new 3", "batch ev 6b"}},
		{Header: hdr(300), Tags: []string{"guard256"}, Ops: []string{ // the namespace guard on the real code: uint8(len) wraps
			"apply 6b ns 6e6e6e6e6e6e6e6e6e6e6e6e6e6e6e6e6e6e6e6e6e6e6e6e6e6e6e6e6e6e6e6e6e6e6e6e6e6e6e6e6e6e6e6e6e6e6e6e6e6e6e6e6e6e6e6e6e6e6e6e6e6e6e6e6e6e6e6e6e6e6e6e6e6e6e6e6e6e6e6e6e6e6e6e6e6e6e6e6e6e6e6e6e6e6e6e6e6e6e6e6e6e6e6e6e6e6e6e6e6e6e6e6e6e6e6e6e6e6e6e6e6e6e6e6e6e6e6e6e6e6e6e6e6e6e6e6e6e6e6e6e6e6e6e6e6e6e6e6e6e6e6e6e6e6e6e6e6e6e6e6e6e6e6e6e6e6e6e6e6e6e6e6e6e6e6e6e6e6e6e6e6e6e6e6e6e6e6e6e6e6e6e6e6e6e6e6e6e6e6e6e6e6e6e6e6e6e6e6e6e6e6e6e6e6e6e6e6e6e6e6e6e6e6e6e6e6e6e6e6e6e6e6e6e6e6e6e6e6e6e6e6e6e6e6e6e6e6e6e6e6e6e6e6e6e6e p 01 aa", "get 6b", "apply 6b ns - d 6e6e6e6e6e6e6e6e6e6e6e6e6e6e6e6e6e6e6e6e6e6e6e6e6e6e6e6e6e6e6e6e6e6e6e6e6e6e6e6e6e6e6e6e6e6e6e6e6e6e6e6e6e6e6e6e6e6e6e6e6e6e6e6e6e6e6e6e6e6e6e6e6e6e6e6e6e6e6e6e6e6e6e6e6e6e6e6e6e6e6e6e6e6e6e6e6e6e6e6e6e6e6e6e6e6e6e6e6e6e6e6e6e6e6e6e6e6e6e6e6e6e6e6e6e6e6e6e6e6e6e6e6e6e6e6e6e6e6e6e6e6e6e6e6e6e6e6e6e6e6e6e6e6e6e6e6e6e6e6e6e6e6e6e6e6e6e6e6e6e6e6e6e6e6e6e6e6e6e6e6e6e6e6e6e6e6e6e6e6e6e6e6e6e6e6e6e6e6e6e6e6e6e6e6e6e6e6e6e6e6e6e6e6e6e6e6e6e6e6e6e6e6e6e6e6e6e6e6e6e6e6e6e6e6e6e6e6e6e6e6e6e6e6e6e6e6e6e6e6e6e6e6e6e6e6e01", "get 6b",
			"apply 6b ns 6f6f6f6f6f6f6f6f6f6f6f6f6f6f6f6f6f6f6f6f6f6f6f6f6f6f6f6f6f6f6f6f6f6f6f6f6f6f6f6f6f6f6f6f6f6f6f6f6f6f6f6f6f6f6f6f6f6f6f6f6f6f6f6f6f6f6f6f6f6f6f6f6f6f6f6f6f6f6f6f6f6f6f6f6f6f6f6f6f6f6f6f6f6f6f6f6f6f6f6f6f6f6f6f6f6f6f6f6f6f6f6f6f6f6f6f6f6f6f6f6f6f6f6f6f6f6f6f6f6f6f6f6f6f6f6f6f6f6f6f6f6f6f6f6f6f6f6f6f6f6f6f6f6f6f6f6f6f6f6f6f6f6f6f6f6f6f6f6f6f6f6f6f6f6f6f6f6f6f6f6f6f6f6f6f6f6f6f6f6f6f6f6f6f6f6f6f6f6f6f6f6f6f6f6f6f6f6f6f6f6f6f6f6f6f6f6f6f6f6f6f6f6f6f6f6f6f6f6f6f6f6f6f6f6f6f6f6f6f6f6f6f6f6f6f6f6f6f6f6f6f6f6f6f6f6f6f6f6f6f6f6f6f6f6f6f6f6f6f6f6f6f6f6f6f6f6f6f6f6f6f6f6f6f6f6f6f6f6f6f6f6f6f6f6f6f6f6f6f6f p 02 bb ns 61 p - -", "get 6b", "rot", "wait", "get 6b",
			// locality: an over-long namespace used for ANOTHER key leaves this key's state alone
			"apply 6c ns 6f6f6f6f6f6f6f6f6f6f6f6f6f6f6f6f6f6f6f6f6f6f6f6f6f6f6f6f6f6f6f6f6f6f6f6f6f6f6f6f6f6f6f6f6f6f6f6f6f6f6f6f6f6f6f6f6f6f6f6f6f6f6f6f6f6f6f6f6f6f6f6f6f6f6f6f6f6f6f6f6f6f6f6f6f6f6f6f6f6f6f6f6f6f6f6f6f6f6f6f6f6f6f6f6f6f6f6f6f6f6f6f6f6f6f6f6f6f6f6f6f6f6f6f6f6f6f6f6f6f6f6f6f6f6f6f6f6f6f6f6f6f6f6f6f6f6f6f6f6f6f6f6f6f6f6f6f6f6f6f6f6f6f6f6f6f6f6f6f6f6f6f6f6f6f6f6f6f6f6f6f6f6f6f6f6f6f6f6f6f6f6f6f6f6f6f6f6f6f6f6f6f6f6f6f6f6f6f6f6f6f6f6f6f6f6f6f6f6f6f6f6f6f6f6f6f6f6f6f6f6f6f6f6f6f6f6f6f6f6f6f6f6f6f6f6f6f6f6f6f6f6f6f6f6f6f6f6f6f6f6f6f6f6f6f6f6f6f6f6f6f6f6f6f6f6f6f6f6f6f6f6f6f6f6f6f6f6f6f6f6f6f6f6f6f6f6f6f6f6f p 01 cc ns 61 p 01 dd", "get 6b", "get 6c", "apply 6b ns 61 p 07 08", "get 6b"}},
		{Header: "M C03 2 op 0 4200 1 3", Tags: []string{"D4", "op"}, Ops: []string{
			"batch ev 6b ev 6c ev 6b res 6b t 5 ns 61 p 01 aa res 6c ns 61 p 01 cc", "rot", "wait",
			"batch ev 6b res 6b ns 61 d 01", "batch ev 6b ev 6c", "rot", "wait", "ckpt", "batch ev 6c ev 6b ev 6c"}},
	}
}

func propC03() *lib.Prop {
	return &lib.Prop{
		ID:   "C03",
		Corr: "Model/KeyedState.lean (KV spec, applyMutations, decodeKey, getState, processBatch) + Model/KeySpace.lean key encoders ↔ operator.KeyedStateStore over a real dkv.DB with tiny memtables; operator.Operator.processEventBatch with a scripted reference handler",
		Rule: "lockstep: mutation histories (adversarial subject/entry keys, namespaces \"\",a,ab,b,a\\0 and a 255-byte one, delete-then-put, writes around forced and size-triggered rotations, free-running flush/compaction) on the real KeyedStateStore+DKV, and scripted handler responses through the real Operator (batches 1-8 with repeated keys, timers in the same DKV, rotations and checkpoints between batches); every GetState / KeyStates is compared with the model the theorems are about; non-trivial = the LSM rotated at least once or is tiny, and a non-empty state was read",
		NumCases: func(tier string) int {
			if tier == "thorough" {
				return 2500
			}
			return 420
		},
		Fixed:    func(tier string) []lib.Case { return c03Fixed() },
		FeedImpl: true, // only `wm` reads the implementation's output: which due timer fired in which invocation
		Gen: func(r *lib.Rng, tier string, i int) lib.Case {
			if i%3 == 2 {
				return c03GenOp(r, tier)
			}
			return c03GenStore(r, tier)
		},
		Impl: func(c lib.Case) []string {
			c03Mu.Lock()
			defer c03Mu.Unlock()
			cfg := c03Header(c.Header)
			if cfg.kgc < 1 || cfg.kgc > 65535 || cfg.batch < 1 {
				return []string{"bad-header"}
			}
			if cfg.mode == "op" {
				return c03ImplOp(c, cfg)
			}
			return c03ImplStore(c, cfg)
		},
		Nontrivial: func(c lib.Case, impl []string) bool {
			cfg := c03Header(c.Header)
			rotated := cfg.mode == "store" && cfg.mem <= 400
			read := false
			for i, op := range c.Ops {
				if op == "rot" {
					rotated = true
				}
				if i < len(impl) && (strings.HasPrefix(op, "get") || strings.HasPrefix(op, "batch")) && strings.Contains(impl[i], "[") {
					read = true
				}
			}
			return rotated && read
		},
		Extra: func() map[string]any {
			return map[string]any{"flush_commits": c03Flushes.Load(), "compaction_commits": c03Compacts.Load(), "reads_with_commit_between_snapshots": c03MidReads.Load()}
		},
	}
}
