package main

// C14 — savepoints are self-contained and restore the checkpointed job state.
//
// Trace validation (FeedImpl) of the real snapshots.Store (CreateCheckpoint / CreateSavepoint / acknowledgements /
// asynchronous publication with CreateSavepointArtifact) and Store.LoadCheckpoint with a savepoint URI
// (RestoreCheckpointFromSavepointArtifact), over `checkpoints` documents produced by REAL dkv instances (tiny
// memtables: state in memory, in L0 and in deeper levels; several operators), against Model/Savepoint.lean.
// The storage is one in-memory name space shared by the operators' dkv file systems and the store's
// StorageLocation. The write of every job snapshot file is parked by a gate, so the harness decides what the
// operators do between the completion of a job checkpoint and the creation of its savepoint artifact (D26).
// P-obs: results of the store calls, publication/savepoint status, load status, and `open i`: dkv.Open from the
// restored handle + full scan == dkv.Open from the same handle on the original storage == scan at the checkpoint.

import (
	"context"
	"crypto/sha256"
	"encoding/base64"
	"encoding/binary"
	"encoding/hex"
	"encoding/json"
	"fmt"
	"io"
	"iter"
	"math"
	"os"
	"path"
	"path/filepath"
	"runtime"
	"runtime/debug"
	"sort"
	"strconv"
	"strings"
	"sync"
	"sync/atomic"
	"time"

	"github.com/aws/aws-sdk-go-v2/service/s3"
	"reduction.dev/reduction/connectors"
	"reduction.dev/reduction/dkv"
	"reduction.dev/reduction/dkv/recovery"
	"reduction.dev/reduction/dkv/storage"
	"reduction.dev/reduction/proto/jobpb"
	"reduction.dev/reduction/proto/snapshotpb"
	"reduction.dev/reduction/storage/locations"
	"reduction.dev/reduction/storage/objstore"
	"reduction.dev/reduction/storage/snapshots"

	"google.golang.org/protobuf/proto"

	"verif/harness/lib"
)

func init() { register("C14", propC14) }

// ---- storage: a StorageLocation over the dkv MemoryFilesystem, behaving like LocalDirectory (plain absolute paths) ----

type c14Parked struct {
	path string
	rel  chan struct{}
}

// c14MemLoc: a StorageLocation over the dkv MemoryFilesystem, behaving like LocalDirectory (plain absolute paths)
type c14MemLoc struct {
	mfs *storage.MemoryFilesystem
}

func c14Norm(p string) string {
	p = strings.TrimPrefix(p, "memory://")
	if !filepath.IsAbs(p) {
		p = filepath.Join("/", p)
	}
	return filepath.Clean(p)
}

func (l *c14MemLoc) Write(p string, data io.Reader) (string, error) {
	b, err := io.ReadAll(data)
	if err != nil {
		return "", err
	}
	f := l.mfs.New(c14Norm(p))
	if _, err := f.Write(b); err != nil {
		return "", err
	}
	if err := f.Save(); err != nil {
		return "", err
	}
	return c14Norm(p), nil
}

func (l *c14MemLoc) Read(p string) ([]byte, error) {
	if !l.mfs.Exists(c14Norm(p)) {
		return nil, locations.ErrNotFound
	}
	return storage.ReadAll(l.mfs.Open(c14Norm(p)))
}

func (l *c14MemLoc) List() iter.Seq2[string, error] {
	names := l.mfs.List()
	return func(yield func(string, error) bool) {
		for _, n := range names {
			if !yield("/"+n, nil) {
				return
			}
		}
	}
}

func (l *c14MemLoc) URI(p string) (string, error) {
	if !l.mfs.Exists(c14Norm(p)) {
		return "", locations.ErrNotFound
	}
	return c14Norm(p), nil
}

func (l *c14MemLoc) Copy(src, dst string) error {
	if !l.mfs.Exists(c14Norm(src)) {
		return locations.ErrNotFound
	}
	return l.mfs.Copy(c14Norm(src), c14Norm(dst))
}

func (l *c14MemLoc) Remove(paths ...string) error {
	for _, p := range paths {
		l.mfs.Open(c14Norm(p)).Delete()
	}
	return nil
}

var _ locations.StorageLocation = (*c14MemLoc)(nil)

// c14Gate parks the write of every job snapshot file until the harness releases it
type c14Gate struct {
	locations.StorageLocation
	mu       sync.Mutex
	parked   []*c14Parked
	notify   chan struct{}
	dead     chan struct{}
	removes  atomic.Int64
	spCopies atomic.Int64
	holdAt   int
	calls    int
	heldCh   chan struct{}
	resumeCh chan struct{}
}

// armHold: the n-th storage call (document reads and copies, counted from now) of the artifact creation parks
// until resume(); n < 0 disarms
func (l *c14Gate) armHold(n int) {
	l.mu.Lock()
	defer l.mu.Unlock()
	l.holdAt, l.calls = n, 0
	l.heldCh, l.resumeCh = make(chan struct{}), make(chan struct{})
}

func (l *c14Gate) resume() {
	l.mu.Lock()
	defer l.mu.Unlock()
	close(l.resumeCh)
	l.holdAt = -1
}

func (l *c14Gate) storageCall() {
	l.mu.Lock()
	park := l.holdAt >= 0 && l.calls == l.holdAt
	l.calls++
	heldCh, resumeCh := l.heldCh, l.resumeCh
	l.mu.Unlock()
	if park {
		close(heldCh)
		select {
		case <-resumeCh:
		case <-l.dead:
		}
	}
}

func (l *c14Gate) Read(p string) ([]byte, error) {
	if path.Base(p) == "checkpoints" {
		l.storageCall()
	}
	return l.StorageLocation.Read(p)
}

func (l *c14Gate) Copy(src, dst string) error {
	l.storageCall()
	select {
	case <-l.dead:
		return fmt.Errorf("storage abandoned")
	default:
	}
	err := l.StorageLocation.Copy(src, dst)
	if err == nil && strings.HasSuffix(dst, "job.savepoint") {
		l.spCopies.Add(1)
	}
	return err
}

func (l *c14Gate) Write(p string, data io.Reader) (string, error) {
	b, err := io.ReadAll(data)
	if err != nil {
		return "", err
	}
	if path.Base(p) == "checkpoints" || path.Base(p) == "job.savepoint" {
		// the document, or (D65 repair) job.savepoint, written into the artifact: a storage call of the creation
		l.storageCall()
	}
	if path.Base(p) == "job.savepoint" {
		defer func() { l.spCopies.Add(1) }()
	}
	if strings.HasSuffix(p, ".snapshot") {
		c := &c14Parked{path: p, rel: make(chan struct{})}
		l.mu.Lock()
		l.parked = append(l.parked, c)
		l.mu.Unlock()
		select {
		case l.notify <- struct{}{}:
		default:
		}
		select {
		case <-c.rel:
		case <-l.dead:
			return "", fmt.Errorf("storage abandoned")
		}
	}
	return l.StorageLocation.Write(p, strings.NewReader(string(b)))
}

// Remove is the store's cleanup of obsolete job snapshots (its own goroutine): performed at once, and counted so
// that the harness can wait for it
func (l *c14Gate) Remove(paths ...string) error {
	select {
	case <-l.dead:
		return fmt.Errorf("storage abandoned")
	default:
	}
	err := l.StorageLocation.Remove(paths...)
	l.removes.Add(1)
	return err
}

func (l *c14Gate) parkedCount() int {
	l.mu.Lock()
	defer l.mu.Unlock()
	return len(l.parked)
}

// c14LockedS3 serialises the repository's in-memory S3 double (it is a plain map; the store deletes obsolete job
// snapshots from its own goroutine)
type c14LockedS3 struct {
	mu    sync.Mutex
	inner objstore.S3Service
}

func (l *c14LockedS3) CopyObject(ctx context.Context, in *s3.CopyObjectInput, o ...func(*s3.Options)) (*s3.CopyObjectOutput, error) {
	l.mu.Lock()
	defer l.mu.Unlock()
	return l.inner.CopyObject(ctx, in, o...)
}
func (l *c14LockedS3) GetObject(ctx context.Context, in *s3.GetObjectInput, o ...func(*s3.Options)) (*s3.GetObjectOutput, error) {
	l.mu.Lock()
	defer l.mu.Unlock()
	return l.inner.GetObject(ctx, in, o...)
}
func (l *c14LockedS3) HeadObject(ctx context.Context, in *s3.HeadObjectInput, o ...func(*s3.Options)) (*s3.HeadObjectOutput, error) {
	l.mu.Lock()
	defer l.mu.Unlock()
	return l.inner.HeadObject(ctx, in, o...)
}
func (l *c14LockedS3) ListObjectsV2(ctx context.Context, in *s3.ListObjectsV2Input, o ...func(*s3.Options)) (*s3.ListObjectsV2Output, error) {
	l.mu.Lock()
	defer l.mu.Unlock()
	return l.inner.ListObjectsV2(ctx, in, o...)
}
func (l *c14LockedS3) PutObject(ctx context.Context, in *s3.PutObjectInput, o ...func(*s3.Options)) (*s3.PutObjectOutput, error) {
	l.mu.Lock()
	defer l.mu.Unlock()
	return l.inner.PutObject(ctx, in, o...)
}
func (l *c14LockedS3) DeleteObject(ctx context.Context, in *s3.DeleteObjectInput, o ...func(*s3.Options)) (*s3.DeleteObjectOutput, error) {
	l.mu.Lock()
	defer l.mu.Unlock()
	return l.inner.DeleteObject(ctx, in, o...)
}

// ---- the harness's own understanding of the naming contract ----

func c14Seg(id uint64) string {
	var buf [8]byte
	binary.BigEndian.PutUint64(buf[:], math.MaxUint64-id)
	return base64.RawURLEncoding.EncodeToString(buf[:])
}

func c14SegID(seg string) (uint64, bool) {
	b, err := base64.RawURLEncoding.Strict().DecodeString(seg)
	if err != nil || len(b) != 8 {
		return 0, false
	}
	return math.MaxUint64 - binary.BigEndian.Uint64(b), true
}

func c14JobPathID(p string) (uint64, bool) {
	base := filepath.Base(p)
	if !strings.HasPrefix(base, "job-") || !strings.HasSuffix(base, ".snapshot") {
		return 0, false
	}
	return c14SegID(strings.TrimSuffix(strings.TrimPrefix(base, "job-"), ".snapshot"))
}

// where the file with the given URI of savepoint id is expected in the savepoint directory
// (paths relative to the root of the storage location, with a leading slash)
func c14ArtifactPath(id uint64, uri string) string {
	dir, base := path.Split(uri)
	return "/" + filepath.Join("savepoints", c14Seg(id), "dkv", dir, base)
}

func c14SavepointJobPath(id uint64) string {
	return "/" + filepath.Join("savepoints", c14Seg(id), "job.savepoint")
}

// ---- canonical rendering of file contents ----

type c14CkDoc struct {
	ID   uint64 `json:"id"`
	WALs []struct {
		URI string `json:"uri"`
	} `json:"wals"`
	Levels [][]struct {
		URI string `json:"URI"`
	} `json:"levels"`
}

type c14ListDoc struct {
	Checkpoints []c14CkDoc `json:"checkpoints"`
}

func c14ParseDoc(b []byte) (*c14ListDoc, bool) {
	var d c14ListDoc
	if err := json.Unmarshal(b, &d); err != nil || d.Checkpoints == nil {
		return nil, false
	}
	return &d, true
}

func (d *c14ListDoc) files() []string {
	seen := map[string]bool{}
	var out []string
	for _, c := range d.Checkpoints {
		for _, w := range c.WALs {
			if !seen[w.URI] {
				seen[w.URI] = true
				out = append(out, w.URI)
			}
		}
		for _, l := range c.Levels {
			for _, t := range l {
				if !seen[t.URI] {
					seen[t.URI] = true
					out = append(out, t.URI)
				}
			}
		}
	}
	sort.Strings(out)
	return out
}

func c14RenderDoc(d *c14ListDoc) string {
	cks := make([]string, len(d.Checkpoints))
	for i, c := range d.Checkpoints {
		ws := make([]string, len(c.WALs))
		for j, w := range c.WALs {
			ws[j] = w.URI
		}
		ls := make([]string, len(c.Levels))
		for j, l := range c.Levels {
			ts := make([]string, len(l))
			for k, t := range l {
				ts[k] = t.URI
			}
			ls[j] = strings.Join(ts, ",")
		}
		cks[i] = fmt.Sprintf("%d~%s~%s", c.ID, strings.Join(ws, ","), strings.Join(ls, "|"))
	}
	return "d:" + strings.Join(cks, ";")
}

func c14RenderJob(ck *snapshotpb.JobCheckpoint) string {
	var src []string
	for _, sc := range ck.GetSourceCheckpoints() {
		for _, s := range sc.GetSplitStates() {
			src = append(src, string(s))
		}
	}
	ops := make([]string, len(ck.GetOperatorCheckpoints()))
	for i, o := range ck.GetOperatorCheckpoints() {
		ops[i] = fmt.Sprintf("%s@%d@%s", o.OperatorId, o.CheckpointId, o.DkvFileUri)
	}
	for _, sc := range ck.GetSourceCheckpoints() {
		src = append(src, "|"+string(sc.GetSplitterState()))
	}
	return fmt.Sprintf("j:%d~%s~%s", ck.GetId(), strings.Join(src, ""), strings.Join(ops, ","))
}

func c14RenderContent(p string, b []byte) string {
	if filepath.Base(p) == "checkpoints" {
		if d, ok := c14ParseDoc(b); ok {
			return c14RenderDoc(d)
		}
		return "x"
	}
	if strings.HasSuffix(p, ".savepoint") || strings.HasSuffix(p, ".snapshot") {
		var ck snapshotpb.JobCheckpoint
		if err := unmarshalProto(b, &ck); err == nil {
			return c14RenderJob(&ck)
		}
		return "x"
	}
	h := sha256.Sum256(b)
	return "b:" + hex.EncodeToString(h[:5])
}

// ---- one run ----

type c14Splitter struct {
	connectors.UnimplementedSourceSplitter
	n atomic.Int64
}

// the splitter's own state travels in the job snapshot too (rendered after the split states)
func (c *c14Splitter) Checkpoint() []byte { c.n.Add(1); return []byte("SPL") }

type c14Key struct {
	id uint64
	op int
}

type c14Run struct {
	nOps            int
	mem             int
	raw             locations.StorageLocation           // the storage, ungated
	loc             *c14Gate                            // what the store writes through
	rel             func(p string) string               // listed path or URI -> path relative to the location root ("/work/op0/x")
	uriOf           func(rel string) string             // relative path -> URI as the DKV file system names it
	dkvFS           func(dir string) storage.FileSystem // DKV file system rooted at a relative directory
	store           *snapshots.Store
	events          chan string
	errs            chan error
	split           *c14Splitter
	dbs             []*dkv.DB
	keep            []any
	pending         uint64
	hasPend         bool
	acked           map[int]bool
	srcAcked        bool
	frozen          bool
	wiped           bool
	dumped          bool
	docURI          map[int]string
	held            map[int][]uint64
	uris            map[string]bool // every DKV URI ever seen (for decoding the artifact listing)
	maxID           uint64
	atCkpt          map[c14Key]string
	original        map[c14Key]string
	created         map[uint64]*snapshotpb.JobCheckpoint
	loaded          *snapshotpb.JobCheckpoint
	scratchN        int
	lastRef         string
	l0              int
	lastH           map[int]recovery.CheckpointHandle
	gen             map[int]int
	hasRef          bool
	released        bool
	restoredListing string
	parkedPub       *c14Held
	heldCreated     map[uint64]bool   // savepoints whose creation was parked: the working storage changed meanwhile
	root            string            // cfg=local: the temp directory, shown as /L in every output
	completed       []uint64          // ids the current store holds as completed
	fresh           bool              // nothing touched the operators' files since the last successful load
	cleanLoad       bool              // that load started from a wiped working storage
	spCkpt          map[c14Key]string // per created savepoint: the operators' scans at their checkpoints
}

func c14Header(h string) (nOps, mem, l0 int, cfg string) {
	nOps, mem, l0, cfg = 1, 100000, 2, "mem"
	for _, w := range strings.Fields(h) {
		if k, v, ok := strings.Cut(w, "="); ok {
			n, _ := strconv.Atoi(v)
			switch k {
			case "cfg":
				cfg = v
			case "ops":
				nOps = n
			case "mem":
				mem = n
			case "l0":
				l0 = n
			}
		}
	}
	if nOps < 1 {
		nOps = 1
	}
	if nOps > 8 {
		nOps = 8
	}
	return
}

func (r *c14Run) opIDs() []string {
	ids := make([]string, r.nOps)
	for i := range ids {
		ids[i] = "op" + strconv.Itoa(i)
	}
	return ids
}

func c14Scan(db *dkv.DB) (res string) {
	defer func() {
		if p := recover(); p != nil {
			res = "panic " + c14Short(fmt.Sprint(p))
		}
	}()
	var sb strings.Builder
	var err error
	for e := range db.ScanPrefix(nil, &err) {
		sb.WriteString(lib.Hex(e.Key()))
		sb.WriteByte('=')
		sb.WriteString(lib.Hex(e.Value()))
		sb.WriteByte(' ')
	}
	if err != nil {
		return "error " + c14Short(err.Error())
	}
	return sb.String()
}

func c14Short(s string) string {
	s = strings.ReplaceAll(s, "\n", " ")
	if len(s) > 120 {
		s = s[:120]
	}
	return s
}

// open a DKV from a handle the way an operator does after a restore; new files go to a scratch directory
func (r *c14Run) openScan(h recovery.CheckpointHandle) (res string) {
	defer func() {
		if p := recover(); p != nil {
			res = "panic " + c14Short(fmt.Sprint(p))
		}
	}()
	r.scratchN++
	fs := r.dkvFS(fmt.Sprintf("/scratch/r%d", r.scratchN))
	db := dkv.Open(dkv.DBOptions{FileSystem: fs}, []recovery.CheckpointHandle{h})
	r.keep = append(r.keep, db)
	return c14Scan(db)
}

func (r *c14Run) waitTasks(db *dkv.DB) {
	done := make(chan struct{})
	go func() { db.WaitOnTasks(); close(done) }()
	select {
	case <-done:
	case <-time.After(10 * time.Second):
	}
}

// afterAck reports whether the acknowledgement completed the snapshot (the store then asked the splitter for its
// state and started the publication, whose job snapshot write parks at the gate)
func (r *c14Run) afterAck(before int64, parkedBefore int) string {
	if r.split.n.Load() == before {
		return ""
	}
	id := r.pending
	r.hasPend = false
	r.acked = map[int]bool{}
	r.srcAcked = false
	deadline := time.After(5 * time.Second)
	for r.loc.parkedCount() == parkedBefore {
		select {
		case <-r.loc.notify:
		case <-time.After(5 * time.Millisecond):
		case <-deadline:
			return " publishing-timeout"
		}
	}
	return fmt.Sprintf(" publishing %d", id)
}

// files lists the storage as (relative path, listed name)
func (r *c14Run) files() [][2]string {
	var out [][2]string
	for p, err := range r.raw.List() {
		if err != nil {
			break
		}
		out = append(out, [2]string{r.rel(p), p})
	}
	sort.Slice(out, func(i, j int) bool { return out[i][0] < out[j][0] })
	return out
}

func (r *c14Run) exists(rel string) bool {
	_, err := r.raw.Read(r.uriOf(rel))
	return err == nil
}

func (r *c14Run) workListing() string {
	var ws []string
	for _, e := range r.files() {
		p := e[0]
		if strings.HasPrefix(p, "/savepoints/") || strings.HasPrefix(p, "/checkpoints/") || strings.HasPrefix(p, "/scratch/") {
			continue
		}
		b, err := r.raw.Read(e[1])
		if err != nil {
			continue
		}
		uri := r.uriOf(p)
		r.uris[uri] = true
		if d, ok := c14ParseDoc(b); ok && filepath.Base(p) == "checkpoints" {
			for _, f := range d.files() {
				r.uris[f] = true
			}
		}
		ws = append(ws, uri+"="+c14RenderContent(p, b))
	}
	sort.Strings(ws)
	if len(ws) == 0 {
		return "-"
	}
	return strings.Join(ws, " ")
}

// referencedListing renders the documents and every file a document references (what a restore can need);
// unreferenced table files may be collected by the DKV at any time and are left out
func (r *c14Run) referencedListing() string {
	ref := map[string]bool{}
	for _, e := range r.files() {
		p := e[0]
		if strings.HasPrefix(p, "/work/") && filepath.Base(p) == "checkpoints" {
			ref[r.uriOf(p)] = true
			if b, err := r.raw.Read(e[1]); err == nil {
				if d, ok := c14ParseDoc(b); ok {
					for _, f := range d.files() {
						ref[f] = true
					}
				}
			}
		}
	}
	var ws []string
	for u := range ref {
		b, err := r.raw.Read(u)
		if err != nil {
			ws = append(ws, u+"=missing")
			continue
		}
		ws = append(ws, u+"="+c14RenderContent(r.rel(u), b))
	}
	sort.Strings(ws)
	return strings.Join(ws, " ")
}

func (r *c14Run) artListing() string {
	// expected artifact paths of every (savepoint id, DKV URI) the run has seen
	exp := map[string][]string{}
	for id := uint64(1); id <= r.maxID+1; id++ {
		for u := range r.uris {
			p := c14ArtifactPath(id, u)
			exp[p] = append(exp[p], fmt.Sprintf("sp:%d:%s", id, u))
		}
		exp[c14SavepointJobPath(id)] = append(exp[c14SavepointJobPath(id)], fmt.Sprintf("spjob:%d", id))
	}
	var ws []string
	for _, e := range r.files() {
		p := e[0]
		if !strings.HasPrefix(p, "/savepoints/") {
			continue
		}
		b, err := r.raw.Read(e[1])
		if err != nil {
			continue
		}
		// leftovers of a failed creation (no job.savepoint) are not an artifact: not compared
		if seg := strings.Split(strings.TrimPrefix(p, "/savepoints/"), "/")[0]; !r.exists("/savepoints/" + seg + "/job.savepoint") {
			continue
		}
		keys := exp[p]
		switch {
		case len(keys) == 0:
			ws = append(ws, "?"+p)
		case len(keys) > 1:
			sort.Strings(keys)
			ws = append(ws, "collision:"+strings.Join(keys, "&"))
		default:
			ws = append(ws, keys[0]+"="+c14RenderContent(p, b))
		}
	}
	sort.Strings(ws)
	if len(ws) == 0 {
		return "-"
	}
	return strings.Join(ws, " ")
}

// a publication that was released; `wasHeld`: its artifact creation was parked between two storage calls
type c14Held struct {
	id             uint64
	expectCleanup  bool
	removesBefore  int64
	spCopiesBefore int64
	wasHeld        bool
}

// awaitPublication waits for the released publication to finish (or, if allowed, to park at the armed storage call)
func (r *c14Run) awaitPublication(h *c14Held, mayHold bool) string {
	id := h.id
	res := ""
	var heldCh chan struct{}
	if mayHold {
		heldCh = r.loc.heldCh
	}
	select {
	case <-heldCh:
		r.parkedPub = h
		return "held"
	case <-r.events:
		res = fmt.Sprintf("published %d", id)
	case <-r.errs:
		res = fmt.Sprintf("savepoint-error %d", id)
	case <-time.After(10 * time.Second):
		return "timeout"
	}
	if r.parkedPub == nil {
		r.loc.armHold(-1)
	}
	r.released = true
	if h.expectCleanup {
		deadline := time.Now().Add(5 * time.Second)
		for r.loc.removes.Load() == h.removesBefore && time.Now().Before(deadline) {
			time.Sleep(200 * time.Microsecond)
		}
		if r.loc.removes.Load() == h.removesBefore {
			res += " cleanup-missing"
		}
	}
	// an artifact was completed during this publication (its job.savepoint was copied)
	if strings.HasPrefix(res, "published") && r.loc.spCopies.Load() > h.spCopiesBefore {
		if b, err := r.raw.Read(r.uriOf(c14SavepointJobPath(id))); err == nil {
			var ck snapshotpb.JobCheckpoint
			if unmarshalProto(b, &ck) == nil && ck.Id == id {
				r.created[id] = &ck
				r.heldCreated[id] = h.wasHeld
				r.countShape(&ck)
				// what the original working storage gives for the savepoint's handles, and what the operators held
				for _, o := range ck.GetOperatorCheckpoints() {
					i, _ := strconv.Atoi(strings.TrimPrefix(o.OperatorId, "op"))
					if !h.wasHeld {
						r.original[c14Key{id, i}] = r.openScan(recovery.CheckpointHandle{CheckpointID: o.CheckpointId, URI: o.DkvFileUri})
					}
					r.spCkpt[c14Key{id, i}] = r.atCkpt[c14Key{id, i}]
				}
				return res + " savepoint"
			}
		}
	}
	return res
}

func (r *c14Run) step(op string) string {
	out := r.step1(op)
	if r.root != "" {
		out = strings.ReplaceAll(out, r.root, "/L")
	}
	return out
}

func (r *c14Run) step1(op string) string {
	f := strings.Fields(op)
	if len(f) == 0 {
		return "bad-op"
	}
	switch f[0] {
	case "put", "del", "opck", "redeploy", "retain", "lose", "wipe", "junk":
		r.fresh = false
	}
	wasDumped, wasReleased := r.dumped, r.released
	r.dumped, r.released = false, false
	idx := func(s string) (int, bool) {
		i, err := strconv.Atoi(s)
		return i, err == nil && i >= 0 && i < r.nOps
	}
	switch f[0] {
	case "put", "del":
		if r.wiped {
			return "wiped"
		}
		if r.frozen {
			return "frozen"
		}
		if (f[0] == "put" && len(f) != 4) || (f[0] == "del" && len(f) != 3) {
			return "bad-op"
		}
		i, ok := idx(f[1])
		if !ok {
			return "ok"
		}
		if f[0] == "put" {
			r.dbs[i].Put(lib.UnHex(f[2]), lib.UnHex(f[3]))
		} else {
			r.dbs[i].Delete(lib.UnHex(f[2]))
		}
		r.waitTasks(r.dbs[i])
		return "ok"
	case "ckpt":
		if r.wiped {
			return "wiped"
		}
		id, err := r.store.CreateCheckpoint(r.opIDs(), []string{"sr"})
		if err != nil {
			return "inprogress"
		}
		r.pending, r.hasPend, r.acked, r.srcAcked = id, true, map[int]bool{}, false
		r.maxID = max(r.maxID, id)
		return fmt.Sprintf("ckpt %d", id)
	case "sp":
		if r.wiped {
			return "wiped"
		}
		id, created, err := r.store.CreateSavepoint(r.opIDs(), []string{"sr"})
		if err != nil {
			return "sp-already"
		}
		r.maxID = max(r.maxID, id)
		if created {
			r.pending, r.hasPend, r.acked, r.srcAcked = id, true, map[int]bool{}, false
			return fmt.Sprintf("sp %d created", id)
		}
		return fmt.Sprintf("sp %d folded", id)
	case "opck":
		if r.wiped {
			return "wiped"
		}
		if r.frozen {
			return "frozen"
		}
		if !r.hasPend {
			return "nopending"
		}
		if len(f) != 2 {
			return "bad-op"
		}
		i, ok := idx(f[1])
		if !ok {
			return "noop"
		}
		if r.acked[i] {
			return "dup"
		}
		id := r.pending
		r.atCkpt[c14Key{id, i}] = c14Scan(r.dbs[i])
		h, err := r.dbs[i].Checkpoint(id)()
		if err != nil {
			return "dkv-checkpoint-error"
		}
		r.docURI[i] = h.URI
		r.lastH[i] = h
		r.held[i] = append(r.held[i], id)
		r.acked[i] = true
		before, pb := r.split.n.Load(), r.loc.parkedCount()
		if err := r.store.AddOperatorSnapshot(&snapshotpb.OperatorCheckpoint{CheckpointId: id, OperatorId: "op" + strconv.Itoa(i),
			DkvFileUri: h.URI, KeyGroupRange: &snapshotpb.KeyGroupRange{Start: int32(i), End: int32(i + 1)}}); err != nil {
			return "ack-error"
		}
		return "ack " + h.URI + r.afterAck(before, pb)
	case "srcack":
		if r.wiped {
			return "wiped"
		}
		if !r.hasPend {
			return "nopending"
		}
		if r.srcAcked {
			return "dup"
		}
		r.srcAcked = true
		before, pb := r.split.n.Load(), r.loc.parkedCount()
		if err := r.store.AddSourceSnapshot(&jobpb.SourceRunnerCheckpointCompleteRequest{CheckpointId: r.pending, SourceRunnerId: "sr",
			SplitStates: [][]byte{[]byte(fmt.Sprintf("s%d", r.pending))}}); err != nil {
			return "ack-error"
		}
		return "ok" + r.afterAck(before, pb)
	case "redeploy":
		// the operator is replaced by a new instance in a NEW directory that recovers from the operator's latest
		// DKV checkpoint: it keeps referencing the previous instance's tables while its own numbering restarts
		if r.wiped {
			return "wiped"
		}
		if r.frozen {
			return "frozen"
		}
		if len(f) != 2 {
			return "ok"
		}
		i, ok := idx(f[1])
		h, has := r.lastH[i]
		if !ok || !has {
			return "ok"
		}
		r.waitTasks(r.dbs[i])
		r.gen[i]++
		db := r.newDB(fmt.Sprintf("/work/op%dg%d", i, r.gen[i]))
		func() {
			defer func() {
				if p := recover(); p != nil {
					db = nil
				}
			}()
			if err := db.Start([]recovery.CheckpointHandle{h}); err != nil {
				db = nil
			}
		}()
		if db != nil {
			r.keep = append(r.keep, r.dbs[i])
			r.dbs[i] = db
			r.held[i] = []uint64{h.CheckpointID}
			r.waitTasks(db)
		}
		return "ok"
	case "retain":
		if r.wiped {
			return "wiped"
		}
		if r.frozen {
			return "frozen"
		}
		if len(f) != 3 {
			return "ok"
		}
		i, ok := idx(f[1])
		if !ok {
			return "ok"
		}
		ids := c14U64List(f[2])
		var keepIDs []uint64
		for _, h := range r.held[i] {
			for _, id := range ids {
				if h == id {
					keepIDs = append(keepIDs, h)
				}
			}
		}
		if len(keepIDs) == 0 {
			return "ok" // the operator would refuse (nothing left)
		}
		func() {
			defer func() { recover() }()
			r.dbs[i].UpdateRetainedCheckpoints(ids)
			r.held[i] = keepIDs
		}()
		return "ok"
	case "lose":
		if r.wiped {
			return "wiped"
		}
		r.frozen = true
		if len(f) != 3 {
			return "ok"
		}
		i, ok := idx(f[1])
		n, _ := strconv.Atoi(f[2])
		if !ok || r.docURI[i] == "" {
			return "ok"
		}
		b, err := r.raw.Read(r.docURI[i])
		if err != nil {
			return "ok"
		}
		if d, ok := c14ParseDoc(b); ok {
			if fs := d.files(); len(fs) > 0 {
				r.raw.Remove(fs[n%len(fs)])
			}
		}
		return "ok"
	case "dump":
		r.dumped = true
		r.lastRef, r.hasRef = r.referencedListing(), true
		return r.workListing()
	case "intact":
		// savepoint_nonintrusive on the implementation: the publication changed no file of the working storage
		if r.wiped {
			return "wiped"
		}
		if !wasReleased || !r.hasRef {
			return "norelease" // only meaningful right after dump + release: nothing else may have written
		}
		if now := r.referencedListing(); now != r.lastRef {
			return "working-storage-changed before=[" + c14Short(r.lastRef) + "] after=[" + c14Short(now) + "]"
		}
		return "ok"
	case "work":
		if r.loaded == nil {
			return "noload" // leftovers of a failed restore are not compared
		}
		if !(r.fresh && r.cleanLoad) {
			return "notclean"
		}
		return r.restoredListing
	case "art":
		return r.artListing()
	case "release":
		if r.wiped {
			return "wiped"
		}
		if !wasDumped {
			return "nodump"
		}
		hold := -1
		if len(f) == 4 && f[2] == "hold" {
			if r.parkedPub != nil {
				return "busy"
			}
			hold, _ = strconv.Atoi(f[3])
		} else if len(f) != 2 {
			return "bad-op"
		}
		k, _ := strconv.Atoi(f[1])
		r.loc.mu.Lock()
		if k < 0 || k >= len(r.loc.parked) {
			r.loc.mu.Unlock()
			return "nothing"
		}
		c := r.loc.parked[k]
		r.loc.parked = append(r.loc.parked[:k:k], r.loc.parked[k+1:]...)
		r.loc.mu.Unlock()
		id, _ := c14JobPathID(c.path)
		// the store removes the job snapshots of older completed checkpoints from its own goroutine: wait for it
		h := &c14Held{id: id, removesBefore: r.loc.removes.Load(), spCopiesBefore: r.loc.spCopies.Load()}
		var kept []uint64
		for _, old := range r.completed {
			if old < id {
				h.expectCleanup = true
			} else {
				kept = append(kept, old)
			}
		}
		r.completed = append([]uint64{id}, kept...)
		if r.parkedPub == nil {
			r.loc.armHold(hold)
		}
		close(c.rel)
		return r.awaitPublication(h, hold >= 0)
	case "resume":
		if r.parkedPub == nil {
			return "nohold"
		}
		if !wasDumped {
			return "nodump"
		}
		h := r.parkedPub
		r.parkedPub = nil
		h.wasHeld = true
		r.loc.resume()
		return r.awaitPublication(h, false)
	case "wipe":
		r.abandon()
		r.wiped = true
		r.loaded = nil
		for _, e := range r.files() {
			if !strings.HasPrefix(e[0], "/savepoints/") {
				r.raw.Remove(e[1])
			}
		}
		return "ok"
	case "junk":
		if !r.wiped {
			return "notwiped"
		}
		if len(f) != 2 {
			return "none"
		}
		i, ok := idx(f[1])
		if !ok || r.docURI[i] == "" {
			return "none"
		}
		r.raw.Write(strings.TrimPrefix(r.rel(r.docURI[i]), "/"), strings.NewReader("{not a document"))
		return "junk " + r.docURI[i]
	case "load":
		// a (re)start of the job from a savepoint URI: after a wipe, or as a roll-back while the job was running
		if len(f) != 2 {
			return "bad-op"
		}
		id, _ := strconv.ParseUint(f[1], 10, 64)
		wasWiped := r.wiped
		r.abandon()
		// the URI the job reports for the savepoint (Store.SavepointURIForID = fileStore.URI of this path)
		uri, err := r.raw.URI(filepath.Join("savepoints", c14Seg(id), "job.savepoint"))
		if err != nil {
			uri = filepath.Join("savepoints", c14Seg(id), "job.savepoint")
		}
		r.newStore(uri)
		r.loaded = nil
		r.wiped = true // no live job unless the load succeeds
		if err := r.store.LoadCheckpoint(); err != nil {
			return "load-error"
		}
		ck := r.store.CurrentCheckpoint()
		if ck == nil {
			return "load-error"
		}
		r.loaded = ck
		r.restoredListing = r.workListing() // before the operators start writing into their new directories
		r.wiped, r.frozen, r.hasPend, r.acked, r.srcAcked = false, false, false, map[int]bool{}, false
		r.completed = []uint64{ck.Id}
		r.maxID = max(r.maxID, ck.Id)
		// the operators are deployed in new directories from the loaded handles
		for _, o := range ck.GetOperatorCheckpoints() {
			i, err := strconv.Atoi(strings.TrimPrefix(o.OperatorId, "op"))
			if err != nil || i < 0 || i >= r.nOps {
				continue
			}
			h := recovery.CheckpointHandle{CheckpointID: o.CheckpointId, URI: o.DkvFileUri}
			// read everything in the foreground first: a writable instance compacts in the background, where a missing
			// file would take the whole process down
			if pre := r.openScan(h); strings.HasPrefix(pre, "panic") || strings.HasPrefix(pre, "error") {
				r.wiped = true
				return "deploy-failed " + o.OperatorId
			}
			r.gen[i]++
			db := r.newDB(fmt.Sprintf("/work/op%dg%d", i, r.gen[i]))
			func() {
				defer func() {
					if p := recover(); p != nil {
						db = nil
					}
				}()
				if err := db.Start([]recovery.CheckpointHandle{h}); err != nil {
					db = nil
				}
			}()
			if db == nil {
				r.wiped = true
				return "deploy-failed " + o.OperatorId
			}
			r.keep = append(r.keep, r.dbs[i])
			r.dbs[i] = db
			r.waitTasks(db)
			r.held[i], r.lastH[i], r.docURI[i] = []uint64{h.CheckpointID}, h, h.URI
		}
		r.fresh, r.cleanLoad = true, wasWiped
		return "loaded " + c14RenderJob(ck)
	case "open":
		if r.loaded == nil {
			return "noload"
		}
		if len(f) != 2 {
			return "bad-op"
		}
		if !r.fresh {
			return "stale"
		}
		for _, o := range r.loaded.GetOperatorCheckpoints() {
			if o.OperatorId != "op"+f[1] {
				continue
			}
			i, _ := strconv.Atoi(f[1])
			if _, ok := r.created[r.loaded.Id]; !ok {
				return "unknown-savepoint"
			}
			key := c14Key{r.loaded.Id, i}
			got := r.openScan(recovery.CheckpointHandle{CheckpointID: o.CheckpointId, URI: o.DkvFileUri})
			if strings.HasPrefix(got, "panic") || strings.HasPrefix(got, "error") {
				return "restored-state-unreadable: " + got
			}
			if !r.heldCreated[r.loaded.Id] && got != r.original[key] {
				return "restored-state-differs-from-original-storage got=[" + c14Short(got) + "] want=[" + c14Short(r.original[key]) + "]"
			}
			if got != r.spCkpt[key] {
				return "restored-state-differs-from-state-at-checkpoint got=[" + c14Short(got) + "] want=[" + c14Short(r.spCkpt[key]) + "]"
			}
			return "ok"
		}
		return "noop"
	}
	return "bad-op"
}

var (
	c14StatMu sync.Mutex
	c14Stat   = map[string]int{}
)

// countShape records, per operator checkpoint of a created savepoint, where its state lives and whether the
// operator's document had already moved on (the D26 window)
func (r *c14Run) countShape(ck *snapshotpb.JobCheckpoint) {
	c14StatMu.Lock()
	defer c14StatMu.Unlock()
	c14Stat["savepoints_created"]++
	for _, o := range ck.GetOperatorCheckpoints() {
		b, err := r.raw.Read(o.DkvFileUri)
		if err != nil {
			continue
		}
		d, ok := c14ParseDoc(b)
		if !ok || len(d.Checkpoints) == 0 {
			continue
		}
		c14Stat["operator_checkpoints"]++
		if d.Checkpoints[len(d.Checkpoints)-1].ID != o.CheckpointId {
			c14Stat["document_last_entry_is_a_later_checkpoint"]++
		}
		if len(d.Checkpoints) > 1 {
			c14Stat["document_with_several_checkpoints"]++
		}
		for _, c := range d.Checkpoints {
			if c.ID != o.CheckpointId {
				continue
			}
			bases := map[string]string{}
			coll := false
			for _, l := range c.Levels {
				for _, t := range l {
					d, b := path.Split(t.URI)
					if od, ok := bases[b]; ok && od != d {
						coll = true
					}
					bases[b] = d
				}
			}
			if coll {
				c14Stat["checkpoint_with_equal_base_names_in_two_directories"]++
			}
			dirs := map[string]bool{}
			for _, d := range bases {
				dirs[d] = true
			}
			if len(dirs) > 1 {
				c14Stat["checkpoint_with_tables_in_several_directories"]++
			}
			l0, deep := 0, 0
			for li, l := range c.Levels {
				if li == 0 {
					l0 += len(l)
				} else {
					deep += len(l)
				}
			}
			switch {
			case l0 == 0 && deep == 0:
				c14Stat["state_in_wal_only"]++
			case deep == 0:
				c14Stat["state_in_l0"]++
			default:
				c14Stat["state_in_deeper_levels"]++
			}
			break
		}
	}
}

// abandon the current job: parked publications fail, nothing of it writes any more
func (r *c14Run) abandon() {
	r.parkedPub = nil
	if r.loc != nil {
		select {
		case <-r.loc.dead:
		default:
			close(r.loc.dead)
		}
	}
	for _, db := range r.dbs {
		r.waitTasks(db)
	}
}

// newStore starts a snapshot store (a job) on the storage, through a fresh gate
func (r *c14Run) newStore(savepointURI string) {
	r.loc = &c14Gate{StorageLocation: r.raw, notify: make(chan struct{}, 1), dead: make(chan struct{}), holdAt: -1,
		heldCh: make(chan struct{}), resumeCh: make(chan struct{})}
	r.parkedPub = nil
	r.events, r.errs = make(chan string, 64), make(chan error, 64)
	r.store = snapshots.NewStore(&snapshots.NewStoreParams{FileStore: r.loc, SavepointsPath: "savepoints", CheckpointsPath: "checkpoints",
		CheckpointEvents: r.events, SavepointURI: savepointURI})
	r.store.VerifSetErrChanC14(r.errs)
	r.store.RegisterSourceSplitter(r.split)
}

func (r *c14Run) newDB(dir string) *dkv.DB {
	db := dkv.New(dkv.DBOptions{FileSystem: r.dkvFS(dir), MemTableSize: uint64(r.mem), TargetFileSize: 256, L0TableNumCompactionTrigger: r.l0})
	comp := db.VerifCompactor()
	comp.SmallestLevelSize = 9000
	comp.LevelSizeMultiplier = 2
	return db
}

func c14Impl(c lib.Case) []string {
	if strings.Contains(c.Header, "mode=cluster") {
		return c14ClusterImpl(c)
	}
	nOps, mem, l0, cfg := c14Header(c.Header)
	// no collection while a case runs: the DKV deletes table files from cleanups of collected tables, at moments
	// that depend on the collector (previous instances stay referenced until the case ends)
	defer debug.SetGCPercent(debug.SetGCPercent(-1))
	r := &c14Run{nOps: nOps, mem: mem, l0: l0, lastH: map[int]recovery.CheckpointHandle{}, gen: map[int]int{}, events: make(chan string, 64), errs: make(chan error, 64), split: &c14Splitter{},
		acked: map[int]bool{}, docURI: map[int]string{}, held: map[int][]uint64{}, uris: map[string]bool{},
		heldCreated: map[uint64]bool{}, spCkpt: map[c14Key]string{}, atCkpt: map[c14Key]string{}, original: map[c14Key]string{}, created: map[uint64]*snapshotpb.JobCheckpoint{}}
	if cfg == "s3" {
		// the S3 configuration: S3Location + dkv S3FileSystem over the repository's in-memory S3 service
		svc := &c14LockedS3{inner: objstore.NewMemoryS3Service()}
		loc, err := locations.NewS3Location(svc, "s3://bucket/job")
		if err != nil {
			panic(err)
		}
		r.raw = loc
		r.rel = func(p string) string { return "/" + strings.TrimPrefix(strings.TrimPrefix(p, "s3://bucket/job"), "/") }
		r.uriOf = func(rel string) string { return "s3://bucket/job" + rel }
		r.dkvFS = func(dir string) storage.FileSystem { return storage.NewS3FileSystem(svc, "bucket", "job"+dir) }
	} else if cfg == "local" {
		// the local configuration: the real LocalDirectory + dkv LocalFilesystem in a temp directory
		root, err := os.MkdirTemp("", "c14-")
		if err != nil {
			panic(err)
		}
		defer os.RemoveAll(root)
		r.root = root
		r.raw = locations.NewLocalDirectory(root)
		r.rel = func(p string) string {
			if strings.HasPrefix(p, root) {
				return strings.TrimPrefix(p, root)
			}
			return "/" + strings.TrimPrefix(p, "/")
		}
		r.uriOf = func(rel string) string { return root + rel }
		r.dkvFS = func(dir string) storage.FileSystem { return storage.NewLocalFilesystem(root + dir) }
	} else {
		mfs := storage.NewMemoryFilesystem()
		r.raw = &c14MemLoc{mfs: mfs}
		r.rel = func(p string) string { return c14Norm(p) }
		r.uriOf = func(rel string) string { return "memory://" + rel }
		r.dkvFS = func(dir string) storage.FileSystem { return mfs.WithWorkingDir(dir) }
	}
	r.newStore("")
	for i := 0; i < nOps; i++ {
		db := r.newDB(fmt.Sprintf("/work/op%d", i))
		if err := db.Start(nil); err != nil {
			panic(err)
		}
		r.dbs = append(r.dbs, db)
	}
	defer func() {
		select {
		case <-r.loc.dead:
		default:
			close(r.loc.dead)
		}
		for _, db := range r.dbs {
			r.waitTasks(db)
		}
		for _, k := range r.keep {
			if db, ok := k.(*dkv.DB); ok {
				r.waitTasks(db)
			}
		}
		runtime.KeepAlive(r.keep)
		runtime.KeepAlive(r.dbs)
	}()
	out := make([]string, 0, len(c.Ops))
	for _, op := range c.Ops {
		out = append(out, r.step(op))
	}
	return out
}

// ---- generator ----

func c14PickCfg(r *lib.Rng) string {
	switch r.Intn(24) {
	case 0, 1, 2, 3, 4, 5:
		return "s3"
	case 6:
		return "local" // real directories, fsync and cp: slower, so fewer
	}
	return "mem"
}

// c14GenRollback: savepoint M, later savepoint N, the job is rolled back to M (with or without losing the working
// storage) and runs on for N-M more checkpoints; then savepoint N is used. With the working storage lost the
// restored job reaches id N again; with it kept the ids continue above the job snapshots still in the file store
// (D49: counter = max(savepoint id, newest local id)).
func c14GenRollback(r *lib.Rng) lib.Case {
	n := r.Range(1, 2)
	mem := lib.Pick(r, []int{250, 100000, 100000})
	var ops []string
	keys := []string{"61", "62", "6263", "63", "6461", "65"}
	writes := func(cnt int) {
		for j := 0; j < cnt; j++ {
			ops = append(ops, fmt.Sprintf("put %d %s %s", r.Intn(n), lib.Pick(r, keys), lib.Hex(r.Bytes(r.Range(1, 30)))))
		}
	}
	cycle := func(first string) {
		ops = append(ops, first)
		for o := 0; o < n; o++ {
			ops = append(ops, fmt.Sprintf("opck %d", o))
		}
		ops = append(ops, "srcack", "dump", "release 0")
	}
	opens := func() {
		for o := 0; o < n; o++ {
			ops = append(ops, fmt.Sprintf("open %d", o))
		}
	}
	writes(r.Range(1, 12))
	cycle("sp") // M = 1
	k := r.Intn(3)
	for j := 0; j < k; j++ {
		writes(r.Intn(5))
		cycle("ckpt")
	}
	writes(r.Range(1, 8))
	cycle("sp") // N = 2 + k
	nID := 2 + k
	if r.Chance(1, 3) {
		ops = append(ops, "wipe")
	}
	ops = append(ops, "load 1")
	opens()
	for id := 2; id <= nID; id++ {
		writes(r.Range(1, 6))
		cycle("ckpt")
	}
	if r.Chance(1, 2) {
		ops = append(ops, "wipe")
	}
	ops = append(ops, fmt.Sprintf("load %d", nID))
	opens()
	if r.Chance(1, 2) {
		ops = append(ops, "load 1")
		opens()
	}
	ops = append(ops, "work", "art")
	cfg := c14PickCfg(r)
	if r.Chance(1, 6) {
		cfg = "local"
	}
	return lib.Case{Header: fmt.Sprintf("M C14 ops=%d mem=%d l0=2 cfg=%s", n, mem, cfg), Ops: ops, Tags: []string{"rollback", "cfg-" + cfg}}
}

func c14Gen(r *lib.Rng, tier string, i int) lib.Case {
	if r.Chance(1, 12) {
		return c14ClusterGen(r) // the real Job + workers end to end
	}
	if r.Chance(1, 5) {
		return c14GenRollback(r)
	}
	n := r.Range(1, 3)
	mem := lib.Pick(r, []int{120, 250, 500, 100000})
	var ops []string
	keys := []string{"61", "62", "6263", "63", "6461", "65", "66", "6768", "69", "6a6b6c"}
	writes := func(cnt int) {
		for j := 0; j < cnt; j++ {
			o := r.Intn(n)
			k := lib.Pick(r, keys)
			if r.Chance(1, 6) {
				ops = append(ops, fmt.Sprintf("del %d %s", o, k))
			} else {
				ops = append(ops, fmt.Sprintf("put %d %s %s", o, k, lib.Hex(r.Bytes(r.Range(1, 40)))))
			}
		}
	}
	shuffledAcks := func(skip map[int]bool, withSrc bool) []string {
		var a []string
		for o := 0; o < n; o++ {
			if !skip[o] {
				a = append(a, fmt.Sprintf("opck %d", o))
			}
		}
		if withSrc {
			a = append(a, "srcack")
		}
		for j := len(a) - 1; j > 0; j-- {
			k := r.Intn(j + 1)
			a[j], a[k] = a[k], a[j]
		}
		return a
	}
	nextID := 1
	var tags []string
	l0 := lib.Pick(r, []int{2, 10000, 10000})
	redeployed := false
	maybeRedeploy := func() {
		for o := 0; o < n; o++ {
			if r.Chance(1, 2) {
				ops = append(ops, fmt.Sprintf("redeploy %d", o))
				redeployed = true
			}
		}
		if redeployed {
			writes(r.Range(4, 20)) // so that the new instance flushes tables of its own
		}
	}
	writes(r.Range(0, 40))
	// periodic checkpoints before the savepoint
	for c := lib.Pick(r, []int{0, 1, 1, 2}); c > 0; c-- {
		ops = append(ops, "ckpt")
		for _, a := range shuffledAcks(nil, true) {
			ops = append(ops, a)
			writes(r.Intn(4))
		}
		ops = append(ops, "dump", "release 0")
		if r.Chance(2, 3) {
			for o := 0; o < n; o++ {
				ops = append(ops, fmt.Sprintf("retain %d %d", o, nextID))
			}
		}
		nextID++
		maybeRedeploy()
		writes(r.Range(0, 25))
	}
	// the savepoint request
	spID := nextID
	nextID++
	skip := map[int]bool{}
	srcDone := false
	if r.Chance(1, 2) {
		ops = append(ops, "sp")
		if r.Chance(1, 4) {
			ops = append(ops, "sp")
		}
		if r.Chance(1, 4) {
			ops = append(ops, "ckpt")
		}
	} else {
		tags = append(tags, "fold")
		ops = append(ops, "ckpt")
		for _, a := range shuffledAcks(nil, true) {
			if r.Chance(1, 2) && len(skip) < n-1 || a == "srcack" && r.Chance(1, 2) {
				ops = append(ops, a)
				if a == "srcack" {
					srcDone = true
				} else {
					o, _ := strconv.Atoi(strings.Fields(a)[1])
					skip[o] = true
				}
			}
		}
		if n == 1 && srcDone && len(skip) == 1 {
			// everything acknowledged: the checkpoint is already complete, the request starts a new one
			tags = append(tags, "fold-too-late")
		}
		ops = append(ops, "sp")
	}
	for _, a := range shuffledAcks(skip, !srcDone) {
		ops = append(ops, a)
		writes(r.Intn(4))
	}
	// between completion and artifact creation: the next periodic checkpoint
	second := false
	if r.Chance(3, 5) {
		tags = append(tags, "window")
		ops = append(ops, "ckpt")
		id2 := nextID
		nextID++
		if r.Chance(1, 3) {
			maybeRedeploy()
		}
		writes(r.Range(0, 20))
		sub := map[int]bool{}
		for o := 0; o < n; o++ {
			if r.Chance(1, 3) {
				sub[o] = true
			}
		}
		all := len(sub) == 0 && r.Chance(2, 3)
		for _, a := range shuffledAcks(sub, all) {
			ops = append(ops, a)
			writes(r.Intn(3))
		}
		second = all
		if second && r.Chance(1, 3) {
			tags = append(tags, "overtaken")
			ops = append(ops, "dump", "release 1")
			second = false
			for o := 0; o < n; o++ {
				if r.Chance(2, 3) {
					ops = append(ops, fmt.Sprintf("retain %d %d", o, id2))
				}
			}
		}
	}
	if r.Chance(1, 10) {
		tags = append(tags, "lose")
		ops = append(ops, fmt.Sprintf("lose %d %d", r.Intn(n), r.Intn(50)))
	}
	if r.Chance(1, 5) {
		// the artifact creation is parked before one of its storage calls (document reads and copies) while the job
		// goes on: next checkpoint, operators' checkpoints, retention updates (D53 when it hits the document copy)
		tags = append(tags, "held-creation")
		hold := r.Intn(7)
		if n == 1 && mem == 100000 {
			hold = r.Intn(4) // read, WAL, document, job snapshot
		}
		ops = append(ops, "dump", fmt.Sprintf("release 0 hold %d", hold), "ckpt")
		writes(r.Intn(6))
		// Retention updates (which DELETE the WALs of dropped checkpoints) race with the copies only where the operator
		// checkpoint is a single data file (one operator, state in the WAL only): with several files, whether the
		// creation fails visibly or succeeds depends on the ORDER in which it copies them, which is not part of the
		// property (a harmless reordering of ListCheckpointFiles must stay silent). Excluded therefore: deletions
		// racing with multi-file copies; environment moves that only add (checkpoints, writes) are generated everywhere.
		singleFile := n == 1 && mem == 100000
		for o := 0; o < n; o++ {
			if r.Chance(2, 3) {
				ops = append(ops, fmt.Sprintf("opck %d", o))
				if singleFile && r.Chance(1, 2) {
					ops = append(ops, fmt.Sprintf("retain %d %d", o, nextID))
				}
			}
		}
		ops = append(ops, "dump", "resume")
	} else {
		ops = append(ops, "dump", "release 0", "intact")
	}
	if second && r.Chance(1, 2) {
		ops = append(ops, "dump", "release 0")
	}
	ops = append(ops, "wipe")
	if r.Chance(1, 5) {
		ops = append(ops, fmt.Sprintf("junk %d", r.Intn(n)))
	}
	if r.Chance(1, 12) {
		ops = append(ops, fmt.Sprintf("load %d", spID+1+r.Intn(2)))
	}
	loadAndOpen := func() {
		ops = append(ops, fmt.Sprintf("load %d", spID))
		for o := 0; o < n; o++ {
			ops = append(ops, fmt.Sprintf("open %d", o))
		}
	}
	loadAndOpen()
	if r.Chance(1, 3) {
		// the restored job runs on, publishes a checkpoint (cleanup of the snapshot it loaded), and the same
		// savepoint URI is used again
		tags = append(tags, "restart-twice")
		writes(r.Intn(6))
		ops = append(ops, "ckpt")
		ops = append(ops, shuffledAcks(nil, true)...)
		ops = append(ops, "dump", "release 0")
		if r.Chance(1, 2) {
			ops = append(ops, "wipe")
		}
		loadAndOpen()
	}
	// mechanism observations last: a divergence there must not hide a property-level one
	ops = append(ops, "work", "art")
	cfg := c14PickCfg(r)
	tags = append(tags, "cfg-"+cfg)
	if redeployed {
		tags = append(tags, "redeployed")
	}
	return lib.Case{Header: fmt.Sprintf("M C14 ops=%d mem=%d l0=%d cfg=%s", n, mem, l0, cfg), Ops: ops, Tags: tags}
}

func c14Fixed(tier string) []lib.Case {
	big := strings.Repeat("7a", 90)
	return []lib.Case{
		// D26: the operator saves checkpoint 2 into its document between the completion of savepoint 1 and the
		// creation of its artifact. State of checkpoint 1 is in the WAL only.
		{Header: "M C14 ops=1 mem=100000", Tags: []string{"regress-D26"}, Ops: []string{
			"put 0 61 01", "put 0 62 02", "sp", "opck 0", "srcack", "ckpt", "put 0 61 ff", "put 0 63 03", "opck 0",
			"dump", "release 0", "intact", "wipe", "load 1", "open 0", "work", "art"}},
		// D26 with flushed state: tables of checkpoint 1 compacted away before the artifact is created
		{Header: "M C14 ops=2 mem=120", Tags: []string{"regress-D26"}, Ops: []string{
			"put 0 61 " + big, "put 0 62 " + big, "put 1 63 " + big, "put 0 64 01", "sp", "opck 0", "opck 1", "srcack", "ckpt",
			"put 0 61 " + big, "put 0 65 " + big, "put 0 62 " + big, "put 0 66 " + big, "del 0 64", "opck 0", "opck 1", "srcack",
			"dump", "release 0", "dump", "release 0", "wipe", "load 1", "open 0", "open 1", "work", "art"}},
		// the next checkpoint overtakes the savepoint and the operator drops the savepoint's checkpoint: creation must fail
		{Header: "M C14 ops=1 mem=100000", Tags: []string{"overtaken"}, Ops: []string{
			"put 0 61 01", "sp", "opck 0", "srcack", "ckpt", "put 0 61 02", "opck 0", "srcack", "dump", "release 1", "retain 0 2",
			"dump", "release 0", "wipe", "load 1", "open 0", "art"}},
		// D38: the S3 configuration (restore from an s3:// savepoint URI), also with the D26 window and flushed state
		{Header: "M C14 ops=1 mem=100000 cfg=s3", Tags: []string{"regress-D38"}, Ops: []string{
			"put 0 61 01", "sp", "opck 0", "srcack", "dump", "release 0", "intact", "wipe", "load 1", "open 0", "work", "art"}},
		{Header: "M C14 ops=2 mem=120 cfg=s3", Tags: []string{"regress-D38", "regress-D26"}, Ops: []string{
			"put 0 61 " + big, "put 0 62 " + big, "put 1 63 " + big, "put 0 64 01", "ckpt", "opck 1", "sp", "opck 0", "srcack", "ckpt",
			"put 0 61 " + big, "put 0 65 " + big, "put 0 62 " + big, "del 0 64", "opck 0", "opck 1",
			"dump", "release 0", "intact", "wipe", "load 1", "open 0", "open 1", "work", "art"}},
		// an operator redeployed in a new directory still references the previous instance's tables while its own table
		// numbering restarts: equal base names in two directories inside one operator checkpoint (seeded C14-1)
		{Header: "M C14 ops=1 mem=120 l0=10000", Tags: []string{"redeployed", "seeded-C14-1"}, Ops: []string{
			"put 0 61 " + big, "put 0 62 " + big, "put 0 63 " + big, "ckpt", "opck 0", "srcack", "dump", "release 0", "redeploy 0",
			"put 0 64 " + big, "put 0 65 " + big, "put 0 61 " + big + "01", "sp", "opck 0", "srcack",
			"dump", "release 0", "intact", "wipe", "load 2", "open 0", "work", "art"}},
		{Header: "M C14 ops=2 mem=120 l0=10000 cfg=s3", Tags: []string{"redeployed", "seeded-C14-1"}, Ops: []string{
			"put 0 61 " + big, "put 0 62 " + big, "put 1 63 " + big, "put 1 66 " + big, "ckpt", "opck 1", "opck 0", "srcack", "dump", "release 0",
			"redeploy 0", "redeploy 1", "put 0 64 " + big, "put 0 65 " + big, "put 1 67 " + big, "put 1 63 " + big + "02", "sp", "opck 0", "opck 1", "srcack",
			"dump", "release 0", "intact", "wipe", "load 2", "open 0", "open 1", "work", "art"}},
		// seeded C14-3: savepoint 2, roll back to savepoint 1 (working storage kept), the job publishes checkpoint 2 again;
		// savepoint 2 must still hold its own snapshot (real LocalDirectory: Copy must give an independent file)
		{Header: "M C14 ops=1 mem=100000 cfg=local", Tags: []string{"rollback", "seeded-C14-3"}, Ops: []string{
			"put 0 61 01", "sp", "opck 0", "srcack", "dump", "release 0", "put 0 61 02", "sp", "opck 0", "srcack", "dump", "release 0",
			"load 1", "open 0", "put 0 61 03", "put 0 62 04", "ckpt", "opck 0", "srcack", "dump", "release 0", "load 2", "open 0", "art"}},
		// seeded C14-4: the job restored from savepoint 1 publishes its first checkpoint (the snapshot it loaded becomes
		// obsolete and is cleaned up); savepoint 1 must still be there for a second start
		{Header: "M C14 ops=1 mem=100000 cfg=mem", Tags: []string{"restart-twice", "seeded-C14-4"}, Ops: []string{
			"put 0 61 01", "sp", "opck 0", "srcack", "dump", "release 0", "wipe", "load 1", "open 0", "put 0 62 02", "ckpt", "opck 0", "srcack",
			"dump", "release 0", "load 1", "open 0", "wipe", "load 1", "open 0", "work", "art"}},
		{Header: "M C14 ops=2 mem=250 cfg=local", Tags: []string{"restart-twice", "seeded-C14-4"}, Ops: []string{
			"put 0 61 01", "put 1 62 " + big, "put 1 63 " + big, "sp", "opck 1", "opck 0", "srcack", "dump", "release 0", "intact", "wipe", "load 1",
			"open 0", "open 1", "put 0 62 02", "ckpt", "opck 0", "opck 1", "srcack", "dump", "release 0", "wipe", "load 1", "open 0", "open 1", "work", "art"}},
		// D53 (open): the operator applies the retention of the next checkpoint while the artifact of savepoint 1 is being
		// copied, just before its document is copied: the announced savepoint cannot be restored
		{Header: "M C14 ops=1 mem=100000 cfg=mem", Tags: []string{"held-creation", "regress-D53"}, Ops: []string{
			"put 0 61 01", "sp", "opck 0", "srcack", "dump", "release 0 hold 2", "ckpt", "put 0 61 02", "opck 0", "retain 0 2",
			"dump", "resume", "wipe", "load 1", "open 0", "art"}},
		// the same moves before the document is READ (creation fails visibly) and before the WAL copy (copy fails visibly)
		{Header: "M C14 ops=1 mem=100000 cfg=s3", Tags: []string{"held-creation"}, Ops: []string{
			"put 0 61 01", "sp", "opck 0", "srcack", "dump", "release 0 hold 0", "ckpt", "put 0 61 02", "opck 0", "retain 0 2",
			"dump", "resume", "wipe", "load 1", "open 0", "art"}},
		{Header: "M C14 ops=1 mem=100000 cfg=local", Tags: []string{"held-creation"}, Ops: []string{
			"put 0 61 01", "sp", "opck 0", "srcack", "dump", "release 0 hold 1", "ckpt", "put 0 61 02", "opck 0", "retain 0 2",
			"dump", "resume", "wipe", "load 1", "open 0", "art"}},
		// a held creation that nothing interferes with: later checkpoint added to the document only
		{Header: "M C14 ops=2 mem=120 cfg=mem", Tags: []string{"held-creation"}, Ops: []string{
			"put 0 61 " + big, "put 0 62 " + big, "put 1 63 01", "sp", "opck 0", "opck 1", "srcack", "dump", "release 0 hold 3", "ckpt",
			"put 0 61 02", "opck 0", "opck 1", "dump", "resume", "wipe", "load 1", "open 0", "open 1", "work", "art"}},
		// cluster mode: real Job.HandleCreateSavepoint (folded into a periodic checkpoint), wipe, jobs.New{SavepointURI},
		// real operators deployed from the restored handles: same count, then a different count
		{Header: "M C14 mode=cluster n=2 kgc=8 splits=2 keys=4 rot=2", Tags: []string{"cluster"}, Ops: []string{
			"boot", "feed 1 20", "ckpt 3", "feed 2 9", "savepoint 5 fold", "feed 3 7", "ckpt 4", "restart 2 wipe", "feed 4 18"}},
		{Header: "M C14 mode=cluster n=2 kgc=8 splits=3 keys=5 rot=0", Tags: []string{"cluster", "cluster-rescale"}, Ops: []string{
			"boot", "feed 11 24", "savepoint 6", "feed 12 5", "restart 3 wipe", "feed 13 20"}},
		{Header: "M C14 mode=cluster n=3 kgc=16 splits=2 keys=6 rot=0", Tags: []string{"cluster", "cluster-rescale"}, Ops: []string{
			"boot", "feed 21 24", "savepoint 7", "restart 1 keep", "feed 23 20"}},
		// open finding (savepoint ids reused): savepoints 1 and 2 exist, the working storage is lost, the job is rolled back
		// to savepoint 1 and asked for a savepoint: it gets id 2 again and replaces the earlier savepoint 2
		{Header: "M C14 ops=1 mem=100000 cfg=local", Tags: []string{"rollback", "savepoint-id-reuse"}, Ops: []string{
			"put 0 61 01", "sp", "opck 0", "srcack", "dump", "release 0", "put 0 61 02", "sp", "opck 0", "srcack", "dump", "release 0",
			"wipe", "load 1", "open 0", "put 0 61 03", "sp", "opck 0", "srcack", "dump", "release 0", "wipe", "load 2", "open 0", "art"}},
		// cluster mode with a timer-setting handler: timers pending at the savepoint fire exactly once after the restart
		{Header: "M C14 mode=cluster n=2 kgc=8 splits=2 keys=4 rot=0 timers=1", Tags: []string{"cluster", "cluster-timers"}, Ops: []string{
			"boot", "feed 1 20", "feed 2 9", "savepoint 5", "feed 3 7", "restart 2 wipe", "feed 4 18", "feed 5 30", "timersdue"}},
		{Header: "M C14 mode=cluster n=2 kgc=8 splits=3 keys=5 rot=2 timers=1", Tags: []string{"cluster", "cluster-timers", "cluster-rescale"}, Ops: []string{
			"boot", "feed 6 24", "savepoint 7 fold", "restart 3 wipe", "feed 8 20", "feed 9 30", "timersdue"}},
		// D65 (open): the next checkpoint is published while the artifact of savepoint 1 is being copied; its cleanup removes
		// job-1.snapshot, which the creation copies LAST: the requested savepoint never exists (and, NewStore dropping
		// ErrChan, nobody is told)
		{Header: "M C14 ops=1 mem=100000 cfg=mem", Tags: []string{"held-creation", "D65"}, Ops: []string{
			"put 0 61 01", "sp", "opck 0", "srcack", "dump", "release 0 hold 1", "ckpt", "put 0 61 02", "opck 0", "srcack",
			"dump", "release 0", "dump", "resume", "art"}},
		// a savepoint request folds into the pending checkpoint
		{Header: "M C14 ops=2 mem=250", Tags: []string{"fold"}, Ops: []string{
			"put 0 61 01", "put 1 62 02", "ckpt", "opck 1", "sp", "sp", "ckpt", "put 0 61 03", "opck 0", "srcack",
			"dump", "release 0", "wipe", "junk 0", "load 1", "open 0", "open 1", "work", "art"}},
	}
}

func propC14() *lib.Prop {
	return &lib.Prop{
		ID:       "C14",
		Rule:     "a savepoint artifact was created by the real Store, all working storage was deleted, the job checkpoint was loaded from the savepoint URI and at least one operator DKV opened from the restored handle scans equal to the checkpoint",
		Corr:     "Model/Savepoint.lean (createArtifact, loadFromSavepoint, openDB, createSavepoint/createCheckpoint/ackOp/ackSrc/publish) <-> storage/snapshots (Store, CreateSavepointArtifact, RestoreCheckpointFromSavepointArtifact), dkv/recovery ListCheckpointFiles/LoadCheckpointList over real dkv documents",
		FeedImpl: true,
		NumCases: func(tier string) int {
			if tier == "thorough" {
				return 12000
			}
			return 1500
		},
		Gen:   c14Gen,
		Impl:  c14Impl,
		Fixed: c14Fixed,
		Nontrivial: func(c lib.Case, out []string) bool {
			sp, ok := false, false
			for i, o := range out {
				if strings.HasPrefix(o, "published ") && strings.HasSuffix(o, " savepoint") {
					sp = true
				}
				if strings.HasPrefix(c.Ops[i], "open ") && o == "ok" {
					ok = true
				}
				if o == "restored ok" { // cluster mode: the real job started from the savepoint URI
					sp, ok = true, true
				}
			}
			return sp && ok
		},
		Extra: func() map[string]any {
			c14StatMu.Lock()
			defer c14StatMu.Unlock()
			m := map[string]any{}
			for k, v := range c14Stat {
				m[k] = v
			}
			return m
		},
		MObs: func(op string) bool {
			switch strings.Fields(op + " x")[0] {
			case "dump", "art", "work", "junk", "retain", "lose", "redeploy":
				return true
			}
			return false
		},
	}
}

func unmarshalProto(b []byte, m proto.Message) error { return proto.Unmarshal(b, m) }

func c14U64List(s string) []uint64 {
	var out []uint64
	for _, f := range strings.Split(s, ",") {
		if v, err := strconv.ParseUint(f, 10, 64); err == nil {
			out = append(out, v)
		}
	}
	return out
}
