package main

// Shared by C12 and C13: an in-memory StorageLocation with byte-lexicographic listing (what LocalDirectory's
// WalkDir and S3 listings produce), and a gating wrapper that parks Write/Remove calls so the harness decides
// when each storage step of a publication happens.

import (
	"encoding/base64"
	"encoding/binary"
	"errors"
	"io"
	"iter"
	"math"
	"path/filepath"
	"sort"
	"strconv"
	"strings"
	"sync"
	"sync/atomic"
	"time"

	"reduction.dev/reduction/connectors"
	"reduction.dev/reduction/storage/locations"
)

type memLoc struct {
	mu    sync.Mutex
	files map[string][]byte
	hist  map[string][]byte // last content ever written per path (survives Remove): what was persisted
}

func newMemLoc() *memLoc { return &memLoc{files: map[string][]byte{}, hist: map[string][]byte{}} }

// Written returns what was last written to path, also if the file has been removed since.
func (m *memLoc) Written(path string) ([]byte, bool) {
	m.mu.Lock()
	defer m.mu.Unlock()
	b, ok := m.hist[path]
	return b, ok
}

func (m *memLoc) Write(path string, data io.Reader) (string, error) {
	b, err := io.ReadAll(data)
	if err != nil {
		return "", err
	}
	m.mu.Lock()
	defer m.mu.Unlock()
	m.files[path] = b
	m.hist[path] = b
	return path, nil
}

func (m *memLoc) Read(path string) ([]byte, error) {
	m.mu.Lock()
	defer m.mu.Unlock()
	b, ok := m.files[path]
	if !ok {
		return nil, locations.ErrNotFound
	}
	return append([]byte(nil), b...), nil
}

func (m *memLoc) List() iter.Seq2[string, error] {
	m.mu.Lock()
	names := make([]string, 0, len(m.files))
	for k := range m.files {
		names = append(names, k)
	}
	m.mu.Unlock()
	sort.Strings(names) // byte-wise, as object stores and WalkDir list
	return func(yield func(string, error) bool) {
		for _, n := range names {
			if !yield(n, nil) {
				return
			}
		}
	}
}

func (m *memLoc) URI(path string) (string, error) {
	m.mu.Lock()
	defer m.mu.Unlock()
	if _, ok := m.files[path]; !ok {
		return "", locations.ErrNotFound
	}
	return path, nil
}

func (m *memLoc) Copy(src, dst string) error {
	m.mu.Lock()
	defer m.mu.Unlock()
	b, ok := m.files[src]
	if !ok {
		return locations.ErrNotFound
	}
	m.files[dst] = append([]byte(nil), b...)
	return nil
}

func (m *memLoc) Remove(paths ...string) error {
	m.mu.Lock()
	defer m.mu.Unlock()
	for _, p := range paths {
		delete(m.files, p)
	}
	return nil
}

var _ locations.StorageLocation = (*memLoc)(nil)

// ---- gating wrapper ----

type gateCall struct {
	write     bool
	paths     []string
	relA      chan struct{} // closed by the harness: perform the operation
	performed chan struct{} // closed by the call after the inner operation ran
	relB      chan struct{} // writes only: closed by the harness to let Write return
	isDone    atomic.Bool
	partial   atomic.Bool // writes only: the writer is lost half way through the inner Write (crash during the write)
}

// dyingReader delivers its data and then fails instead of reporting EOF: the writing process is lost mid-write.
// With `die` the loss is a process death: the reader panics, so that no error path of the writer runs (an error
// path that tidies up is not what a crash leaves behind; seeded C13-9 created new files in place and removed the
// truncated file only on the error path).
type dyingReader struct {
	data []byte
	die  bool
}

var errWriterDied = errors.New("writer process died")

func (r *dyingReader) Read(p []byte) (int, error) {
	if len(r.data) == 0 {
		if r.die {
			panic(errWriterDied)
		}
		return 0, errors.New("writer lost")
	}
	n := copy(p, r.data)
	r.data = r.data[n:]
	return n, nil
}

var errGateDead = errors.New("storage abandoned (crash)")

type gateLoc struct {
	inner   locations.StorageLocation
	mu      sync.Mutex
	calls   []*gateCall
	changed chan struct{}
	dead    chan struct{}
}

func newGateLoc(inner locations.StorageLocation) *gateLoc {
	return &gateLoc{inner: inner, changed: make(chan struct{}), dead: make(chan struct{})}
}

func (g *gateLoc) add(c *gateCall) {
	g.mu.Lock()
	g.calls = append(g.calls, c)
	close(g.changed)
	g.changed = make(chan struct{})
	g.mu.Unlock()
}

// kill abandons the location: every parked or later mutation fails without touching the storage.
func (g *gateLoc) kill() { close(g.dead) }

// waitFor returns the first registered call satisfying pred, waiting up to d for it to arrive.
func (g *gateLoc) waitFor(pred func(*gateCall) bool, d time.Duration) *gateCall {
	deadline := time.After(d)
	for {
		g.mu.Lock()
		for _, c := range g.calls {
			if pred(c) {
				g.mu.Unlock()
				return c
			}
		}
		ch := g.changed
		g.mu.Unlock()
		select {
		case <-ch:
		case <-deadline:
			return nil
		}
	}
}

// count returns the calls satisfying pred right now.
func (g *gateLoc) snapshot(pred func(*gateCall) bool) []*gateCall {
	g.mu.Lock()
	defer g.mu.Unlock()
	var out []*gateCall
	for _, c := range g.calls {
		if pred(c) {
			out = append(out, c)
		}
	}
	return out
}

func (g *gateLoc) Write(path string, data io.Reader) (string, error) {
	b, err := io.ReadAll(data)
	if err != nil {
		return "", err
	}
	c := &gateCall{write: true, paths: []string{path}, relA: make(chan struct{}), performed: make(chan struct{}), relB: make(chan struct{})}
	g.add(c)
	select {
	case <-c.relA:
	case <-g.dead:
		return "", errGateDead
	}
	if c.partial.Load() {
		// LocalDirectory.Write holds no lock, so unwinding through it is what a process death at that point leaves on disk
		_, die := g.inner.(*locations.LocalDirectory)
		err := func() (err error) {
			defer func() {
				if r := recover(); r != nil {
					if r != errWriterDied {
						panic(r)
					}
					err = errWriterDied
				}
			}()
			_, err = g.inner.Write(path, &dyingReader{data: b[:len(b)/2], die: die})
			return err
		}()
		close(c.performed)
		return "", err
	}
	uri, err := g.inner.Write(path, strings.NewReader(string(b)))
	close(c.performed)
	select {
	case <-c.relB:
	case <-g.dead:
		return "", errGateDead
	}
	c.isDone.Store(true)
	return uri, err
}

func (g *gateLoc) Remove(paths ...string) error {
	c := &gateCall{paths: append([]string(nil), paths...), relA: make(chan struct{}), performed: make(chan struct{})}
	g.add(c)
	select {
	case <-c.relA:
	case <-g.dead:
		return errGateDead
	}
	err := g.inner.Remove(paths...)
	c.isDone.Store(true)
	close(c.performed)
	return err
}

func (g *gateLoc) Read(path string) ([]byte, error)  { return g.inner.Read(path) }
func (g *gateLoc) List() iter.Seq2[string, error]    { return g.inner.List() }
func (g *gateLoc) URI(path string) (string, error)   { return g.inner.URI(path) }
func (g *gateLoc) Copy(src string, dst string) error { return g.inner.Copy(src, dst) }

var _ locations.StorageLocation = (*gateLoc)(nil)

// ---- the harness's own (independent) file naming, used to create and to decode storage content ----

func c13Seg(id uint64) string {
	var buf [8]byte
	binary.BigEndian.PutUint64(buf[:], math.MaxUint64-id)
	return base64.RawURLEncoding.EncodeToString(buf[:])
}

func c13Path(id uint64) string { return "checkpoints/job-" + c13Seg(id) + ".snapshot" }

// c13DecodePath returns the id of a job snapshot path as this harness understands the naming contract.
func c13DecodePath(p string) (uint64, bool) {
	base := filepath.Base(p)
	if filepath.Base(filepath.Dir(p)) != "checkpoints" || !strings.HasPrefix(base, "job-") || !strings.HasSuffix(base, ".snapshot") {
		return 0, false
	}
	seg := strings.TrimSuffix(strings.TrimPrefix(base, "job-"), ".snapshot")
	b, err := base64.RawURLEncoding.Strict().DecodeString(seg)
	if err != nil || len(b) != 8 {
		return 0, false
	}
	return math.MaxUint64 - binary.BigEndian.Uint64(b), true
}

// c13Files lists the job snapshot files of a location as sorted ids; unknown *.snapshot names are shown raw.
func c13Files(loc locations.StorageLocation) string {
	var ids []uint64
	var odd []string
	for p, err := range loc.List() {
		if err != nil {
			return "files error"
		}
		if id, ok := c13DecodePath(p); ok {
			ids = append(ids, id)
		} else if strings.HasSuffix(p, ".snapshot") && !strings.Contains(p, "!!!") {
			odd = append(odd, filepath.Base(p))
		}
	}
	sort.Slice(ids, func(i, j int) bool { return ids[i] < ids[j] })
	parts := make([]string, 0, len(ids)+len(odd))
	for _, id := range ids {
		parts = append(parts, strconv.FormatUint(id, 10))
	}
	parts = append(parts, odd...)
	if len(parts) == 0 {
		return "files -"
	}
	return "files " + strings.Join(parts, ",")
}

func u64List(s string) []uint64 {
	if s == "-" || s == "" {
		return nil
	}
	var out []uint64
	for _, f := range strings.Split(s, ",") {
		v, _ := strconv.ParseUint(f, 10, 64)
		out = append(out, v)
	}
	return out
}

func showU64s(ids []uint64) string {
	if len(ids) == 0 {
		return "-"
	}
	s := append([]uint64(nil), ids...)
	sort.Slice(s, func(i, j int) bool { return s[i] < s[j] })
	parts := make([]string, len(s))
	for i, v := range s {
		parts[i] = strconv.FormatUint(v, 10)
	}
	return strings.Join(parts, ",")
}

// countingSplitter is the stub source splitter; Checkpoint() is called by Store.finishSnapshot inside the
// store's critical section, so its counter tells the harness that the current call finished a snapshot.
type countingSplitter struct {
	connectors.UnimplementedSourceSplitter
	n atomic.Int64
}

func (c *countingSplitter) Checkpoint() []byte { c.n.Add(1); return nil }
