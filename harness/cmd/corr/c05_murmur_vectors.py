# Independent source of the expected values in C05.murmur_vectors / murmur_vectors_long and c05Vectors (c05.go):
# run `python3 c05_murmur_vectors.py`; every line must start with OK (published value == value computed here).
# MurmurHash3_x86_32 transcribed from the public-domain reference (smhasher MurmurHash3.cpp, Austin Appleby)
import struct
M=0xffffffff
def rotl32(x,r): return ((x<<r)|(x>>(32-r)))&M
def fmix32(h):
    h^=h>>16; h=(h*0x85ebca6b)&M; h^=h>>13; h=(h*0xc2b2ae35)&M; h^=h>>16; return h
def murmur3_x86_32(key:bytes, seed:int)->int:
    ln=len(key); nblocks=ln//4; h1=seed&M; c1=0xcc9e2d51; c2=0x1b873593
    for i in range(nblocks):
        (k1,)=struct.unpack_from('<I',key,4*i)
        k1=(k1*c1)&M; k1=rotl32(k1,15); k1=(k1*c2)&M
        h1^=k1; h1=rotl32(h1,13); h1=(h1*5+0xe6546b64)&M
    tail=key[nblocks*4:]; k1=0; t=ln&3
    if t>=3: k1^=tail[2]<<16
    if t>=2: k1^=tail[1]<<8
    if t>=1:
        k1^=tail[0]; k1=(k1*c1)&M; k1=rotl32(k1,15); k1=(k1*c2)&M; h1^=k1
    h1^=ln
    return fmix32(h1)
pub=[(b"",0,0),(b"",1,0x514E28B7),(b"",0xffffffff,0x81F16F39),(b"\xff\xff\xff\xff",0,0x76293B50),(b"\x21\x43\x65\x87",0,0xF55B516B),
 (b"\x21\x43\x65\x87",0x5082EDEE,0x2362F9DE),(b"\x21\x43\x65",0,0x7E4A8634),(b"\x21\x43",0,0xA0F7B07A),(b"\x21",0,0x72661CF4),
 (b"\0\0\0\0",0,0x2362F9DE),(b"\0\0\0",0,0x85F0B427),(b"\0\0",0,0x30F4C306),(b"\0",0,0x514E28B7),
 (b"aaaa",0x9747b28c,0x5A97808A),(b"abc",0,0xB3DD93FA),(b"Hello, world!",0x9747b28c,0x24884CBA),(b"Hello, world!",1234,0xfaf6cdb3),
 (b"The quick brown fox jumps over the lazy dog",0x9747b28c,0x2FA826CD),(b"The quick brown fox jumps over the lazy dog",0,0x2e4ff723),
 (b"abcdbcdecdefdefgefghfghighijhijkijkljklmklmnlmnomnopnopq",0,0xEE925B90),(b"test",0,0xba6bd213),(b"test",0x9747b28c,0x704b81dc),(b"hello",0,0x248bfa47),
 (b"abcdefg",0,2285673222),(b"123456",0,3210799800),(b"a1",0,882153338)]
for k,s,e in pub:
    v=murmur3_x86_32(k,s)
    print("OK " if v==e else "BAD", k, hex(s), hex(v), v, "[" + ",".join(str(b) for b in k) + "]")
