package main

import (
	"bytes"
	"encoding/binary"
	"encoding/json"
	"errors"
	"fmt"
	"hash/fnv"
	"runtime"
	"slices"
	"sort"
	"strconv"
	"strings"
	"sync"
	"sync/atomic"
	"time"

	"reduction.dev/reduction/dkv/bloom"
	"reduction.dev/reduction/dkv/kv"
	"reduction.dev/reduction/dkv/sst"
	"reduction.dev/reduction/dkv/storage"
	"reduction.dev/reduction/dkv/wal"
	"verif/harness/lib"
)

func init() { register("C17", propC17) }

type c17Entry struct {
	k, v []byte
	seq  uint64
	del  bool
}

func (e c17Entry) Key() []byte    { return e.k }
func (e c17Entry) Value() []byte  { return e.v }
func (e c17Entry) IsDelete() bool { return e.del }
func (e c17Entry) SeqNum() uint64 { return e.seq }

func c17ShowEntry(k []byte, seq uint64, del bool, v []byte) string {
	d := 0
	if del {
		d = 1
	}
	return fmt.Sprintf("%s/%d/%d/%s", lib.Hex(k), seq, d, lib.Hex(v))
}

func c17ShowEntries(es []c17Entry) string {
	if len(es) == 0 {
		return "-"
	}
	parts := make([]string, len(es))
	for i, e := range es {
		parts[i] = c17ShowEntry(e.k, e.seq, e.del, e.v)
	}
	return strings.Join(parts, ",")
}

func c17ParseEntries(s string) []c17Entry {
	if s == "-" {
		return nil
	}
	var out []c17Entry
	for _, p := range strings.Split(s, ",") {
		f := strings.Split(p, "/")
		seq, _ := strconv.ParseUint(f[1], 10, 64)
		out = append(out, c17Entry{k: lib.UnHex(f[0]), seq: seq, del: f[2] == "1", v: lib.UnHex(f[3])})
	}
	return out
}

func c17KVs(es []c17Entry) []kv.Entry {
	out := make([]kv.Entry, len(es))
	for i, e := range es {
		out[i] = e
	}
	return out
}

// c17State is the implementation-side state of one case.
type c17State struct {
	fs       *storage.MemoryFilesystem
	tw       *sst.TableWriter
	fresh    *sst.Table
	reopened *sst.Table
	damaged  *sst.Table
	satur    *sst.Table
	bloomAns map[string]bool
	tables   []*sst.Table
	runInput []c17Entry
	runTgt   uint64
	ran      bool
	keep     []any // tables must stay reachable: their GC cleanup deletes the file
	w        *wal.Writer
	savedW   *wal.Writer
	pendingW *wal.Writer
}

func (s *c17State) fileOf(t *sst.Table) []byte {
	b, err := storage.ReadAll(s.fs.Open(t.URI()))
	if err != nil {
		return nil
	}
	return b
}

func (s *c17State) selectTable(t *sst.Table) {
	s.fresh = t
	s.bloomAns = nil
	s.satur = nil
	// re-open through the JSON form of the document, as a checkpoint does
	data, err := json.Marshal(t.Document())
	if err != nil {
		panic(err)
	}
	var doc sst.TableDocument
	if err := json.Unmarshal(data, &doc); err != nil {
		panic(err)
	}
	s.reopened = sst.NewTableFromDocument(s.fs, &kv.AllDataOwnership{}, doc)
	s.keep = append(s.keep, t, s.reopened)
}

func c17Fnv(b []byte) uint64 {
	h := fnv.New64a()
	h.Write(b)
	return h.Sum64()
}

func (s *c17State) info(t *sst.Table) string {
	d := t.Document()
	return fmt.Sprintf("size=%d esize=%d start=%s end=%s sseq=%d eseq=%d fnv=%d", d.Size, d.EntriesSize, lib.Hex(d.StartKey), lib.Hex(d.EndKey), d.StartSeqNum, d.EndSeqNum, c17Fnv(s.fileOf(t)))
}

func c17Get(t *sst.Table, key []byte) string {
	e, err := t.Get(key)
	if errors.Is(err, kv.ErrNotFound) {
		return "notfound"
	}
	if err != nil {
		return "err"
	}
	if e.IsDelete() {
		return fmt.Sprintf("del %d", e.SeqNum())
	}
	return fmt.Sprintf("val %d %s", e.SeqNum(), lib.Hex(e.Value()))
}

func c17ScanList(t *sst.Table, prefix []byte) ([]c17Entry, error) {
	var scanErr error
	var out []c17Entry
	for e := range t.ScanPrefix(prefix, &scanErr) {
		out = append(out, c17Entry{k: e.Key(), v: e.Value(), seq: e.SeqNum(), del: e.IsDelete()})
	}
	return out, scanErr
}

func c17Scan(t *sst.Table, prefix []byte) string {
	es, err := c17ScanList(t, prefix)
	if err != nil {
		return "err"
	}
	return c17ShowEntries(es)
}

// runOK evaluates the statements of writeRun_concat / writeRun_ranges / writeRun_nonempty / writeRun_sizes on the real tables.
func (s *c17State) runOK() string {
	var all []c17Entry
	maxEntry := uint64(0) // M of writeRun_sizes: the largest flush size of the run
	for _, e := range s.runInput {
		maxEntry = max(maxEntry, uint64(17+len(e.k)+len(e.v)))
	}
	for i, t := range s.tables {
		es, err := c17ScanList(t, nil)
		if err != nil {
			return fmt.Sprintf("table %d: scan error", i)
		}
		// writeRun_sizes on the real tables (flush-size units, as WriteRun counts)
		size := uint64(0)
		for _, e := range es {
			size += uint64(17 + len(e.k) + len(e.v))
		}
		if s.runTgt > 0 && len(s.runInput) > 0 {
			if i < len(s.tables)-1 && (size < s.runTgt || size >= s.runTgt+maxEntry) {
				return fmt.Sprintf("table %d: size %d outside [target, target+max entry)", i, size)
			}
			if i == len(s.tables)-1 && size >= s.runTgt*3/2+maxEntry {
				return fmt.Sprintf("last table: size %d not below 1.5 target + max entry", size)
			}
		}
		d := t.Document()
		if len(es) == 0 {
			if len(s.runInput) > 0 || len(s.tables) > 1 {
				return fmt.Sprintf("table %d of %d is empty", i, len(s.tables))
			}
			continue
		}
		if !bytes.Equal(d.StartKey, es[0].k) || !bytes.Equal(d.EndKey, es[len(es)-1].k) {
			return fmt.Sprintf("table %d: range is not first..last key", i)
		}
		if i > 0 {
			prev := s.tables[i-1].Document()
			if bytes.Compare(prev.EndKey, d.StartKey) >= 0 {
				return fmt.Sprintf("tables %d,%d: ranges not disjoint and ordered", i-1, i)
			}
		}
		all = append(all, es...)
	}
	if len(s.tables) == 0 {
		if !s.ran {
			return "ok" // no run in this (shrunk) case
		}
		return "no table"
	}
	if c17ShowEntries(all) != c17ShowEntries(s.runInput) {
		return "concatenation of the tables differs from the input"
	}
	return "ok"
}

func c17Reads(fs storage.FileSystem, h wal.Handle) (res string) {
	var got []string
	defer func() {
		if r := recover(); r != nil {
			if strings.Contains(fmt.Sprint(r), "WAL reader is supposed to start after") {
				res = "panic"
				return
			}
			panic(r)
		}
	}()
	show := func() string {
		if len(got) == 0 {
			return "-"
		}
		return strings.Join(got, ",")
	}
	for e, err := range wal.NewReader(fs, h).All() {
		if err != nil {
			return "err " + show()
		}
		got = append(got, c17ShowEntry(e.Key(), e.SeqNum(), e.IsDelete(), e.Value()))
	}
	return "ok " + show()
}

// c17GateFS opens files whose first ReadAt waits for a gate: lets two first readers of a re-opened table overlap.
type c17GateFS struct {
	storage.FileSystem
	entered chan struct{}
	gate    chan struct{}
	once    *sync.Once
}

type c17GateFile struct {
	storage.File
	fs *c17GateFS
}

func (g *c17GateFS) Open(path string) storage.File {
	return &c17GateFile{File: g.FileSystem.Open(path), fs: g}
}

func (f *c17GateFile) ReadAt(p []byte, off int64) (int, error) {
	f.fs.once.Do(func() {
		close(f.fs.entered)
		select {
		case <-f.fs.gate:
		case <-time.After(5 * time.Second):
		}
	})
	return f.File.ReadAt(p, off)
}

// c17ConcurrentFirstReads re-opens the table from its document and lets a second Get arrive while the first one is
// still loading the footer; both must answer like a sequential Get.
func (s *c17State) concurrentFirstReads(key []byte) string {
	g := &c17GateFS{FileSystem: s.fs, entered: make(chan struct{}), gate: make(chan struct{}), once: &sync.Once{}}
	t := sst.NewTableFromDocument(g, &kv.AllDataOwnership{}, s.fresh.Document())
	s.keep = append(s.keep, t)
	res := make(chan string, 2)
	get := func() {
		defer func() {
			if r := recover(); r != nil {
				res <- "panic " + strings.ReplaceAll(fmt.Sprint(r), "\n", " ")
			}
		}()
		res <- c17Get(t, key)
	}
	go get()
	select {
	case <-g.entered:
	case <-time.After(2 * time.Second): // bloom gate before any read cannot happen: metadata load reads first
	}
	go get()
	time.Sleep(2 * time.Millisecond)
	close(g.gate)
	var got []string
	for i := 0; i < 2; i++ {
		select {
		case r := <-res:
			got = append(got, r)
		case <-time.After(5 * time.Second):
			got = append(got, "timeout")
		}
	}
	if got[0] == got[1] {
		return got[0]
	}
	sort.Strings(got)
	return strings.Join(got, " | ")
}

// coverage counters (evidence): absent-key lookups that ran the real index search + scan
var c17PastBloom, c17RealFP atomic.Int64

func c17Impl(c lib.Case) []string {
	s := &c17State{fs: storage.NewMemoryFilesystem()}
	s.tw = sst.NewTableWriter(s.fs, 0)
	s.w = wal.NewWriter(s.fs, 0, 0)
	out := make([]string, 0, len(c.Ops))
	for _, op := range c.Ops {
		out = append(out, s.do(op)...)
	}
	runtime.KeepAlive(s)
	return out
}

// do runs one op; a panic of the real code is that op's observation.
func (s *c17State) do(op string) (out []string) {
	defer func() {
		if r := recover(); r != nil {
			msg := strings.ReplaceAll(fmt.Sprint(r), "\n", " ")
			if len(msg) > 120 {
				msg = msg[:120]
			}
			out = []string{"panic " + msg}
		}
	}()
	{
		f := strings.Fields(op)
		u := func(i int) uint64 { v, _ := strconv.ParseUint(f[i], 10, 64); return v }
		if s.fresh == nil {
			switch f[0] {
			case "info", "get", "rget", "scan", "rscan", "bloom", "rdoc", "saturate", "docjson", "rget2":
				// no table selected (only in shrunk cases): the model answers the same
				out = append(out, "loaderr")
				return out
			}
		}
		switch f[0] {
		case "tbl":
			es := c17ParseEntries(f[1])
			t, err := s.tw.Write(slices.Values(c17KVs(es)))
			if err != nil {
				out = append(out, "err")
				return out
			}
			s.selectTable(t)
			out = append(out, "ok")
		case "info":
			out = append(out, s.info(s.fresh))
		case "get", "rget":
			t := s.fresh
			if f[0] == "rget" {
				t = s.reopened
			}
			r := c17Get(t, lib.UnHex(f[1]))
			if r == "notfound" && s.bloomAns[f[1]] {
				c17RealFP.Add(1) // an absent key that the real filter let through
			}
			out = append(out, r)
		case "scan":
			out = append(out, c17Scan(s.fresh, lib.UnHex(f[1])))
		case "rscan":
			out = append(out, c17Scan(s.reopened, lib.UnHex(f[1])))
		case "saturate":
			// the selected table's file with every bit of the bloom block set, re-opened from the document:
			// every lookup passes the filter, so absent keys reach SearchIndex.Search and the scan loop
			d := s.fresh.Document()
			b := append([]byte(nil), s.fileOf(s.fresh)...)
			if uint64(len(b)) >= d.EntriesSize+8 {
				bits := binary.LittleEndian.Uint32(b[d.EntriesSize:])
				lo := d.EntriesSize + 8
				hi := lo + uint64((bits+63)/64)*8
				for i := lo; i < hi && i < uint64(len(b)); i++ {
					b[i] = 0xff
				}
			}
			fs2 := storage.NewMemoryFilesystem()
			file := fs2.New(strings.TrimPrefix(d.URI, "memory://"))
			file.Write(b)
			file.Save()
			s.satur = sst.NewTableFromDocument(fs2, &kv.AllDataOwnership{}, d)
			s.keep = append(s.keep, s.satur)
			out = append(out, fmt.Sprintf("size=%d fnv=%d", len(b), c17Fnv(b)))
		case "sget":
			if s.satur == nil {
				out = append(out, "loaderr")
				return out
			}
			r := c17Get(s.satur, lib.UnHex(f[1]))
			if r == "notfound" {
				c17PastBloom.Add(1)
			}
			out = append(out, r)
		case "corrupt":
			// a damaged copy of the selected table's file under the same name in a separate file system
			d := s.fresh.Document()
			b := append([]byte(nil), s.fileOf(s.fresh)...)
			if f[1] == "ver" {
				if len(b) >= 4 {
					binary.LittleEndian.PutUint32(b[len(b)-4:], uint32(u(2)))
				}
			} else if f[1] == "idx" || f[1] == "idx2" {
				// index block = after the bloom block: count, then uint32 offsets
				if uint64(len(b)) >= d.EntriesSize+8 {
					bits := binary.LittleEndian.Uint32(b[d.EntriesSize:])
					pos := d.EntriesSize + 8 + uint64((bits+63)/64)*8
					if uint64(len(b)) >= pos+4 {
						if cnt := uint64(binary.LittleEndian.Uint32(b[pos:])); cnt > 0 && uint64(len(b)) >= pos+4+4*cnt {
							j := u(2) % cnt
							if f[1] == "idx2" {
								// offset j: end of the entries block (readKey fails); offset j2: beyond it (Move panics)
								binary.LittleEndian.PutUint32(b[pos+4+4*j:], uint32(d.EntriesSize))
								j = (j + 1 + u(2)%3) % cnt
							}
							binary.LittleEndian.PutUint32(b[pos+4+4*j:], uint32(d.EntriesSize+1+u(2)))
						}
					}
				}
			} else {
				b = b[:max(0, len(b)-int(u(2)))]
			}
			fs2 := storage.NewMemoryFilesystem()
			file := fs2.New(strings.TrimPrefix(d.URI, "memory://"))
			file.Write(b)
			file.Save()
			s.damaged = sst.NewTableFromDocument(fs2, &kv.AllDataOwnership{}, d)
			s.keep = append(s.keep, s.damaged)
			out = append(out, "ok")
		case "cget", "cscan":
			if s.damaged == nil {
				out = append(out, "loaderr")
				return out
			}
			func() {
				defer func() {
					if r := recover(); r != nil {
						if strings.Contains(fmt.Sprint(r), "cursor move to") {
							out = append(out, "panic") // Cursor.Move beyond the entries block
						} else {
							out = append(out, "loaderr") // loadFooter / bloom.Decode / SearchIndexDecode panic on a short file
						}
					}
				}()
				if f[0] == "cget" {
					out = append(out, c17Get(s.damaged, lib.UnHex(f[1])))
				} else {
					out = append(out, c17Scan(s.damaged, lib.UnHex(f[1])))
				}
			}()
		case "rdoc":
			d := s.reopened.Document()
			out = append(out, fmt.Sprintf("%s %s %d %d %d %d", lib.Hex(d.StartKey), lib.Hex(d.EndKey), d.Size, d.EntriesSize, d.StartSeqNum, d.EndSeqNum))
		case "rget2":
			out = append(out, s.concurrentFirstReads(lib.UnHex(f[1])))
		case "docjson":
			// the exact text encoding/json writes for the document (what dkv/recovery stores in a checkpoint)
			data, err := json.Marshal(s.fresh.Document())
			if err != nil {
				out = append(out, "err")
				return out
			}
			out = append(out, string(data))
		case "bloom":
			d := s.fresh.Document()
			cur := &storage.Cursor{File: s.fs.Open(d.URI)}
			cur.Move(int64(d.EntriesSize))
			ans := bloom.Decode(cur).MightHave(lib.UnHex(f[1]))
			if s.bloomAns == nil {
				s.bloomAns = map[string]bool{}
			}
			s.bloomAns[f[1]] = ans
			out = append(out, strconv.FormatBool(ans))
		case "run":
			s.runInput = c17ParseEntries(f[2])
			s.runTgt = u(1)
			s.ran = true
			ts, err := s.tw.WriteRun(slices.Values(c17KVs(s.runInput)), u(1))
			if err != nil {
				out = append(out, "err")
				return out
			}
			s.tables = ts
			for _, t := range ts {
				s.keep = append(s.keep, t)
			}
			out = append(out, "ok")
		case "runinfo":
			parts := []string{fmt.Sprintf("n=%d", len(s.tables))}
			for _, t := range s.tables {
				es, _ := c17ScanList(t, nil)
				d := t.Document()
				parts = append(parts, fmt.Sprintf("%d:%s:%s:%d:%d", len(es), lib.Hex(d.StartKey), lib.Hex(d.EndKey), d.Size, c17Fnv(s.fileOf(t))))
			}
			out = append(out, strings.Join(parts, " "))
		case "runok":
			out = append(out, s.runOK())
		case "sel":
			i := int(u(1))
			if i >= len(s.tables) {
				// the model selects an empty table when the index is out of range
				t, _ := s.tw.Write(slices.Values([]kv.Entry{}))
				s.selectTable(t)
			} else {
				s.selectTable(s.tables[i])
			}
			out = append(out, "ok")
		case "wnew":
			s.w = wal.NewWriter(s.fs, int(u(1)), u(2))
			s.savedW = nil
			out = append(out, "ok")
		case "wput":
			out = append(out, fmt.Sprintf("full=%v", s.w.Put(lib.UnHex(f[1]), lib.UnHex(f[2]), u(3))))
		case "wdel":
			out = append(out, fmt.Sprintf("full=%v", s.w.Delete(lib.UnHex(f[1]), u(2))))
		case "wcut":
			s.w.Cut()
			out = append(out, "ok")
		case "wtrunc":
			s.w.Truncate(u(1))
			out = append(out, "ok")
		case "wrot":
			old := s.w
			s.w = old.Rotate(s.fs)
			if err := old.Save(); err != nil {
				out = append(out, "err")
				return out
			}
			s.savedW = old
			out = append(out, "ok")
		case "wrotl":
			// as DB.Checkpoint does: rotate under the lock, Save the old writer later (after more work on the new one)
			s.pendingW = s.w
			s.w = s.pendingW.Rotate(s.fs)
			out = append(out, "ok")
		case "wsavel":
			if s.pendingW != nil {
				if err := s.pendingW.Save(); err != nil {
					out = append(out, "err")
					return out
				}
				s.savedW, s.pendingW = s.pendingW, nil
			}
			out = append(out, "ok")
		case "wfile":
			if s.savedW == nil {
				out = append(out, "-")
				return out
			}
			b, err := storage.ReadAll(s.fs.Open(s.savedW.Handle(0).URI()))
			if err != nil {
				out = append(out, "err")
				return out
			}
			out = append(out, lib.Hex(b))
		case "wstate":
			id, sealed, active, latest := s.w.VerifState()
			segs := make([]string, len(sealed))
			for i, sg := range sealed {
				segs[i] = fmt.Sprintf("%d:%d", sg.LatestSeqNum, sg.Len)
			}
			out = append(out, fmt.Sprintf("id=%d sealed=[%s] active=%d latest=%d", id, strings.Join(segs, ","), active, latest))
		case "wread":
			if s.savedW == nil {
				out = append(out, "ok -")
				return out
			}
			out = append(out, c17Reads(s.fs, s.savedW.Handle(u(1))))
		case "wreadhex":
			fs := storage.NewMemoryFilesystem()
			file := fs.New("000000.wal")
			file.Write(lib.UnHex(f[1]))
			file.Save()
			out = append(out, c17Reads(fs, wal.NewHandle(fs, wal.HandleDocument{URI: file.URI(), After: u(2)})))
		default:
			out = append(out, "bad-op")
		}
	}
	return out
}

// ---- generators (pure; every choice from the Rng) ----

func c17Key(r *lib.Rng) []byte {
	switch r.Intn(8) {
	case 0:
		return nil
	case 1:
		return []byte{byte(r.Intn(256))}
	case 2:
		b := r.Bytes(r.Range(1, 6))
		for i := range b {
			if r.Chance(1, 2) {
				b[i] = lib.Pick(r, []byte{0, 0xff, 0x80, 0x7f, 1})
			}
		}
		return b
	case 3:
		// operator-style key: big-endian key group, schema byte, payload
		return append([]byte{byte(r.Intn(256)), byte(r.Intn(256)), 0}, r.Bytes(r.Intn(4))...)
	case 4:
		return []byte(fmt.Sprintf("k%02d", r.Intn(60)))
	case 5:
		base := []byte(fmt.Sprintf("k%02d", r.Intn(60)))
		return append(base, r.Bytes(r.Range(1, 2))...)
	default:
		return r.Bytes(r.Range(1, 10))
	}
}

// c17Run builds a strictly key-ascending run of n entries.
func c17Run(r *lib.Rng, n int, valMax int) []c17Entry {
	seen := map[string]bool{}
	var keys [][]byte
	for tries := 0; len(keys) < n && tries < 20*n+20; tries++ {
		k := c17Key(r)
		if !seen[string(k)] {
			seen[string(k)] = true
			keys = append(keys, k)
		}
	}
	sort.Slice(keys, func(i, j int) bool { return bytes.Compare(keys[i], keys[j]) < 0 })
	base := uint64(r.Intn(3)) * uint64(r.Intn(1000))
	es := make([]c17Entry, len(keys))
	for i, k := range keys {
		e := c17Entry{k: k, seq: base + uint64(r.Intn(5000))}
		if r.Chance(1, 4) {
			e.del = true
		} else if r.Chance(3, 4) {
			e.v = r.Bytes(r.Intn(valMax + 1))
		}
		es[i] = e
	}
	if r.Chance(1, 20) && len(es) > 0 {
		es[r.Intn(len(es))].seq = 1<<64 - 1
	}
	return es
}

func c17Pred(k []byte) []byte {
	if len(k) == 0 {
		return nil
	}
	p := append([]byte(nil), k...)
	if p[len(p)-1] == 0 {
		return p[:len(p)-1]
	}
	p[len(p)-1]--
	return append(p, 0xff)
}

func c17Succ(k []byte) []byte { return append(append([]byte(nil), k...), 0) }

// lookups for a table: present keys, neighbours, before first, after last, random
func c17Lookups(r *lib.Rng, es []c17Entry, max int) [][]byte {
	var ks [][]byte
	idx := r.Intn(max + 1)
	for i, e := range es {
		if len(es) <= max || i%((len(es)+max-1)/max) == idx%((len(es)+max-1)/max) || i%16 == 0 || i%16 == 15 || i == len(es)-1 {
			ks = append(ks, e.k)
			if r.Chance(1, 2) {
				ks = append(ks, c17Pred(e.k))
			}
			if r.Chance(1, 2) {
				ks = append(ks, c17Succ(e.k))
			}
		}
	}
	if len(es) > 0 {
		ks = append(ks, c17Pred(es[0].k), c17Succ(es[len(es)-1].k), append([]byte{0xff, 0xff}, es[len(es)-1].k...))
	}
	ks = append(ks, nil, []byte{0}, []byte{0xff})
	for i := 0; i < 4; i++ {
		ks = append(ks, c17Key(r))
	}
	return ks
}

func c17TableOps(r *lib.Rng, es []c17Entry, maxLookups int) []string {
	var ops []string
	for _, k := range c17Lookups(r, es, maxLookups) {
		h := lib.Hex(k)
		switch r.Intn(4) {
		case 0:
			ops = append(ops, "get "+h, "rget "+h)
		case 1:
			ops = append(ops, "rget "+h)
		default:
			ops = append(ops, "get "+h)
		}
		if r.Chance(1, 4) {
			ops = append(ops, "bloom "+h)
		}
	}
	prefixes := [][]byte{nil}
	for i := 0; i < 3 && len(es) > 0; i++ {
		k := lib.Pick(r, es).k
		prefixes = append(prefixes, k[:r.Intn(len(k)+1)])
	}
	prefixes = append(prefixes, []byte("k"), []byte("k1"), c17Key(r))
	for _, p := range prefixes {
		ops = append(ops, lib.Pick(r, []string{"scan ", "rscan "})+lib.Hex(p))
	}
	if len(es) > 0 {
		ops = append(ops, "rget2 "+lib.Hex(lib.Pick(r, es).k))
	}
	ops = append(ops, "rdoc", "saturate")
	for _, k := range c17Lookups(r, es, maxLookups) {
		ops = append(ops, "sget "+lib.Hex(k))
	}
	return ops
}

// c17Murmur is an independent MurmurHash3 x86_32 (reference algorithm), used only to FIND candidate keys; whether a
// candidate really passes the table's filter is observed by the `bloom` op on the real file and on the model.
func c17Murmur(data []byte, seed uint32) uint32 {
	h := seed
	n := len(data) / 4
	for i := 0; i < n; i++ {
		k := binary.LittleEndian.Uint32(data[4*i:])
		k *= 0xcc9e2d51
		k = k<<15 | k>>17
		k *= 0x1b873593
		h ^= k
		h = h<<13 | h>>19
		h = h*5 + 0xe6546b64
	}
	var k uint32
	tail := data[4*n:]
	switch len(tail) {
	case 3:
		k ^= uint32(tail[2]) << 16
		fallthrough
	case 2:
		k ^= uint32(tail[1]) << 8
		fallthrough
	case 1:
		k ^= uint32(tail[0])
		k *= 0xcc9e2d51
		k = k<<15 | k>>17
		k *= 0x1b873593
		h ^= k
	}
	h ^= uint32(len(data))
	h ^= h >> 16
	h *= 0x85ebca6b
	h ^= h >> 13
	h *= 0xc2b2ae35
	h ^= h >> 16
	return h
}

const c17BloomBits, c17BloomHashes = 32 * 1024, 5

// c17FindFP searches absent keys base++counter that a filter holding the keys of es would accept.
func c17FindFP(bits []bool, present map[string]bool, base []byte, budget int) []byte {
	cand := append(append([]byte(nil), base...), 0, 0, 0)
	for c := 0; c < budget; c++ {
		cand[len(base)], cand[len(base)+1], cand[len(base)+2] = byte(c), byte(c>>8), byte(c>>16)
		ok := true
		for h := uint32(0); h < c17BloomHashes; h++ {
			if !bits[c17Murmur(cand, h)%c17BloomBits] {
				ok = false
				break
			}
		}
		if ok && !present[string(cand)] {
			return append([]byte(nil), cand...)
		}
	}
	return nil
}

// c17GenBigTable: 600–1000 mixed keys (tombstones, binary keys), so that genuine false positives of the real
// 32768-bit filter exist and can be found: absent keys before the first key, after entries at the start / end / middle
// of an index block, and after the last key reach the real search and scan without touching the file.
func c17GenBigTable(r *lib.Rng, tier string) lib.Case {
	es := c17Run(r, r.Range(600, 1000), 6)
	if r.Chance(2, 3) {
		// c17Key yields the empty key with probability 1/8, so among 600+ keys it is always the first one and nothing
		// sorts below it: move most tables away from the empty key (one common leading byte keeps the order)
		b0 := byte(r.Range(1, 0xfe))
		for i := range es {
			es[i].k = append([]byte{b0}, es[i].k...)
		}
	}
	c := lib.Case{Header: "M C17", Ops: []string{"tbl " + c17ShowEntries(es)}, Tags: []string{"table", "multi-index", "bigtable"}}
	bits := make([]bool, c17BloomBits)
	present := map[string]bool{}
	for _, e := range es {
		present[string(e.k)] = true
		for h := uint32(0); h < c17BloomHashes; h++ {
			bits[c17Murmur(e.k, h)%c17BloomBits] = true
		}
	}
	type fpBase struct {
		pos  string
		base []byte
	}
	var bases []fpBase
	if first := es[0].k; len(first) > 0 && first[len(first)-1] > 0 {
		bases = append(bases, fpBase{"before-first", c17Pred(first)}) // below the first key (the D19 situation)
	}
	for j := 0; j < 4; j++ {
		i := r.Intn(len(es))
		pos := "middle"
		switch j {
		case 0:
			i, pos = i/16*16+15, "block-end" // after the last entry of an index block
		case 1:
			i, pos = i/16*16, "block-start" // after the first entry of an index block
		}
		i = min(i, len(es)-1)
		bases = append(bases, fpBase{pos, append(append([]byte(nil), es[i].k...), 0)})
	}
	bases = append(bases, fpBase{"after-last", append(append([]byte(nil), es[len(es)-1].k...), 0xff)})
	found := 0
	for _, b := range bases {
		if k := c17FindFP(bits, present, b.base, 600000); k != nil {
			found++
			h := lib.Hex(k)
			c.Ops = append(c.Ops, "bloom "+h, "get "+h, "rget "+h)
			c.Tags = append(c.Tags, "fp:"+b.pos) // candidate found with the independent hash; `bloom` shows the real answer
		}
	}
	for j := 0; j < 6; j++ {
		h := lib.Hex(lib.Pick(r, es).k)
		c.Ops = append(c.Ops, "get "+h, "bloom "+h)
	}
	c.Ops = append(c.Ops, "scan "+lib.Hex(lib.Pick(r, es).k[:0]), "rdoc", "docjson memory:///000000.sst", "info")
	if found > 0 {
		c.Tags = append(c.Tags, "real-fp")
	}
	return c
}

func c17Size(e c17Entry) int { return 17 + len(e.k) + len(e.v) }

func c17GenTable(r *lib.Rng, tier string) lib.Case {
	sizes := []int{0, 1, 2, 3, 15, 16, 17, 18, 31, 32, 33, 34, 47, 48, 49, 64, 65, 80, 100}
	n := lib.Pick(r, sizes)
	if r.Chance(1, 3) {
		n = r.Range(0, 120)
	}
	if tier == "thorough" && r.Chance(1, 10) {
		n = r.Range(100, 400)
	}
	es := c17Run(r, n, 12)
	c := lib.Case{Header: "M C17", Ops: []string{"tbl " + c17ShowEntries(es)}, Tags: []string{"table"}}
	c.Ops = append(c.Ops, c17TableOps(r, es, 24)...)
	if r.Chance(1, 3) {
		// robustness outside the property's statement (M-obs): wrong version, truncated file
		if x := r.Intn(4); x == 0 {
			c.Ops = append(c.Ops, fmt.Sprintf("corrupt ver %d", r.Intn(5)))
		} else if x <= 2 {
			c.Ops = append(c.Ops, fmt.Sprintf("corrupt %s %d", lib.Pick(r, []string{"idx", "idx2", "idx2"}), r.Intn(9)))
			for j := 0; j < 6 && len(es) > 0; j++ {
				c.Ops = append(c.Ops, "cget "+lib.Hex(es[(j*len(es))/6].k))
			}
		} else {
			c.Ops = append(c.Ops, fmt.Sprintf("corrupt trunc %d", lib.Pick(r, []int{1, 3, 4, 5, 8, 11, 12, 13, 20, 100, 4200})))
		}
		for j := 0; j < 3 && len(es) > 0; j++ {
			c.Ops = append(c.Ops, "cget "+lib.Hex(lib.Pick(r, es).k))
		}
		c.Ops = append(c.Ops, "cget "+lib.Hex(c17Key(r)), "cscan -")
	}
	c.Ops = append(c.Ops, "docjson memory:///000000.sst", "info")
	if len(es) > 16 {
		c.Tags = append(c.Tags, "multi-index")
	}
	return c
}

func c17GenRun(r *lib.Rng, tier string) lib.Case {
	target := r.Range(64, 512)
	if r.Chance(1, 6) {
		target = r.Range(1, 63)
	}
	n := r.Range(0, 60)
	valMax := lib.Pick(r, []int{4, 20, 60, target, 2 * target})
	if valMax > 600 {
		valMax = 600
	}
	es := c17Run(r, n, valMax)
	// steer some runs so that the input ends exactly at / just after a chunk boundary
	if r.Chance(1, 3) && len(es) > 0 {
		total := 0
		for i := range es {
			total += c17Size(es[i])
			if total >= target && r.Chance(1, 2) {
				pad := lib.Pick(r, []int{0, target / 2, target/2 + 1, target})
				es[i].v = append(es[i].v, bytes.Repeat([]byte{0xab}, pad)...)
				es[i].del = false
				if r.Chance(1, 2) {
					es = es[:i+1]
				}
				break
			}
		}
	}
	c := lib.Case{Header: "M C17", Ops: []string{fmt.Sprintf("run %d %s", target, c17ShowEntries(es)), "runok"}, Tags: []string{"run"}}
	// approximate number of chunks, to pick tables to look into
	total := 0
	for _, e := range es {
		total += c17Size(e)
	}
	approx := total/target + 1
	for j := 0; j < 3; j++ {
		i := r.Intn(approx + 1)
		c.Ops = append(c.Ops, fmt.Sprintf("sel %d", i))
		sub := es
		if len(sub) > 0 {
			lo := r.Intn(len(sub))
			sub = sub[lo:min(len(sub), lo+8)]
		}
		c.Ops = append(c.Ops, c17TableOps(r, sub, 6)...)
	}
	c.Ops = append(c.Ops, "runinfo", "info")
	return c
}

func c17GenWal(r *lib.Rng, tier string) lib.Case {
	c := lib.Case{Header: "M C17", Tags: []string{"wal"}}
	maxSize := lib.Pick(r, []int{0, 1, 40, 100, 1000})
	c.Ops = append(c.Ops, fmt.Sprintf("wnew %d %d", r.Intn(3), maxSize))
	seq := uint64(lib.Pick(r, []int{0, 1, 1, 5, 1000}))
	first := seq
	gaps := r.Chance(1, 8)
	var cuts []uint64
	steps := r.Range(3, 40)
	if tier == "thorough" {
		steps = r.Range(3, 120)
	}
	truncs, rots := 0, 0
	readOps := func() {
		lo := first
		if lo > 0 {
			lo--
		}
		for j := 0; j < 3; j++ {
			a := lo + uint64(r.Intn(int(seq-lo)+2))
			if r.Chance(1, 6) && lo > 0 {
				a = uint64(r.Intn(int(lo)))
			}
			c.Ops = append(c.Ops, fmt.Sprintf("wread %d", a))
		}
		for _, a := range cuts {
			if r.Chance(1, 2) {
				c.Ops = append(c.Ops, fmt.Sprintf("wread %d", a))
			}
		}
		if r.Chance(1, 6) {
			// the largest marker: `startAfter + 1` wraps to 0 in the reader
			c.Ops = append(c.Ops, "wread 18446744073709551615")
		}
	}
	for i := 0; i < steps; i++ {
		switch x := r.Intn(20); {
		case x < 9:
			k := c17Key(r)
			c.Ops = append(c.Ops, fmt.Sprintf("wput %s %s %d", lib.Hex(k), lib.Hex(r.Bytes(r.Intn(8))), seq))
			seq++
		case x < 12:
			c.Ops = append(c.Ops, fmt.Sprintf("wdel %s %d", lib.Hex(c17Key(r)), seq))
			seq++
		case x < 15:
			c.Ops = append(c.Ops, "wcut")
			if seq > 0 {
				cuts = append(cuts, seq-1)
			}
		case x < 17:
			var a uint64
			if len(cuts) > 0 && r.Chance(3, 4) {
				a = lib.Pick(r, cuts)
			} else {
				a = uint64(r.Intn(int(seq) + 2))
			}
			c.Ops = append(c.Ops, fmt.Sprintf("wtrunc %d", a))
			truncs++
		default:
			rots++
			if r.Chance(1, 3) {
				// late save: more work on the next writer (which shares the segment buffers) before the old one is saved
				c.Ops = append(c.Ops, "wrotl")
				if r.Bool() && seq > 0 {
					// the checkpoint pattern: an in-flight flush commits on the successor (Truncate drops carried
					// segments), a memtable rotation cuts, new writes fill the fresh active buffer — then the save
					a := seq - 1
					if len(cuts) > 0 && r.Chance(1, 3) {
						a = lib.Pick(r, cuts)
					}
					c.Ops = append(c.Ops, fmt.Sprintf("wtrunc %d", a))
					truncs++
					if r.Bool() {
						c.Ops = append(c.Ops, fmt.Sprintf("wput %s %s %d", lib.Hex(c17Key(r)), lib.Hex(r.Bytes(r.Intn(8))), seq))
						seq++
					}
					c.Ops = append(c.Ops, "wcut")
					cuts = append(cuts, seq-1)
					for j := r.Range(1, 5); j > 0; j-- {
						if r.Chance(1, 4) {
							c.Ops = append(c.Ops, fmt.Sprintf("wdel %s %d", lib.Hex(c17Key(r)), seq))
						} else {
							c.Ops = append(c.Ops, fmt.Sprintf("wput %s %s %d", lib.Hex(c17Key(r)), lib.Hex(r.Bytes(r.Intn(12))), seq))
						}
						seq++
					}
				}
				for j := r.Range(0, 3); j > 0; j-- {
					switch r.Intn(4) {
					case 0:
						c.Ops = append(c.Ops, "wcut")
						if seq > 0 {
							cuts = append(cuts, seq-1)
						}
					case 1:
						c.Ops = append(c.Ops, fmt.Sprintf("wtrunc %d", uint64(r.Intn(int(seq)+2))))
						truncs++
					default:
						c.Ops = append(c.Ops, fmt.Sprintf("wput %s %s %d", lib.Hex(c17Key(r)), lib.Hex(r.Bytes(r.Intn(8))), seq))
						seq++
					}
				}
				c.Ops = append(c.Ops, "wsavel")
				c.Tags = append(c.Tags, "late-save")
			} else {
				c.Ops = append(c.Ops, "wrot")
			}
			readOps()
		}
		if gaps && r.Chance(1, 4) {
			seq += uint64(r.Range(1, 3))
		}
	}
	c.Ops = append(c.Ops, "wrot")
	readOps()
	c.Ops = append(c.Ops, "wfile", "wstate")
	if truncs > 0 && rots > 0 {
		c.Tags = append(c.Tags, "trunc+rotate")
	}
	if gaps {
		c.Tags = append(c.Tags, "seq-gaps")
	}
	return c
}

// byte-level reader cases: well-formed files cut short, odd start markers
func c17GenWalHex(r *lib.Rng) lib.Case {
	c := lib.Case{Header: "M C17", Tags: []string{"walhex"}}
	var buf []byte
	le := func(n uint64, w int) {
		for i := 0; i < w; i++ {
			buf = append(buf, byte(n>>(8*i)))
		}
	}
	first := uint64(r.Intn(4))
	n := r.Range(0, 6)
	for i := 0; i < n; i++ {
		le(first+uint64(i), 8)
		k := c17Key(r)
		le(uint64(len(k)), 4)
		buf = append(buf, k...)
		if r.Chance(1, 3) {
			buf = append(buf, 1)
		} else {
			buf = append(buf, 0)
			v := r.Bytes(r.Intn(5))
			le(uint64(len(v)), 4)
			buf = append(buf, v...)
		}
	}
	for j := 0; j < 6; j++ {
		b := buf
		if r.Chance(1, 2) && len(b) > 0 {
			b = b[:r.Intn(len(b)+1)]
		}
		c.Ops = append(c.Ops, fmt.Sprintf("wreadhex %s %d", lib.Hex(b), r.Intn(int(first)+n+2)))
		if j == 0 {
			c.Ops = append(c.Ops, fmt.Sprintf("wreadhex %s 18446744073709551615", lib.Hex(buf)))
		}
	}
	return c
}

func c17Fixed(tier string) []lib.Case {
	var cs []lib.Case
	mk := func(n int) []c17Entry {
		es := make([]c17Entry, n)
		for i := range es {
			es[i] = c17Entry{k: []byte(fmt.Sprintf("m%03d", i)), v: []byte("v"), seq: uint64(i + 1)}
		}
		return es
	}
	// D19: absent keys below the first key that pass the bloom filter (found offline), plus above/between
	big := make([]c17Entry, 3000)
	for i := range big {
		big[i] = c17Entry{k: []byte(fmt.Sprintf("m%05d", i)), v: []byte("v"), seq: 1}
	}
	d19 := lib.Case{Header: "M C17", Tags: []string{"D19"}, Ops: []string{"tbl " + c17ShowEntries(big)}}
	for i := 0; i < 120; i++ {
		d19.Ops = append(d19.Ops, "get "+lib.Hex([]byte(fmt.Sprintf("a%d", i))))
	}
	d19.Ops = append(d19.Ops, "rget "+lib.Hex([]byte("a33")), "bloom "+lib.Hex([]byte("a33")), "get "+lib.Hex([]byte("m00000")), "get "+lib.Hex([]byte("m02999")), "info")
	cs = append(cs, d19)
	for _, w := range c17Witnesses {
		c := lib.Case{Header: "M C17", Tags: []string{"D19"}, Ops: []string{"tbl " + c17ShowEntries(mk(w.n))}}
		for _, k := range w.keys {
			c.Ops = append(c.Ops, "bloom "+lib.Hex([]byte(k)), "get "+lib.Hex([]byte(k)), "rget "+lib.Hex([]byte(k)))
		}
		cs = append(cs, c)
	}
	// bounded-exhaustive: every sub-run of a 5-key alphabet (nested prefixes, empty key) × tombstone patterns of the
	// first two entries × every alphabet key and byte neighbour as lookup and prefix
	alpha := [][]byte{nil, {0}, []byte("a"), []byte("a\x00"), []byte("ab")}
	for mask := 0; mask < 1<<len(alpha); mask++ {
		for dels := 0; dels < 4; dels++ {
			var es []c17Entry
			for i, k := range alpha {
				if mask&(1<<i) != 0 {
					e := c17Entry{k: k, seq: uint64(10 + i), v: []byte{byte(i)}}
					if len(es) < 2 && dels&(1<<len(es)) != 0 {
						e.del, e.v = true, nil
					}
					es = append(es, e)
				}
			}
			c := lib.Case{Header: "M C17", Tags: []string{"exhaustive"}, Ops: []string{"tbl " + c17ShowEntries(es)}}
			for _, k := range alpha {
				for _, q := range [][]byte{k, c17Pred(k), c17Succ(k)} {
					c.Ops = append(c.Ops, "get "+lib.Hex(q), "rget "+lib.Hex(q))
				}
				c.Ops = append(c.Ops, "scan "+lib.Hex(k), "rscan "+lib.Hex(k))
			}
			c.Ops = append(c.Ops, "rdoc", "saturate")
			for _, k := range alpha {
				for _, q := range [][]byte{k, c17Pred(k), c17Succ(k)} {
					c.Ops = append(c.Ops, "sget "+lib.Hex(q))
				}
			}
			c.Ops = append(c.Ops, fmt.Sprintf("run %d %s", 18+mask%23, c17ShowEntries(es)), "runok", "runinfo", "info")
			cs = append(cs, c)
		}
	}
	// D29: the empty run
	cs = append(cs, lib.Case{Header: "M C17", Tags: []string{"D29"}, Ops: []string{"tbl -", "scan -", "rscan -", "get 61", "rget -", "run 100 -", "runok", "sel 0", "scan -", "rscan 6b", "runinfo", "info"}})
	// D30: binary range keys through the JSON document
	bin := []c17Entry{{k: []byte{0x80, 1, 0, 'a'}, v: []byte("x"), seq: 1}, {k: []byte{0x80, 2, 0, 'b'}, v: []byte("y"), seq: 2}, {k: []byte{0xff, 0xfe}, seq: 3, del: true}}
	cs = append(cs, lib.Case{Header: "M C17", Tags: []string{"D30"}, Ops: []string{"tbl " + c17ShowEntries(bin), "rdoc", "rget 80010061", "rget fffe", "rscan 80", "rscan ff", "docjson memory:///000000.sst", "info"}})
	// D31: input ends on a chunk boundary
	one := []c17Entry{{k: []byte("a"), v: bytes.Repeat([]byte("x"), 200), seq: 1}}
	cs = append(cs, lib.Case{Header: "M C17", Tags: []string{"D31"}, Ops: []string{"run 100 " + c17ShowEntries(one), "runok", "sel 0", "get 61", "runinfo"}})
	two := []c17Entry{{k: []byte("a"), v: bytes.Repeat([]byte("x"), 90), seq: 1}, {k: []byte("b"), v: bytes.Repeat([]byte("y"), 90), seq: 2}}
	cs = append(cs, lib.Case{Header: "M C17", Tags: []string{"D31"}, Ops: []string{"run 1 " + c17ShowEntries(two), "runok", "sel 1", "get 62", "runinfo"}})
	// D27: truncate after a rotate that carried sealed segments / an active segment
	cs = append(cs, lib.Case{Header: "M C17", Tags: []string{"D27"}, Ops: []string{"wnew 0 1000", "wput 6b31 76 1", "wcut", "wput 6b32 76 2", "wcut", "wrot", "wtrunc 1", "wrot", "wread 1", "wfile", "wstate"}})
	cs = append(cs, lib.Case{Header: "M C17", Tags: []string{"D27"}, Ops: []string{"wnew 0 1000", "wput 6b31 76 1", "wcut", "wput 6b32 76 2", "wrot", "wput 6b33 76 3", "wcut", "wtrunc 1", "wrot", "wread 1", "wfile", "wstate"}})
	// late save (seeded C17-5 situation): the rotated-away writer is saved only after its successor truncated the
	// carried segments, cut and appended; the saved file must hold exactly what was appended before the Rotate
	late := lib.Case{Header: "M C17", Tags: []string{"late-save"}, Ops: []string{"wnew 0 1000000"}}
	for i := 1; i <= 8; i++ {
		if i == 4 {
			late.Ops = append(late.Ops, fmt.Sprintf("wdel %s %d", lib.Hex([]byte(fmt.Sprintf("key-%02d", i))), i))
		} else {
			late.Ops = append(late.Ops, fmt.Sprintf("wput %s %s %d", lib.Hex([]byte(fmt.Sprintf("key-%02d", i))), lib.Hex([]byte(fmt.Sprintf("value-%02d", i))), i))
		}
	}
	late.Ops = append(late.Ops, "wrotl", "wtrunc 8", "wput "+lib.Hex([]byte("later-09"))+" "+lib.Hex([]byte("later-value-09"))+" 9", "wcut")
	for i := 10; i <= 14; i++ {
		late.Ops = append(late.Ops, fmt.Sprintf("wput %s %s %d", lib.Hex([]byte(fmt.Sprintf("later-%02d", i))), lib.Hex([]byte(fmt.Sprintf("later-value-%02d", i))), i))
	}
	late.Ops = append(late.Ops, "wsavel", "wread 0", "wread 3", "wread 8", "wfile", "wstate")
	cs = append(cs, late)
	return cs
}

// absent keys that the bloom filter of the table {m000 … m(n-1)} accepts (computed offline with bloom.Filter)
var c17Witnesses = []struct {
	n    int
	keys []string
}{
	{300, []string{"a2336339", "a3639891", "a9245173", "z2084259", "z3942955", "m150.589247", "m150.7354320"}},
}

func propC17() *lib.Prop {
	return &lib.Prop{
		ID:   "C17",
		Corr: "Model/Sst.lean+Model/Wal.lean ↔ dkv/sst (TableWriter.Write/WriteRun, Table.Get/ScanPrefix/Document, SearchIndex, footer), dkv/bloom, dkv/fields, dkv/storage cursor, dkv/wal Writer/Reader",
		Rule: "cases = one table (0–400 sorted entries around multiples of the index spacing; lookups of present keys, byte neighbours, before-first, after-last; prefix scans; fresh and JSON-reopened), one WriteRun (targets 1–512 B, entries straddling target and 1.5×target; statement of the run theorems evaluated on the real tables) or one WAL history (put/delete/cut/truncate/rotate/save/read); non-trivial = table with more than one index block, run split into ≥ 2 tables, or WAL history with truncate and rotate",
		NumCases: func(tier string) int {
			if tier == "thorough" {
				return 6000
			}
			return 500
		},
		Fixed: c17Fixed,
		Gen: func(r *lib.Rng, tier string, i int) lib.Case {
			switch i % 20 {
			case 0, 1, 2, 3, 4, 5, 6:
				return c17GenTable(r, tier)
			case 7, 8, 9, 10, 11:
				return c17GenRun(r, tier)
			case 12, 13, 14, 15:
				return c17GenWal(r, tier)
			case 16, 17:
				return c17GenWalHex(r)
			default:
				return c17GenBigTable(r, tier)
			}
		},
		Impl: c17Impl,
		Extra: func() map[string]any {
			return map[string]any{
				"absent_gets_past_saturated_filter": c17PastBloom.Load(),
				"absent_gets_past_real_filter":      c17RealFP.Load(),
			}
		},
		Nontrivial: func(c lib.Case, impl []string) bool {
			for _, t := range c.Tags {
				if t == "multi-index" || t == "trunc+rotate" {
					return true
				}
			}
			for i, op := range c.Ops {
				if op == "runinfo" && i < len(impl) && !strings.HasPrefix(impl[i], "n=1 ") && !strings.HasPrefix(impl[i], "n=0") {
					return true
				}
			}
			return false
		},
		MObs: func(op string) bool {
			f := strings.Fields(op)
			if len(f) == 0 {
				return false
			}
			switch f[0] {
			case "info", "runinfo", "wfile", "wstate", "wput", "wdel", "corrupt", "cget", "cscan", "saturate", "docjson":
				return true
			}
			return false
		},
	}
}
