package main

import (
	"context"
	"encoding/hex"
	"fmt"
	"io"
	"log/slog"
	"strconv"
	"strings"
	"sync"
	"sync/atomic"
	"time"

	"google.golang.org/protobuf/types/known/timestamppb"
	"reduction.dev/reduction-protocol/handlerpb"
	"reduction.dev/reduction-protocol/jobconfigpb"
	"reduction.dev/reduction/batching"
	"reduction.dev/reduction/connectors"
	"reduction.dev/reduction/proto"
	"reduction.dev/reduction/proto/jobpb"
	"reduction.dev/reduction/proto/snapshotpb"
	"reduction.dev/reduction/proto/workerpb"
	"reduction.dev/reduction/util/verifhook"
	"reduction.dev/reduction/workers/sourcerunner"
	"verif/harness/lib"
)

func init() { register("C04", propC04) }

// ---------------------------------------------------------------------------------------------
// environment of the real SourceRunner: scripted reader, gated KeyEventBatch, recording operators, timers

// c04Timers is the clocks.Timer handed to every EventBatcher of the runner (the key-by batcher and one per
// operator share the params struct). Every callback ever set can be fired once, at any later time, also after
// Stop: time.AfterFunc callbacks that raced with Stop deliver stale tokens, which the code must tolerate.
type c04Timers struct {
	mu    sync.Mutex
	cbs   []func()
	fired []bool
}

func (t *c04Timers) Set(d time.Duration, do func()) {
	t.mu.Lock()
	defer t.mu.Unlock()
	t.cbs = append(t.cbs, do)
	t.fired = append(t.fired, false)
}
func (t *c04Timers) Stop() {}

// fire runs the j-th not yet fired callback (all of them for j < 0).
func (t *c04Timers) fire(j int) int {
	t.mu.Lock()
	var run []func()
	var live []int
	for i := range t.cbs {
		if !t.fired[i] {
			live = append(live, i)
		}
	}
	if len(live) > 0 {
		if j < 0 {
			for _, i := range live {
				t.fired[i] = true
				run = append(run, t.cbs[i])
			}
		} else {
			i := live[j%len(live)]
			t.fired[i] = true
			run = append(run, t.cbs[i])
		}
	}
	t.mu.Unlock()
	for _, f := range run {
		go f() // blocks until the batcher's goroutine receives the token
	}
	return len(run)
}

// c04Log is the linearised record of what the real runner did (in the order the goroutines got here); the Lean driver
// replays it through the model's transition system.
type c04Log struct {
	mu   sync.Mutex
	toks []string
}

func (l *c04Log) add(tok string) {
	l.mu.Lock()
	l.toks = append(l.toks, tok)
	l.mu.Unlock()
}

func (l *c04Log) take() string {
	l.mu.Lock()
	defer l.mu.Unlock()
	if len(l.toks) == 0 {
		return "-"
	}
	s := strings.Join(l.toks, " ")
	l.toks = nil
	return s
}

type c04Item struct {
	recs      [][]byte
	barrier   uint64
	isBar     bool
	isWm      bool // a watermark tick: fired through the runner's tick channel when the reader reaches this item
	thenAwait bool // after handing out recs, hand out empty reads until Checkpoint() has been called
}

type c04Reader struct {
	connectors.UnimplementedSourceReader
	mu       sync.Mutex
	cond     *sync.Cond
	queue    []c04Item
	awaiting bool // a barrier was requested and Checkpoint() has not been called yet
	waiting  bool // the read loop is blocked in ReadEvents with nothing queued
	closed   bool
	startCkp func(id uint64)
	log      *c04Log
	reqIDs   []uint64 // checkpoint requests issued and not yet snapshotted, in order
	tick     func() // delivers one watermark tick to the runner's event loop (blocks until the loop takes it)
	returned int   // the reader's cursor: records handed out by ReadEvents so far
	ckpts    []int // cursor at every Checkpoint() call, in order
}

func (r *c04Reader) AssignSplits(splits []*workerpb.SourceSplit) error { return nil }

func (r *c04Reader) Checkpoint() [][]byte {
	r.mu.Lock()
	defer r.mu.Unlock()
	r.awaiting = false
	r.ckpts = append(r.ckpts, r.returned)
	if len(r.reqIDs) > 0 {
		r.log.add(fmt.Sprintf("K:%d", r.reqIDs[0]))
		r.reqIDs = r.reqIDs[1:]
	}
	return nil
}

func (r *c04Reader) request(id uint64) {
	r.mu.Lock()
	r.reqIDs = append(r.reqIDs, id)
	r.mu.Unlock()
}

func (r *c04Reader) ReadEvents() ([][]byte, error) {
	r.mu.Lock()
	for {
		if r.closed {
			r.mu.Unlock()
			return nil, connectors.ErrEndOfInput
		}
		if r.awaiting {
			// the barrier is enqueued; hand back empty reads until the loop has picked it up, so that its place in
			// the read order is exactly "after everything returned so far"
			r.mu.Unlock()
			time.Sleep(20 * time.Microsecond)
			return nil, nil
		}
		if len(r.queue) > 0 {
			it := r.queue[0]
			r.queue = r.queue[1:]
			if it.isWm {
				// hand back empty reads until the loop's select has taken the tick, so that its place in the read order is
				// exactly "after everything returned so far"
				r.awaiting = true
				r.mu.Unlock()
				go func() {
					r.tick()
					r.mu.Lock()
					r.awaiting = false
					r.mu.Unlock()
					r.cond.Broadcast()
				}()
				return nil, nil
			}
			if it.isBar {
				r.awaiting = true
				r.reqIDs = append(r.reqIDs, it.barrier)
				r.mu.Unlock()
				r.startCkp(it.barrier)
				return nil, nil
			}
			r.returned += len(it.recs)
			if len(it.recs) > 0 {
				r.log.add(fmt.Sprintf("R:%d", len(it.recs)))
			}
			if it.thenAwait {
				r.awaiting = true // a checkpoint request is already on its way: nothing more until Checkpoint()
			}
			r.mu.Unlock()
			return it.recs, nil
		}
		r.waiting = true
		r.cond.Wait()
		r.waiting = false
	}
}

func (r *c04Reader) push(it c04Item) {
	r.mu.Lock()
	r.queue = append(r.queue, it)
	r.mu.Unlock()
	r.cond.Broadcast()
}

func (r *c04Reader) drained() bool {
	r.mu.Lock()
	defer r.mu.Unlock()
	return len(r.queue) == 0 && !r.awaiting && r.waiting
}

func (r *c04Reader) setAwaiting() {
	r.mu.Lock()
	r.awaiting = true
	r.mu.Unlock()
	r.cond.Broadcast()
}

func (r *c04Reader) cursor() int {
	r.mu.Lock()
	defer r.mu.Unlock()
	return r.returned
}

func (r *c04Reader) checkpoints() []int {
	r.mu.Lock()
	defer r.mu.Unlock()
	return append([]int(nil), r.ckpts...)
}

func (r *c04Reader) close() {
	r.mu.Lock()
	r.closed = true
	r.mu.Unlock()
	r.cond.Broadcast()
}

type c04Fetch struct{ rel chan struct{} }

type c04Handler struct {
	mu      sync.Mutex
	pending []*c04Fetch
	free    atomic.Bool
}

func (h *c04Handler) ProcessEventBatch(ctx context.Context, req *handlerpb.ProcessEventBatchRequest) (*handlerpb.ProcessEventBatchResponse, error) {
	return &handlerpb.ProcessEventBatchResponse{}, nil
}

// KeyEventBatch: record "id:keyhex:cnt" -> cnt keyed events (key, value "id.j"); returns when the harness says so.
func (h *c04Handler) KeyEventBatch(ctx context.Context, events [][]byte) ([][]*handlerpb.KeyedEvent, error) {
	if !h.free.Load() {
		f := &c04Fetch{rel: make(chan struct{})}
		h.mu.Lock()
		h.pending = append(h.pending, f)
		h.mu.Unlock()
		if h.free.Load() {
			h.releaseAll()
		}
		select {
		case <-f.rel:
		case <-ctx.Done():
		}
	}
	out := make([][]*handlerpb.KeyedEvent, len(events))
	for i, e := range events {
		id, key, cnt := c04ParseRec(string(e))
		for j := 0; j < cnt; j++ {
			out[i] = append(out[i], &handlerpb.KeyedEvent{Key: key, Timestamp: timestamppb.New(time.Unix(int64(id), 0)), Value: []byte(fmt.Sprintf("%d.%d", id, j))})
		}
	}
	return out, nil
}

func (h *c04Handler) release(k int) {
	h.mu.Lock()
	defer h.mu.Unlock()
	if len(h.pending) == 0 {
		return
	}
	k %= len(h.pending)
	close(h.pending[k].rel)
	h.pending = append(h.pending[:k], h.pending[k+1:]...)
}

func (h *c04Handler) releaseAll() {
	h.mu.Lock()
	defer h.mu.Unlock()
	for _, f := range h.pending {
		close(f.rel)
	}
	h.pending = nil
}

func c04ParseRec(s string) (id int, key []byte, cnt int) {
	f := strings.Split(s, ":")
	if len(f) != 3 {
		return 0, nil, 0
	}
	id, _ = strconv.Atoi(f[0])
	if f[1] != "-" {
		key, _ = hex.DecodeString(f[1])
	}
	cnt, _ = strconv.Atoi(f[2])
	return
}

type c04Op struct {
	proto.UnimplementedOperator
	log    *c04Log
	idx    int
	mu     sync.Mutex
	cond   *sync.Cond
	held   bool
	free   *atomic.Bool
	got    []string
	keyed  int
	bars   int
	wms    int
	empty  int
	active int32
	overl  *atomic.Bool
}

func (o *c04Op) ID() string   { return fmt.Sprintf("op%d", o.idx) }
func (o *c04Op) Host() string { return "h" }
func c04EvText(ev *workerpb.Event) string {
	switch e := ev.Event.(type) {
	case *workerpb.Event_KeyedEvent:
		return string(e.KeyedEvent.Value)
	case *workerpb.Event_CheckpointBarrier:
		return fmt.Sprintf("b%d", e.CheckpointBarrier.CheckpointId)
	case *workerpb.Event_Watermark:
		return "w"
	}
	return "sc"
}

func (o *c04Op) HandleEventBatch(ctx context.Context, batch []*workerpb.Event) error {
	if atomic.AddInt32(&o.active, 1) > 1 {
		o.overl.Store(true) // two concurrent HandleEventBatch calls on one operator: the sender goroutine is not serialising
	}
	defer atomic.AddInt32(&o.active, -1)
	txt := make([]string, len(batch))
	for i, ev := range batch {
		txt[i] = c04EvText(ev)
	}
	if len(txt) == 0 {
		txt = []string{"-"}
	}
	o.log.add(fmt.Sprintf("D:%d:%s", o.idx, strings.Join(txt, ",")))
	defer o.log.add(fmt.Sprintf("X:%d", o.idx))
	o.mu.Lock()
	defer o.mu.Unlock()
	for o.held && !o.free.Load() {
		o.cond.Wait()
	}
	if len(batch) == 0 {
		o.empty++
	}
	for _, ev := range batch {
		switch e := ev.Event.(type) {
		case *workerpb.Event_KeyedEvent:
			o.got = append(o.got, string(e.KeyedEvent.Value))
			o.keyed++
		case *workerpb.Event_CheckpointBarrier:
			o.got = append(o.got, fmt.Sprintf("b%d", e.CheckpointBarrier.CheckpointId))
			o.bars++
		case *workerpb.Event_Watermark:
			o.got = append(o.got, "w") // ticks are fired by the harness (the 200 ms ticker is replaced), so they have a place
			o.wms++
		case *workerpb.Event_SourceComplete:
			o.got = append(o.got, "sc")
		}
	}
	return nil
}

func (o *c04Op) gate(held bool) {
	o.mu.Lock()
	o.held = held
	o.mu.Unlock()
	o.cond.Broadcast()
}

type c04Job struct{ proto.UnimplementedJob }

func (c04Job) RegisterSourceRunner(context.Context, *jobpb.NodeIdentity) error   { return nil }
func (c04Job) DeregisterSourceRunner(context.Context, *jobpb.NodeIdentity) error { return nil }
func (c04Job) OnSourceRunnerCheckpointComplete(context.Context, *jobpb.SourceRunnerCheckpointCompleteRequest) error {
	return nil
}
func (c04Job) NotifySplitsFinished(context.Context, string, []string) error              { return nil }
func (c04Job) OperatorCheckpointComplete(context.Context, *snapshotpb.OperatorCheckpoint) error { return nil }

// hook parking: `park <label>` makes the next goroutine arriving at that hook point wait for `rel <label>`.
type c04Hooks struct {
	mu     sync.Mutex
	next   map[string]bool
	parked map[string][]chan struct{}
	free   bool
}

var c04Labels = map[string]string{"enter": "rf.flush.enter", "mid": "rf.flush.mid", "bflush": "batcher.flush"}

func (h *c04Hooks) at(label string, payload []any) {
	h.mu.Lock()
	if h.free || !h.next[label] {
		h.mu.Unlock()
		return
	}
	h.next[label] = false
	ch := make(chan struct{})
	h.parked[label] = append(h.parked[label], ch)
	h.mu.Unlock()
	<-ch
}

func (h *c04Hooks) release(label string) {
	h.mu.Lock()
	defer h.mu.Unlock()
	for _, ch := range h.parked[label] {
		close(ch)
	}
	h.parked[label] = nil
	h.next[label] = false
}

func (h *c04Hooks) releaseAll() {
	h.mu.Lock()
	h.free = true
	h.mu.Unlock()
	for _, l := range c04Labels {
		h.release(l)
	}
}

var c04Quiet sync.Once

// c04Timeouts counts `end` steps that did not complete; after a few of them the remaining cases only wait briefly
// (a broken delivery path would otherwise cost the full deadline in every case).
var c04Timeouts atomic.Int32

func c04Impl(c lib.Case) []string {
	c04Quiet.Do(func() { slog.SetDefault(slog.New(slog.NewTextHandler(io.Discard, nil))) })
	c20HookMu.Lock() // one owner of the global hook handler at a time
	defer c20HookMu.Unlock()
	h := strings.Fields(c.Header)
	out := make([]string, 0, len(c.Ops))
	mustHit := len(h) == 7 && h[6] == "musthit"
	window := 50 * time.Millisecond // how long to wait for the loop to be where a timing op wants it
	if mustHit {
		window = 3 * time.Second
	}
	if len(h) != 6 && !mustHit {
		for range c.Ops {
			out = append(out, "bad-header")
		}
		return out
	}
	atoi := func(s string) int { n, _ := strconv.Atoi(s); return n }
	nOps, kgc, maxSize, delay := atoi(h[2]), atoi(h[3]), atoi(h[4]), atoi(h[5]) != 0

	ctx, cancel := context.WithCancel(context.Background())
	defer cancel()
	var free atomic.Bool
	var overlap atomic.Bool
	evlog := &c04Log{}
	tm := &c04Timers{}
	hooks := &c04Hooks{next: map[string]bool{}, parked: map[string][]chan struct{}{}}
	verifhook.Set(hooks.at)
	defer verifhook.Set(nil)
	handler := &c04Handler{}
	ops := make([]*c04Op, nOps)
	for i := range ops {
		ops[i] = &c04Op{idx: i, free: &free, overl: &overlap, log: evlog}
		ops[i].cond = sync.NewCond(&ops[i].mu)
	}
	reader := &c04Reader{log: evlog}
	reader.cond = sync.NewCond(&reader.mu)
	var d time.Duration
	if delay {
		d = time.Hour
	}
	sr := sourcerunner.New(sourcerunner.NewParams{
		Host:        "h",
		UserHandler: handler,
		Job:         c04Job{},
		OperatorFactory: func(senderID string, node *jobpb.NodeIdentity) proto.Operator {
			i, _ := strconv.Atoi(strings.TrimPrefix(node.Id, "op"))
			return ops[i]
		},
		SourceReaderFactory: func(*jobconfigpb.Source) connectors.SourceReader { return reader },
		EventBatching:       batching.EventBatcherParams{MaxDelay: d, MaxSize: maxSize, Timer: tm},
	})
	reader.startCkp = func(id uint64) { sr.HandleStartCheckpoint(ctx, id) }
	startDone := make(chan struct{})
	go func() { defer close(startDone); sr.Start(ctx) }()
	nodes := make([]*jobpb.NodeIdentity, nOps)
	for i := range nodes {
		nodes[i] = &jobpb.NodeIdentity{Id: fmt.Sprintf("op%d", i), Host: "h"}
	}
	if err := sr.HandleDeploy(ctx, &workerpb.DeploySourceRunnerRequest{Operators: nodes, KeyGroupCount: int32(kgc), Sources: []*jobconfigpb.Source{{}}}); err != nil {
		panic(err)
	}
	// the runner's 200 ms watermark ticker is replaced by a channel the harness fires (verif-tagged accessor)
	tickCh := make(chan time.Time)
	sr.VerifSetWatermarkTicks(tickCh)
	reader.tick = func() {
		// T: the tick is due (from here on the reader hands out nothing until the loop has taken it, so its place in the read
		// order is fixed); W: the loop's select has taken it. W is logged by this goroutine and may come after events the
		// loop and the router produce once they have the tick.
		evlog.add("T")
		select {
		case tickCh <- time.Now():
			evlog.add("W") // the loop's select has taken the tick
		case <-ctx.Done():
		}
	}
	if err := sr.HandleAssignSplits([]*workerpb.SourceSplit{{SplitId: "s0", SourceId: "src"}}); err != nil {
		panic(err)
	}
	defer func() {
		free.Store(true)
		handler.free.Store(true)
		handler.releaseAll()
		hooks.releaseAll()
		for _, o := range ops {
			o.gate(false)
		}
		reader.close()
		cancel()
		select {
		case <-startDone:
		case <-time.After(2 * time.Second):
		}
	}()

	expKeyed, expBars, expWms := 0, 0, 0
	type recInfo struct{ id, cnt int }
	var recOrder []recInfo // read order, as scripted
	var barIDs []int       // barrier ids in request order
	addRecs := func(rs []string) [][]byte {
		var recs [][]byte
		for _, r := range rs {
			id, _, cnt := c04ParseRec(r)
			expKeyed += cnt
			recOrder = append(recOrder, recInfo{id, cnt})
			recs = append(recs, []byte(r))
		}
		return recs
	}
	waitFor := func(cond func() bool, d time.Duration) bool {
		for t0 := time.Now(); time.Since(t0) < d; time.Sleep(30 * time.Microsecond) {
			if cond() {
				return true
			}
		}
		return cond()
	}
	parkedAt := func(l string) int {
		hooks.mu.Lock()
		defer hooks.mu.Unlock()
		return len(hooks.parked[l])
	}
	// cut check: for every barrier, the records the reader had handed out when Checkpoint() was called are exactly the
	// records whose events the operators were handed before that barrier
	cutCheck := func() string {
		cks := reader.checkpoints()
		var parts []string
		verdict := "ok"
		for i, n := range cks {
			id := -1
			if i < len(barIDs) {
				id = barIDs[i]
			}
			parts = append(parts, fmt.Sprintf("%d:%d", id, n))
			want := map[int]bool{}
			for j := 0; j < n && j < len(recOrder); j++ {
				if recOrder[j].cnt > 0 {
					want[recOrder[j].id] = true
				}
			}
			seen := map[int]bool{}
			for _, o := range ops {
				o.mu.Lock()
				for _, g := range o.got {
					if g == fmt.Sprintf("b%d", id) {
						break
					}
					if g[0] != 'b' && g != "sc" && g != "w" {
						rid, _ := strconv.Atoi(strings.SplitN(g, ".", 2)[0])
						seen[rid] = true
					}
				}
				o.mu.Unlock()
			}
			same := len(seen) == len(want)
			for k := range seen {
				same = same && want[k]
			}
			if !same && verdict == "ok" {
				verdict = fmt.Sprintf("b%d:checkpointed-%d-records-but-%d-delivered-before-it", id, len(want), len(seen))
			}
		}
		ck := "-"
		if len(parts) > 0 {
			ck = strings.Join(parts, ",")
		}
		return "ck=" + ck + " cut=" + verdict
	}
	streams := func() string {
		parts := make([]string, nOps)
		for i, o := range ops {
			o.mu.Lock()
			s := "-"
			if len(o.got) > 0 {
				s = strings.Join(o.got, ",")
			}
			o.mu.Unlock()
			parts[i] = fmt.Sprintf("o%d=%s", i, s)
		}
		return strings.Join(parts, " ")
	}
	for _, op := range c.Ops {
		f := strings.Fields(op)
		res := "-"
		switch {
		case len(f) >= 1 && f[0] == "read":
			reader.push(c04Item{recs: addRecs(f[1:])})
		case len(f) == 2 && f[0] == "barrier":
			expBars++
			barIDs = append(barIDs, atoi(f[1]))
			reader.push(c04Item{isBar: true, barrier: uint64(atoi(f[1]))})
		case len(f) >= 3 && f[0] == "readbar":
			// checkpoint request arrives while this read is being fetched (the loop, or whoever calls ReadEvents, is
			// blocked in the reader): the read is handed out afterwards, then nothing until Checkpoint() has been called.
			// Read order: the records, then the barrier.
			expBars++
			id := atoi(f[1])
			barIDs = append(barIDs, id)
			recs := addRecs(f[2:])
			if waitFor(reader.drained, window) {
				reader.request(uint64(id))
				sr.HandleStartCheckpoint(ctx, uint64(id))
				reader.push(c04Item{recs: recs, thenAwait: true})
				res = "readbar-hit"
			} else { // the loop is held up elsewhere: same read order through the reader-driven barrier
				reader.push(c04Item{recs: recs})
				reader.push(c04Item{isBar: true, barrier: uint64(id)})
				res = "readbar-fallback"
			}
		case len(f) == 1 && f[0] == "wm":
			expWms++
			reader.push(c04Item{isWm: true})
		case len(f) >= 2 && f[0] == "midwm":
			// a watermark tick becomes due while the loop is in the middle of enqueueing this read (parked at rf.flush.mid):
			// the tick is a case of the loop's select, so the watermark comes after all records of the read
			expWms++
			recs := addRecs(f[1:])
			if !waitFor(reader.drained, window) {
				reader.push(c04Item{recs: recs})
				reader.push(c04Item{isWm: true})
				res = "midwm-fallback"
				break
			}
			const mid = "rf.flush.mid"
			before, n0 := reader.cursor(), parkedAt(mid)
			hooks.mu.Lock()
			hooks.next[mid] = true
			hooks.mu.Unlock()
			reader.push(c04Item{recs: recs})
			waitFor(func() bool { return parkedAt(mid) > n0 || (reader.cursor() == before+len(recs) && reader.drained()) }, window)
			res = "midwm-fallback"
			if reader.cursor() == before+len(recs) {
				if parkedAt(mid) > n0 {
					res = "midwm-hit" // the loop (or the timeout flusher, holding flushMu) sits in the flush; the read is not fully enqueued
				}
				reader.setAwaiting()
				go func() {
					reader.tick()
					reader.mu.Lock()
					reader.awaiting = false
					reader.mu.Unlock()
					reader.cond.Broadcast()
				}()
			} else {
				reader.push(c04Item{isWm: true})
			}
			hooks.release(mid)
		case len(f) >= 3 && f[0] == "midbar":
			// checkpoint request arrives while the loop is in the middle of enqueueing this read, held up by a flush of the
			// key-by batcher (parked at rf.flush.mid). Read order: all records of the read, then the barrier.
			expBars++
			id := atoi(f[1])
			barIDs = append(barIDs, id)
			recs := addRecs(f[2:])
			if !waitFor(reader.drained, window) {
				reader.push(c04Item{recs: recs})
				reader.push(c04Item{isBar: true, barrier: uint64(id)})
				res = "midbar-fallback"
				break
			}
			const mid = "rf.flush.mid"
			before, n0 := reader.cursor(), parkedAt(mid)
			hooks.mu.Lock()
			hooks.next[mid] = true
			hooks.mu.Unlock()
			reader.push(c04Item{recs: recs})
			waitFor(func() bool { return parkedAt(mid) > n0 || (reader.cursor() == before+len(recs) && reader.drained()) }, window)
			res = "midbar-fallback"
			if reader.cursor() == before+len(recs) {
				if parkedAt(mid) > n0 {
					res = "midbar-hit"
				}
				reader.setAwaiting()
				reader.request(uint64(id))
				sr.HandleStartCheckpoint(ctx, uint64(id))
			} else {
				reader.push(c04Item{isBar: true, barrier: uint64(id)})
			}
			hooks.release(mid)
		case len(f) == 2 && f[0] == "fire":
			tm.fire(atoi(f[1]))
		case len(f) == 2 && f[0] == "fin":
			handler.release(atoi(f[1]))
		case len(f) == 2 && f[0] == "hold":
			if i := atoi(f[1]); i < nOps {
				ops[i].gate(true)
			}
		case len(f) == 2 && f[0] == "go":
			if i := atoi(f[1]); i < nOps {
				ops[i].gate(false)
			}
		case len(f) == 2 && f[0] == "park":
			if l, ok := c04Labels[f[1]]; ok {
				hooks.mu.Lock()
				hooks.next[l] = true
				hooks.mu.Unlock()
			}
		case len(f) == 2 && f[0] == "rel":
			if l, ok := c04Labels[f[1]]; ok {
				hooks.release(l)
			}
		case len(f) == 2 && f[0] == "await":
			// coverage only: give a goroutine up to 50 ms to reach the hook point it is meant to be parked at
			if l, ok := c04Labels[f[1]]; ok {
				for t0 := time.Now(); time.Since(t0) < window; time.Sleep(50 * time.Microsecond) {
					hooks.mu.Lock()
					n := len(hooks.parked[l])
					armed := hooks.next[l]
					hooks.mu.Unlock()
					if n > 0 || !armed {
						break
					}
				}
			}
		case len(f) == 2 && f[0] == "nap":
			// coverage only: real time for the goroutines to reach their next blocking point
			time.Sleep(time.Duration(min(atoi(f[1]), 20)) * time.Millisecond)
		case len(f) == 1 && f[0] == "free":
			// KeyEventBatch answers immediately from now on
			handler.free.Store(true)
			handler.releaseAll()
		case len(f) == 1 && f[0] == "yield":
			time.Sleep(150 * time.Microsecond)
		case len(f) == 1 && f[0] == "end":
			// stop stirring: release everything, then expire timers until every record and barrier has arrived
			free.Store(true)
			handler.free.Store(true)
			handler.releaseAll()
			hooks.releaseAll()
			for _, o := range ops {
				o.gate(false)
			}
			wait := 8 * time.Second
			if c04Timeouts.Load() >= 2 {
				wait = 300 * time.Millisecond
			}
			deadline := time.Now().Add(wait)
			done := false
			for !done && time.Now().Before(deadline) {
				tm.fire(-1)
				time.Sleep(100 * time.Microsecond)
				k, b, w := 0, 0, 0
				for _, o := range ops {
					o.mu.Lock()
					k += o.keyed
					b += o.bars
					w += o.wms
					o.mu.Unlock()
				}
				done = reader.drained() && k >= expKeyed && b >= expBars*nOps && w >= expWms*nOps
			}
			if done {
				// anything delivered twice would still be on its way: give late duplicates a moment, then read the streams
				for i := 0; i < 3; i++ {
					tm.fire(-1)
					time.Sleep(200 * time.Microsecond)
				}
				res = streams() + " | " + cutCheck() + " replay=ok"
			} else {
				c04Timeouts.Add(1)
				res = "timeout " + streams() + " | " + cutCheck() + " replay=ok"
			}
			if overlap.Load() {
				res = "concurrent-HandleEventBatch " + res
			}
			// the linearised log of what the runner did in this case: replayed by the driver through the model
			res = evlog.take() + " | " + res
		default:
			res = "bad-op"
		}
		out = append(out, res)
	}
	return out
}

// c04BackPressure is the schedule family "slow operator + time-out of the following partial batch": the operator is
// held inside HandleEventBatch for batch N, batch N+1 fills (the router must block in the unbuffered hand-off), one
// more event for the same operator is read, every timer expires, then the operator is released. If the hand-off did
// not block the router, the partial batch N+2 could be handed over before N+1; the choice is a coin flip in the
// operator goroutine's select, hence several rounds per case.
func c04BackPressure(r *lib.Rng, rounds int) lib.Case {
	size := r.Range(2, 3)
	nOps := r.Range(1, 2)
	key := lib.Pick(r, []string{"61", "6b31", "00"})
	c := lib.Case{Header: fmt.Sprintf("M C04 %d 8 %d 1", nOps, size), Tags: []string{"backpressure"}, Ops: []string{"free"}}
	id := 1
	recs := func(n int) string {
		var rs []string
		for ; n > 0; n-- {
			rs = append(rs, fmt.Sprintf("%d:%s:1", id, key))
			id++
		}
		return "read " + strings.Join(rs, " ")
	}
	bar := 1
	for k := 0; k < rounds; k++ {
		for o := 0; o < nOps; o++ {
			c.Ops = append(c.Ops, fmt.Sprintf("hold %d", o))
		}
		c.Ops = append(c.Ops, recs(size), "nap 2", recs(size), "nap 2")
		if r.Chance(1, 3) {
			if r.Bool() {
				c.Ops = append(c.Ops, "wm") // a broadcast in the overtaking partial batch
			} else {
				c.Ops = append(c.Ops, fmt.Sprintf("barrier %d", bar))
				bar++
			}
		} else {
			c.Ops = append(c.Ops, recs(1))
		}
		c.Ops = append(c.Ops, "nap 2", "fire -1", "nap 2", "fire -1", "nap 2")
		for o := 0; o < nOps; o++ {
			c.Ops = append(c.Ops, fmt.Sprintf("go %d", o))
		}
		c.Ops = append(c.Ops, "nap 2", "fire -1", "nap 1")
	}
	c.Ops = append(c.Ops, "end")
	return c
}

// c04Ckpt is the schedule family "checkpoint requests at awkward moments": requests that arrive while a read is being
// fetched (readbar) and while the loop is half-way through enqueueing a multi-record read, held up by a flush of the
// key-by batcher (midbar). The barrier must come after every record the reader had handed out when Checkpoint() ran.
func c04Ckpt(r *lib.Rng, rounds int) lib.Case {
	size := r.Range(2, 3)
	nOps := r.Range(1, 3)
	keys := []string{"61", "62", "6b31", "00"}
	c := lib.Case{Header: fmt.Sprintf("M C04 %d 8 %d 1", nOps, size), Tags: []string{"ckpt"}, Ops: []string{"free"}}
	id, bar := 1, 1
	recs := func(n int) string {
		var rs []string
		for ; n > 0; n-- {
			rs = append(rs, fmt.Sprintf("%d:%s:1", id, lib.Pick(r, keys)))
			id++
		}
		return strings.Join(rs, " ")
	}
	for k := 0; k < rounds; k++ {
		switch r.Intn(6) {
		case 0, 1:
			c.Ops = append(c.Ops, fmt.Sprintf("readbar %d %s", bar, recs(r.Range(1, 3))))
			bar++
		case 2, 3:
			c.Ops = append(c.Ops, fmt.Sprintf("midbar %d %s", bar, recs(size+r.Range(1, 3))))
			bar++
		case 4:
			if r.Bool() {
				c.Ops = append(c.Ops, "read "+recs(r.Range(1, 4)))
			} else {
				c.Ops = append(c.Ops, "midwm "+recs(size+r.Range(1, 3)))
			}
		default:
			c.Ops = append(c.Ops, lib.Pick(r, []string{"fire -1", "wm"}), "nap 1")
		}
	}
	c.Ops = append(c.Ops, "end")
	return c
}

func c04Gen(r *lib.Rng, tier string, i int) lib.Case {
	if i%8 == 3 {
		return c04BackPressure(r, r.Range(4, 8))
	}
	if i%8 == 5 || i%8 == 7 {
		return c04Ckpt(r, r.Range(6, 14))
	}
	nOps := r.Range(1, 3)
	kgc := lib.Pick(r, []int{4, 8, 16, 256})
	maxSize := r.Range(1, 4)
	delay := 1
	if r.Chance(1, 6) {
		maxSize, delay = r.Intn(2), 0 // without a time-out only size-1 batches are ever flushed
	}
	c := lib.Case{Header: fmt.Sprintf("M C04 %d %d %d %d", nOps, kgc, maxSize, delay)}
	n := r.Range(8, 40)
	if tier == "thorough" {
		n = r.Range(8, 90)
	}
	keys := []string{"61", "62", "6b31", "6b32", "757365722d37", "00", "ff01", "-"}
	nk := r.Range(1, len(keys))
	id, bar := 1, 1
	wRead, wFire, wFin, wGate, wPark := r.Range(3, 8), r.Range(1, 5), r.Range(1, 6), r.Range(0, 3), r.Range(0, 3)
	for j := 0; j < n; j++ {
		k := r.Intn(wRead + wFire + wFin + wGate + wPark + 2)
		switch {
		case k < wRead:
			var recs []string
			for m := r.Range(1, 4); m > 0; m-- {
				cnt := 1
				if r.Chance(1, 5) {
					cnt = lib.Pick(r, []int{0, 2, 3})
				}
				recs = append(recs, fmt.Sprintf("%d:%s:%d", id, keys[r.Intn(nk)], cnt))
				id++
			}
			c.Ops = append(c.Ops, "read "+strings.Join(recs, " "))
		case k < wRead+wFire:
			c.Ops = append(c.Ops, fmt.Sprintf("fire %d", r.Intn(6)))
		case k < wRead+wFire+wFin:
			c.Ops = append(c.Ops, fmt.Sprintf("fin %d", r.Intn(4)))
		case k < wRead+wFire+wFin+wGate:
			c.Ops = append(c.Ops, fmt.Sprintf("%s %d", lib.Pick(r, []string{"hold", "go"}), r.Intn(nOps)))
		case k < wRead+wFire+wFin+wGate+wPark:
			l := lib.Pick(r, []string{"enter", "mid", "mid", "bflush"})
			switch r.Intn(4) {
			case 0:
				c.Ops = append(c.Ops, "rel "+l)
			case 1:
				c.Ops = append(c.Ops, "park "+l)
			default:
				// park a flusher on purpose: arm the hook, expire a timer, wait for the arrival
				c.Ops = append(c.Ops, "park "+l, fmt.Sprintf("fire %d", r.Intn(3)), "await "+l)
			}
		case k == wRead+wFire+wFin+wGate+wPark:
			if r.Chance(1, 3) {
				c.Ops = append(c.Ops, "wm")
			} else {
				c.Ops = append(c.Ops, fmt.Sprintf("barrier %d", bar))
				bar++
			}
		default:
			c.Ops = append(c.Ops, "yield")
		}
	}
	c.Ops = append(c.Ops, "end")
	return c
}

func propC04() *lib.Prop {
	return &lib.Prop{
		ID:   "C04",
		Corr: "Model/Runner.lean (Runner.project of the read order; every schedule by C04.per_operator_stream/delivery_complete) ↔ real sourcerunner.SourceRunner + operatorCluster + batchingOperator + ReorderFetcher driven in-process with a scripted SourceReader, gated KeyEventBatch, recording operators with back-pressure, fireable batch timers and verifhook parking",
		Rule: "cases = read order (records with keys from a small set, 0-3 keyed events each, barriers; checkpoint requests also arrive while a read is being fetched and in the middle of enqueueing a multi-record read; for every barrier the reader's cursor at Checkpoint() is compared with what was delivered before the barrier; whether a timing op really hit its window is reported per op as impl:readbar-hit / -fallback etc. in the distribution, and the fixed `musthit` cases fail unless every such op hits) + schedule stirring (timer expiries incl. stale, out-of-order KeyEventBatch completions, operator back-pressure, flushers parked at rf.flush.enter/rf.flush.mid/batcher.flush); 1-3 operators, batch size 0-4; compared: the complete HandleEventBatch stream of every operator; non-trivial = at least 2 keyed events with the same key, a timer expiry and an out-of-order completion or a parked flusher",
		NumCases: func(tier string) int {
			if tier == "thorough" {
				return 2500
			}
			return 400
		},
		Fixed: func(tier string) []lib.Case {
			return []lib.Case{
				// D17 through the runner: time-out flusher parked between Flush and Reserve while the read loop fills the next batch
				{Header: "M C04 2 8 2 1", Tags: []string{"D17"}, Ops: []string{"read 1:61:1", "yield", "park mid", "fire 0", "await mid", "read 2:61:1 3:61:1", "yield", "yield", "yield", "rel mid", "yield", "fin 1", "yield", "fin 0", "barrier 1", "end"}},
				{Header: "M C04 1 4 2 1", Tags: []string{"D17"}, Ops: []string{"read 1:61:1", "yield", "park mid", "fire 0", "await mid", "read 2:62:1 3:61:1", "yield", "yield", "yield", "rel mid", "end"}},
				c04BackPressure(lib.NewRng(41), 8), c04BackPressure(lib.NewRng(42), 8), c04BackPressure(lib.NewRng(43), 8),
				c04Ckpt(lib.NewRng(51), 12), c04Ckpt(lib.NewRng(52), 12),
				// a checkpoint request in the middle of a 4-record read (batch size 2): the barrier belongs after record 4
				{Header: "M C04 1 8 2 1 musthit", Tags: []string{"ckpt", "musthit"}, Ops: []string{"free", "midbar 1 1:61:1 2:61:1 3:61:1 4:61:1", "read 5:61:1", "midwm 6:61:1 7:61:1 8:61:1", "midbar 2 9:61:1 10:61:1 11:61:1", "end"}},
				// requests arriving while a read is being fetched, several in a row
				{Header: "M C04 2 8 2 1 musthit", Tags: []string{"ckpt", "musthit"}, Ops: []string{"free", "readbar 1 1:61:1", "readbar 2 2:62:1 3:61:1", "readbar 3 4:61:1", "readbar 4 5:62:1", "readbar 5 6:61:1 7:61:1", "readbar 6 8:62:1", "end"}},
				{Header: "M C04 2 8 2 1", Tags: []string{"watermark"}, Ops: []string{"free", "read 1:61:1", "wm", "read 2:62:1 3:61:1", "midwm 4:61:1 5:61:1 6:62:1", "read 7:61:1", "wm", "barrier 1", "end"}},
				{Header: "M C04 1 4 1 1", Tags: []string{"basic"}, Ops: []string{"read 1:61:1 2:62:2 3:61:0", "barrier 1", "read 4:61:1", "end"}},
			}
		},
		Gen:      c04Gen,
		Impl:     c04Impl,
		FeedImpl: true,
		Nontrivial: func(c lib.Case, implOut []string) bool {
			fire, stir := false, false
			keys := map[string]int{}
			same := false
			for _, o := range c.Ops {
				f := strings.Fields(o)
				switch f[0] {
				case "fire":
					fire = true
				case "fin", "park":
					stir = true
				case "read", "readbar", "midbar", "midwm":
					recs := f[1:]
					if f[0] == "readbar" || f[0] == "midbar" {
						recs, stir, fire = f[2:], true, true
					}
					for _, r := range recs {
						p := strings.Split(r, ":")
						if len(p) == 3 && p[2] != "0" {
							keys[p[1]]++
							if keys[p[1]] > 1 {
								same = true
							}
						}
					}
				}
			}
			return fire && stir && same
		},
	}
}
