package main

// C15 — the job runs only on a full, live assembly and checkpointing resumes.
//
// Trace validation of the REAL jobs.Job (serial task queue, registry, liveness, asynchronous start) with the REAL
// snapshots.Store inside it and REAL operator.Operator processes (in-flight checkpoint record, HandleDeploy,
// barrier alignment through HandleEvent). Source runners, the source splitter, the clock (observable ticker stop)
// and the storage location are harness fakes injected through the constructor parameters the code already has.
// Every op is one atomic action of the model in Model/JobFsm.lean; the harness waits (bounded) for the job to
// become quiescent after each op, so the recorded sequence is a linearisation.

import (
	"bytes"
	"context"
	"encoding/base64"
	"encoding/binary"
	"fmt"
	"io"
	"iter"
	"log/slog"
	"sort"
	"strconv"
	"strings"
	"sync"
	"time"

	gproto "google.golang.org/protobuf/proto"
	"reduction.dev/reduction-protocol/handlerpb"
	"reduction.dev/reduction-protocol/jobconfigpb"
	"reduction.dev/reduction/clocks"
	"reduction.dev/reduction/config"
	"reduction.dev/reduction/connectors"
	"reduction.dev/reduction/jobs"
	"reduction.dev/reduction/proto"
	"reduction.dev/reduction/proto/jobpb"
	"reduction.dev/reduction/proto/snapshotpb"
	"reduction.dev/reduction/proto/workerpb"
	"reduction.dev/reduction/storage/locations"
	"reduction.dev/reduction/storage/objstore"
	"reduction.dev/reduction/workers/operator"
	"verif/harness/lib"
)

func init() { register("C15", propC15) }

const c15Wait = 5 * time.Second

// ---------------------------------------------------------------- clock with observable ticker stop

type c15Ticker struct {
	fn      func(*clocks.EveryContext)
	stopped bool
}

type c15Clock struct {
	mu      sync.Mutex
	now     time.Time
	tickers []*c15Ticker
	everyCh chan struct{}
}

func (c *c15Clock) Now() time.Time {
	c.mu.Lock()
	defer c.mu.Unlock()
	return c.now
}

func (c *c15Clock) Every(d time.Duration, fn func(*clocks.EveryContext), label string) *clocks.Ticker {
	t := &c15Ticker{fn: fn}
	c.mu.Lock()
	c.tickers = append(c.tickers, t)
	c.mu.Unlock()
	select {
	case c.everyCh <- struct{}{}:
	default:
	}
	return clocks.VerifNewTicker(func() {
		c.mu.Lock()
		t.stopped = true
		c.mu.Unlock()
	}, func() {})
}

func (c *c15Clock) alive() []*c15Ticker {
	c.mu.Lock()
	defer c.mu.Unlock()
	var out []*c15Ticker
	for _, t := range c.tickers {
		if !t.stopped {
			out = append(out, t)
		}
	}
	return out
}

// ---------------------------------------------------------------- fake source + splitter

type c15Source struct{ w *c15World }

func (s c15Source) Validate() error { return nil }
func (s c15Source) NewSourceSplitter(ids []string, hooks connectors.SourceSplitterHooks, errChan chan<- error) connectors.SourceSplitter {
	return &c15Splitter{w: s.w, ids: ids, hooks: hooks}
}
func (s c15Source) NewSourceReader(hooks connectors.SourceReaderHooks) connectors.SourceReader {
	panic("unused")
}
func (s c15Source) ProtoMessage() *jobconfigpb.Source { return &jobconfigpb.Source{} }

type c15Splitter struct {
	connectors.UnimplementedSourceSplitter
	w     *c15World
	ids   []string
	hooks connectors.SourceSplitterHooks
}

func (s *c15Splitter) IsSourceSplitter() {}
func (s *c15Splitter) Start(ckpt *snapshotpb.SourceCheckpoint) error {
	ck := "none"
	if ckpt != nil {
		ck = strconv.FormatUint(ckpt.CheckpointId, 10)
	}
	as := map[string][]*workerpb.SourceSplit{}
	for i, id := range s.ids {
		as[id] = []*workerpb.SourceSplit{{SplitId: strconv.Itoa(i), SourceId: "c15"}}
	}
	s.hooks.AssignSplits(as)
	select {
	case s.w.startCh <- ck:
	default:
	}
	return nil
}
func (s *c15Splitter) Close() error                                { return nil }
func (s *c15Splitter) NotifySplitsFinished(id string, sp []string) {}
func (s *c15Splitter) Checkpoint() []byte                          { return []byte("splitter") }

// ---------------------------------------------------------------- nodes

type c15DeployCall struct {
	kind  byte // 'o' or 's'
	id    int
	opReq *workerpb.DeployOperatorRequest
	srReq *workerpb.DeploySourceRunnerRequest
	resp  chan error
}

func c15ID(i int) string { return "n" + strconv.Itoa(i) }
func c15Num(id string) int {
	n, err := strconv.Atoi(strings.TrimPrefix(id, "n"))
	if err != nil {
		return -1
	}
	return n
}

func (w *c15World) gate(call *c15DeployCall) error {
	select {
	case w.deployCh <- call:
	case <-time.After(4 * c15Wait):
		return fmt.Errorf("harness: deploy gate full")
	}
	select {
	case err := <-call.resp:
		return err
	case <-time.After(6 * c15Wait):
		return fmt.Errorf("harness: deploy never released")
	}
}

// the job's handle on a source runner (fake)
type c15SrHandle struct {
	w  *c15World
	id int
}

func (s *c15SrHandle) Host() string { return "h" }
func (s *c15SrHandle) ID() string   { return c15ID(s.id) }
func (s *c15SrHandle) Deploy(ctx context.Context, req *workerpb.DeploySourceRunnerRequest) error {
	return s.w.gate(&c15DeployCall{kind: 's', id: s.id, srReq: req, resp: make(chan error, 1)})
}
func (s *c15SrHandle) AssignSplits(ctx context.Context, sp []*workerpb.SourceSplit) error {
	s.w.mu.Lock()
	defer s.w.mu.Unlock()
	s.w.assigned = append(s.w.assigned, s.id)
	return nil
}
func (s *c15SrHandle) StartCheckpoint(ctx context.Context, id uint64) error {
	s.w.mu.Lock()
	defer s.w.mu.Unlock()
	s.w.ckStarts = append(s.w.ckStarts, [2]uint64{uint64(s.id), id})
	return nil
}

// the job's handle on an operator process (the process itself is a real operator.Operator)
type c15OpHandle struct {
	proto.UnimplementedOperator
	w  *c15World
	id int
}

func (o *c15OpHandle) Host() string { return "h" }
func (o *c15OpHandle) ID() string   { return c15ID(o.id) }
func (o *c15OpHandle) Deploy(ctx context.Context, req *workerpb.DeployOperatorRequest) error {
	return o.w.gate(&c15DeployCall{kind: 'o', id: o.id, opReq: req, resp: make(chan error, 1)})
}
func (o *c15OpHandle) UpdateRetainedCheckpoints(ctx context.Context, ids []uint64) error { return nil }

// what an operator process sees of the job
type c15JobForOp struct {
	proto.NoopJob
	w *c15World
}

func (j c15JobForOp) RegisterOperator(context.Context, *jobpb.NodeIdentity) error     { return nil }
func (j c15JobForOp) RegisterSourceRunner(context.Context, *jobpb.NodeIdentity) error { return nil }
func (j c15JobForOp) NotifySplitsFinished(context.Context, string, []string) error    { return nil }
func (j c15JobForOp) OperatorCheckpointComplete(ctx context.Context, req *snapshotpb.OperatorCheckpoint) error {
	res := j.w.storeCall(func() error { return j.w.job.HandleOperatorCheckpointComplete(ctx, req) })
	j.w.lastOpAck = res
	j.w.opAcked = true
	if res == "ok" || strings.HasPrefix(res, "ok ") {
		return nil
	}
	return fmt.Errorf("%s", res)
}

type c15Handler struct{}

func (c15Handler) ProcessEventBatch(ctx context.Context, req *handlerpb.ProcessEventBatchRequest) (*handlerpb.ProcessEventBatchResponse, error) {
	return &handlerpb.ProcessEventBatchResponse{}, nil
}
func (c15Handler) KeyEventBatch(ctx context.Context, events [][]byte) ([][]*handlerpb.KeyedEvent, error) {
	return nil, nil
}

type c15Sink struct{}

func (c15Sink) Write([]byte) error { return nil }

// ---------------------------------------------------------------- world

type c15World struct {
	w, d      int
	job       *jobs.Job
	clk       *c15Clock
	ops       map[int]*operator.Operator
	deployed  map[int]bool
	deployCh  chan *c15DeployCall
	startCh   chan string
	batch     []*c15DeployCall
	mu        sync.Mutex
	assigned  []int
	ckStarts  [][2]uint64
	lastOpAck string
	opAcked   bool
}

// c15Loc serialises access to the in-memory storage location (the store writes and removes snapshot files from
// background goroutines; the repository's in-memory S3 double has no lock of its own).
type c15Loc struct {
	mu  sync.Mutex
	loc locations.StorageLocation
}

func (l *c15Loc) Write(path string, data io.Reader) (string, error) {
	l.mu.Lock()
	defer l.mu.Unlock()
	return l.loc.Write(path, data)
}
func (l *c15Loc) Read(path string) ([]byte, error) {
	l.mu.Lock()
	defer l.mu.Unlock()
	return l.loc.Read(path)
}
func (l *c15Loc) List() iter.Seq2[string, error] {
	l.mu.Lock()
	defer l.mu.Unlock()
	type ent struct {
		p string
		e error
	}
	var all []ent
	for p, e := range l.loc.List() {
		all = append(all, ent{p, e})
	}
	return func(yield func(string, error) bool) {
		for _, x := range all {
			if !yield(x.p, x.e) {
				return
			}
		}
	}
}
func (l *c15Loc) URI(path string) (string, error) {
	l.mu.Lock()
	defer l.mu.Unlock()
	return l.loc.URI(path)
}
func (l *c15Loc) Copy(src string, dst string) error {
	l.mu.Lock()
	defer l.mu.Unlock()
	return l.loc.Copy(src, dst)
}
func (l *c15Loc) Remove(paths ...string) error {
	l.mu.Lock()
	defer l.mu.Unlock()
	return l.loc.Remove(paths...)
}

type c15Discard struct{}

func (c15Discard) Write(p []byte) (int, error) { return len(p), nil }

func newC15World(w, d, c0 int) (*c15World, error) {
	mem, err := locations.NewS3Location(objstore.NewMemoryS3Service(), "s3://bucket/job")
	if err != nil {
		return nil, err
	}
	loc := &c15Loc{loc: mem}
	if c0 > 0 {
		data, err := gproto.Marshal(&snapshotpb.JobCheckpoint{Id: uint64(c0),
			SourceCheckpoints: []*snapshotpb.SourceCheckpoint{{CheckpointId: uint64(c0)}},
			OperatorCheckpoints: []*snapshotpb.OperatorCheckpoint{{CheckpointId: uint64(c0), OperatorId: "old", DkvFileUri: "old",
				KeyGroupRange: &snapshotpb.KeyGroupRange{Start: 0, End: 8}}}})
		if err != nil {
			return nil, err
		}
		seg := make([]byte, 8)
		binary.BigEndian.PutUint64(seg, ^uint64(c0)) // the store's file naming: MaxUint64 - id, big endian, base64url
		if _, err := loc.Write("checkpoints/job-"+base64.RawURLEncoding.EncodeToString(seg)+".snapshot", bytes.NewBuffer(data)); err != nil {
			return nil, err
		}
	}
	world := &c15World{w: w, d: d, ops: map[int]*operator.Operator{}, deployed: map[int]bool{},
		deployCh: make(chan *c15DeployCall, 64), startCh: make(chan string, 4),
		clk: &c15Clock{now: time.Unix(1000, 0), everyCh: make(chan struct{}, 4)}}
	quiet := slog.New(slog.NewTextHandler(c15Discard{}, nil))
	slog.SetDefault(quiet) // the store and the operators log through the default logger
	job, err := jobs.New(&jobs.NewParams{
		JobConfig:         &config.Config{WorkerCount: w, KeyGroupCount: 8, WorkingStorageLocation: "memory:///c15", Sources: []connectors.SourceConfig{c15Source{world}}},
		Clock:             world.clk,
		HeartbeatDeadline: time.Duration(d) * time.Second,
		Store:             loc,
		Logger:            quiet,
		OperatorFactory: func(senderID string, node *jobpb.NodeIdentity) proto.Operator {
			return &c15OpHandle{w: world, id: c15Num(node.Id)}
		},
		SourceRunnerFactory: func(node *jobpb.NodeIdentity) proto.SourceRunner {
			return &c15SrHandle{w: world, id: c15Num(node.Id)}
		},
		ErrChan: make(chan error, 16),
	})
	if err != nil {
		return nil, err
	}
	world.job = job
	return world, nil
}

func (w *c15World) op(i int) *operator.Operator {
	if o, ok := w.ops[i]; ok {
		return o
	}
	o := operator.NewOperator(operator.NewOperatorParams{ID: c15ID(i), Host: "h", Job: c15JobForOp{w: w}, UserHandler: c15Handler{},
		Clock: clocks.NewFrozenClock(),
		NeighborOperatorFactory: func(senderID string, node *jobpb.NodeIdentity) proto.Operator {
			return &c15OpHandle{w: w, id: c15Num(node.Id)}
		}})
	o.Logger = slog.New(slog.NewTextHandler(c15Discard{}, nil))
	go func() {
		defer func() { recover() }()
		o.Start(context.Background())
	}()
	w.ops[i] = o
	return o
}

func c15Join(xs []int) string {
	if len(xs) == 0 {
		return "-"
	}
	ys := append([]int(nil), xs...)
	sort.Ints(ys)
	s := make([]string, len(ys))
	for i, y := range ys {
		s[i] = strconv.Itoa(y)
	}
	return strings.Join(s, ",")
}

func c15Nums(ids []string) []int {
	out := make([]int, len(ids))
	for i, id := range ids {
		out[i] = c15Num(id)
	}
	return out
}

func c15JoinOrdered(ids []string) string {
	if len(ids) == 0 {
		return "-"
	}
	s := make([]string, len(ids))
	for i, id := range ids {
		s[i] = strconv.Itoa(c15Num(id))
	}
	return strings.Join(s, ",")
}

func (w *c15World) sync() bool {
	done := make(chan struct{})
	go func() {
		defer func() { recover() }()
		w.job.VerifSyncC15()
		close(done)
	}()
	select {
	case <-done:
		return true
	case <-time.After(c15Wait):
		return false
	}
}

// collect the Deploy calls of a freshly spawned start goroutine (all members of the job's own assembly)
func (w *c15World) collectBatch() string {
	ao, as := w.job.VerifAssemblyC15()
	want := len(ao) + len(as)
	var calls []*c15DeployCall
	deadline := time.After(c15Wait)
	for len(calls) < want {
		select {
		case c := <-w.deployCh:
			calls = append(calls, c)
		case <-deadline:
			w.batch = calls
			return "timeout-deploy"
		}
	}
	sort.Slice(calls, func(i, j int) bool {
		if calls[i].kind != calls[j].kind {
			return calls[i].kind < calls[j].kind
		}
		return calls[i].id < calls[j].id
	})
	w.batch = calls
	var os, ss []int
	cks := map[uint64]bool{}
	consistent := true
	wantO, wantS := c15JoinOrdered(ao), c15JoinOrdered(as)
	for _, c := range calls {
		if c.kind == 'o' {
			os = append(os, c.id)
			var ids []string
			for _, n := range c.opReq.Operators {
				ids = append(ids, n.Id)
			}
			if c15JoinOrdered(ids) != wantO || c15JoinOrdered(c.opReq.SourceRunnerIds) != wantS {
				consistent = false
			}
			for _, ck := range c.opReq.Checkpoints {
				cks[ck.CheckpointId] = true
			}
		} else {
			ss = append(ss, c.id)
			var ids []string
			for _, n := range c.srReq.Operators {
				ids = append(ids, n.Id)
			}
			if c15JoinOrdered(ids) != wantO {
				consistent = false
			}
		}
	}
	// the request lists are in assembly order; the model's assembly is in registry (ascending id) order
	if c15Join(os) != wantO || c15Join(ss) != wantS {
		consistent = false
	}
	ck := "none"
	if len(cks) > 0 {
		var l []int
		for k := range cks {
			l = append(l, int(k))
		}
		ck = strings.ReplaceAll(c15Join(l), ",", "+")
	}
	s := fmt.Sprintf("deploy o=%s s=%s ck=%s", c15Join(os), c15Join(ss), ck)
	if !consistent {
		s += fmt.Sprintf(" INCONSISTENT(asm o=%s s=%s)", wantO, wantS)
	}
	return s
}

// status line after a task; picks up the deployment of a newly spawned start goroutine
func (w *c15World) settle() string {
	if !w.sync() {
		return "timeout-sync"
	}
	st := w.job.VerifStatusC15()
	if st == "Starting" && w.batch == nil {
		return st + " " + w.collectBatch()
	}
	return st
}

func (w *c15World) release(victim int) {
	for i, c := range w.batch {
		if i == victim {
			c.resp <- fmt.Errorf("node unreachable")
			continue
		}
		if c.kind == 'o' {
			req := gproto.Clone(c.opReq).(*workerpb.DeployOperatorRequest)
			req.Checkpoints = nil // the operator's DKV restore is not part of this property (C06/C08)
			err := w.op(c.id).HandleDeploy(context.Background(), req, c15Sink{})
			if err == nil {
				w.deployed[c.id] = true
			}
			c.resp <- err
		} else {
			c.resp <- nil
		}
	}
	w.batch = nil
}

func (w *c15World) staleReport() string {
	var parts []string
	if _, _, _, ok := w.job.VerifStoreC15().VerifPendingC15(); ok {
		parts = append(parts, "pending")
	}
	ao, _ := w.job.VerifAssemblyC15()
	for _, id := range ao {
		if o, ok := w.ops[c15Num(id)]; ok {
			if _, _, has := o.VerifCheckpointRecordC15(); has {
				parts = append(parts, "rec:"+strconv.Itoa(c15Num(id)))
			}
		}
	}
	if len(parts) == 0 {
		return "none"
	}
	return strings.Join(parts, "+")
}

func (w *c15World) deployOK() string {
	if w.batch == nil {
		return "nostart"
	}
	for len(w.clk.everyCh) > 0 {
		<-w.clk.everyCh
	}
	for len(w.startCh) > 0 {
		<-w.startCh
	}
	w.mu.Lock()
	w.assigned = nil
	w.mu.Unlock()
	w.release(-1)
	var ck string
	select {
	case ck = <-w.startCh:
	case <-time.After(c15Wait):
		return "timeout-start"
	}
	select {
	case <-w.clk.everyCh:
	case <-time.After(c15Wait):
		return "timeout-running"
	}
	if !w.sync() {
		return "timeout-sync"
	}
	w.mu.Lock()
	as := c15Join(w.assigned)
	w.mu.Unlock()
	return fmt.Sprintf("%s start=%s as=%s stale=%s", w.job.VerifStatusC15(), ck, as, w.staleReport())
}

func (w *c15World) deployFail(k int) string {
	if w.batch == nil {
		return "nostart"
	}
	w.release(k % len(w.batch))
	// the failure task is enqueued by the start goroutine: wait until it has run
	deadline := time.Now().Add(c15Wait)
	for time.Now().Before(deadline) {
		if !w.sync() {
			return "timeout-sync"
		}
		st := w.job.VerifStatusC15()
		if st != "Starting" || len(w.deployCh) > 0 {
			return w.settle() // second sync: a status read in the middle of the failure task is not final
		}
		time.Sleep(200 * time.Microsecond)
	}
	return "timeout-fail"
}

func c15ErrClass(err error) string {
	if err == nil {
		return "ok"
	}
	m := err.Error()
	switch {
	case strings.Contains(m, "no pending"):
		return "nopending"
	case strings.Contains(m, "but pending checkpoint is"):
		return "mismatch"
	case strings.Contains(m, "unknown id"):
		return "unknown"
	case strings.Contains(m, "checkpoint ID mismatch"):
		return "mismatch"
	case strings.Contains(m, "not ready"):
		return "notready"
	}
	if len(m) > 60 {
		m = m[:60]
	}
	return "err:" + strings.ReplaceAll(m, " ", "_")
}

// storeCall runs an acknowledgement against the job and reports whether it published a job checkpoint
func (w *c15World) storeCall(f func() error) string {
	st := w.job.VerifStoreC15()
	pid, _, _, had := st.VerifPendingC15()
	err := func() (err error) {
		defer func() {
			if p := recover(); p != nil { // over RPC the server recovers the handler's panic and the caller sees an error
				err = fmt.Errorf("panic_%v", p)
			}
		}()
		return f()
	}()
	res := c15ErrClass(err)
	if err != nil || !had {
		return res
	}
	if _, _, _, still := st.VerifPendingC15(); still {
		return res
	}
	deadline := time.Now().Add(c15Wait)
	for time.Now().Before(deadline) {
		if cur, ok := st.VerifCurrentIDC15(); ok && cur == pid {
			return fmt.Sprintf("%s pub=%d", res, pid)
		}
		time.Sleep(100 * time.Microsecond)
	}
	return res + " timeout-publish"
}

func (w *c15World) tick() string {
	alive := w.clk.alive()
	if len(alive) == 0 {
		return "stopped"
	}
	var outs []string
	for _, t := range alive {
		w.mu.Lock()
		w.ckStarts = nil
		w.mu.Unlock()
		t.fn(&clocks.EveryContext{})
		w.mu.Lock()
		cs := w.ckStarts
		w.mu.Unlock()
		if len(cs) == 0 {
			outs = append(outs, "retry")
			continue
		}
		ids := map[uint64]bool{}
		var srs []int
		for _, c := range cs {
			ids[c[1]] = true
			srs = append(srs, int(c[0]))
		}
		var idl []int
		for k := range ids {
			idl = append(idl, int(k))
		}
		outs = append(outs, fmt.Sprintf("ckpt %s s=%s", strings.ReplaceAll(c15Join(idl), ",", "+"), c15Join(srs)))
	}
	return strings.Join(outs, " | ")
}

func (w *c15World) barrier(i, s int, id uint64) string {
	o := w.op(i)
	if !w.deployed[i] {
		// HandleEvent answers "not ready" before looking at anything else
	} else if rid, waiting, ok := o.VerifCheckpointRecordC15(); ok {
		in := false
		for _, x := range waiting {
			if x == c15ID(s) {
				in = true
			}
		}
		if !in && len(waiting) > 0 {
			return "blocked" // the sender would park in alignSender until the record completes
		}
		if len(waiting) == 0 && rid == id {
			return "wouldpanic" // registerBarrier would close the already closed alignment channel
		}
	}
	w.opAcked = false
	type r struct{ err error }
	ch := make(chan r, 1)
	go func() {
		defer func() {
			if p := recover(); p != nil {
				ch <- r{fmt.Errorf("panic %v", p)}
			}
		}()
		ch <- r{o.HandleEvent(context.Background(), c15ID(s), &workerpb.Event{Event: &workerpb.Event_CheckpointBarrier{CheckpointBarrier: &workerpb.CheckpointBarrier{CheckpointId: id}}})}
	}()
	select {
	case res := <-ch:
		if w.opAcked {
			if res.err == nil {
				if rest := strings.TrimSpace(strings.TrimPrefix(w.lastOpAck, "ok")); rest != "" {
					return "ok acked " + rest
				}
				return "ok acked"
			}
			return "ackerr " + w.lastOpAck
		}
		return c15ErrClass(res.err)
	case <-time.After(c15Wait):
		return "timeout-barrier"
	}
}

func (w *c15World) state() string {
	ro, rs := w.job.VerifRegistryC15()
	ao, as := w.job.VerifAssemblyC15()
	st := w.job.VerifStoreC15()
	pend := "none"
	if id, wo, ws, ok := st.VerifPendingC15(); ok {
		pend = fmt.Sprintf("%d:o%s:s%s", id, c15Join(c15Nums(wo)), c15Join(c15Nums(ws)))
	}
	cur := "none"
	if c, ok := st.VerifCurrentIDC15(); ok {
		cur = strconv.FormatUint(c, 10)
	}
	var recs []string
	var ids []int
	for i := range w.ops {
		ids = append(ids, i)
	}
	sort.Ints(ids)
	for _, i := range ids {
		if id, waiting, ok := w.ops[i].VerifCheckpointRecordC15(); ok {
			recs = append(recs, fmt.Sprintf("%d:%d/%s", i, id, c15Join(c15Nums(waiting))))
		}
	}
	rec := "-"
	if len(recs) > 0 {
		rec = strings.Join(recs, ";")
	}
	tick := 0
	if len(w.clk.alive()) > 0 {
		tick = len(w.clk.alive())
	}
	return fmt.Sprintf("%s reg=o%s:s%s asm=o%s:s%s pend=%s cur=%s tick=%d rec=%s", w.job.VerifStatusC15(),
		c15Join(c15Nums(ro)), c15Join(c15Nums(rs)), c15Join(c15Nums(ao)), c15Join(c15Nums(as)), pend, cur, tick, rec)
}

var (
	c15StatsMu sync.Mutex
	c15Stats   = map[string]int{}
)

// output distribution for the evidence file
func c15Count(op []string, o string) {
	if len(op) == 0 {
		return
	}
	key := op[0] + ":" + strings.Fields(o + " -")[0]
	switch {
	case strings.Contains(o, " deploy "):
		key = op[0] + ":deploy"
	case strings.Contains(o, "pub="):
		key = op[0] + ":published"
	case strings.HasPrefix(o, "ok acked"):
		key = op[0] + ":acked"
	case strings.HasPrefix(o, "ackerr"):
		key = op[0] + ":ackerr"
	case op[0] == "st":
		key = "st"
	}
	c15StatsMu.Lock()
	c15Stats[key]++
	c15StatsMu.Unlock()
}

func c15Header(w, d, c0 int) string { return fmt.Sprintf("M C15 %d %d %d", w, d, c0) }

func c15Impl(c lib.Case) []string {
	f := strings.Fields(c.Header)
	atoi := func(s string) int { n, _ := strconv.Atoi(s); return n }
	if len(f) != 5 {
		return []string{"bad-header"}
	}
	w, err := newC15World(atoi(f[2]), atoi(f[3]), atoi(f[4]))
	if err != nil {
		return []string{"setup-error " + err.Error()}
	}
	out := make([]string, 0, len(c.Ops))
	ctx := context.Background()
	for _, line := range c.Ops {
		a := strings.Fields(line)
		var o string
		switch {
		case len(a) == 3 && a[0] == "reg" && a[1] == "o":
			w.op(atoi(a[2]))
			w.job.HandleRegisterOperator(&jobpb.NodeIdentity{Id: c15ID(atoi(a[2])), Host: "h"})
			o = w.settle()
		case len(a) == 3 && a[0] == "reg" && a[1] == "s":
			w.job.HandleRegisterSourceRunner(&jobpb.NodeIdentity{Id: c15ID(atoi(a[2])), Host: "h"})
			o = w.settle()
		case len(a) == 3 && a[0] == "dereg" && a[1] == "o":
			w.job.HandleDeregisterOperator(&jobpb.NodeIdentity{Id: c15ID(atoi(a[2])), Host: "h"})
			o = w.settle()
		case len(a) == 3 && a[0] == "dereg" && a[1] == "s":
			w.job.HandleDeregisterSourceRunner(&jobpb.NodeIdentity{Id: c15ID(atoi(a[2])), Host: "h"})
			o = w.settle()
		case len(a) == 2 && a[0] == "adv":
			w.clk.mu.Lock()
			w.clk.now = w.clk.now.Add(time.Duration(atoi(a[1])) * time.Second)
			w.clk.mu.Unlock()
			o = "ok"
		case len(a) == 1 && a[0] == "deployok":
			o = w.deployOK()
		case len(a) == 2 && a[0] == "deployfail":
			o = w.deployFail(atoi(a[1]))
		case len(a) == 1 && a[0] == "tick":
			o = w.tick()
		case len(a) == 4 && a[0] == "ack" && a[1] == "s":
			o = w.storeCall(func() error {
				return w.job.HandleSourceRunnerCheckpointComplete(ctx, &jobpb.SourceRunnerCheckpointCompleteRequest{
					CheckpointId: uint64(atoi(a[3])), SourceRunnerId: c15ID(atoi(a[2])), SplitStates: [][]byte{[]byte("s" + a[2])}})
			})
		case len(a) == 4 && a[0] == "ack" && a[1] == "o":
			o = w.storeCall(func() error {
				return w.job.HandleOperatorCheckpointComplete(ctx, &snapshotpb.OperatorCheckpoint{
					CheckpointId: uint64(atoi(a[3])), OperatorId: c15ID(atoi(a[2])), DkvFileUri: "direct",
					KeyGroupRange: &snapshotpb.KeyGroupRange{Start: 0, End: 8}})
			})
		case len(a) == 4 && a[0] == "bar":
			o = w.barrier(atoi(a[1]), atoi(a[2]), uint64(atoi(a[3])))
		case len(a) == 3 && a[0] == "hbx":
			// instance of Props/C15 heartbeat_expiry_exact on the real LivenessTracker: purged ⇔ age > deadline
			d, age := atoi(a[1]), atoi(a[2])
			clk := clocks.NewFrozenClock()
			lt := jobs.NewLivenessTracker(clk, time.Duration(d)*time.Second)
			lt.Heartbeat("x")
			clk.Advance(time.Duration(age) * time.Second)
			purged := len(lt.Purge()) == 1
			if purged == (age > d) {
				o = "ok"
			} else {
				o = fmt.Sprintf("purged=%v age=%d deadline=%d", purged, age, d)
			}
		case len(a) == 1 && a[0] == "st":
			if w.sync() {
				o = w.state()
			} else {
				o = "timeout-sync"
			}
		default:
			o = "bad-op"
		}
		out = append(out, o)
		c15Count(a, o)
	}
	// let a start goroutine that is still parked at the gate finish
	for _, c := range w.batch {
		c.resp <- fmt.Errorf("case over")
	}
	return out
}

var _ io.Writer = c15Discard{}

// ---------------------------------------------------------------- generator

// The generator keeps a rough mirror of the job (status, registry, heartbeats, assembly, checkpoint counter) so that
// it mostly proposes actions that are enabled; the mirror is a sampling heuristic only and is never an oracle.
type c15Gen struct {
	r       *lib.Rng
	w, d    int
	ops     []string
	now     int
	regO    []int
	regS    []int
	hb      map[int]int
	status  string // Init, Paused, Starting, Running
	asmO    []int
	asmS    []int
	ck      int
	pending bool
	acked   map[string]bool
	deploys int
}

func (g *c15Gen) add(s string, a ...any) { g.ops = append(g.ops, fmt.Sprintf(s, a...)) }

func c15Remove(xs []int, x int) []int {
	var out []int
	for _, y := range xs {
		if y != x {
			out = append(out, y)
		}
	}
	return out
}

func c15Add(xs []int, x int) []int {
	for _, y := range xs {
		if y == x {
			return xs
		}
	}
	xs = append(append([]int(nil), xs...), x)
	sort.Ints(xs)
	return xs
}

func c15Has(xs []int, x int) bool {
	for _, y := range xs {
		if y == x {
			return true
		}
	}
	return false
}

func (g *c15Gen) node() int { return g.r.Intn(7) }

func (g *c15Gen) evaluate() {
	for id, t := range g.hb {
		if t+g.d < g.now {
			delete(g.hb, id)
			g.regO = c15Remove(g.regO, id)
			g.regS = c15Remove(g.regS, id)
		}
	}
	switch g.status {
	case "Running":
		ok := true
		for _, i := range g.asmO {
			ok = ok && c15Has(g.regO, i)
		}
		for _, i := range g.asmS {
			ok = ok && c15Has(g.regS, i)
		}
		if !ok {
			g.status = "Paused"
		}
	case "Init", "Paused":
		if len(g.regO) >= g.w && len(g.regS) >= g.w {
			g.asmO = append([]int(nil), g.regO[:g.w]...)
			g.asmS = append([]int(nil), g.regS[:g.w]...)
			g.status = "Starting"
			g.pending = false
		}
	}
}

func (g *c15Gen) reg(kind string, i int) {
	g.hb[i] = g.now
	if kind == "o" {
		g.regO = c15Add(g.regO, i)
	} else {
		g.regS = c15Add(g.regS, i)
	}
	g.add("reg %s %d", kind, i)
	g.evaluate()
}

func (g *c15Gen) dereg(kind string, i int) {
	if kind == "o" {
		g.regO = c15Remove(g.regO, i)
	} else {
		g.regS = c15Remove(g.regS, i)
	}
	g.add("dereg %s %d", kind, i)
	g.evaluate()
}

func (g *c15Gen) deployOK() {
	g.add("deployok")
	if g.status == "Starting" {
		g.status = "Running"
		g.deploys++
		g.evaluate()
	}
}

func (g *c15Gen) deployFail() {
	g.add("deployfail %d", g.r.Intn(6))
	if g.status == "Starting" {
		g.status = "Paused"
		g.evaluate()
	}
}

func (g *c15Gen) tick() {
	g.add("tick")
	if g.status == "Running" && !g.pending {
		g.ck++
		g.pending = true
		g.acked = map[string]bool{}
	}
}

// the messages of one checkpoint round on the current assembly that have not been sent yet
func (g *c15Gen) roundSteps() []string {
	var steps []string
	for _, x := range g.asmS {
		steps = append(steps, fmt.Sprintf("ack s %d %d", x, g.ck))
	}
	for _, i := range g.asmO {
		for _, x := range g.asmS {
			steps = append(steps, fmt.Sprintf("bar %d %d %d", i, x, g.ck))
		}
	}
	var out []string
	for _, st := range steps {
		if !g.acked[st] {
			out = append(out, st)
		}
	}
	return out
}

func (g *c15Gen) sendRound(full bool) {
	steps := g.roundSteps()
	if len(steps) == 0 {
		return
	}
	if g.r.Chance(1, 2) {
		for i := len(steps) - 1; i > 0; i-- {
			j := g.r.Intn(i + 1)
			steps[i], steps[j] = steps[j], steps[i]
		}
	}
	n := len(steps)
	if !full {
		n = g.r.Intn(len(steps) + 1)
	}
	for _, st := range steps[:n] {
		g.add("%s", st)
		g.acked[st] = true
	}
	if n == len(steps) {
		g.pending = false // published (if the mirror is right)
	}
}

// a member of the running assembly is lost: deregistration, or silence past the heartbeat deadline
func (g *c15Gen) fault() {
	if len(g.asmO) == 0 {
		return
	}
	kind := lib.Pick(g.r, []string{"o", "s"})
	victim := lib.Pick(g.r, g.asmO)
	if kind == "s" {
		victim = lib.Pick(g.r, g.asmS)
	}
	if g.r.Chance(1, 2) {
		g.dereg(kind, victim)
		return
	}
	// everybody else heartbeats just before the victim's deadline passes; the last heartbeat evaluates after it
	g.now += g.d + 1
	g.add("adv %d", g.d+1)
	for _, i := range append([]int(nil), g.regO...) {
		if !(kind == "o" && i == victim) && g.r.Chance(5, 6) {
			g.reg("o", i)
		}
	}
	for _, i := range append([]int(nil), g.regS...) {
		if !(kind == "s" && i == victim) && g.r.Chance(5, 6) {
			g.reg("s", i)
		}
	}
}

func (g *c15Gen) noise() {
	switch g.r.Intn(9) {
	case 7, 8:
		// a duplicate of a message of the current round (a repeated barrier parks its sender)
		var sent []string
		for st := range g.acked {
			sent = append(sent, st)
		}
		sort.Strings(sent)
		if len(sent) > 0 {
			g.add("%s", lib.Pick(g.r, sent))
		}
	case 0:
		g.add("ack s %d %d", g.node(), g.r.Range(0, g.ck+1))
	case 1:
		g.add("ack o %d %d", g.node(), g.r.Range(0, g.ck+1))
	case 2:
		g.add("bar %d %d %d", g.node(), g.node(), g.r.Range(0, g.ck+1))
	case 3:
		n := g.r.Range(1, 3)
		g.now += n
		g.add("adv %d", n)
	case 4:
		if g.r.Bool() {
			g.reg("o", g.node())
		} else {
			g.reg("s", g.node())
		}
	case 5:
		if g.r.Bool() && len(g.regO) > 0 {
			g.dereg("o", lib.Pick(g.r, g.regO))
		} else if len(g.regS) > 0 {
			g.dereg("s", lib.Pick(g.r, g.regS))
		}
	case 6:
		g.add("st")
	}
}

func c15Gen1(r *lib.Rng, tier string, idx int) lib.Case {
	w := lib.Pick(r, []int{1, 2, 2, 2, 3})
	d := lib.Pick(r, []int{5, 5, 3, 10})
	c0 := lib.Pick(r, []int{0, 0, 0, 4})
	g := &c15Gen{r: r, w: w, d: d, ck: c0, now: 1000, hb: map[int]int{}, status: "Init", acked: map[string]bool{}}
	maxOps := 50
	if tier == "thorough" {
		maxOps = 110
	}
	budget := r.Range(15, maxOps)
	for len(g.ops) < budget {
		if r.Chance(1, 6) {
			g.noise()
			continue
		}
		switch g.status {
		case "Init", "Paused":
			// bring (replacement) nodes in; sometimes a standby more than needed
			if len(g.regO) < g.w || (len(g.regS) >= g.w && r.Chance(1, 2)) {
				i := g.node()
				for tries := 0; c15Has(g.regO, i) && tries < 8; tries++ {
					i = g.node()
				}
				g.reg("o", i)
			} else {
				i := g.node()
				for tries := 0; c15Has(g.regS, i) && tries < 8; tries++ {
					i = g.node()
				}
				g.reg("s", i)
			}
		case "Starting":
			switch {
			case r.Chance(3, 4):
				g.deployOK()
			case r.Chance(1, 2):
				g.deployFail()
			case r.Chance(1, 2):
				g.fault() // a member is lost while the deployment is in flight
			default:
				g.noise()
			}
		case "Running":
			switch r.Intn(8) {
			case 0, 1:
				g.tick()
			case 2, 3, 4:
				if !g.pending {
					g.tick()
				}
				g.sendRound(r.Chance(2, 3))
			case 5, 6:
				if g.pending && r.Chance(1, 2) {
					g.sendRound(false) // the failure strikes while a checkpoint is in flight
				}
				g.fault()
			case 7:
				if r.Bool() { // standby registers
					g.reg("o", g.node())
				} else {
					g.reg("s", g.node())
				}
			}
		}
	}
	g.add("hbx %d %d", d, r.Range(0, 2*d+1))
	g.add("st")
	return lib.Case{Header: c15Header(w, d, c0), Ops: g.ops}
}

func c15Fixed() []lib.Case {
	return []lib.Case{
		// D15 witness: sr 3 dies while checkpoint 1 is pending in the store and half aligned at operator 0;
		// after recovery with sr 4 the next checkpoint must complete.
		{Header: c15Header(2, 5, 0), Tags: []string{"D15"}, Ops: []string{
			"reg o 0", "reg o 1", "reg s 2", "reg s 3", "deployok", "tick", "ack s 2 1", "bar 0 2 1", "st",
			"dereg s 3", "reg s 4", "deployok", "st", "tick", "ack s 2 2", "ack s 4 2",
			"bar 0 2 2", "bar 0 4 2", "bar 1 2 2", "bar 1 4 2", "st"}},
		// plain redeploy (no checkpoint in flight) followed by a checkpoint: the store must still be able to publish
		{Header: c15Header(1, 5, 0), Tags: []string{"D15"}, Ops: []string{
			"reg o 0", "reg s 1", "deployok", "tick", "ack s 1 1", "bar 0 1 1", "dereg s 1", "reg s 2", "deployok",
			"tick", "ack s 2 2", "bar 0 2 2", "st"}},
		// failed deployment, standby present, heartbeat expiry
		{Header: c15Header(2, 5, 4), Ops: []string{
			"reg o 0", "reg o 1", "reg o 2", "reg s 3", "reg s 4", "deployfail 1", "deployok", "tick", "adv 6",
			"reg o 0", "st", "reg o 2", "reg s 3", "reg s 4", "reg o 5", "deployok", "tick", "st",
			"hbx 5 4", "hbx 5 5", "hbx 5 6", "hbx 0 0", "hbx 0 1"}},
	}
}

func propC15() *lib.Prop {
	return &lib.Prop{
		ID:   "C15",
		Corr: "Model/JobFsm.lean ↔ jobs.Job (task queue, registry, liveness, start), snapshots.Store pending snapshot, operator.Operator checkpoint record / HandleDeploy",
		Rule: "cases = action sequences (register/deregister/advance clock/deploy result/tick/acks/barriers) on the real Job with real Store and real Operators; non-trivial = the job was redeployed after having been Running and a job checkpoint was published after that redeploy, or a deployment failed",
		NumCases: func(tier string) int {
			if tier == "thorough" {
				return 12000
			}
			return 500
		},
		Gen:   c15Gen1,
		Impl:  c15Impl,
		Fixed: func(tier string) []lib.Case { return c15Fixed() },
		MObs:  func(op string) bool { return op == "st" },
		Extra: func() map[string]any {
			c15StatsMu.Lock()
			defer c15StatsMu.Unlock()
			m := map[string]any{}
			for k, v := range c15Stats {
				m[k] = v
			}
			return map[string]any{"observations": m}
		},
		Nontrivial: func(c lib.Case, out []string) bool {
			deploys, ran := 0, false
			for i, o := range out {
				if strings.HasPrefix(c.Ops[i], "deployfail") && o != "nostart" {
					return true
				}
				if strings.HasPrefix(o, "Running start=") {
					deploys++
					ran = true
				}
				if ran && deploys >= 2 && strings.Contains(o, "pub=") {
					return true
				}
			}
			return false
		},
	}
}
